// gotrans determinism <repo> <out.v>   (property C19)
//
// Emits coq/Generated/Determinism.v (+ determinism.json) with four tables taken from the non-test,
// non-cli, non-simulation Go code under <repo>/x and <repo>/app:
//
//	fields      every field of every struct declared in a keeper package (x/**/keeper) or named *Keeper,
//	            with the shape of its type (interface / keeper / store key / codec / func / string / scalar /
//	            map / slice / chan / pointer / struct / sync) and whether it is assigned outside a New* constructor
//	pkgvars     every package-level var of the tree with the shape of its type and the functions (other than
//	            init and the initialiser) that assign it, write through it (index, field, append, delete, ++,
//	            method call on map/slice/chan/sync values); also assignments to package vars of other modules
//	map_ranges  every `range` over a map-typed expression with a classification of the loop body
//	nd_sites    time.Now/Since/Until, the local time zone (time.Unix not converted at once, time.Local, t.Local()), math/rand, crypto/rand, unsafe, go statements, select, os.Getenv,
//	            %p formatting
//
// Types come from go/types. The tree's own packages are type-checked from source; the standard library
// is type-checked from GOROOT source; packages of other modules that the tree imports directly are
// type-checked from the module cache with THEIR third-party imports replaced by empty stubs (depth 1).
// Type errors are ignored (the checker still records every type it can determine). Where the type of a
// ranged expression cannot be determined, a syntactic fallback is used (declared with make(map…)/map
// literal/var … map in the same function, struct field or function result declared with a map type anywhere
// in the tree) and the row says so ("untyped").
//
// What this cannot see (named in the evidence as trusted omissions): state hidden behind an interface-
// typed field; mutation of a package variable through a method call on a pointer/struct value or through
// an alias; maps reached through reflection; the call graph is class-hierarchy-by-name for interface
// calls and a name rule (Set*/Delete*/Send*/Mint*/Burn*/…) for methods of other modules.
//
// Output is deterministic: sorted, no line numbers, no absolute paths.
package main

import (
	"encoding/json"
	"fmt"
	"go/ast"
	"go/build"
	"go/importer"
	"go/parser"
	"go/token"
	"go/types"
	"os"
	"path/filepath"
	"regexp"
	"sort"
	"strings"
)

// ---------------------------------------------------------------- loading

type detPkg struct {
	path   string
	dir    string
	inRepo bool
	files  []*ast.File
	names  []string // file names relative to repo (inRepo only), parallel to files
	tp     *types.Package
	info   *types.Info
}

type detLoader struct {
	fset     *token.FileSet
	repo     string
	mod      string
	modcache string
	mods     [][2]string // (module path, dir), longest first
	pkgs     map[string]*detPkg
	busy     map[string]bool
	std      types.ImporterFrom
	stubs    map[string]*types.Package
	stdFail  map[string]bool
}

type detImp struct {
	l     *detLoader
	depth int
}

func (i detImp) Import(path string) (*types.Package, error) { return i.ImportFrom(path, "", 0) }

func (i detImp) ImportFrom(path, dir string, mode types.ImportMode) (*types.Package, error) {
	l := i.l
	if path == "unsafe" {
		return types.Unsafe, nil
	}
	if path == "C" {
		return l.stub(path), nil
	}
	if p, ok := l.pkgs[path]; ok && p.tp != nil && !l.busy[path] {
		return p.tp, nil
	}
	first := path
	if k := strings.Index(path, "/"); k >= 0 {
		first = path[:k]
	}
	if !strings.Contains(first, ".") { // standard library
		if l.stdFail[path] {
			return l.stub(path), nil
		}
		p, err := l.std.ImportFrom(path, l.repo, 0)
		if err != nil || p == nil {
			l.stdFail[path] = true
			return l.stub(path), nil
		}
		return p, nil
	}
	if path == l.mod || strings.HasPrefix(path, l.mod+"/") {
		p := l.load(path, filepath.Join(l.repo, strings.TrimPrefix(strings.TrimPrefix(path, l.mod), "/")), true, 0)
		if p == nil || p.tp == nil {
			return l.stub(path), nil
		}
		return p.tp, nil
	}
	if i.depth >= 1 {
		return l.stub(path), nil
	}
	if d := l.moduleDir(path); d != "" {
		p := l.load(path, d, false, 1)
		if p != nil && p.tp != nil {
			return p.tp, nil
		}
	}
	return l.stub(path), nil
}

var detVerSuffix = regexp.MustCompile(`^v[0-9]+$`)

func detGuessName(path string) string {
	parts := strings.Split(path, "/")
	n := parts[len(parts)-1]
	if detVerSuffix.MatchString(n) && len(parts) > 1 {
		n = parts[len(parts)-2]
	}
	if k := strings.Index(n, ".v"); k > 0 { // gopkg.in/yaml.v2
		n = n[:k]
	}
	n = strings.TrimPrefix(n, "go-")
	n = strings.ReplaceAll(n, "-", "_")
	n = strings.ReplaceAll(n, ".", "_")
	return n
}

func (l *detLoader) stub(path string) *types.Package {
	if p, ok := l.stubs[path]; ok {
		return p
	}
	p := types.NewPackage(path, detGuessName(path))
	p.MarkComplete()
	l.stubs[path] = p
	return p
}

func detEscape(s string) string {
	var sb strings.Builder
	for _, r := range s {
		if r >= 'A' && r <= 'Z' {
			sb.WriteByte('!')
			sb.WriteRune(r + 'a' - 'A')
		} else {
			sb.WriteRune(r)
		}
	}
	return sb.String()
}

// readGoMod: require + replace -> module directories in the module cache
func (l *detLoader) readGoMod() error {
	b, err := os.ReadFile(filepath.Join(l.repo, "go.mod"))
	if err != nil {
		return err
	}
	req := map[string]string{}
	type repl struct{ np, nv string }
	rep := map[string]repl{}
	block := ""
	for _, ln := range strings.Split(string(b), "\n") {
		if k := strings.Index(ln, "//"); k >= 0 {
			ln = ln[:k]
		}
		f := strings.Fields(ln)
		if len(f) == 0 {
			continue
		}
		if f[0] == "module" && len(f) > 1 {
			l.mod = strings.Trim(f[1], `"`)
			continue
		}
		if len(f) == 2 && f[1] == "(" {
			block = f[0]
			continue
		}
		if f[0] == ")" {
			block = ""
			continue
		}
		kind := block
		if kind == "" {
			kind = f[0]
			f = f[1:]
		}
		switch kind {
		case "require":
			if len(f) >= 2 {
				req[f[0]] = f[1]
			}
		case "replace":
			for k, w := range f {
				if w == "=>" {
					r := repl{}
					if k+1 < len(f) {
						r.np = f[k+1]
					}
					if k+2 < len(f) {
						r.nv = f[k+2]
					}
					rep[f[0]] = r
				}
			}
		}
	}
	if l.mod == "" {
		return fmt.Errorf("no module line in go.mod")
	}
	for m, v := range req {
		dir := ""
		if r, ok := rep[m]; ok {
			if r.nv == "" { // local path
				dir = r.np
				if !filepath.IsAbs(dir) {
					dir = filepath.Join(l.repo, dir)
				}
			} else {
				dir = filepath.Join(l.modcache, detEscape(r.np)+"@"+r.nv)
			}
		} else {
			dir = filepath.Join(l.modcache, detEscape(m)+"@"+v)
		}
		l.mods = append(l.mods, [2]string{m, dir})
	}
	sort.Slice(l.mods, func(i, j int) bool {
		if len(l.mods[i][0]) != len(l.mods[j][0]) {
			return len(l.mods[i][0]) > len(l.mods[j][0])
		}
		return l.mods[i][0] < l.mods[j][0]
	})
	return nil
}

func (l *detLoader) moduleDir(path string) string {
	for _, m := range l.mods {
		if path == m[0] || strings.HasPrefix(path, m[0]+"/") {
			d := filepath.Join(m[1], strings.TrimPrefix(strings.TrimPrefix(path, m[0]), "/"))
			if st, err := os.Stat(d); err == nil && st.IsDir() {
				return d
			}
			return ""
		}
	}
	return ""
}

func (l *detLoader) load(path, dir string, inRepo bool, depth int) *detPkg {
	if p, ok := l.pkgs[path]; ok {
		return p
	}
	p := &detPkg{path: path, dir: dir, inRepo: inRepo}
	l.pkgs[path] = p
	l.busy[path] = true
	defer delete(l.busy, path)
	ents, err := os.ReadDir(dir)
	if err != nil {
		return p
	}
	var names []string
	for _, e := range ents {
		n := e.Name()
		if e.IsDir() || !strings.HasSuffix(n, ".go") || strings.HasSuffix(n, "_test.go") || strings.HasSuffix(n, ".pb.gw.go") {
			continue
		}
		if ok, err := build.Default.MatchFile(dir, n); err != nil || !ok {
			continue
		}
		names = append(names, n)
	}
	sort.Strings(names)
	pkgName := ""
	for _, n := range names {
		mode := parser.SkipObjectResolution
		f, err := parser.ParseFile(l.fset, filepath.Join(dir, n), nil, mode)
		if err != nil || f == nil {
			continue
		}
		if strings.HasSuffix(f.Name.Name, "_test") || f.Name.Name == "main" && !inRepo {
			continue
		}
		if pkgName == "" {
			pkgName = f.Name.Name
		}
		if f.Name.Name != pkgName {
			continue
		}
		p.files = append(p.files, f)
		rel := n
		if inRepo {
			if r, err := filepath.Rel(l.repo, filepath.Join(dir, n)); err == nil {
				rel = filepath.ToSlash(r)
			}
		}
		p.names = append(p.names, rel)
	}
	if len(p.files) == 0 {
		return p
	}
	p.info = &types.Info{
		Types:      map[ast.Expr]types.TypeAndValue{},
		Defs:       map[*ast.Ident]types.Object{},
		Uses:       map[*ast.Ident]types.Object{},
		Selections: map[*ast.SelectorExpr]*types.Selection{},
	}
	conf := types.Config{Importer: detImp{l, depth}, Error: func(error) {}, FakeImportC: true, DisableUnusedImportCheck: true}
	if !inRepo {
		conf.IgnoreFuncBodies = true
		p.info = nil
	}
	tp, _ := conf.Check(path, l.fset, p.files, p.info)
	p.tp = tp
	return p
}

// ---------------------------------------------------------------- scope

func detConsensusFile(rel string, f *ast.File) bool {
	if !(strings.HasPrefix(rel, "x/") || strings.HasPrefix(rel, "app/")) {
		return false
	}
	if strings.HasSuffix(rel, ".pb.go") || strings.HasSuffix(rel, "_test.go") || strings.HasSuffix(rel, ".pb.gw.go") {
		return false
	}
	for _, seg := range []string{"/client/", "/simulation/", "/mocks/", "/testutil/", "/testdata/"} {
		if strings.Contains("/"+rel, seg) {
			return false
		}
	}
	base := filepath.Base(rel)
	if base == "module_simulation.go" || strings.HasPrefix(base, "sim_") || strings.HasPrefix(base, "test_") {
		return false
	}
	for _, im := range f.Imports {
		if im.Path.Value == `"testing"` {
			return false
		}
	}
	return true
}

// ---------------------------------------------------------------- tables

type detField struct {
	Pkg, Struct, Name, Kind, Type string
	Assigned                      bool
	AssignedIn                    []string
}

type detVar struct {
	Pkg, Name, Kind, Type string
	Mutated               bool
	Where                 []string
}

type detRange struct {
	Pkg, Func, Expr string
	Class           string // OrderFree | CollectSorted | Writes | Review
	Arg             string
	FnWrites        bool
	Typed           bool
}

type detSite struct {
	Pkg, Func, Kind, Context string
}

type detGen struct {
	l      *detLoader
	scope  []*detScopeFile
	funcs  map[*types.Func]*detFunc // repo functions with bodies
	byName map[string][]*detFunc    // methods by bare name (class hierarchy by name)
	// syntactic fallback
	mapFields map[string]bool // field names declared with a map type anywhere in the tree
	mapFuncs  map[string]bool // function/method names whose first result is declared with a map type
	mapTypes  map[string]bool // named types declared as map types
}

type detScopeFile struct {
	p   *detPkg
	f   *ast.File
	rel string
}

type detFunc struct {
	p       *detPkg
	decl    *ast.FuncDecl
	obj     *types.Func
	name    string
	direct  map[string]bool // effect kinds found directly in the body
	calls   []*types.Func
	names   []string // interface / unresolved method names called
	eff     map[string]bool
	inScope bool
}

func detFuncName(d *ast.FuncDecl) string {
	if d.Recv != nil && len(d.Recv.List) > 0 {
		t := d.Recv.List[0].Type
		for {
			switch x := t.(type) {
			case *ast.StarExpr:
				t = x.X
				continue
			case *ast.IndexExpr:
				t = x.X
				continue
			case *ast.ParenExpr:
				t = x.X
				continue
			}
			break
		}
		if id, ok := t.(*ast.Ident); ok {
			return id.Name + "." + d.Name.Name
		}
	}
	return d.Name.Name
}

func detIsMapTypeExpr(e ast.Expr, named map[string]bool) bool {
	switch x := e.(type) {
	case *ast.MapType:
		return true
	case *ast.ParenExpr:
		return detIsMapTypeExpr(x.X, named)
	case *ast.Ident:
		return named[x.Name]
	case *ast.SelectorExpr:
		return named[x.Sel.Name]
	}
	return false
}

// kind of a type (shape only)
func (g *detGen) shape(t types.Type, texpr ast.Expr) string {
	ts := ""
	if texpr != nil {
		ts = types.ExprString(texpr)
	}
	syn := func() string {
		// syntactic fallback on the type expression
		switch x := texpr.(type) {
		case *ast.MapType:
			return "Map"
		case *ast.ArrayType:
			if x.Len == nil {
				return "Slice"
			}
			return "Array"
		case *ast.ChanType:
			return "Chan"
		case *ast.FuncType:
			return "Func"
		case *ast.InterfaceType:
			return "Interface"
		case *ast.StructType:
			return "Struct"
		case *ast.StarExpr:
			inner := types.ExprString(x.X)
			if strings.HasSuffix(inner, "Keeper") || strings.HasSuffix(inner, "Router") || strings.Contains(inner, "StoreKey") {
				return "Keeper"
			}
			return "Pointer"
		}
		low := strings.ToLower(ts)
		switch {
		case strings.HasSuffix(ts, "Keeper") || strings.HasSuffix(ts, "Hooks") || strings.HasSuffix(ts, "Router"):
			return "Keeper"
		case strings.Contains(low, "storekey") || strings.Contains(low, "storeservice"):
			return "StoreKey"
		case strings.Contains(low, "codec") || strings.Contains(low, "amino"):
			return "Codec"
		case strings.HasPrefix(ts, "sync.") || strings.HasPrefix(ts, "atomic."):
			return "Sync"
		}
		return "Unknown"
	}
	if t == nil {
		return syn()
	}
	if n, ok := t.(*types.Named); ok {
		if o := n.Obj(); o != nil && o.Pkg() != nil {
			pp := o.Pkg().Path()
			if pp == "sync" || pp == "sync/atomic" {
				return "Sync"
			}
		}
	}
	switch u := t.Underlying().(type) {
	case *types.Map:
		return "Map"
	case *types.Slice:
		return "Slice"
	case *types.Array:
		return "Array"
	case *types.Chan:
		return "Chan"
	case *types.Signature:
		return "Func"
	case *types.Interface:
		return "Interface"
	case *types.Pointer:
		s := types.TypeString(u.Elem(), func(p *types.Package) string { return p.Name() })
		if strings.HasSuffix(s, "Keeper") || strings.HasSuffix(s, "Router") || strings.Contains(s, "StoreKey") {
			return "Keeper"
		}
		if pn, ok := u.Elem().(*types.Named); ok && pn.Obj() != nil && pn.Obj().Pkg() != nil {
			pp := pn.Obj().Pkg().Path()
			if pp == "sync" || pp == "sync/atomic" {
				return "Sync"
			}
		}
		if _, bad := u.Elem().Underlying().(*types.Basic); bad && u.Elem().Underlying().(*types.Basic).Kind() == types.Invalid {
			return syn()
		}
		return "Pointer"
	case *types.Struct:
		s := types.TypeString(t, func(p *types.Package) string { return p.Name() })
		if strings.HasSuffix(s, "Keeper") {
			return "Keeper"
		}
		return "Struct"
	case *types.Basic:
		switch {
		case u.Kind() == types.Invalid:
			return syn()
		case u.Info()&types.IsString != 0:
			return "String"
		default:
			return "Scalar"
		}
	}
	return syn()
}

func detRel(l *detLoader, p *detPkg) string {
	r, err := filepath.Rel(l.repo, p.dir)
	if err != nil {
		return p.path
	}
	return filepath.ToSlash(r)
}

var detWriteName = regexp.MustCompile(`^(Set|Delete|Remove|Send|Mint|Burn|Delegate|Undelegate|InputOutput|Withdraw|Allocate|Slash|Jail|Unjail|Create|Update|Transfer|Write|Save|Put|Fund|Distribute|Increment|Decrement|After|Before|Commit|Uncommit|Claim|Track|Record|Execute|Process|Handle|Apply)([A-Z_].*)?$`)
var detBankName = regexp.MustCompile(`^(Send|Mint|Burn|Delegate|Undelegate|InputOutput)Coins`)

// effect of one call expression: (kinds found directly, static callee, dynamic method name)
func (g *detGen) callEffect(p *detPkg, c *ast.CallExpr) (direct []string, callee *types.Func, dyn string, unknownFn bool) {
	fun := c.Fun
	for {
		switch x := fun.(type) {
		case *ast.ParenExpr:
			fun = x.X
			continue
		case *ast.IndexExpr: // generic instantiation
			fun = x.X
			continue
		}
		break
	}
	if tv, ok := p.info.Types[fun]; ok && tv.IsType() {
		return nil, nil, "", false // conversion
	}
	switch x := fun.(type) {
	case *ast.Ident:
		switch o := p.info.Uses[x].(type) {
		case *types.Builtin:
			return nil, nil, "", false
		case *types.Func:
			return nil, o, "", false
		case *types.TypeName:
			return nil, nil, "", false
		case nil:
			if _, isB := types.Universe.Lookup(x.Name).(*types.Builtin); isB {
				return nil, nil, "", false
			}
			return nil, nil, "", true
		default:
			return nil, nil, "", true // call through a function value
		}
	case *ast.SelectorExpr:
		name := x.Sel.Name
		recvStr := types.ExprString(x.X)
		recvType := ""
		if tv, ok := p.info.Types[x.X]; ok && tv.Type != nil {
			recvType = tv.Type.String()
		}
		lowR := strings.ToLower(recvStr + " " + recvType)
		if (name == "Set" || name == "Delete") && strings.Contains(lowR, "store") {
			direct = append(direct, "store")
		}
		if detBankName.MatchString(name) {
			direct = append(direct, "bank")
		}
		if strings.HasPrefix(name, "Emit") && strings.Contains(lowR, "event") {
			direct = append(direct, "event")
		}
		if o, ok := p.info.Uses[x.Sel].(*types.Func); ok {
			if sel, ok2 := p.info.Selections[x]; ok2 {
				if _, isI := sel.Recv().Underlying().(*types.Interface); isI {
					return direct, nil, name, false
				}
				if pt, ok3 := sel.Recv().Underlying().(*types.Pointer); ok3 {
					if _, isI := pt.Elem().Underlying().(*types.Interface); isI {
						return direct, nil, name, false
					}
				}
			}
			return direct, o, "", false
		}
		if _, isVar := p.info.Uses[x.Sel].(*types.Var); isVar {
			return direct, nil, "", true // function-valued field
		}
		if _, isT := p.info.Uses[x.Sel].(*types.TypeName); isT {
			return direct, nil, "", false
		}
		return direct, nil, "?" + name, false // receiver type undetermined: name rule for other modules' methods only
	case *ast.FuncLit:
		return nil, nil, "", false // body is scanned in place
	case *ast.ArrayType, *ast.MapType, *ast.StarExpr, *ast.InterfaceType, *ast.ChanType, *ast.FuncType:
		return nil, nil, "", false
	}
	return nil, nil, "", true
}

func (g *detGen) buildFuncs() {
	g.funcs = map[*types.Func]*detFunc{}
	g.byName = map[string][]*detFunc{}
	var paths []string
	for path, p := range g.l.pkgs {
		if p.inRepo && p.info != nil {
			paths = append(paths, path)
		}
	}
	sort.Strings(paths)
	for _, path := range paths {
		p := g.l.pkgs[path]
		for i, f := range p.files {
			rel := p.names[i]
			if strings.HasSuffix(rel, "_test.go") {
				continue
			}
			for _, d := range f.Decls {
				fd, ok := d.(*ast.FuncDecl)
				if !ok || fd.Body == nil {
					continue
				}
				obj, _ := p.info.Defs[fd.Name].(*types.Func)
				if obj == nil {
					continue
				}
				df := &detFunc{p: p, decl: fd, obj: obj, name: detFuncName(fd), direct: map[string]bool{}, eff: map[string]bool{}}
				ast.Inspect(fd.Body, func(n ast.Node) bool {
					c, ok := n.(*ast.CallExpr)
					if !ok {
						return true
					}
					dir, callee, dyn, _ := g.callEffect(p, c)
					for _, k := range dir {
						df.direct[k] = true
					}
					if callee != nil {
						df.calls = append(df.calls, callee)
					}
					if dyn != "" {
						df.names = append(df.names, dyn)
					}
					return true
				})
				g.funcs[obj] = df
				if fd.Recv != nil && !strings.HasSuffix(rel, ".pb.go") {
					g.byName[fd.Name.Name] = append(g.byName[fd.Name.Name], df)
				}
			}
		}
	}
	// fixpoint
	for _, df := range g.funcs {
		for k := range df.direct {
			df.eff[k] = true
		}
		for _, n := range df.names {
			if strings.HasPrefix(n, "?") {
				if detWriteName.MatchString(n[1:]) {
					df.eff["extern:"+n[1:]] = true
				}
				continue
			}
			if len(g.byName[n]) == 0 && detWriteName.MatchString(n) {
				df.eff["extern:"+n] = true
			}
		}
		for _, c := range df.calls {
			if _, own := g.funcs[c]; !own && c.Pkg() != nil && !strings.HasPrefix(c.Pkg().Path(), g.l.mod) {
				// concrete function or method of another module: name rule, only for methods on keepers
				if sig, ok := c.Type().(*types.Signature); ok && sig.Recv() != nil && detWriteName.MatchString(c.Name()) {
					rs := sig.Recv().Type().String()
					if strings.Contains(rs, "Keeper") || strings.Contains(rs, "keeper") {
						df.eff["extern:"+c.Name()] = true
					}
				}
			}
		}
	}
	for changed := true; changed; {
		changed = false
		for _, df := range g.funcs {
			add := func(src *detFunc) {
				if len(src.eff) > 0 && len(df.eff) == 0 {
					df.eff["via:"+src.name] = true
					changed = true
				}
			}
			for _, c := range df.calls {
				if t, ok := g.funcs[c]; ok {
					add(t)
				}
			}
			for _, n := range df.names {
				for _, t := range g.byName[n] {
					add(t)
				}
			}
		}
	}
}

// effectOfCall: "" if the call cannot reach a store write / bank call / event, else a short description
func (g *detGen) effectOfCall(p *detPkg, c *ast.CallExpr) (string, bool) {
	dir, callee, dyn, unknown := g.callEffect(p, c)
	if len(dir) > 0 {
		return dir[0] + ":" + types.ExprString(c.Fun), false
	}
	if callee != nil {
		if t, ok := g.funcs[callee]; ok {
			if len(t.eff) > 0 {
				return "call:" + t.name, false
			}
			return "", false
		}
		if sig, ok := callee.Type().(*types.Signature); ok && sig.Recv() != nil && detWriteName.MatchString(callee.Name()) {
			rs := sig.Recv().Type().String()
			if strings.Contains(rs, "Keeper") || strings.Contains(rs, "keeper") {
				return "extern:" + callee.Name(), false
			}
		}
		return "", false
	}
	if strings.HasPrefix(dyn, "?") {
		if detWriteName.MatchString(dyn[1:]) {
			return "extern:" + dyn[1:], false
		}
		return "", false
	}
	if dyn != "" {
		ts := g.byName[dyn]
		if len(ts) == 0 {
			if detWriteName.MatchString(dyn) {
				return "extern:" + dyn, false
			}
			return "", false
		}
		for _, t := range ts {
			if len(t.eff) > 0 {
				return "dyn:" + dyn, false
			}
		}
		return "", false
	}
	return "", unknown
}

// ---------------------------------------------------------------- map ranges

type detBody struct {
	g        *detGen
	p        *detPkg
	lo, hi   token.Pos // the loop body
	loopVars map[types.Object]bool
	writes   []string
	reasons  []string
	collects map[types.Object]string
	pure     bool
}

func (b *detBody) inside(o types.Object) bool {
	return o != nil && o.Pos() >= b.lo && o.Pos() < b.hi
}

func (b *detBody) reason(s string) {
	for _, r := range b.reasons {
		if r == s {
			return
		}
	}
	b.reasons = append(b.reasons, s)
}

func (b *detBody) rootObj(e ast.Expr) (types.Object, bool) { // (object, is a plain identifier)
	plain := true
	for {
		switch x := e.(type) {
		case *ast.Ident:
			if o := b.p.info.Uses[x]; o != nil {
				return o, plain
			}
			return b.p.info.Defs[x], plain
		case *ast.SelectorExpr:
			e = x.X
			plain = false
		case *ast.IndexExpr:
			e = x.X
			plain = false
		case *ast.StarExpr:
			e = x.X
			plain = false
		case *ast.ParenExpr:
			e = x.X
		default:
			return nil, false
		}
	}
}

func (b *detBody) isConst(e ast.Expr) bool {
	switch x := e.(type) {
	case *ast.BasicLit:
		return true
	case *ast.Ident:
		if x.Name == "true" || x.Name == "false" || x.Name == "nil" {
			return true
		}
		if _, ok := b.p.info.Uses[x].(*types.Const); ok {
			return true
		}
	case *ast.ParenExpr:
		return b.isConst(x.X)
	case *ast.UnaryExpr:
		return b.isConst(x.X)
	}
	return false
}

func (b *detBody) mentionsLoop(e ast.Expr) bool {
	found := false
	ast.Inspect(e, func(n ast.Node) bool {
		if id, ok := n.(*ast.Ident); ok {
			o := b.p.info.Uses[id]
			if o != nil && (b.loopVars[o] || b.inside(o)) {
				found = true
			}
		}
		return !found
	})
	return found
}

func (b *detBody) exprCalls(e ast.Node) {
	if e == nil {
		return
	}
	ast.Inspect(e, func(n ast.Node) bool {
		switch x := n.(type) {
		case *ast.CallExpr:
			eff, unknown := b.g.effectOfCall(b.p, x)
			if eff != "" {
				b.writes = append(b.writes, eff)
			} else if unknown {
				b.reason("call through a function value: " + types.ExprString(x.Fun))
			}
		case *ast.FuncLit:
			b.stmts(x.Body.List, 1)
			return false
		}
		return true
	})
}

func (b *detBody) isInt(e ast.Expr) bool {
	if tv, ok := b.p.info.Types[e]; ok && tv.Type != nil {
		if bt, ok := tv.Type.Underlying().(*types.Basic); ok {
			return bt.Info()&types.IsInteger != 0
		}
	}
	return false
}

func (b *detBody) assign(s *ast.AssignStmt) {
	for _, r := range s.Rhs {
		b.exprCalls(r)
	}
	for i, lhs := range s.Lhs {
		if id, ok := lhs.(*ast.Ident); ok && id.Name == "_" {
			continue
		}
		if s.Tok == token.DEFINE {
			continue
		}
		// index into a map: builds another map / set
		if ix, ok := lhs.(*ast.IndexExpr); ok {
			isMap := false
			if tv, ok := b.p.info.Types[ix.X]; ok && tv.Type != nil {
				_, isMap = tv.Type.Underlying().(*types.Map)
				if bt, ok := tv.Type.Underlying().(*types.Basic); ok && bt.Kind() == types.Invalid {
					isMap = true
				}
			} else {
				isMap = true
			}
			b.exprCalls(ix.Index)
			if isMap {
				continue
			}
			if o, _ := b.rootObj(ix.X); b.inside(o) {
				continue
			}
			b.reason("writes a slice element of an outer variable: " + types.ExprString(lhs))
			continue
		}
		o, plain := b.rootObj(lhs)
		if b.inside(o) || (o != nil && b.loopVars[o] && plain) {
			continue
		}
		var rhs ast.Expr
		if len(s.Rhs) == len(s.Lhs) {
			rhs = s.Rhs[i]
		}
		switch s.Tok {
		case token.ADD_ASSIGN, token.SUB_ASSIGN, token.MUL_ASSIGN, token.OR_ASSIGN, token.AND_ASSIGN, token.XOR_ASSIGN:
			if b.isInt(lhs) {
				continue
			}
			b.reason("non-integer accumulation (" + s.Tok.String() + ") into " + types.ExprString(lhs))
			continue
		case token.ASSIGN:
			if rhs != nil {
				if b.isConst(rhs) {
					continue
				}
				if c, ok := rhs.(*ast.CallExpr); ok {
					// x = append(x, …)
					if id, ok := c.Fun.(*ast.Ident); ok && id.Name == "append" && len(c.Args) > 0 && types.ExprString(c.Args[0]) == types.ExprString(lhs) {
						if o != nil && plain {
							b.collects[o] = types.ExprString(lhs)
						} else {
							b.reason("appends to " + types.ExprString(lhs) + " in map order")
						}
						continue
					}
					// x = x.Add(…) / x.Sub(…): exact, commutative accumulation (math.Int, LegacyDec fixed point, Coins)
					if se, ok := c.Fun.(*ast.SelectorExpr); ok && types.ExprString(se.X) == types.ExprString(lhs) {
						switch se.Sel.Name {
						case "Add", "Sub", "AddRaw", "SubRaw", "AddAmount", "SubAmount":
							continue
						}
					}
				}
			}
			b.reason("assigns outer variable " + types.ExprString(lhs) + " (last iteration wins)")
			continue
		default:
			b.reason("assignment " + s.Tok.String() + " to outer " + types.ExprString(lhs))
		}
	}
}

func (b *detBody) stmts(list []ast.Stmt, nest int) {
	for _, s := range list {
		b.stmt(s, nest)
	}
}

// nest: 0 directly in the map loop, >0 inside a nested loop / switch / function literal
func (b *detBody) stmt(s ast.Stmt, nest int) {
	switch x := s.(type) {
	case nil:
	case *ast.AssignStmt:
		b.assign(x)
	case *ast.IncDecStmt:
		o, _ := b.rootObj(x.X)
		if !b.inside(o) && !b.isInt(x.X) {
			b.reason("++/-- on a non-integer outer value")
		}
	case *ast.ExprStmt:
		b.exprCalls(x.X)
	case *ast.DeclStmt:
		b.exprCalls(x)
	case *ast.BlockStmt:
		b.stmts(x.List, nest)
	case *ast.IfStmt:
		b.stmt(x.Init, nest)
		b.exprCalls(x.Cond)
		b.stmts(x.Body.List, nest)
		b.stmt(x.Else, nest)
	case *ast.ForStmt:
		b.stmt(x.Init, nest+1)
		b.exprCalls(x.Cond)
		b.stmt(x.Post, nest+1)
		b.stmts(x.Body.List, nest+1)
	case *ast.RangeStmt:
		b.exprCalls(x.X)
		b.stmts(x.Body.List, nest+1)
	case *ast.SwitchStmt:
		b.stmt(x.Init, nest)
		b.exprCalls(x.Tag)
		for _, cc := range x.Body.List {
			if c, ok := cc.(*ast.CaseClause); ok {
				for _, e := range c.List {
					b.exprCalls(e)
				}
				b.stmts(c.Body, nest+1)
			}
		}
	case *ast.TypeSwitchStmt:
		b.stmt(x.Init, nest)
		b.stmt(x.Assign, nest)
		for _, cc := range x.Body.List {
			if c, ok := cc.(*ast.CaseClause); ok {
				b.stmts(c.Body, nest+1)
			}
		}
	case *ast.BranchStmt:
		switch x.Tok {
		case token.CONTINUE:
		case token.BREAK:
			if nest == 0 || x.Label != nil {
				b.reason("break: the set of iterations executed depends on the order")
			}
		default:
			b.reason(x.Tok.String() + " inside a map range")
		}
	case *ast.ReturnStmt:
		for _, r := range x.Results {
			b.exprCalls(r)
			if b.isConst(r) {
				continue
			}
			if tv, ok := b.p.info.Types[r]; ok && tv.Type != nil && tv.Type.String() == "error" {
				continue
			}
			if id, ok := r.(*ast.Ident); ok && (id.Name == "err" || strings.HasSuffix(id.Name, "Err")) {
				continue
			}
			if b.mentionsLoop(r) {
				b.reason("returns a value that depends on the current entry (first match wins): " + types.ExprString(r))
			}
		}
	case *ast.LabeledStmt:
		b.stmt(x.Stmt, nest)
	case *ast.DeferStmt:
		b.reason("defer inside a map range")
		b.exprCalls(x.Call)
	case *ast.GoStmt:
		b.reason("go statement inside a map range")
	case *ast.SendStmt:
		b.reason("channel send inside a map range")
	case *ast.SelectStmt:
		b.reason("select inside a map range")
	case *ast.EmptyStmt:
	default:
		b.reason(fmt.Sprintf("statement %T", s))
	}
}

var detSortFuncs = map[string]bool{"sort.Strings": true, "sort.Ints": true, "sort.Float64s": true, "sort.Slice": true, "sort.SliceStable": true,
	"sort.Sort": true, "sort.Stable": true, "slices.Sort": true, "slices.SortFunc": true, "slices.SortStableFunc": true}

// sortedAfter: a sort call on the collected slice after the loop, in the same function body
func (g *detGen) sortedAfter(p *detPkg, fn ast.Node, after token.Pos, o types.Object) bool {
	found := false
	ast.Inspect(fn, func(n ast.Node) bool {
		c, ok := n.(*ast.CallExpr)
		if !ok || c.Pos() < after || found {
			return !found
		}
		if !detSortFuncs[types.ExprString(c.Fun)] || len(c.Args) == 0 {
			return true
		}
		ast.Inspect(c.Args[0], func(m ast.Node) bool {
			if id, ok := m.(*ast.Ident); ok && p.info.Uses[id] == o {
				found = true
			}
			return !found
		})
		return !found
	})
	return found
}

func (g *detGen) syntacticMap(p *detPkg, fn ast.Node, e ast.Expr) bool {
	switch x := e.(type) {
	case *ast.ParenExpr:
		return g.syntacticMap(p, fn, x.X)
	case *ast.CompositeLit:
		return detIsMapTypeExpr(x.Type, g.mapTypes)
	case *ast.CallExpr:
		switch f := x.Fun.(type) {
		case *ast.Ident:
			if f.Name == "make" && len(x.Args) > 0 {
				return detIsMapTypeExpr(x.Args[0], g.mapTypes)
			}
			return g.mapFuncs[f.Name]
		case *ast.SelectorExpr:
			return g.mapFuncs[f.Sel.Name]
		}
	case *ast.SelectorExpr:
		return g.mapFields[x.Sel.Name]
	case *ast.Ident:
		// declared in the same function as a map
		isMap := false
		ast.Inspect(fn, func(n ast.Node) bool {
			switch d := n.(type) {
			case *ast.AssignStmt:
				for i, l := range d.Lhs {
					if id, ok := l.(*ast.Ident); ok && id.Name == x.Name && i < len(d.Rhs) && len(d.Lhs) == len(d.Rhs) {
						if _, same := d.Rhs[i].(*ast.Ident); !same && g.syntacticMap(p, fn, d.Rhs[i]) {
							isMap = true
						}
					}
				}
			case *ast.ValueSpec:
				for _, id := range d.Names {
					if id.Name == x.Name && d.Type != nil && detIsMapTypeExpr(d.Type, g.mapTypes) {
						isMap = true
					}
				}
			case *ast.Field:
				for _, id := range d.Names {
					if id.Name == x.Name && detIsMapTypeExpr(d.Type, g.mapTypes) {
						isMap = true
					}
				}
			}
			return !isMap
		})
		return isMap
	}
	return false
}

func (g *detGen) ranges() (out []detRange, untypedNonMap int) {
	for _, sf := range g.scope {
		p := sf.p
		for _, d := range sf.f.Decls {
			fd, ok := d.(*ast.FuncDecl)
			if !ok || fd.Body == nil {
				continue
			}
			fname := detFuncName(fd)
			fnWrites := false
			if obj, _ := p.info.Defs[fd.Name].(*types.Func); obj != nil && g.funcs[obj] != nil {
				fnWrites = len(g.funcs[obj].eff) > 0
			}
			ast.Inspect(fd.Body, func(n ast.Node) bool {
				if as, ok := n.(*ast.AssignStmt); ok && len(as.Rhs) == 1 && len(as.Lhs) == 1 {
					// ks := maps.Keys(m) / maps.Values(m): entries in map order without a range statement
					if c, ok := as.Rhs[0].(*ast.CallExpr); ok {
						if se, ok := c.Fun.(*ast.SelectorExpr); ok && (se.Sel.Name == "Keys" || se.Sel.Name == "Values") {
							if id, ok := se.X.(*ast.Ident); ok {
								if pn, ok := p.info.Uses[id].(*types.PkgName); ok && (pn.Imported().Path() == "maps" || strings.HasSuffix(pn.Imported().Path(), "/exp/maps")) {
									r := detRange{Pkg: detRel(g.l, p), Func: fname, Expr: types.ExprString(c), FnWrites: fnWrites, Typed: true}
									var o types.Object
									if lid, ok := as.Lhs[0].(*ast.Ident); ok {
										if o = p.info.Defs[lid]; o == nil {
											o = p.info.Uses[lid]
										}
									}
									if o != nil && g.sortedAfter(p, fd, as.End(), o) {
										r.Class = "CollectSorted"
									} else {
										r.Class, r.Arg = "Review", "maps."+se.Sel.Name+" yields the entries in map order and no sort of the result follows"
									}
									out = append(out, r)
								}
							}
						}
					}
				}
				rs, ok := n.(*ast.RangeStmt)
				if !ok {
					return true
				}
				isMap, typed := false, false
				if tv, ok := p.info.Types[rs.X]; ok && tv.Type != nil {
					switch u := tv.Type.Underlying().(type) {
					case *types.Map:
						isMap, typed = true, true
					case *types.Basic:
						if u.Kind() != types.Invalid {
							typed = true
						}
					case *types.Pointer:
						typed = true
						_ = u
					default:
						typed = true
					}
				}
				if !typed {
					isMap = g.syntacticMap(p, fd, rs.X)
					if !isMap {
						untypedNonMap++
					}
				}
				if !isMap {
					return true
				}
				b := &detBody{g: g, p: p, lo: rs.Body.Pos(), hi: rs.Body.End(), loopVars: map[types.Object]bool{}, collects: map[types.Object]string{}}
				for _, kv := range []ast.Expr{rs.Key, rs.Value} {
					if id, ok := kv.(*ast.Ident); ok {
						if o := p.info.Defs[id]; o != nil {
							b.loopVars[o] = true
						} else if o := p.info.Uses[id]; o != nil {
							b.loopVars[o] = true
						}
					}
				}
				b.stmts(rs.Body.List, 0)
				r := detRange{Pkg: detRel(g.l, p), Func: fname, Expr: types.ExprString(rs.X), FnWrites: fnWrites, Typed: typed}
				var unsorted []string
				for o, nm := range b.collects {
					if !g.sortedAfter(p, fd, rs.End(), o) {
						unsorted = append(unsorted, nm)
					}
				}
				sort.Strings(unsorted)
				for _, nm := range unsorted {
					b.reason("collects into " + nm + " in map order and no sort of it follows in the function")
				}
				sort.Strings(b.writes)
				sort.Strings(b.reasons)
				switch {
				case len(b.writes) > 0:
					// the loop body itself is part of the row: a reviewed loop that changes must be reviewed again
					r.Class, r.Arg = "Writes", detUniq(b.writes)+" | body: "+detSkeleton(rs.Body)
				case len(b.reasons) > 0:
					r.Class, r.Arg = "Review", strings.Join(b.reasons, "; ")
				case len(b.collects) > 0:
					r.Class, r.Arg = "CollectSorted", ""
				default:
					r.Class, r.Arg = "OrderFree", ""
				}
				out = append(out, r)
				return true
			})
		}
	}
	sort.SliceStable(out, func(i, j int) bool {
		a, c := out[i], out[j]
		if a.Pkg != c.Pkg {
			return a.Pkg < c.Pkg
		}
		if a.Func != c.Func {
			return a.Func < c.Func
		}
		return a.Expr < c.Expr
	})
	return
}

// detSkeleton: statement kinds, operators and callee names (with argument counts) of a loop body in source
// order; identifiers of variables are left out, so renaming does not change it, adding a statement does
func detSkeleton(n ast.Node) string {
	var out []string
	ast.Inspect(n, func(m ast.Node) bool {
		switch x := m.(type) {
		case *ast.AssignStmt:
			out = append(out, "assign"+x.Tok.String())
		case *ast.IncDecStmt:
			out = append(out, x.Tok.String())
		case *ast.IfStmt:
			out = append(out, "if")
		case *ast.ForStmt:
			out = append(out, "for")
		case *ast.RangeStmt:
			out = append(out, "range")
		case *ast.SwitchStmt, *ast.TypeSwitchStmt:
			out = append(out, "switch")
		case *ast.ReturnStmt:
			out = append(out, fmt.Sprintf("return/%d", len(x.Results)))
		case *ast.BranchStmt:
			out = append(out, x.Tok.String())
		case *ast.DeferStmt:
			out = append(out, "defer")
		case *ast.GoStmt:
			out = append(out, "go")
		case *ast.FuncLit:
			out = append(out, "func")
		case *ast.CallExpr:
			name := "?"
			switch f := x.Fun.(type) {
			case *ast.Ident:
				name = f.Name
			case *ast.SelectorExpr:
				name = f.Sel.Name
			}
			out = append(out, fmt.Sprintf("%s/%d", name, len(x.Args)))
		}
		return true
	})
	return strings.Join(out, " ")
}

func detUniq(xs []string) string {
	var o []string
	for i, x := range xs {
		if i == 0 || x != xs[i-1] {
			o = append(o, x)
		}
	}
	if len(o) > 6 {
		o = append(o[:6], "…")
	}
	return strings.Join(o, ", ")
}

// ---------------------------------------------------------------- keeper fields

func (g *detGen) fields() []detField {
	idx := map[*types.Var]*detField{}
	var out []*detField
	for _, sf := range g.scope {
		if !strings.HasPrefix(sf.rel, "x/") {
			continue
		}
		inKeeperDir := strings.Contains("/"+filepath.ToSlash(filepath.Dir(sf.rel))+"/", "/keeper/")
		for _, d := range sf.f.Decls {
			gd, ok := d.(*ast.GenDecl)
			if !ok || gd.Tok != token.TYPE {
				continue
			}
			for _, sp := range gd.Specs {
				ts := sp.(*ast.TypeSpec)
				st, ok := ts.Type.(*ast.StructType)
				if !ok || !(inKeeperDir || strings.HasSuffix(ts.Name.Name, "Keeper")) {
					continue
				}
				var own []*detField
				pend := map[*types.Var]*detField{}
				for _, fl := range st.Fields.List {
					names := fl.Names
					if len(names) == 0 { // embedded
						t := fl.Type
						if se, ok := t.(*ast.StarExpr); ok {
							t = se.X
						}
						nm := types.ExprString(t)
						if k := strings.LastIndex(nm, "."); k >= 0 {
							nm = nm[k+1:]
						}
						names = []*ast.Ident{{Name: nm, NamePos: fl.Type.Pos()}}
					}
					var ft types.Type
					if tv, ok := sf.p.info.Types[fl.Type]; ok {
						ft = tv.Type
					}
					for _, id := range names {
						f := &detField{Pkg: detRel(g.l, sf.p), Struct: ts.Name.Name, Name: id.Name, Kind: g.shape(ft, fl.Type), Type: types.ExprString(fl.Type)}
						if o, ok := sf.p.info.Defs[id].(*types.Var); ok {
							pend[o] = f
						}
						own = append(own, f)
					}
				}
				// long-lived objects only: a struct named *Keeper, or one that holds a keeper / service
				// (msgServer, Querier, Hooks wrappers, Migrator); plain data structs of the package are values
				// built and dropped inside one call
				keep := strings.HasSuffix(ts.Name.Name, "Keeper")
				for _, f := range own {
					if f.Kind == "Keeper" || f.Kind == "Interface" || f.Kind == "StoreKey" {
						keep = true
					}
				}
				if keep {
					out = append(out, own...)
					for o, f := range pend {
						idx[o] = f
					}
				}
			}
		}
	}
	// assignments to these fields anywhere in the tree
	for _, df := range g.funcs {
		p := df.p
		note := func(e ast.Expr) {
			for {
				switch x := e.(type) {
				case *ast.ParenExpr:
					e = x.X
					continue
				case *ast.IndexExpr:
					e = x.X
					continue
				case *ast.StarExpr:
					e = x.X
					continue
				}
				break
			}
			se, ok := e.(*ast.SelectorExpr)
			if !ok {
				return
			}
			if o, ok := p.info.Uses[se.Sel].(*types.Var); ok {
				if f := idx[o]; f != nil {
					f.AssignedIn = append(f.AssignedIn, df.name)
				}
			}
		}
		ast.Inspect(df.decl.Body, func(n ast.Node) bool {
			switch x := n.(type) {
			case *ast.AssignStmt:
				if x.Tok != token.DEFINE {
					for _, l := range x.Lhs {
						note(l)
					}
				}
			case *ast.IncDecStmt:
				note(x.X)
			case *ast.CallExpr:
				if id, ok := x.Fun.(*ast.Ident); ok && id.Name == "delete" && len(x.Args) > 0 {
					note(x.Args[0])
				}
			case *ast.UnaryExpr:
				if x.Op == token.AND {
					if se, ok := x.X.(*ast.SelectorExpr); ok {
						if o, ok := p.info.Uses[se.Sel].(*types.Var); ok {
							if f := idx[o]; f != nil && (f.Kind == "Scalar" || f.Kind == "String") {
								f.AssignedIn = append(f.AssignedIn, df.name+"(&)")
							}
						}
					}
				}
			}
			return true
		})
	}
	var res []detField
	for _, f := range out {
		sort.Strings(f.AssignedIn)
		var u []string
		for i, s := range f.AssignedIn {
			if i == 0 || s != f.AssignedIn[i-1] {
				u = append(u, s)
			}
		}
		f.AssignedIn = u
		for _, s := range u {
			bare := s
			if k := strings.LastIndex(bare, "."); k >= 0 {
				bare = bare[k+1:]
			}
			if !strings.HasPrefix(bare, "New") {
				f.Assigned = true
			}
		}
		res = append(res, *f)
	}
	sort.SliceStable(res, func(i, j int) bool {
		a, b := res[i], res[j]
		if a.Pkg != b.Pkg {
			return a.Pkg < b.Pkg
		}
		if a.Struct != b.Struct {
			return a.Struct < b.Struct
		}
		return a.Name < b.Name
	})
	return res
}

// ---------------------------------------------------------------- package-level variables

func (g *detGen) pkgvars() []detVar {
	idx := map[*types.Var]*detVar{}
	ext := map[string]*detVar{}
	var out []*detVar
	for _, sf := range g.scope {
		for _, d := range sf.f.Decls {
			gd, ok := d.(*ast.GenDecl)
			if !ok || gd.Tok != token.VAR {
				continue
			}
			for _, sp := range gd.Specs {
				vs := sp.(*ast.ValueSpec)
				for i, id := range vs.Names {
					if id.Name == "_" {
						continue
					}
					o, _ := sf.p.info.Defs[id].(*types.Var)
					var t types.Type
					if o != nil {
						t = o.Type()
					}
					var te ast.Expr = vs.Type
					if te == nil && i < len(vs.Values) {
						if cl, ok := vs.Values[i].(*ast.CompositeLit); ok {
							te = cl.Type
						}
					}
					ts := ""
					if te != nil {
						ts = types.ExprString(te)
					} else if t != nil {
						ts = types.TypeString(t, func(p *types.Package) string { return p.Name() })
					}
					v := &detVar{Pkg: detRel(g.l, sf.p), Name: id.Name, Kind: g.shape(t, te), Type: ts}
					if o != nil {
						idx[o] = v
					}
					out = append(out, v)
				}
			}
		}
	}
	called := map[*types.Func]bool{}
	for _, df := range g.funcs {
		for _, c := range df.calls {
			if c != df.obj {
				called[c] = true
			}
		}
	}
	for _, df := range g.funcs {
		if df.decl.Recv == nil && df.decl.Name.Name == "init" {
			continue
		}
		p := df.p
		uncalled := ""
		if df.decl.Recv == nil && !called[df.obj] {
			uncalled = " [no caller in the tree]"
		}
		inScope := false
		for i, f := range p.files {
			if f.Pos() <= df.decl.Pos() && df.decl.End() <= f.End() {
				inScope = detConsensusFile(p.names[i], f)
			}
		}
		if !inScope {
			continue
		}
		hit := func(e ast.Expr, how string, viaMethod bool) {
			direct := true
			for {
				switch x := e.(type) {
				case *ast.ParenExpr:
					e = x.X
					continue
				case *ast.IndexExpr:
					e = x.X
					direct = false
					continue
				case *ast.StarExpr:
					e = x.X
					direct = false
					continue
				case *ast.SelectorExpr:
					if id, ok := x.X.(*ast.Ident); ok {
						if _, isPkg := p.info.Uses[id].(*types.PkgName); isPkg {
							e = x.Sel
							continue
						}
					}
					e = x.X
					direct = false
					continue
				}
				break
			}
			id, ok := e.(*ast.Ident)
			if !ok {
				return
			}
			o, ok := p.info.Uses[id].(*types.Var)
			if !ok || o.Pkg() == nil || o.Parent() != o.Pkg().Scope() {
				return
			}
			_ = direct
			if v := idx[o]; v != nil {
				if viaMethod && !(v.Kind == "Map" || v.Kind == "Slice" || v.Kind == "Chan" || v.Kind == "Sync") {
					return
				}
				v.Where = append(v.Where, detRel(g.l, p)+":"+df.name+" "+how+uncalled)
				return
			}
			if viaMethod {
				return
			}
			if strings.HasPrefix(o.Pkg().Path(), g.l.mod) {
				return // a tree variable outside the scope (test helpers)
			}
			k := o.Pkg().Path() + "." + o.Name()
			v := ext[k]
			if v == nil {
				v = &detVar{Pkg: o.Pkg().Path(), Name: o.Name(), Kind: g.shape(o.Type(), nil), Type: types.TypeString(o.Type(), func(p *types.Package) string { return p.Name() })}
				ext[k] = v
				out = append(out, v)
			}
			v.Where = append(v.Where, detRel(g.l, p)+":"+df.name+" "+how)
		}
		ast.Inspect(df.decl.Body, func(n ast.Node) bool {
			switch x := n.(type) {
			case *ast.AssignStmt:
				if x.Tok != token.DEFINE {
					for _, l := range x.Lhs {
						hit(l, "assigns", false)
					}
				}
			case *ast.IncDecStmt:
				hit(x.X, "++/--", false)
			case *ast.CallExpr:
				if id, ok := x.Fun.(*ast.Ident); ok && id.Name == "delete" && len(x.Args) > 0 {
					hit(x.Args[0], "delete", false)
				}
				if se, ok := x.Fun.(*ast.SelectorExpr); ok {
					if _, isM := p.info.Uses[se.Sel].(*types.Func); isM {
						hit(se.X, "calls ."+se.Sel.Name, true)
					}
				}
			case *ast.UnaryExpr:
				if x.Op == token.AND {
					if id, ok := x.X.(*ast.Ident); ok {
						if o, ok := p.info.Uses[id].(*types.Var); ok {
							if v := idx[o]; v != nil && (v.Kind == "Scalar" || v.Kind == "String" || v.Kind == "Map" || v.Kind == "Slice") {
								v.Where = append(v.Where, detRel(g.l, p)+":"+df.name+" takes its address")
							}
						}
					}
				}
			}
			return true
		})
	}
	var res []detVar
	for _, v := range out {
		sort.Strings(v.Where)
		var u []string
		for i, s := range v.Where {
			if i == 0 || s != v.Where[i-1] {
				u = append(u, s)
			}
		}
		v.Where = u
		v.Mutated = len(u) > 0
		res = append(res, *v)
	}
	sort.SliceStable(res, func(i, j int) bool {
		a, b := res[i], res[j]
		if a.Pkg != b.Pkg {
			return a.Pkg < b.Pkg
		}
		return a.Name < b.Name
	})
	return res
}

// ---------------------------------------------------------------- nondeterminism sites

func (g *detGen) sites() []detSite {
	var out []detSite
	for _, sf := range g.scope {
		p := sf.p
		pkgRel := detRel(g.l, p)
		for _, im := range sf.f.Imports {
			switch strings.Trim(im.Path.Value, `"`) {
			case "math/rand", "math/rand/v2":
				out = append(out, detSite{pkgRel, "(import in " + filepath.Base(sf.rel) + ")", "Rand", "import"})
			case "crypto/rand":
				out = append(out, detSite{pkgRel, "(import in " + filepath.Base(sf.rel) + ")", "CryptoRand", "import"})
			case "unsafe":
				out = append(out, detSite{pkgRel, "(import in " + filepath.Base(sf.rel) + ")", "Unsafe", "import"})
			}
		}
		pkgOf := func(e ast.Expr) string {
			if id, ok := e.(*ast.Ident); ok {
				if pn, ok := p.info.Uses[id].(*types.PkgName); ok {
					return pn.Imported().Path()
				}
			}
			return ""
		}
		for _, d := range sf.f.Decls {
			fname := "(package level)"
			if fd, ok := d.(*ast.FuncDecl); ok {
				fname = detFuncName(fd)
			}
			var stack []ast.Node
			ast.Inspect(d, func(n ast.Node) bool {
				if n == nil {
					stack = stack[:len(stack)-1]
					return true
				}
				stack = append(stack, n)
				switch x := n.(type) {
				case *ast.GoStmt:
					out = append(out, detSite{pkgRel, fname, "Go", "other"})
				case *ast.SelectStmt:
					out = append(out, detSite{pkgRel, fname, "Select", "other"})
				case *ast.BasicLit:
					if x.Kind == token.STRING && strings.Contains(x.Value, "%p") {
						out = append(out, detSite{pkgRel, fname, "PtrPrint", "other"})
					}
				case *ast.SelectorExpr:
					pk := pkgOf(x.X)
					kind := ""
					switch {
					case pk == "time" && (x.Sel.Name == "Now" || x.Sel.Name == "Since" || x.Sel.Name == "Until" || x.Sel.Name == "After" || x.Sel.Name == "Tick" || x.Sel.Name == "Sleep" || x.Sel.Name == "NewTimer" || x.Sel.Name == "NewTicker"):
						kind = "TimeNow"
					case pk == "time" && (x.Sel.Name == "Local" || x.Sel.Name == "LoadLocation"):
						kind = "Getenv" // the node's own time zone
					case pk == "time" && (x.Sel.Name == "Unix" || x.Sel.Name == "UnixMilli" || x.Sel.Name == "UnixMicro"):
						// time.Unix returns a Time in the process-local zone: formatting it, or taking its calendar fields, depends
						// on the machine's TZ. Harmless only when the value is converted or compared at once (.UTC(), .Unix(), ...)
						kind = "Getenv"
						if len(stack) >= 3 {
							if call, ok := stack[len(stack)-2].(*ast.CallExpr); ok && call.Fun == ast.Expr(x) {
								if outer, ok := stack[len(stack)-3].(*ast.SelectorExpr); ok && outer.X == ast.Expr(call) {
									switch outer.Sel.Name {
									case "UTC", "Unix", "UnixNano", "UnixMilli", "UnixMicro", "Equal", "Before", "After", "Sub", "Compare", "IsZero":
										kind = ""
									}
								}
							}
						}
					case pk == "" && x.Sel.Name == "Local" && p.info.TypeOf(x.X) != nil && p.info.TypeOf(x.X).String() == "time.Time":
						kind = "Getenv" // t.Local()
					case pk == "os" && (x.Sel.Name == "Getenv" || x.Sel.Name == "LookupEnv" || x.Sel.Name == "Environ" || x.Sel.Name == "Hostname" || x.Sel.Name == "Getpid"):
						kind = "Getenv"
					case pk == "math/rand" || pk == "math/rand/v2":
						kind = "Rand"
					case pk == "crypto/rand":
						kind = "CryptoRand"
					case pk == "unsafe":
						kind = "Unsafe"
					case pk == "runtime" && (x.Sel.Name == "NumGoroutine" || x.Sel.Name == "NumCPU" || x.Sel.Name == "GOMAXPROCS"):
						kind = "Getenv"
					}
					if kind != "" {
						ctx := "other"
						// an argument of telemetry.X(...) (possibly deferred): only measures, never feeds state
						for i := len(stack) - 2; i >= 0; i-- {
							if c, ok := stack[i].(*ast.CallExpr); ok {
								if se, ok := c.Fun.(*ast.SelectorExpr); ok {
									if ip := pkgOf(se.X); strings.HasSuffix(ip, "/telemetry") {
										ctx = "telemetry"
									}
								}
							}
						}
						out = append(out, detSite{pkgRel, fname, kind, ctx})
					}
				}
				return true
			})
		}
	}
	sort.SliceStable(out, func(i, j int) bool {
		a, b := out[i], out[j]
		if a.Pkg != b.Pkg {
			return a.Pkg < b.Pkg
		}
		if a.Func != b.Func {
			return a.Func < b.Func
		}
		if a.Kind != b.Kind {
			return a.Kind < b.Kind
		}
		return a.Context < b.Context
	})
	return out
}

// ---------------------------------------------------------------- driver

func genDeterminism(repo, out string) error {
	repo, _ = filepath.Abs(repo)
	build.Default.CgoEnabled = false
	l := &detLoader{fset: token.NewFileSet(), repo: repo, pkgs: map[string]*detPkg{}, busy: map[string]bool{}, stubs: map[string]*types.Package{}, stdFail: map[string]bool{}}
	l.modcache = os.Getenv("GOMODCACHE")
	if l.modcache == "" {
		gp := os.Getenv("GOPATH")
		if gp == "" {
			if h, err := os.UserHomeDir(); err == nil {
				gp = filepath.Join(h, "go")
			}
		}
		l.modcache = filepath.Join(strings.Split(gp, string(os.PathListSeparator))[0], "pkg", "mod")
	}
	if err := l.readGoMod(); err != nil {
		return err
	}
	std, ok := importer.ForCompiler(l.fset, "source", nil).(types.ImporterFrom)
	if !ok {
		return fmt.Errorf("no source importer")
	}
	l.std = std
	// every package directory under x/ and app/
	var dirs []string
	for _, top := range []string{"x", "app"} {
		_ = filepath.Walk(filepath.Join(repo, top), func(path string, info os.FileInfo, err error) error {
			if err == nil && info.IsDir() {
				dirs = append(dirs, path)
			}
			return nil
		})
	}
	sort.Strings(dirs)
	g := &detGen{l: l, mapFields: map[string]bool{}, mapFuncs: map[string]bool{}, mapTypes: map[string]bool{}}
	for _, d := range dirs {
		rel, _ := filepath.Rel(repo, d)
		path := l.mod + "/" + filepath.ToSlash(rel)
		p := l.load(path, d, true, 0)
		if p == nil || p.info == nil {
			continue
		}
	}
	var paths []string
	for path, p := range l.pkgs {
		if p.inRepo && p.info != nil {
			paths = append(paths, path)
		}
	}
	sort.Strings(paths)
	nfiles := 0
	for _, path := range paths {
		p := l.pkgs[path]
		for i, f := range p.files {
			// syntactic fallback tables (whole tree, incl. generated code)
			for _, d := range f.Decls {
				switch x := d.(type) {
				case *ast.GenDecl:
					for _, sp := range x.Specs {
						if ts, ok := sp.(*ast.TypeSpec); ok {
							if _, ok := ts.Type.(*ast.MapType); ok {
								g.mapTypes[ts.Name.Name] = true
							}
						}
					}
				}
			}
			if detConsensusFile(p.names[i], f) {
				g.scope = append(g.scope, &detScopeFile{p, f, p.names[i]})
				nfiles++
			}
		}
	}
	for _, path := range paths {
		p := l.pkgs[path]
		for _, f := range p.files {
			ast.Inspect(f, func(n ast.Node) bool {
				switch x := n.(type) {
				case *ast.StructType:
					for _, fl := range x.Fields.List {
						if detIsMapTypeExpr(fl.Type, g.mapTypes) {
							for _, id := range fl.Names {
								g.mapFields[id.Name] = true
							}
						}
					}
				case *ast.FuncDecl:
					if x.Type.Results != nil && len(x.Type.Results.List) > 0 && detIsMapTypeExpr(x.Type.Results.List[0].Type, g.mapTypes) {
						g.mapFuncs[x.Name.Name] = true
					}
				case *ast.InterfaceType:
					for _, m := range x.Methods.List {
						if ft, ok := m.Type.(*ast.FuncType); ok && ft.Results != nil && len(ft.Results.List) > 0 && detIsMapTypeExpr(ft.Results.List[0].Type, g.mapTypes) {
							for _, id := range m.Names {
								g.mapFuncs[id.Name] = true
							}
						}
					}
				}
				return true
			})
		}
	}
	if nfiles < 50 {
		return fmt.Errorf("only %d source files found under %s/x and %s/app", nfiles, repo, repo)
	}
	g.buildFuncs()
	if dbg := os.Getenv("GOTRANS_DET_DEBUG"); dbg != "" {
		for _, df := range g.funcs {
			if df.name == dbg {
				seen := map[*detFunc]bool{}
				for cur := df; cur != nil && !seen[cur]; {
					seen[cur] = true
					var ks []string
					for k := range cur.eff {
						ks = append(ks, k)
					}
					sort.Strings(ks)
					fmt.Fprintln(os.Stderr, "debug:", detRel(l, cur.p), cur.name, ks)
					var next *detFunc
					for _, k := range ks {
						if strings.HasPrefix(k, "via:") {
							for _, t := range g.funcs {
								if t.name == k[4:] && len(t.eff) > 0 {
									next = t
								}
							}
						}
					}
					cur = next
				}
			}
		}
	}
	fields := g.fields()
	vars := g.pkgvars()
	ranges, untyped := g.ranges()
	sites := g.sites()
	if len(fields) < 20 {
		return fmt.Errorf("only %d keeper fields found", len(fields))
	}

	var sb strings.Builder
	sb.WriteString("(* GENERATED by tools/gotrans (gotrans determinism <repo> <out.v>) from the Go sources - DO NOT EDIT.\n")
	sb.WriteString("   Regenerated by ./check on every run; the committed copy only makes a fresh `make` work. *)\n")
	sb.WriteString("From Coq Require Import String List Bool.\nFrom Elys Require Import Models.Restart.\nImport ListNotations.\nOpen Scope string_scope.\n\n")
	b := func(x bool) string {
		if x {
			return "true"
		}
		return "false"
	}
	sb.WriteString("(* every field of every struct of the keeper packages: package, struct, field, shape of its type, type text, assigned outside New* *)\n")
	sb.WriteString("Definition fields : list kfield := [\n")
	for i, f := range fields {
		if i > 0 {
			sb.WriteString(";\n")
		}
		fmt.Fprintf(&sb, "  mkF %s %s %s K%s %s %s", q(f.Pkg), q(f.Struct), q(f.Name), f.Kind, q(f.Type), b(f.Assigned))
	}
	sb.WriteString("\n].\n\n")
	sb.WriteString("(* package-level variables: package, name, shape, type text, written outside init, where *)\n")
	sb.WriteString("Definition pkgvars : list pvar := [\n")
	for i, v := range vars {
		if i > 0 {
			sb.WriteString(";\n")
		}
		w := strings.Join(v.Where, "; ")
		fmt.Fprintf(&sb, "  mkV %s %s K%s %s %s %s", q(v.Pkg), q(v.Name), v.Kind, q(v.Type), b(v.Mutated), q(w))
	}
	sb.WriteString("\n].\n\n")
	sb.WriteString("(* every range over a map: package, function, ranged expression, classification of the loop body,\n   whether the enclosing function can reach a store write / bank call / event, whether go/types determined the type *)\n")
	sb.WriteString("Definition map_ranges : list mrange := [\n")
	for i, r := range ranges {
		if i > 0 {
			sb.WriteString(";\n")
		}
		cls := "R" + r.Class
		if r.Class == "Writes" || r.Class == "Review" {
			cls = "(R" + r.Class + " " + q(r.Arg) + ")"
		}
		fmt.Fprintf(&sb, "  mkR %s %s %s %s %s %s", q(r.Pkg), q(r.Func), q(r.Expr), cls, b(r.FnWrites), b(r.Typed))
	}
	sb.WriteString("\n].\n\n")
	sb.WriteString("(* wall clock, randomness, goroutines, select, environment, unsafe, pointer printing *)\n")
	sb.WriteString("Definition nd_sites : list ndsite := [\n")
	for i, s := range sites {
		if i > 0 {
			sb.WriteString(";\n")
		}
		fmt.Fprintf(&sb, "  mkN %s %s N%s %s", q(s.Pkg), q(s.Func), s.Kind, q(s.Context))
	}
	sb.WriteString("\n].\n")
	if err := os.MkdirAll(filepath.Dir(out), 0o755); err != nil {
		return err
	}
	if err := writeIfChanged(out, []byte(sb.String())); err != nil {
		return err
	}
	nstub := 0
	for range l.stubs {
		nstub++
	}
	js, _ := json.MarshalIndent(map[string]interface{}{"fields": fields, "pkgvars": vars, "map_ranges": ranges, "nd_sites": sites,
		"stats": map[string]int{"source_files_in_scope": nfiles, "tree_packages": len(paths), "functions": len(g.funcs),
			"ranges_with_undetermined_type_not_maps_syntactically": untyped, "stub_packages": nstub}}, "", " ")
	return writeIfChanged(filepath.Join(filepath.Dir(out), "determinism.json"), append(js, '\n'))
}
