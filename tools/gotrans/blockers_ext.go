// blockers_ext.go: EXTERNAL panic surface of the C18 table (additive part of `gotrans blockers`).
//
// The closure of blockers.go stays inside x/. The Elys blockers nevertheless call into the cosmos-sdk distribution
// keeper, directly (estaking WithdrawAllRewards -> distrKeeper.WithdrawDelegationRewards, the distribution wrapper's
// AllocateTokensToValidator) and through the staking hooks fired by estaking's commitment hooks
// (k.Keeper.Hooks().AfterDelegationModified / BeforeDelegationSharesModified / ... -> distribution Hooks ->
// initializeDelegation / withdrawDelegationRewards). That code holds explicit sanity-check panics
// ("calculated final stake ... greater than current stake", "negative rewards", reference counts ...), which abort
// FinalizeBlock when they are reached from an end blocker outside any recover frame.
//
// For every call site in a blocker's closure that is NOT resolved inside x/ and that names a method of the SDK's
// x/distribution/keeper package (receiver text mentions the distribution keeper, or is the staking hook multiplexer
// `...Hooks()`, or is `am.keeper` of the distribution wrapper) one point of kind `extpanic` is emitted:
//
//	fn      the Elys function that makes the call
//	detail  the call as written (k.distrKeeper.WithdrawDelegationRewards)
//	count   the number of explicit panic(...) sites reachable from that method by a name-based closure INSIDE the
//	        SDK package (parsed from the module cache at the version pinned in go.mod): an SDK upgrade that adds a
//	        sanity panic raises the count above the reviewed maximum
//
// The names of the SDK functions holding those sites go into blockers.json (`ext_sites`) for the reader.
// Nothing here says WHEN such a panic fires: the guard the Elys code relies on (distribution's recorded starting
// stake of a delegation never exceeds its current stake, i.e. every change of a real or virtual delegation is
// bracketed by the Before*/After* hooks and the After hook reads the amount already stored) is an assumption of
// the Coq model (review class RSdk) and is exercised only by the correspondence run (staking histories).
package main

import (
	"go/ast"
	"go/parser"
	"go/token"
	"os"
	"path/filepath"
	"sort"
	"strings"
)

const blkExtPkg = "github.com/cosmos/cosmos-sdk/x/distribution/keeper"

type blkExt struct {
	ok    bool
	decls map[string][]*ast.FuncDecl // by function / method name
	memo  map[string][]string        // entry method -> sorted names of the functions holding reachable panic sites (one per site)
}

func blkLoadExt(repo string) *blkExt {
	e := &blkExt{decls: map[string][]*ast.FuncDecl{}, memo: map[string][]string{}}
	l := &detLoader{repo: repo}
	l.modcache = os.Getenv("GOMODCACHE")
	if l.modcache == "" {
		gp := os.Getenv("GOPATH")
		if gp == "" {
			if h, err := os.UserHomeDir(); err == nil {
				gp = filepath.Join(h, "go")
			}
		}
		l.modcache = filepath.Join(strings.Split(gp, string(os.PathListSeparator))[0], "pkg", "mod")
	}
	if err := l.readGoMod(); err != nil {
		return e
	}
	dir := l.moduleDir(blkExtPkg)
	if dir == "" {
		return e
	}
	ents, err := os.ReadDir(dir)
	if err != nil {
		return e
	}
	fset := token.NewFileSet()
	for _, en := range ents {
		n := en.Name()
		if en.IsDir() || !strings.HasSuffix(n, ".go") || strings.HasSuffix(n, "_test.go") {
			continue
		}
		f, err := parser.ParseFile(fset, filepath.Join(dir, n), nil, 0)
		if err != nil {
			continue
		}
		for _, d := range f.Decls {
			if fd, ok := d.(*ast.FuncDecl); ok && fd.Body != nil {
				e.decls[fd.Name.Name] = append(e.decls[fd.Name.Name], fd)
			}
		}
	}
	e.ok = len(e.decls) > 0
	return e
}

// has: the SDK package has a METHOD of that name (receiver Keeper or Hooks)
func (e *blkExt) has(method string) bool {
	for _, fd := range e.decls[method] {
		if fd.Recv != nil && len(fd.Recv.List) == 1 {
			switch blkRecvType(fd.Recv.List[0].Type) {
			case "Keeper", "Hooks":
				return true
			}
		}
	}
	return false
}

// sites: names of the SDK functions holding the explicit panic sites reachable from `method` (one entry per site)
func (e *blkExt) sites(method string) []string {
	if s, ok := e.memo[method]; ok {
		return s
	}
	seen := map[*ast.FuncDecl]bool{}
	var out []string
	var walk func(fd *ast.FuncDecl)
	walk = func(fd *ast.FuncDecl) {
		if seen[fd] {
			return
		}
		seen[fd] = true
		ast.Inspect(fd.Body, func(n ast.Node) bool {
			c, ok := n.(*ast.CallExpr)
			if !ok {
				return true
			}
			name := ""
			switch f := c.Fun.(type) {
			case *ast.Ident:
				name = f.Name
				if name == "panic" {
					out = append(out, fd.Name.Name)
					return true
				}
			case *ast.SelectorExpr:
				name = f.Sel.Name
				// k.X(...), h.k.X(...): methods of this package; collections (k.FeePool.Get ...) and other packages
				// have names that are no function of this package
			}
			for _, d := range e.decls[name] {
				walk(d)
			}
			return true
		})
	}
	for _, fd := range e.decls[method] {
		walk(fd)
	}
	sort.Strings(out)
	e.memo[method] = out
	return out
}

// extCall: is this unresolved call a call into the SDK distribution keeper package? returns the method name
func (e *blkExt) extCall(from *blkFn, c *ast.CallExpr) (string, bool) {
	if e == nil || !e.ok {
		return "", false
	}
	sel, ok := c.Fun.(*ast.SelectorExpr)
	if !ok {
		return "", false
	}
	recv := blkText(sel.X)
	lr := strings.ToLower(recv)
	viaDistr := strings.Contains(lr, "distr")
	viaHooks := strings.HasSuffix(recv, ".Hooks()")
	viaWrapper := strings.HasSuffix(from.pkg, "/modules/distribution") && recv == from.recvName+".keeper"
	if !(viaDistr || viaHooks || viaWrapper) || !e.has(sel.Sel.Name) {
		return "", false
	}
	return sel.Sel.Name, true
}
