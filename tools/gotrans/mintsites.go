package main

// Table "mintsites" (property C15).
//
// Every call `X.MintCoins(ctx, <module account>, <coins>)` / `X.BurnCoins(...)` in the non-test Go code of
// x/ and app/ of the tree, whether X is a bank keeper or a wrapper with the same method name (the commitment
// keeper's MintCoins/BurnCoins, which book Eden/EdenB as claimed balances and forward the rest to the bank),
// plus every call of an in-tree function that forwards one of ITS parameters as the coins of such a call
// (private wrappers like burner.burnCoins / burnTokensForDenom), with
//
//   - file (and line, in the JSON only), enclosing function and its receiver type, Elys module (x/<mod>),
//   - mint | burn, the callee (bank keeper or wrapper name),
//   - the module account argument (resolved `types.ModuleName` constants, otherwise the expression text),
//   - the SYNTACTIC class of the denomination of every coin of the coins argument:
//       DElys            the constant ptypes.Elys
//       DElysGuarded     an expression e inside the body of `if e == ptypes.Elys`
//       DEden / DEdenB   the constants ptypes.Eden / ptypes.EdenB
//       DPoolShare       a call of x/amm/types.GetPoolShareDenom
//       DVaultShare      a call of x/stablestake/types.GetShareDenom
//       DZeroBal         element of the result of an in-tree function that reads GetBalance(ctx, GetZeroAddress(), ..)
//       DParam f         a parameter of the enclosing function f (coins passed in)
//       DOther text      anything else
//     local variables assigned once are resolved; `sdk.NewCoins(..)`, `sdk.Coins{..}`, `sdk.NewCoin(d, a)`,
//     `.Sort()` are looked through,
//   - origin: for a DParam site the classes found at the (transitive, depth <= 4) call sites of the enclosing
//     function; equal to the direct classes otherwise,
//   - reachability class of the enclosing function over a NAME-based reference graph (an edge f -> g whenever the
//     body of a function named f mentions an identifier or selector named g and a function named g is
//     declared in x/ or app/; all same-named functions are merged, so the graph over-approximates calls,
//     interface dispatch and function values):
//       REntry      some non-migration, non-test function mentions it, or it is itself an entry point
//                   (method of msgServer / a *Hooks* type / AppModule, Begin/EndBlocker, epoch hooks, ante, IBC callbacks)
//       RMigOnly    mentioned only by migration code (receiver Migrator, a `migrations` directory, setUpgradeHandler)
//       RTestOnly   mentioned only by test helpers that live in non-test files (app/test_setup.go, testutil)
//       RDead       mentioned by nobody and not a known entry point (the check treats this as not allowed:
//                   the translator cannot tell who calls it)
//     NOT seen: reflection, go:linkname, calls from outside x/ and app/ into exported functions that are not
//     one of the entry-point shapes above.
//   - maccPerms of app/modules.go (module account -> permissions).
//
// What the translator OMITS is trusted; what it EMITS is cross-checked by the correspondence run
// (harness/c15_test.go): every mint / burn the bank performs at run time must map to a listed entry-reachable site.

import (
	"encoding/json"
	"fmt"
	"go/ast"
	"go/parser"
	"go/token"
	"os"
	"path/filepath"
	"sort"
	"strings"
)

type msFunc struct {
	name, recv, file, dir string
	decl                  *ast.FuncDecl
	imports               map[string]string // local name -> import path
	mig, test             bool
}

type MintSite struct {
	File   string   `json:"file"`
	Line   int      `json:"line"`
	Func   string   `json:"func"`
	Recv   string   `json:"recv"`
	Module string   `json:"module"`
	Kind   string   `json:"kind"`   // mint | burn
	Target string   `json:"target"` // bank | wrap:<name>
	Macc   string   `json:"macc"`
	Denoms []string `json:"denoms"`
	Origin []string `json:"origin"`
	Strip  bool     `json:"strips_virtual"` // the coins pass through the commitment wrapper (Eden/EdenB never reach the bank)
	Reach  string   `json:"reach"`
	Via    []string `json:"referrers"`
}

type msTree struct {
	repo    string
	fset    *token.FileSet
	funcs   []*msFunc
	byName  map[string][]*msFunc
	fields  map[string]map[string]string // dir -> field name -> type text
	consts  map[string]string            // dir -> ModuleName
	refs    map[string]map[string]bool   // name -> names mentioned
	refBy   map[string]map[string]bool
}

func msSkipDir(name string) bool {
	switch name {
	case "mocks", "cli", "simulation", "docs", "spec", "specs":
		return true
	}
	return false
}

func msLoad(repo string) (*msTree, error) {
	t := &msTree{repo: repo, fset: token.NewFileSet(), byName: map[string][]*msFunc{}, fields: map[string]map[string]string{},
		consts: map[string]string{}, refs: map[string]map[string]bool{}, refBy: map[string]map[string]bool{}}
	for _, top := range []string{"x", "app"} {
		err := filepath.Walk(filepath.Join(repo, top), func(path string, info os.FileInfo, err error) error {
			if err != nil {
				return err
			}
			if info.IsDir() {
				if msSkipDir(info.Name()) {
					return filepath.SkipDir
				}
				return nil
			}
			n := info.Name()
			if !strings.HasSuffix(n, ".go") || strings.HasSuffix(n, "_test.go") || strings.HasSuffix(n, ".pb.go") || strings.HasSuffix(n, ".pb.gw.go") {
				return nil
			}
			f, err := parser.ParseFile(t.fset, path, nil, 0)
			if err != nil {
				return err
			}
			rel, _ := filepath.Rel(repo, path)
			dir := filepath.Dir(rel)
			imps := map[string]string{}
			for _, im := range f.Imports {
				p := strings.Trim(im.Path.Value, `"`)
				name := p[strings.LastIndex(p, "/")+1:]
				if im.Name != nil {
					name = im.Name.Name
				}
				imps[name] = p
			}
			isTest := strings.HasPrefix(n, "test_") || strings.Contains(rel, "testutil") || strings.Contains(rel, "/testdata/")
			for _, d := range f.Decls {
				switch d := d.(type) {
				case *ast.FuncDecl:
					if d.Body == nil {
						continue
					}
					fn := &msFunc{name: d.Name.Name, file: rel, dir: dir, decl: d, imports: imps, test: isTest}
					if d.Recv != nil && len(d.Recv.List) > 0 {
						fn.recv = strings.TrimPrefix(exprString(d.Recv.List[0].Type), "*")
					}
					fn.mig = fn.recv == "Migrator" || strings.HasSuffix(dir, "/migrations") || fn.name == "setUpgradeHandler"
					t.funcs = append(t.funcs, fn)
					t.byName[fn.name] = append(t.byName[fn.name], fn)
				case *ast.GenDecl:
					for _, sp := range d.Specs {
						switch sp := sp.(type) {
						case *ast.TypeSpec:
							if st, ok := sp.Type.(*ast.StructType); ok {
								if t.fields[dir] == nil {
									t.fields[dir] = map[string]string{}
								}
								for _, fl := range st.Fields.List {
									for _, nm := range fl.Names {
										t.fields[dir][nm.Name] = exprString(fl.Type)
									}
								}
							}
						case *ast.ValueSpec:
							for i, nm := range sp.Names {
								if nm.Name == "ModuleName" && i < len(sp.Values) {
									if bl, ok := sp.Values[i].(*ast.BasicLit); ok {
										t.consts[dir] = strings.Trim(bl.Value, `"`)
									}
								}
							}
						}
					}
				}
			}
			return nil
		})
		if err != nil {
			return nil, err
		}
	}
	// name-based reference graph
	for _, fn := range t.funcs {
		if t.refs[fn.name] == nil {
			t.refs[fn.name] = map[string]bool{}
		}
		ast.Inspect(fn.decl.Body, func(n ast.Node) bool {
			var nm string
			switch x := n.(type) {
			case *ast.SelectorExpr:
				nm = x.Sel.Name
			case *ast.Ident:
				nm = x.Name
			}
			if nm != "" && nm != fn.name && len(t.byName[nm]) > 0 {
				t.refs[fn.name][nm] = true
				if t.refBy[nm] == nil {
					t.refBy[nm] = map[string]bool{}
				}
				t.refBy[nm][fn.name] = true
			}
			return true
		})
	}
	return t, nil
}

// a name is "migration" / "test" only if EVERY function of that name is
func (t *msTree) allMig(name string) bool {
	for _, f := range t.byName[name] {
		if !f.mig {
			return false
		}
	}
	return len(t.byName[name]) > 0
}
func (t *msTree) allTest(name string) bool {
	for _, f := range t.byName[name] {
		if !f.test {
			return false
		}
	}
	return len(t.byName[name]) > 0
}

var msEntryNames = map[string]bool{"BeginBlocker": true, "EndBlocker": true, "BeginBlock": true, "EndBlock": true, "PreBlocker": true,
	"AfterEpochEnd": true, "BeforeEpochStart": true, "AnteHandle": true, "PostHandle": true, "InitGenesis": true, "InitChainer": true,
	"OnRecvPacket": true, "OnAcknowledgementPacket": true, "OnTimeoutPacket": true, "SendPacket": true, "WriteAcknowledgement": true,
	"PrepareProposal": true, "ProcessProposal": true}

func (t *msTree) isEntry(f *msFunc) bool {
	if f.mig || f.test {
		return false
	}
	if msEntryNames[f.name] {
		return true
	}
	r := f.recv
	return r == "msgServer" || strings.Contains(r, "Hooks") || r == "AppModule" || strings.HasSuffix(r, "Decorator") || r == "IBCMiddleware" || r == "IBCModule"
}

// reach classifies the enclosing function fn of a site.
func (t *msTree) reach(fn *msFunc) (string, []string) {
	// strict ancestors in the graph from which migration-only and test-only names are removed
	seen := map[string]bool{}
	var entryAnc, migRef, testRef []string
	var walk func(name string, depth int)
	walk = func(name string, depth int) {
		for r := range t.refBy[name] {
			if seen[r] {
				continue
			}
			seen[r] = true
			switch {
			case t.allMig(r):
				migRef = append(migRef, r)
			case t.allTest(r):
				testRef = append(testRef, r)
			default:
				entryAnc = append(entryAnc, r)
				walk(r, depth+1)
			}
		}
	}
	walk(fn.name, 0)
	sort.Strings(entryAnc)
	sort.Strings(migRef)
	sort.Strings(testRef)
	direct := func() []string {
		var d []string
		for r := range t.refBy[fn.name] {
			d = append(d, r)
		}
		sort.Strings(d)
		return d
	}
	switch {
	case fn.test:
		return "RTestOnly", direct()
	case fn.mig:
		return "RMigOnly", direct()
	case len(entryAnc) > 0 || t.isEntry(fn):
		return "REntry", direct()
	case len(migRef) > 0:
		return "RMigOnly", migRef
	case len(testRef) > 0:
		return "RTestOnly", testRef
	}
	return "RDead", nil
}

// ---------------------------------------------------------------- denomination classes

type msCtx struct {
	t     *msTree
	fn    *msFunc
	stack []ast.Node // enclosing nodes of the call being classified
}

func (c *msCtx) isParam(name string) bool {
	if c.fn.decl.Type.Params == nil {
		return false
	}
	for _, fl := range c.fn.decl.Type.Params.List {
		for _, n := range fl.Names {
			if n.Name == name {
				return true
			}
		}
	}
	return false
}

func (c *msCtx) paramIndex(name string) int {
	i := 0
	for _, fl := range c.fn.decl.Type.Params.List {
		if len(fl.Names) == 0 {
			i++
		}
		for _, n := range fl.Names {
			if n.Name == name {
				return i
			}
			i++
		}
	}
	return -1
}

// local definition of an identifier assigned exactly once in the enclosing function:
// (expr, "") for x := expr, (X, "range") for `for _, x := range X`
func (c *msCtx) local(name string) (ast.Expr, string) {
	var found []ast.Expr
	var kinds []string
	ast.Inspect(c.fn.decl.Body, func(n ast.Node) bool {
		switch s := n.(type) {
		case *ast.AssignStmt:
			for i, l := range s.Lhs {
				if id, ok := l.(*ast.Ident); ok && id.Name == name {
					if len(s.Rhs) == len(s.Lhs) {
						found = append(found, s.Rhs[i])
						kinds = append(kinds, "")
					} else {
						found = append(found, s.Rhs[0])
						kinds = append(kinds, "multi")
					}
				}
			}
		case *ast.RangeStmt:
			if id, ok := s.Value.(*ast.Ident); ok && id.Name == name {
				found = append(found, s.X)
				kinds = append(kinds, "range")
			}
			if id, ok := s.Key.(*ast.Ident); ok && id.Name == name {
				found = append(found, s.X)
				kinds = append(kinds, "rangekey")
			}
		case *ast.ValueSpec:
			for i, nm := range s.Names {
				if nm.Name == name && i < len(s.Values) {
					found = append(found, s.Values[i])
					kinds = append(kinds, "")
				}
			}
		}
		return true
	})
	if len(found) == 1 {
		return found[0], kinds[0]
	}
	return nil, fmt.Sprintf("%d assignments", len(found))
}

func (c *msCtx) importPath(x ast.Expr) string {
	if id, ok := x.(*ast.Ident); ok {
		return c.fn.imports[id.Name]
	}
	return ""
}

func (c *msCtx) guardedElys(d ast.Expr) bool {
	txt := exprString(d)
	if strings.Contains(txt, "?") {
		return false
	}
	for i := len(c.stack) - 1; i > 0; i-- {
		ifs, ok := c.stack[i-1].(*ast.IfStmt)
		if !ok || c.stack[i] != ast.Node(ifs.Body) {
			continue
		}
		be, ok := unparen(ifs.Cond).(*ast.BinaryExpr)
		if !ok || be.Op != token.EQL {
			continue
		}
		for _, p := range [][2]ast.Expr{{be.X, be.Y}, {be.Y, be.X}} {
			if exprString(p[0]) == txt && c.denomConst(p[1]) == "DElys" {
				return true
			}
		}
	}
	return false
}

func (c *msCtx) denomConst(d ast.Expr) string {
	if se, ok := unparen(d).(*ast.SelectorExpr); ok && strings.HasSuffix(c.importPath(se.X), "/x/parameter/types") {
		switch se.Sel.Name {
		case "Elys":
			return "DElys"
		case "Eden":
			return "DEden"
		case "EdenB":
			return "DEdenB"
		}
	}
	return ""
}

func (c *msCtx) classDenom(d ast.Expr, depth int) string {
	d = unparen(d)
	if k := c.denomConst(d); k != "" {
		return k
	}
	if ce, ok := d.(*ast.CallExpr); ok {
		nm, pkgp := "", ""
		switch f := ce.Fun.(type) {
		case *ast.SelectorExpr:
			nm, pkgp = f.Sel.Name, c.importPath(f.X)
		case *ast.Ident:
			nm, pkgp = f.Name, "local:"+c.fn.dir
		}
		if nm == "GetPoolShareDenom" && (strings.HasSuffix(pkgp, "/x/amm/types") || pkgp == "local:x/amm/types") {
			return "DPoolShare"
		}
		if nm == "GetShareDenom" && (strings.HasSuffix(pkgp, "/x/stablestake/types") || pkgp == "local:x/stablestake/types") {
			return "DVaultShare"
		}
	}
	if c.guardedElys(d) {
		return "DElysGuarded"
	}
	if id, ok := d.(*ast.Ident); ok && depth < 6 {
		if c.isParam(id.Name) {
			return "DParam " + q(c.fn.name)
		}
		if e, kind := c.local(id.Name); e != nil && kind == "" {
			return c.classDenom(e, depth+1)
		}
	}
	return "DOther " + q(exprString(d))
}

func isSdkCall(ce *ast.CallExpr, names ...string) bool {
	se, ok := ce.Fun.(*ast.SelectorExpr)
	if !ok {
		return false
	}
	for _, n := range names {
		if se.Sel.Name == n {
			if id, ok := se.X.(*ast.Ident); ok && (id.Name == "sdk" || id.Name == "sdktypes" || id.Name == "types") {
				return true
			}
		}
	}
	return false
}

// zeroBalanceFn: does the in-tree function `name` read GetBalance/GetAllBalances of GetZeroAddress()?
func (c *msCtx) zeroBalanceFn(name string) bool {
	for _, g := range c.t.byName[name] {
		gc := &msCtx{t: c.t, fn: g}
		hit := false
		ast.Inspect(g.decl.Body, func(n ast.Node) bool {
			ce, ok := n.(*ast.CallExpr)
			if !ok || len(ce.Args) < 2 {
				return true
			}
			se, ok := ce.Fun.(*ast.SelectorExpr)
			if !ok || (se.Sel.Name != "GetBalance" && se.Sel.Name != "GetAllBalances" && se.Sel.Name != "SpendableCoins") {
				return true
			}
			a := unparen(ce.Args[1])
			if id, ok := a.(*ast.Ident); ok {
				if e, k := gc.local(id.Name); e != nil && k == "" {
					a = unparen(e)
				}
			}
			if ac, ok := a.(*ast.CallExpr); ok && strings.HasSuffix(callName(ac), "GetZeroAddress") {
				hit = true
			}
			return true
		})
		if hit {
			return true
		}
	}
	return false
}

// coinDenoms: classes of the denominations of a coins (or coin) expression
func (c *msCtx) coinDenoms(x ast.Expr, depth int) []string {
	x = unparen(x)
	if depth > 8 {
		return []string{"DOther " + q(exprString(x))}
	}
	switch e := x.(type) {
	case *ast.CallExpr:
		if isSdkCall(e, "NewCoins") {
			var out []string
			for _, a := range e.Args {
				out = append(out, c.coinDenoms(a, depth+1)...)
			}
			if len(out) > 0 {
				return out
			}
		}
		if isSdkCall(e, "NewCoin", "NewInt64Coin") && len(e.Args) == 2 {
			return []string{c.classDenom(e.Args[0], 0)}
		}
		if se, ok := e.Fun.(*ast.SelectorExpr); ok && se.Sel.Name == "Sort" && len(e.Args) == 0 {
			return c.coinDenoms(se.X, depth+1)
		}
	case *ast.CompositeLit:
		if ts := exprString(e.Type); strings.HasSuffix(ts, "Coins") {
			var out []string
			for _, el := range e.Elts {
				out = append(out, c.coinDenoms(el, depth+1)...)
			}
			if len(out) > 0 {
				return out
			}
		}
		if ts := exprString(e.Type); strings.HasSuffix(ts, "Coin") {
			for _, el := range e.Elts {
				if kv, ok := el.(*ast.KeyValueExpr); ok && exprString(kv.Key) == "Denom" {
					return []string{c.classDenom(kv.Value, 0)}
				}
			}
		}
	case *ast.IndexExpr:
		// coll[key]: an element of a collection, same origin as the value of a range over it
		src := unparen(e.X)
		if id, ok := src.(*ast.Ident); ok {
			if d2, k2 := c.local(id.Name); d2 != nil && k2 == "" {
				src = unparen(d2)
			}
		}
		if ce, ok := src.(*ast.CallExpr); ok {
			nm := callName(ce)
			if i := strings.LastIndex(nm, "."); i >= 0 {
				nm = nm[i+1:]
			}
			if c.zeroBalanceFn(nm) {
				return []string{"DZeroBal"}
			}
			return []string{"DOther " + q("element of "+nm+"()")}
		}
	case *ast.Ident:
		if c.isParam(e.Name) {
			return []string{"DParam " + q(c.fn.name)}
		}
		if d, kind := c.local(e.Name); d != nil {
			switch kind {
			case "":
				return c.coinDenoms(d, depth+1)
			case "range":
				// element of a collection: where does the collection come from?
				src := unparen(d)
				if id, ok := src.(*ast.Ident); ok {
					if d2, k2 := c.local(id.Name); d2 != nil && k2 == "" {
						src = unparen(d2)
					}
				}
				if ce, ok := src.(*ast.CallExpr); ok {
					nm := callName(ce)
					if i := strings.LastIndex(nm, "."); i >= 0 {
						nm = nm[i+1:]
					}
					if c.zeroBalanceFn(nm) {
						return []string{"DZeroBal"}
					}
					return []string{"DOther " + q("element of "+nm+"()")}
				}
			}
		}
	}
	return []string{"DOther " + q(exprString(x))}
}

// receiver class of `X.MintCoins`: bank | commitment | other
func (c *msCtx) recvClass(x ast.Expr) string {
	name := ""
	switch e := unparen(x).(type) {
	case *ast.SelectorExpr:
		name = e.Sel.Name
	case *ast.Ident:
		name = e.Name
	}
	ty := ""
	if m := c.t.fields[c.fn.dir]; m != nil {
		ty = m[name]
	}
	if ty == "" {
		for _, m := range c.t.fields {
			if v, ok := m[name]; ok {
				ty += v + " "
			}
		}
	}
	l := strings.ToLower(ty + " " + name)
	switch {
	case strings.Contains(strings.ToLower(ty), "bank") || (ty == "" && (strings.Contains(l, "bank") || name == "bk")):
		return "bank"
	case strings.Contains(l, "commitment") || strings.Contains(l, "commkeeper"):
		return "commitment"
	case strings.Contains(l, "bank") || name == "bk":
		return "bank"
	}
	return "other"
}

func (t *msTree) moduleOf(rel string) string {
	parts := strings.Split(rel, "/")
	if len(parts) >= 2 && parts[0] == "x" {
		return parts[1]
	}
	return parts[0]
}

func (c *msCtx) maccOf(x ast.Expr) string {
	x = unparen(x)
	if se, ok := x.(*ast.SelectorExpr); ok && se.Sel.Name == "ModuleName" {
		p := c.importPath(se.X)
		if i := strings.Index(p, "/x/"); i >= 0 && strings.Contains(p, "elys-network/elys") {
			dir := "x/" + p[i+3:]
			if v, ok := c.t.consts[dir]; ok {
				return v
			}
		}
	}
	if id, ok := x.(*ast.Ident); ok && c.isParam(id.Name) {
		return "param:" + id.Name
	}
	return exprString(x)
}

// ---------------------------------------------------------------- site collection

type msCall struct {
	fn    *msFunc
	call  *ast.CallExpr
	stack []ast.Node
}

func (t *msTree) calls(pred func(fn *msFunc, ce *ast.CallExpr) bool) []msCall {
	var out []msCall
	for _, fn := range t.funcs {
		var stack []ast.Node
		ast.Inspect(fn.decl.Body, func(n ast.Node) bool {
			if n == nil {
				stack = stack[:len(stack)-1]
				return true
			}
			stack = append(stack, n)
			if ce, ok := n.(*ast.CallExpr); ok && pred(fn, ce) {
				out = append(out, msCall{fn, ce, append([]ast.Node{}, stack...)})
			}
			return true
		})
	}
	return out
}

func genMintSites(repo, out string) error {
	t, err := msLoad(repo)
	if err != nil {
		return err
	}
	var sites []MintSite
	type wrapKey struct {
		name string
		idx  int
		kind string
		bankAPI bool
	}
	done := map[string]bool{}
	var queue []wrapKey
	// origins of a DParam site: classes at the call sites of the wrapper
	wrapCallers := map[string][]*MintSite{}
	addSite := func(mc msCall, kind, target string, maccArg, coinsArg ast.Expr, strip bool) *MintSite {
		c := &msCtx{t: t, fn: mc.fn, stack: mc.stack}
		s := MintSite{File: mc.fn.file, Line: t.fset.Position(mc.call.Pos()).Line, Func: mc.fn.name, Recv: mc.fn.recv, Module: t.moduleOf(mc.fn.file),
			Kind: kind, Target: target, Strip: strip}
		if maccArg != nil {
			s.Macc = c.maccOf(maccArg)
		}
		s.Denoms = c.coinDenoms(coinsArg, 0)
		s.Reach, s.Via = t.reach(mc.fn)
		// the coins are a parameter of the enclosing function: its callers are sites too
		for _, d := range s.Denoms {
			if strings.HasPrefix(d, "DParam ") {
				id, _ := unparen(coinsArg).(*ast.Ident)
				if id == nil {
					// looked through NewCoins/Sort: find the parameter by name is not possible; leave as is
					continue
				}
				idx := c.paramIndex(id.Name)
				bankAPI := mc.fn.name == "MintCoins" || mc.fn.name == "BurnCoins"
				k := wrapKey{mc.fn.name, idx, kind, bankAPI}
				ks := fmt.Sprintf("%s/%d/%s", k.name, k.idx, k.kind)
				if idx >= 0 && !done[ks] {
					done[ks] = true
					queue = append(queue, k)
				}
			}
		}
		sites = append(sites, s)
		return &sites[len(sites)-1]
	}
	// 1. direct calls of MintCoins / BurnCoins
	for _, mc := range t.calls(func(fn *msFunc, ce *ast.CallExpr) bool {
		se, ok := ce.Fun.(*ast.SelectorExpr)
		return ok && (se.Sel.Name == "MintCoins" || se.Sel.Name == "BurnCoins") && len(ce.Args) == 3
	}) {
		se := mc.call.Fun.(*ast.SelectorExpr)
		kind := "mint"
		if se.Sel.Name == "BurnCoins" {
			kind = "burn"
		}
		c := &msCtx{t: t, fn: mc.fn, stack: mc.stack}
		rc := c.recvClass(se.X)
		if rc == "bank" || rc == "other" {
			// inside the commitment wrapper itself the coins have already lost their Eden/EdenB part
			strip := mc.fn.dir == "x/commitment/keeper" && (mc.fn.name == "MintCoins" || mc.fn.name == "BurnCoins")
			addSite(mc, kind, "bank", mc.call.Args[1], mc.call.Args[2], strip)
		} else {
			s := addSite(mc, kind, "wrap:"+se.Sel.Name, mc.call.Args[1], mc.call.Args[2], true)
			wrapCallers[se.Sel.Name+"/"+kind] = append(wrapCallers[se.Sel.Name+"/"+kind], s)
		}
	}
	// 2. callers of functions that forward a parameter (transitively)
	for depth := 0; len(queue) > 0 && depth < 4; depth++ {
		cur := queue
		queue = nil
		for _, k := range cur {
			if k.bankAPI {
				continue // callers were collected in step 1 by receiver class
			}
			for _, mc := range t.calls(func(fn *msFunc, ce *ast.CallExpr) bool {
				nm := ""
				switch f := ce.Fun.(type) {
				case *ast.SelectorExpr:
					nm = f.Sel.Name
				case *ast.Ident:
					nm = f.Name
				}
				return nm == k.name && len(ce.Args) > k.idx
			}) {
				s := addSite(mc, k.kind, "wrap:"+k.name, nil, mc.call.Args[k.idx], false)
				wrapCallers[k.name+"/"+k.kind] = append(wrapCallers[k.name+"/"+k.kind], s)
			}
		}
	}
	// 3. origins
	var origin func(s *MintSite, depth int) []string
	origin = func(s *MintSite, depth int) []string {
		var out []string
		for _, d := range s.Denoms {
			if strings.HasPrefix(d, "DParam ") && depth < 5 {
				// a forwarding function nobody calls contributes no origin at all
				cs := wrapCallers[s.Func+"/"+s.Kind]
				for _, c2 := range cs {
					out = append(out, origin(c2, depth+1)...)
				}
			} else {
				out = append(out, d)
			}
		}
		return out
	}
	for i := range sites {
		o := origin(&sites[i], 0)
		sort.Strings(o)
		u := []string{}
		for _, x := range o {
			if len(u) == 0 || u[len(u)-1] != x {
				u = append(u, x)
			}
		}
		sites[i].Origin = u
	}
	sort.SliceStable(sites, func(i, j int) bool {
		a, b := sites[i], sites[j]
		if a.File != b.File {
			return a.File < b.File
		}
		if a.Line != b.Line {
			return a.Line < b.Line
		}
		return a.Target < b.Target
	})
	perms, err := msPerms(t)
	if err != nil {
		return err
	}
	// Coq
	var sb strings.Builder
	sb.WriteString("(* GENERATED by tools/gotrans (gotrans mintsites <repo> <out.v>) from the Go sources - DO NOT EDIT.\n")
	sb.WriteString("   Regenerated by ./check on every run; the committed copy only makes a fresh `make` work. *)\n")
	sb.WriteString("From Coq Require Import String List.\nFrom Elys Require Import Models.Supply.\nImport ListNotations.\nOpen Scope string_scope.\n\n")
	sb.WriteString("Definition sites : list site := [\n")
	lst := func(xs []string) string { return "[" + strings.Join(xs, "; ") + "]" }
	for i, s := range sites {
		if i > 0 {
			sb.WriteString(";\n")
		}
		k := "Mint"
		if s.Kind == "burn" {
			k = "Burn"
		}
		tg := "TBank"
		if strings.HasPrefix(s.Target, "wrap:") {
			tg = "(TWrap " + q(strings.TrimPrefix(s.Target, "wrap:")) + ")"
		}
		fmt.Fprintf(&sb, "  mkSite %s %s %s %s %s %s %s %s %v %s", q(s.File), q(s.Func), q(s.Module), q(s.Macc), k, tg, lst(s.Denoms), lst(s.Origin), s.Strip, s.Reach)
	}
	sb.WriteString("\n].\n\n(* app/modules.go maccPerms: module account expression, resolved name, permissions *)\n")
	sb.WriteString("Definition macc_perms : list (string * string * list string) := [\n")
	for i, p := range perms {
		if i > 0 {
			sb.WriteString(";\n")
		}
		var ps []string
		for _, x := range p.Perms {
			ps = append(ps, q(x))
		}
		fmt.Fprintf(&sb, "  (%s, %s, %s)", q(p.Expr), q(p.Name), lst(ps))
	}
	sb.WriteString("\n].\n")
	if err := os.MkdirAll(filepath.Dir(out), 0o755); err != nil {
		return err
	}
	if err := writeIfChanged(out, []byte(sb.String())); err != nil {
		return err
	}
	js, _ := json.MarshalIndent(map[string]interface{}{"sites": sites, "macc_perms": perms}, "", " ")
	return writeIfChanged(filepath.Join(filepath.Dir(out), "mintsites.json"), append(js, '\n'))
}

type msPerm struct {
	Expr  string   `json:"expr"`
	Name  string   `json:"name"`
	Perms []string `json:"perms"`
}

func msPerms(t *msTree) ([]msPerm, error) {
	path := filepath.Join(t.repo, "app", "modules.go")
	f, err := parser.ParseFile(token.NewFileSet(), path, nil, 0)
	if err != nil {
		return nil, err
	}
	imps := map[string]string{}
	for _, im := range f.Imports {
		p := strings.Trim(im.Path.Value, `"`)
		name := p[strings.LastIndex(p, "/")+1:]
		if im.Name != nil {
			name = im.Name.Name
		}
		imps[name] = p
	}
	var out []msPerm
	found := false
	ast.Inspect(f, func(n ast.Node) bool {
		vs, ok := n.(*ast.ValueSpec)
		if !ok || len(vs.Names) != 1 || vs.Names[0].Name != "maccPerms" || len(vs.Values) != 1 {
			return true
		}
		cl, ok := vs.Values[0].(*ast.CompositeLit)
		if !ok {
			return true
		}
		found = true
		for _, el := range cl.Elts {
			kv, ok := el.(*ast.KeyValueExpr)
			if !ok {
				continue
			}
			p := msPerm{Expr: exprString(kv.Key), Perms: []string{}}
			if se, ok := kv.Key.(*ast.SelectorExpr); ok && se.Sel.Name == "ModuleName" {
				if id, ok := se.X.(*ast.Ident); ok {
					ip := imps[id.Name]
					if i := strings.Index(ip, "/x/"); i >= 0 && strings.Contains(ip, "elys-network/elys") {
						p.Name = t.consts["x/"+ip[i+3:]]
					}
				}
			}
			if vl, ok := kv.Value.(*ast.CompositeLit); ok {
				for _, e := range vl.Elts {
					s := exprString(e)
					if i := strings.LastIndex(s, "."); i >= 0 {
						s = s[i+1:]
					}
					p.Perms = append(p.Perms, s)
				}
			}
			out = append(out, p)
		}
		return false
	})
	if !found {
		return nil, fmt.Errorf("maccPerms not found in app/modules.go")
	}
	sort.Slice(out, func(i, j int) bool { return out[i].Expr < out[j].Expr })
	return out, nil
}
