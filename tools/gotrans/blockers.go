// gotrans blockers <repo> <out.v>  (C18)
//
// For every module in the production SetOrderBeginBlockers / SetOrderEndBlockers lists
// (app/modules.go orderBeginBlockers / orderEndBlockers) one record; for the Elys modules (x/<m>/module.go,
// x/<m>/modules/<n>/module.go) the record says whether the module method is trivial, whether an error
// value of the keeper's blocker is RETURNED to the module manager (=> FinalizeBlock fails) or dropped,
// and lists the syntactic FAILURE POINTS reachable from it by a name-based call-graph closure inside x/
// (depth-limited, see blkMaxDepth):
//
//	panic    explicit panic(...)
//	must     X.Must*(...) with a non-literal argument
//	quo      .Quo/.QuoInt/.QuoInt64/.QuoRaw/.QuoTruncate/.QuoRoundUp/... whose divisor is not a literal and is
//	         not tested (IsZero/IsPositive/IsNegative/comparison) in the same function
//	newcoin  sdk.NewCoin(d, a) whose amount is not tested in the same function (negative amount panics)
//	coinsub  Coins.Sub(x...) / <..>Coins.Sub(..) (panics when the result would be negative) without IsAllGTE
//	index    x[<int literal>] without len(x) in the same function
//	codec    cdc.MustMarshal / MustUnmarshal / address.MustLengthPrefix (store integrity; informational)
//	err      a fresh error value returned on a path on which every caller hands the error upwards
//	exterr   the error of a callee outside x/ (bank, staking, ...) handed upwards on such a path
//
// each with: guarded (the syntactic guard above is present), recovered (EVERY path from the blocker to
// the function passes a frame with `defer func() { recover() }`), live (err kinds: the error reaches
// the module method's return; panic kinds: always true) and the call depth.
// The epochs hooks wired in app/keepers/keepers.go (NewMultiEpochHooks) are emitted as blockers of
// phase EpochAfter / EpochBefore; their errors reach `panic(err)` in x/epochs BeginBlocker.
//
// What it cannot see: anything behind an interface or function value that is not resolvable by
// method NAME inside x/ (SDK keepers: bank, staking, distribution, IBC), panics inside the SDK
// (math.Int overflow, store), callees deeper than blkMaxDepth (counted in `cut`), guards that
// live in a caller or in a validated parameter (those points appear as unguarded and must be
// reviewed in coq/Models/Blocks.v), and types (receivers are matched by name and by a field-name hint).
//
// Output is deterministic and contains no line numbers.
package main

import (
	"encoding/json"
	"fmt"
	"go/ast"
	"go/parser"
	"go/printer"
	"go/token"
	"os"
	"path/filepath"
	"sort"
	"strconv"
	"strings"
)

const blkMaxDepth = 6

type blkPoint struct {
	Fn        string `json:"fn"`
	Kind      string `json:"kind"`
	Detail    string `json:"detail"`
	Count     int    `json:"count"`
	Guarded   bool   `json:"guarded"`
	Recovered bool   `json:"recovered"`
	Live      bool   `json:"live"`
	Depth     int    `json:"depth"`
}

type blkBlocker struct {
	ID         int        `json:"id"`
	Module     string     `json:"module"`
	Phase      string     `json:"phase"` // begin | end | epoch_after | epoch_before
	Pos        int        `json:"pos"`
	Elys       bool       `json:"elys"`
	Pkg        string     `json:"pkg"`
	Trivial    bool       `json:"trivial"`
	Propagates bool       `json:"propagates"`
	Roots      []string   `json:"roots"`
	Points     []blkPoint `json:"points"`
	Funcs      int        `json:"funcs"`
	Cut        int        `json:"cut"`
}

type blkFn struct {
	pkg      string // x/amm/keeper
	mod      string // amm
	recv     string // Keeper
	recvName string // k
	name     string
	decl     *ast.FuncDecl
	imports  map[string]string
	recovers bool
	retErr   bool
}

func (f *blkFn) id() string {
	if f.recv != "" {
		return f.pkg + "." + f.recv + "." + f.name
	}
	return f.pkg + "." + f.name
}

type blkIndex struct {
	fset   *token.FileSet
	byName map[string][]*blkFn
	all    []*blkFn
	ext    *blkExt // SDK distribution keeper package (blockers_ext.go); nil: external panic surface not listed
}

func blkRecvType(e ast.Expr) string {
	switch t := e.(type) {
	case *ast.StarExpr:
		return blkRecvType(t.X)
	case *ast.Ident:
		return t.Name
	case *ast.IndexExpr:
		return blkRecvType(t.X)
	}
	return ""
}

func blkLoad(repo string) (*blkIndex, error) {
	ix := &blkIndex{fset: blkFset, byName: map[string][]*blkFn{}}
	root := filepath.Join(repo, "x")
	var files []string
	err := filepath.Walk(root, func(p string, info os.FileInfo, err error) error {
		if err != nil {
			return err
		}
		if info.IsDir() {
			switch info.Name() {
			case "client", "simulation", "testutil", "migrations", "spec", "docs", "mocks":
				return filepath.SkipDir
			}
			return nil
		}
		n := info.Name()
		if !strings.HasSuffix(n, ".go") || strings.HasSuffix(n, "_test.go") || strings.HasSuffix(n, ".pb.go") || strings.HasSuffix(n, ".pb.gw.go") {
			return nil
		}
		files = append(files, p)
		return nil
	})
	if err != nil {
		return nil, err
	}
	sort.Strings(files)
	for _, p := range files {
		af, err := parser.ParseFile(ix.fset, p, nil, 0)
		if err != nil {
			return nil, err
		}
		rel, _ := filepath.Rel(repo, filepath.Dir(p))
		rel = filepath.ToSlash(rel)
		parts := strings.Split(rel, "/")
		mod := ""
		if len(parts) >= 2 {
			mod = parts[1]
		}
		imports := map[string]string{}
		for _, im := range af.Imports {
			path, _ := strconv.Unquote(im.Path.Value)
			alias := path[strings.LastIndex(path, "/")+1:]
			if im.Name != nil {
				alias = im.Name.Name
			}
			imports[alias] = path
		}
		for _, d := range af.Decls {
			fd, ok := d.(*ast.FuncDecl)
			if !ok || fd.Body == nil {
				continue
			}
			f := &blkFn{pkg: rel, mod: mod, name: fd.Name.Name, decl: fd, imports: imports}
			if fd.Recv != nil && len(fd.Recv.List) == 1 {
				f.recv = blkRecvType(fd.Recv.List[0].Type)
				if len(fd.Recv.List[0].Names) == 1 {
					f.recvName = fd.Recv.List[0].Names[0].Name
				}
			}
			if fd.Type.Results != nil && len(fd.Type.Results.List) > 0 {
				last := fd.Type.Results.List[len(fd.Type.Results.List)-1]
				if id, ok := last.Type.(*ast.Ident); ok && id.Name == "error" {
					f.retErr = true
				}
			}
			f.recovers = blkHasRecover(fd.Body)
			ix.byName[f.name] = append(ix.byName[f.name], f)
			ix.all = append(ix.all, f)
		}
	}
	return ix, nil
}

func blkHasRecover(b *ast.BlockStmt) bool {
	found := false
	for _, s := range b.List {
		ds, ok := s.(*ast.DeferStmt)
		if !ok {
			continue
		}
		ast.Inspect(ds.Call, func(n ast.Node) bool {
			if c, ok := n.(*ast.CallExpr); ok {
				if id, ok := c.Fun.(*ast.Ident); ok && id.Name == "recover" {
					found = true
				}
			}
			return true
		})
	}
	return found
}

// ---------------------------------------------------------------- expression text

var blkFset = token.NewFileSet()

// faithful source text of an expression (go/printer), single line
func blkExpr(e ast.Expr) string {
	if e == nil {
		return ""
	}
	var sb strings.Builder
	if err := printer.Fprint(&sb, blkFset, e); err != nil {
		return "?"
	}
	return strings.Join(strings.Fields(sb.String()), " ")
}

func blkText(e ast.Expr) string {
	s := blkExpr(e)
	s = strings.Join(strings.Fields(s), " ")
	if len(s) > 70 {
		s = s[:67] + "..."
	}
	return s
}

// blkRoot strips conversions / constructors from a divisor or amount: math.NewInt(x), x.ToLegacyDec(),
// math.LegacyNewDecFromInt(x), int64(x) ... -> x
func blkRoot(e ast.Expr) ast.Expr {
	for {
		switch t := e.(type) {
		case *ast.ParenExpr:
			e = t.X
			continue
		case *ast.CallExpr:
			if sel, ok := t.Fun.(*ast.SelectorExpr); ok {
				switch sel.Sel.Name {
				case "ToLegacyDec", "TruncateInt", "RoundInt", "Abs", "BigInt", "Int64", "Uint64":
					e = sel.X
					continue
				case "NewInt", "NewIntFromUint64", "LegacyNewDec", "LegacyNewDecFromInt", "NewDecFromInt", "NewDec", "NewIntFromBigInt", "LegacyNewDecFromBigInt":
					if len(t.Args) == 1 {
						e = t.Args[0]
						continue
					}
				}
			}
			if id, ok := t.Fun.(*ast.Ident); ok && len(t.Args) == 1 {
				switch id.Name {
				case "int64", "uint64", "int", "uint", "int32", "uint32":
					e = t.Args[0]
					continue
				}
			}
		}
		return e
	}
}

func blkIsConst(e ast.Expr) bool {
	e = blkRoot(e)
	switch t := e.(type) {
	case *ast.BasicLit:
		return true
	case *ast.BinaryExpr:
		return blkIsConst(t.X) && blkIsConst(t.Y)
	case *ast.CallExpr:
		if id, ok := t.Fun.(*ast.Ident); ok && id.Name == "Pow10" {
			return true // x/oracle Pow10(n): 10^n, positive for every n
		}
		if sel, ok := t.Fun.(*ast.SelectorExpr); ok {
			n := sel.Sel.Name
			if n == "LegacyOneDec" || n == "OneInt" || n == "OneDec" || n == "LegacySmallestDec" {
				return true
			}
			if strings.HasPrefix(n, "LegacyNewDecWithPrec") || strings.HasPrefix(n, "LegacyMustNewDecFromStr") || n == "Pow10" {
				for _, a := range t.Args {
					if !blkIsConst(a) {
						return n == "Pow10" // Pow10(n) is a positive power of ten for every n
					}
				}
				return true
			}
		}
	case *ast.Ident:
		// named constants: by convention CamelCase identifiers that are not assigned in the function; only
		// the package-level ones used as divisors in the tree are listed
		switch t.Name {
		case "OneShare", "secondsInYear":
			return true
		}
	case *ast.SelectorExpr:
		if t.Sel.Name == "OneShare" {
			return true
		}
	}
	return false
}

// blkTested: is the value of e tested in the function body (IsZero / IsPositive / IsNegative / IsNil /
// GT/GTE/LT/LTE/Equal, or a comparison operator)?
func blkTested(body *ast.BlockStmt, e ast.Expr) bool {
	r := blkRoot(e)
	want := blkExpr(r)
	if want == "" {
		return false
	}
	found := false
	ast.Inspect(body, func(n ast.Node) bool {
		switch t := n.(type) {
		case *ast.CallExpr:
			if sel, ok := t.Fun.(*ast.SelectorExpr); ok {
				switch sel.Sel.Name {
				case "IsZero", "IsPositive", "IsNegative", "IsNil", "GT", "GTE", "LT", "LTE", "Equal", "IsAllPositive", "IsAnyNegative":
					if blkExpr(blkRoot(sel.X)) == want {
						found = true
					}
					for _, a := range t.Args {
						if blkExpr(blkRoot(a)) == want {
							found = true
						}
					}
				}
			}
		case *ast.BinaryExpr:
			switch t.Op {
			case token.EQL, token.NEQ, token.LSS, token.LEQ, token.GTR, token.GEQ:
				if blkExpr(blkRoot(t.X)) == want || blkExpr(blkRoot(t.Y)) == want {
					found = true
				}
			}
		}
		return !found
	})
	return found
}

func blkMentionsCall(body *ast.BlockStmt, names ...string) bool {
	found := false
	ast.Inspect(body, func(n ast.Node) bool {
		if c, ok := n.(*ast.CallExpr); ok {
			if sel, ok := c.Fun.(*ast.SelectorExpr); ok {
				for _, nm := range names {
					if sel.Sel.Name == nm {
						found = true
					}
				}
			}
		}
		return !found
	})
	return found
}

func blkHasLen(body *ast.BlockStmt, e ast.Expr) bool {
	want := blkExpr(e)
	found := false
	ast.Inspect(body, func(n ast.Node) bool {
		if c, ok := n.(*ast.CallExpr); ok {
			if id, ok := c.Fun.(*ast.Ident); ok && id.Name == "len" && len(c.Args) == 1 && blkExpr(c.Args[0]) == want {
				found = true
			}
		}
		return !found
	})
	return found
}

// ---------------------------------------------------------------- call sites with error flow

type blkSite struct {
	call *ast.CallExpr
	prop bool // the error result of this call is handed to the caller's caller (or to a panic)
}

type blkScan struct {
	fn     *blkFn
	sites  []blkSite
	fresh  []string // fresh error values returned
	points []blkPoint
}

func blkIsNil(e ast.Expr) bool {
	id, ok := e.(*ast.Ident)
	return ok && id.Name == "nil"
}

func blkMentionsIdent(n ast.Node, name string) bool {
	found := false
	ast.Inspect(n, func(x ast.Node) bool {
		if id, ok := x.(*ast.Ident); ok && id.Name == name {
			found = true
		}
		return !found
	})
	return found
}

// does the body of `if e != nil {...}` hand the error on (return with a non-nil last result, or panic)?
func blkBodyPropagates(b *ast.BlockStmt) bool {
	prop := false
	ast.Inspect(b, func(n ast.Node) bool {
		switch t := n.(type) {
		case *ast.FuncLit:
			return false
		case *ast.ReturnStmt:
			if len(t.Results) > 0 && !blkIsNil(t.Results[len(t.Results)-1]) {
				prop = true
			}
		case *ast.CallExpr:
			if id, ok := t.Fun.(*ast.Ident); ok && id.Name == "panic" {
				prop = true
			}
		}
		return !prop
	})
	return prop
}

func blkErrLike(name string) bool {
	l := strings.ToLower(name)
	return l == "err" || l == "e" || strings.HasSuffix(l, "err") || strings.HasSuffix(l, "error")
}

func (s *blkScan) classify(errIdent string, next ast.Stmt) bool {
	if errIdent == "" || errIdent == "_" || !blkErrLike(errIdent) {
		return false
	}
	if ifs, ok := next.(*ast.IfStmt); ok && ifs.Init == nil && blkMentionsIdent(ifs.Cond, errIdent) {
		if be, ok := ifs.Cond.(*ast.BinaryExpr); ok && be.Op == token.EQL && blkIsNil(be.Y) {
			// if err == nil { continue } ... : what follows handles the error; conservative
			return true
		}
		return blkBodyPropagates(ifs.Body)
	}
	return true
}

func (s *blkScan) exprCalls(e ast.Node) {
	if e == nil {
		return
	}
	ast.Inspect(e, func(n ast.Node) bool {
		switch t := n.(type) {
		case *ast.FuncLit:
			s.stmts(t.Body.List)
			return false
		case *ast.CallExpr:
			s.sites = append(s.sites, blkSite{t, false})
		}
		return true
	})
}

func (s *blkScan) topCall(c *ast.CallExpr, prop bool) {
	s.sites = append(s.sites, blkSite{c, prop})
	s.exprCalls(c.Fun)
	for _, a := range c.Args {
		s.exprCalls(a)
	}
}

func (s *blkScan) stmts(list []ast.Stmt) {
	for i, st := range list {
		var next ast.Stmt
		if i+1 < len(list) {
			next = list[i+1]
		}
		s.stmt(st, next)
	}
}

func (s *blkScan) stmt(st ast.Stmt, next ast.Stmt) {
	switch t := st.(type) {
	case nil:
	case *ast.ExprStmt:
		if c, ok := t.X.(*ast.CallExpr); ok {
			s.topCall(c, false)
		} else {
			s.exprCalls(t.X)
		}
	case *ast.AssignStmt:
		if len(t.Rhs) == 1 {
			if c, ok := t.Rhs[0].(*ast.CallExpr); ok {
				errIdent := ""
				if id, ok := t.Lhs[len(t.Lhs)-1].(*ast.Ident); ok {
					errIdent = id.Name
				}
				s.topCall(c, s.classify(errIdent, next))
				return
			}
		}
		for _, r := range t.Rhs {
			s.exprCalls(r)
		}
		for _, l := range t.Lhs {
			s.exprCalls(l)
		}
	case *ast.ReturnStmt:
		for i, r := range t.Results {
			if c, ok := r.(*ast.CallExpr); ok {
				s.topCall(c, true)
				if i == len(t.Results)-1 && s.fn.retErr {
					if d, ok := blkFreshErr(c); ok {
						s.fresh = append(s.fresh, d)
					}
				}
			} else {
				s.exprCalls(r)
				if i == len(t.Results)-1 && s.fn.retErr {
					if d, ok := blkFreshErr(r); ok {
						s.fresh = append(s.fresh, d)
					}
				}
			}
		}
	case *ast.IfStmt:
		if t.Init != nil {
			s.stmt(t.Init, &ast.IfStmt{Cond: t.Cond, Body: t.Body})
		}
		s.exprCalls(t.Cond)
		s.stmts(t.Body.List)
		if t.Else != nil {
			s.stmt(t.Else, nil)
		}
	case *ast.BlockStmt:
		s.stmts(t.List)
	case *ast.ForStmt:
		s.stmt(t.Init, nil)
		s.exprCalls(t.Cond)
		s.stmt(t.Post, nil)
		s.stmts(t.Body.List)
	case *ast.RangeStmt:
		s.exprCalls(t.X)
		s.stmts(t.Body.List)
	case *ast.SwitchStmt:
		s.stmt(t.Init, nil)
		s.exprCalls(t.Tag)
		s.stmts(t.Body.List)
	case *ast.TypeSwitchStmt:
		s.stmt(t.Init, nil)
		s.stmt(t.Assign, nil)
		s.stmts(t.Body.List)
	case *ast.CaseClause:
		for _, e := range t.List {
			s.exprCalls(e)
		}
		s.stmts(t.Body)
	case *ast.DeferStmt:
		s.topCall(t.Call, false)
	case *ast.GoStmt:
		s.topCall(t.Call, false)
	case *ast.DeclStmt:
		s.exprCalls(t)
	case *ast.LabeledStmt:
		s.stmt(t.Stmt, next)
	case *ast.IncDecStmt:
		s.exprCalls(t.X)
	case *ast.SendStmt:
		s.exprCalls(t.Value)
	case *ast.SelectStmt:
		s.stmts(t.Body.List)
	case *ast.CommClause:
		s.stmts(t.Body)
	}
}

func blkFreshErr(e ast.Expr) (string, bool) {
	switch t := e.(type) {
	case *ast.CallExpr:
		if sel, ok := t.Fun.(*ast.SelectorExpr); ok {
			if x, ok := sel.X.(*ast.Ident); ok {
				switch x.Name + "." + sel.Sel.Name {
				case "errors.New", "fmt.Errorf", "errorsmod.Wrap", "errorsmod.Wrapf", "status.Error", "status.Errorf", "sdkerrors.Wrap", "sdkerrors.Wrapf", "errorsmod.Register":
					if len(t.Args) > 0 && (x.Name == "errorsmod" || x.Name == "sdkerrors") {
						return blkText(t.Args[0]), true
					}
					return x.Name + "." + sel.Sel.Name, true
				}
			}
		}
	case *ast.SelectorExpr:
		if strings.HasPrefix(t.Sel.Name, "Err") {
			return blkText(t), true
		}
	case *ast.Ident:
		if strings.HasPrefix(t.Name, "Err") {
			return t.Name, true
		}
	}
	return "", false
}

var blkQuo = map[string]bool{"Quo": true, "QuoInt": true, "QuoInt64": true, "QuoRaw": true, "QuoTruncate": true, "QuoRoundUp": true,
	"QuoMut": true, "QuoIntMut": true, "QuoInt64Mut": true, "QuoTruncateMut": true, "QuoRoundupMut": true, "QuoDec": true, "QuoDecTruncate": true, "Mod": true, "ModRaw": true}

func (s *blkScan) failurePoints() {
	body := s.fn.decl.Body
	add := func(kind, detail string, guarded bool) {
		for i := range s.points {
			if s.points[i].Kind == kind && s.points[i].Detail == detail && s.points[i].Guarded == guarded {
				s.points[i].Count++
				return
			}
		}
		s.points = append(s.points, blkPoint{Fn: s.fn.id(), Kind: kind, Detail: detail, Count: 1, Guarded: guarded, Live: true})
	}
	deferred := map[ast.Node]bool{}
	for _, st := range body.List {
		if ds, ok := st.(*ast.DeferStmt); ok && s.fn.recovers {
			deferred[ds] = true
		}
	}
	ast.Inspect(body, func(n ast.Node) bool {
		if deferred[n] {
			return false
		}
		switch t := n.(type) {
		case *ast.CallExpr:
			if id, ok := t.Fun.(*ast.Ident); ok && id.Name == "panic" {
				d := ""
				if len(t.Args) == 1 {
					d = blkText(t.Args[0])
				}
				add("panic", d, false)
			}
			if sel, ok := t.Fun.(*ast.SelectorExpr); ok {
				name := sel.Sel.Name
				switch {
				case strings.HasPrefix(name, "Must") && len(name) > 4:
					lit := true
					for _, a := range t.Args {
						if !blkIsConst(a) {
							lit = false
						}
					}
					if !lit {
						k := "must"
						if name == "MustMarshal" || name == "MustUnmarshal" || name == "MustLengthPrefix" || name == "MustMarshalJSON" || name == "MustUnmarshalJSON" {
							k = "codec" // (de)serialisation of values the keepers themselves wrote
						}
						add(k, blkText(t.Fun), false)
					}
				case blkQuo[name] && len(t.Args) == 1:
					if blkIsConst(t.Args[0]) {
						break
					}
					add("quo", blkText(blkRoot(t.Args[0])), blkTested(body, t.Args[0]))
				case name == "NewCoin" && len(t.Args) == 2:
					if x, ok := sel.X.(*ast.Ident); ok && (x.Name == "sdk" || x.Name == "types" || x.Name == "sdktypes") {
						if blkIsConst(t.Args[1]) {
							break
						}
						if c, ok := blkRoot(t.Args[1]).(*ast.CallExpr); ok {
							if cs, ok := c.Fun.(*ast.SelectorExpr); ok && (cs.Sel.Name == "ZeroInt" || cs.Sel.Name == "AmountOf" || cs.Sel.Name == "Abs") {
								break // never negative
							}
						}
						add("newcoin", blkText(blkRoot(t.Args[1])), blkTested(body, t.Args[1]))
					}
				case name == "Sub" && len(t.Args) >= 1:
					recv := blkExpr(sel.X)
					lr := strings.ToLower(recv)
					if t.Ellipsis.IsValid() || strings.HasSuffix(lr, "coins") || strings.HasSuffix(lr, "coinsdec") {
						g := blkMentionsCall(body, "IsAllGTE", "IsAllGT", "IsAnyGT", "IsAnyGTE")
						add("coinsub", blkText(sel.X)+" - "+blkText(t.Args[0]), g)
					}
				}
			}
		case *ast.IndexExpr:
			if lit, ok := t.Index.(*ast.BasicLit); ok && lit.Kind == token.INT {
				add("index", blkText(t.X)+"["+lit.Value+"]", blkHasLen(body, t.X))
			}
		}
		return true
	})
}

// ---------------------------------------------------------------- resolution

var blkGenericHint = map[string]bool{"": true, "k": true, "keeper": true, "h": true, "am": true, "hooks": true}

func blkCommonPrefix(a, b string) int {
	n := 0
	for n < len(a) && n < len(b) && a[n] == b[n] {
		n++
	}
	return n
}

func (ix *blkIndex) pkgOfImport(path string) (string, bool) {
	const pre = "github.com/elys-network/elys/"
	if strings.HasPrefix(path, pre+"x/") {
		return strings.TrimPrefix(path, pre), true
	}
	return "", false
}

func (ix *blkIndex) methods(name string) []*blkFn {
	var out []*blkFn
	for _, f := range ix.byName[name] {
		if f.recv != "" {
			out = append(out, f)
		}
	}
	return out
}

var blkStopNames = map[string]bool{"Close": true, "String": true, "Validate": true, "Reset": true, "Error": true, "Next": true, "Valid": true,
	"Key": true, "Value": true, "Set": true, "Get": true, "Has": true, "Delete": true, "Marshal": true, "Unmarshal": true, "Size": true, "Equal": true}

func (ix *blkIndex) dataMethods(name string) []*blkFn {
	if blkStopNames[name] {
		return nil
	}
	var out []*blkFn
	for _, f := range ix.byName[name] {
		if f.recv != "" && !strings.HasSuffix(f.pkg, "/keeper") && f.recv != "AppModule" && f.recv != "AppModuleBasic" {
			out = append(out, f)
		}
	}
	return out
}

func (ix *blkIndex) keeperMethods(name string) []*blkFn {
	var out []*blkFn
	for _, f := range ix.byName[name] {
		if f.recv == "" {
			continue
		}
		if (strings.HasSuffix(f.pkg, "/keeper") && (f.recv == "Keeper" || strings.Contains(f.recv, "Hooks"))) || strings.HasPrefix(f.recv, "Multi") {
			out = append(out, f)
		}
	}
	return out
}

func (ix *blkIndex) hinted(cands []*blkFn, hint string, from *blkFn) []*blkFn {
	if len(cands) == 0 {
		return cands
	}
	h := strings.ToLower(hint)
	h = strings.TrimSuffix(h, "keeper")
	if !blkGenericHint[h] {
		var keep []*blkFn
		for _, c := range cands {
			if c.mod == "" {
				continue
			}
			if strings.Contains(h, c.mod) || strings.Contains(c.mod, h) || blkCommonPrefix(h, c.mod) >= 4 {
				keep = append(keep, c)
			}
		}
		if len(keep) > 0 {
			return keep
		}
		// a named field / variable that matches no Elys module: bank, auth, staking, distr ... are SDK keepers
		switch h {
		case "bank", "bk", "auth", "account", "ak", "staking", "distr", "distribution", "channel", "scoped", "slashing", "gov", "upgrade":
			return nil
		}
	}
	var same []*blkFn
	for _, c := range cands {
		if c.mod == from.mod {
			same = append(same, c)
		}
	}
	if len(same) > 0 {
		return same
	}
	return cands
}

func (ix *blkIndex) resolve(from *blkFn, c *ast.CallExpr) []*blkFn {
	switch fun := c.Fun.(type) {
	case *ast.Ident:
		var out []*blkFn
		for _, f := range ix.byName[fun.Name] {
			if f.recv == "" && f.pkg == from.pkg {
				out = append(out, f)
			}
		}
		return out
	case *ast.SelectorExpr:
		name := fun.Sel.Name
		switch x := fun.X.(type) {
		case *ast.Ident:
			if from.recvName != "" && x.Name == from.recvName {
				var out, pkgOnly []*blkFn
				for _, f := range ix.byName[name] {
					if f.pkg == from.pkg && f.recv == from.recv {
						out = append(out, f)
					} else if f.pkg == from.pkg && f.recv != "" {
						pkgOnly = append(pkgOnly, f)
					}
				}
				if len(out) > 0 {
					return out
				}
				return pkgOnly // embedded receiver (msgServer{Keeper}, Hooks{k})
			}
			if path, ok := from.imports[x.Name]; ok {
				if pkg, ok := ix.pkgOfImport(path); ok {
					var out []*blkFn
					for _, f := range ix.byName[name] {
						if f.recv == "" && f.pkg == pkg {
							out = append(out, f)
						}
					}
					return out
				}
				return nil
			}
			// a local variable / parameter: a data value (types package), never a keeper
			return ix.hinted(ix.dataMethods(name), x.Name, from)
		case *ast.SelectorExpr:
			// a field: k.amm, am.keeper, h.k, k.hooks -> keeper objects and hook multiplexers
			c := ix.keeperMethods(name)
			if len(c) == 0 {
				c = ix.dataMethods(name)
			}
			return ix.hinted(c, x.Sel.Name, from)
		default:
			// mh[i].Method(...) inside a hook multiplexer (type MultiXHooks []XHooks): the elements are the hook wrappers
			// of the keepers (receiver type *Hooks in a keeper package); followed by method name for the multiplexers
			// listed in blkFollowMulti
			if ie, ok := x.(*ast.IndexExpr); ok && blkFollowMulti[from.recv] {
				if id, ok := ie.X.(*ast.Ident); ok && id.Name == from.recvName {
					var out []*blkFn
					for _, f := range ix.byName[name] {
						if strings.HasSuffix(f.pkg, "/keeper") && strings.Contains(f.recv, "Hooks") && !strings.HasPrefix(f.recv, "Multi") {
							out = append(out, f)
						}
					}
					return out
				}
			}
			cands := ix.dataMethods(name)
			if len(cands) == 1 {
				return cands
			}
			return nil
		}
	}
	return nil
}

// hook multiplexers whose element calls are followed (the commitment hooks lead from the estaking end blocker's
// BurnEdenBoost into estaking's CommitmentChanged and from there into the SDK staking/distribution hooks). The other
// multiplexers (MultiAmmHooks, MultiPerpetualHooks, MultiLeverageLpHooks, MultiStableStakeHooks) are NOT followed:
// the closure of a blocker stops at their methods (stated in the trusted base of C18).
var blkFollowMulti = map[string]bool{"MultiCommitmentHooks": true}

// ---------------------------------------------------------------- closure

type blkState struct {
	fn        *blkFn
	recovered bool
	live      bool
}

type blkClosure struct {
	ix     *blkIndex
	scans  map[*blkFn]*blkScan
	seen   map[blkState]int // -> minimal depth
	cut    int
	funcs  map[*blkFn]bool
	points map[string]*blkPoint
}

func (cl *blkClosure) scan(f *blkFn) *blkScan {
	if s, ok := cl.scans[f]; ok {
		return s
	}
	s := &blkScan{fn: f}
	s.stmts(f.decl.Body.List)
	s.failurePoints()
	cl.scans[f] = s
	return s
}

func (cl *blkClosure) addPoint(p blkPoint) {
	key := p.Fn + "\x00" + p.Kind + "\x00" + p.Detail + "\x00" + fmt.Sprint(p.Guarded)
	if q, ok := cl.points[key]; ok {
		// recovered only if recovered on every path; live if live on some path; minimal depth
		q.Recovered = q.Recovered && p.Recovered
		q.Live = q.Live || p.Live
		if p.Depth < q.Depth {
			q.Depth = p.Depth
		}
		return
	}
	cp := p
	cl.points[key] = &cp
}

// hooks of x/epochs are emitted as blockers of their own (wired list); do not follow the interface by name
func blkIsEpochHookCall(c *ast.CallExpr) bool {
	if sel, ok := c.Fun.(*ast.SelectorExpr); ok {
		if sel.Sel.Name == "AfterEpochEnd" || sel.Sel.Name == "BeforeEpochStart" {
			if x, ok := sel.X.(*ast.SelectorExpr); ok && x.Sel.Name == "hooks" {
				return true
			}
		}
	}
	return false
}

func (cl *blkClosure) visit(st blkState, depth int) {
	if d, ok := cl.seen[st]; ok && d <= depth {
		return
	}
	cl.seen[st] = depth
	cl.funcs[st.fn] = true
	s := cl.scan(st.fn)
	rec := st.recovered || st.fn.recovers
	for _, p := range s.points {
		p.Recovered = rec
		p.Depth = depth
		cl.addPoint(p)
	}
	if st.live && st.fn.retErr {
		for _, d := range s.fresh {
			cl.addPoint(blkPoint{Fn: st.fn.id(), Kind: "err", Detail: d, Count: 1, Recovered: false, Live: true, Depth: depth})
		}
	}
	for _, site := range s.sites {
		if blkIsEpochHookCall(site.call) {
			if st.live && site.prop {
				cl.addPoint(blkPoint{Fn: st.fn.id(), Kind: "exterr", Detail: "epoch hooks: " + blkText(site.call.Fun), Count: 1, Live: true, Depth: depth})
			}
			continue
		}
		callees := cl.ix.resolve(st.fn, site.call)
		live := st.live && site.prop
		if len(callees) == 0 {
			if m, ok := cl.ix.ext.extCall(st.fn, site.call); ok {
				if n := len(cl.ix.ext.sites(m)); n > 0 {
					// a call into the SDK distribution keeper that reaches explicit panic sites there (blockers_ext.go)
					cl.addPoint(blkPoint{Fn: st.fn.id(), Kind: "extpanic", Detail: blkText(site.call.Fun), Count: n, Recovered: rec, Live: true, Depth: depth})
				}
			}
			if _, fresh := blkFreshErr(site.call); live && !fresh {
				if _, isIdent := site.call.Fun.(*ast.Ident); !isIdent {
					d := blkText(site.call.Fun)
					// pure constructors of the SDK that return an error only on malformed constants are still listed
					cl.addPoint(blkPoint{Fn: st.fn.id(), Kind: "exterr", Detail: d, Count: 1, Live: true, Depth: depth})
				}
			}
			continue
		}
		for _, cal := range callees {
			if blkFollowMulti[cal.recv] || blkFollowMulti[st.fn.recv] {
				// pure forwarding frames (multiplexer method, element wrapper) do not use up call depth
				cl.visit(blkState{cal, rec, live && cal.retErr}, depth)
				continue
			}
			if depth+1 > blkMaxDepth {
				cl.cut++
				if os.Getenv("BLK_DEBUG") != "" {
					fmt.Fprintln(os.Stderr, "CUT", st.fn.id(), "->", cal.id(), "at depth", depth)
				}
				continue
			}
			cl.visit(blkState{cal, rec, live && cal.retErr}, depth+1)
		}
	}
}

// ---------------------------------------------------------------- app wiring

type blkOrderEntry struct {
	alias, path, label, elysMod string
}

func blkOrder(repo, fn string) ([]blkOrderEntry, error) {
	fset := token.NewFileSet()
	p := filepath.Join(repo, "app", "modules.go")
	af, err := parser.ParseFile(fset, p, nil, 0)
	if err != nil {
		return nil, err
	}
	imports := map[string]string{}
	for _, im := range af.Imports {
		path, _ := strconv.Unquote(im.Path.Value)
		alias := path[strings.LastIndex(path, "/")+1:]
		if im.Name != nil {
			alias = im.Name.Name
		}
		imports[alias] = path
	}
	var out []blkOrderEntry
	found := false
	for _, d := range af.Decls {
		fd, ok := d.(*ast.FuncDecl)
		if !ok || fd.Name.Name != fn || fd.Body == nil {
			continue
		}
		found = true
		ast.Inspect(fd.Body, func(n ast.Node) bool {
			cl, ok := n.(*ast.CompositeLit)
			if !ok {
				return true
			}
			for _, e := range cl.Elts {
				sel, ok := e.(*ast.SelectorExpr)
				if !ok || sel.Sel.Name != "ModuleName" {
					continue
				}
				x, ok := sel.X.(*ast.Ident)
				if !ok {
					continue
				}
				ent := blkOrderEntry{alias: x.Name, path: imports[x.Name]}
				parts := strings.Split(ent.path, "/")
				lab := parts[len(parts)-1]
				if (lab == "types" || lab == "exported") && len(parts) >= 2 {
					lab = parts[len(parts)-2]
				}
				if lab == "core" && len(parts) >= 1 { // ibc core/exported
					lab = "ibc"
				}
				ent.label = lab
				const pre = "github.com/elys-network/elys/x/"
				if strings.HasPrefix(ent.path, pre) {
					ent.elysMod = strings.Split(strings.TrimPrefix(ent.path, pre), "/")[0]
					ent.label = ent.elysMod
				}
				out = append(out, ent)
			}
			return false
		})
	}
	if !found || len(out) == 0 {
		return nil, fmt.Errorf("app/modules.go: %s not found or empty", fn)
	}
	return out, nil
}

// wrappers: x/<m>/modules/<n>/module.go replace the SDK module <n> in the manager
func blkWrappers(repo string) map[string]string {
	out := map[string]string{}
	ms, _ := filepath.Glob(filepath.Join(repo, "x", "*", "modules", "*", "module.go"))
	sort.Strings(ms)
	for _, m := range ms {
		rel, _ := filepath.Rel(repo, filepath.Dir(m))
		rel = filepath.ToSlash(rel)
		out[filepath.Base(filepath.Dir(m))] = rel
	}
	return out
}

// epoch hooks wired in app/keepers/keepers.go: NewMultiEpochHooks(app.XKeeper.Hooks(), ...)
func blkEpochHooks(repo string) ([][2]string, error) {
	fset := token.NewFileSet()
	ks, _ := filepath.Glob(filepath.Join(repo, "app", "keepers", "*.go"))
	sort.Strings(ks)
	var out [][2]string
	for _, p := range ks {
		if strings.HasSuffix(p, "_test.go") {
			continue
		}
		af, err := parser.ParseFile(fset, p, nil, 0)
		if err != nil {
			return nil, err
		}
		ast.Inspect(af, func(n ast.Node) bool {
			c, ok := n.(*ast.CallExpr)
			if !ok {
				return true
			}
			sel, ok := c.Fun.(*ast.SelectorExpr)
			if !ok || sel.Sel.Name != "NewMultiEpochHooks" {
				return true
			}
			for _, a := range c.Args {
				ac, ok := a.(*ast.CallExpr)
				if !ok {
					continue
				}
				as, ok := ac.Fun.(*ast.SelectorExpr)
				if !ok {
					continue
				}
				kf, ok := as.X.(*ast.SelectorExpr) // app.OracleKeeper
				if !ok {
					continue
				}
				mod := strings.ToLower(strings.TrimSuffix(kf.Sel.Name, "Keeper"))
				out = append(out, [2]string{mod, as.Sel.Name})
			}
			return false
		})
	}
	return out, nil
}

// ---------------------------------------------------------------- driver

func blkTrivialBody(b *ast.BlockStmt) bool {
	if len(b.List) != 1 {
		return false
	}
	r, ok := b.List[0].(*ast.ReturnStmt)
	if !ok {
		return false
	}
	for _, e := range r.Results {
		switch t := e.(type) {
		case *ast.Ident:
			if t.Name != "nil" {
				return false
			}
		case *ast.CompositeLit:
			if len(t.Elts) != 0 {
				return false
			}
		default:
			return false
		}
	}
	return true
}

func (ix *blkIndex) analyse(root *blkFn, hookMode bool) (propagates bool, roots []string, pts []blkPoint, funcs, cut int) {
	cl := &blkClosure{ix: ix, scans: map[*blkFn]*blkScan{}, seen: map[blkState]int{}, funcs: map[*blkFn]bool{}, points: map[string]*blkPoint{}}
	s := cl.scan(root)
	for _, site := range s.sites {
		if site.prop {
			propagates = true
		}
	}
	if len(s.fresh) > 0 {
		propagates = true
	}
	// a module method / hook that returns anything but nil in its error position propagates
	cl.visit(blkState{root, false, root.retErr}, 0)
	for _, site := range s.sites {
		for _, cal := range ix.resolve(root, site.call) {
			roots = append(roots, cal.id())
		}
	}
	sort.Strings(roots)
	if os.Getenv("BLK_DEBUG") != "" {
		var fs []string
		for f := range cl.funcs {
			fs = append(fs, f.id())
		}
		sort.Strings(fs)
		fmt.Fprintln(os.Stderr, "ROOT", root.id(), "->", strings.Join(fs, "\n   "))
	}
	pts = []blkPoint{}
	if roots == nil {
		roots = []string{}
	}
	for _, p := range cl.points {
		pts = append(pts, *p)
	}
	sort.Slice(pts, func(i, j int) bool {
		a, b := pts[i], pts[j]
		if a.Fn != b.Fn {
			return a.Fn < b.Fn
		}
		if a.Kind != b.Kind {
			return a.Kind < b.Kind
		}
		if a.Detail != b.Detail {
			return a.Detail < b.Detail
		}
		return !a.Guarded && b.Guarded
	})
	return propagates, roots, pts, len(cl.funcs), cl.cut
}

func genBlockers(repo, out string) error {
	ix, err := blkLoad(repo)
	if err != nil {
		return err
	}
	ix.ext = blkLoadExt(repo)
	wrappers := blkWrappers(repo)
	var table []blkBlocker
	for _, ph := range [][2]string{{"begin", "orderBeginBlockers"}, {"end", "orderEndBlockers"}} {
		order, err := blkOrder(repo, ph[1])
		if err != nil {
			return err
		}
		method := "BeginBlock"
		if ph[0] == "end" {
			method = "EndBlock"
		}
		for pos, ent := range order {
			b := blkBlocker{Module: ent.label, Phase: ph[0], Pos: pos, Roots: []string{}, Points: []blkPoint{}}
			pkg := ""
			if ent.elysMod != "" {
				pkg = "x/" + ent.elysMod
			} else if w, ok := wrappers[ent.label]; ok {
				pkg = w
			}
			if pkg != "" {
				var root *blkFn
				for _, f := range ix.byName[method] {
					if f.pkg == pkg && f.recv == "AppModule" {
						root = f
					}
				}
				if root != nil {
					b.Elys, b.Pkg = true, pkg
					if blkTrivialBody(root.decl.Body) {
						b.Trivial = true
					} else {
						b.Propagates, b.Roots, b.Points, b.Funcs, b.Cut = ix.analyse(root, false)
					}
				} else if ent.elysMod != "" {
					// an Elys module without the method: nothing runs
					b.Elys, b.Pkg, b.Trivial = true, pkg, true
				}
			}
			table = append(table, b)
		}
	}
	hooks, err := blkEpochHooks(repo)
	if err != nil {
		return err
	}
	if len(hooks) == 0 {
		return fmt.Errorf("no NewMultiEpochHooks wiring found in app/keepers")
	}
	for _, ph := range [][2]string{{"epoch_after", "AfterEpochEnd"}, {"epoch_before", "BeforeEpochStart"}} {
		for pos, h := range hooks {
			mod, getter := h[0], h[1]
			// the getter's result type: func (k Keeper) Hooks() Hooks
			rtype := ""
			for _, f := range ix.byName[getter] {
				if f.mod == mod && strings.HasSuffix(f.pkg, "/keeper") && f.decl.Type.Results != nil && len(f.decl.Type.Results.List) == 1 {
					rtype = blkRecvType(f.decl.Type.Results.List[0].Type)
				}
			}
			var root *blkFn
			for _, f := range ix.byName[ph[1]] {
				if f.mod == mod && f.recv == rtype && rtype != "" {
					root = f
				}
			}
			if root == nil {
				return fmt.Errorf("epoch hook %s.%s(): method %s not found", mod, getter, ph[1])
			}
			b := blkBlocker{Module: mod, Phase: ph[0], Pos: pos, Elys: true, Pkg: root.pkg, Roots: []string{}, Points: []blkPoint{}}
			b.Propagates, b.Roots, b.Points, b.Funcs, b.Cut = ix.analyse(root, true)
			if len(b.Points) == 0 && !b.Propagates {
				b.Trivial = true
			}
			table = append(table, b)
		}
	}
	for i := range table {
		table[i].ID = i
	}
	// ---- Coq
	var sb strings.Builder
	sb.WriteString("(* GENERATED by tools/gotrans blockers from the Go sources - do not edit.\n")
	sb.WriteString("   One record per module of the production begin/end blocker order and per wired epochs hook;\n")
	sb.WriteString("   failure points by a name-based call-graph closure inside x/ (depth " + fmt.Sprint(blkMaxDepth) + "). *)\n")
	sb.WriteString("From Coq Require Import String List Bool.\nFrom Elys Require Import Models.Blocks.\nImport ListNotations.\nOpen Scope string_scope.\n\n")
	kind := map[string]string{"panic": "KPanic", "must": "KMust", "quo": "KQuo", "newcoin": "KNewCoin", "coinsub": "KCoinSub", "index": "KIndex", "codec": "KCodec", "err": "KErr", "exterr": "KExtErr", "extpanic": "KExtPanic"}
	phase := map[string]string{"begin": "PBegin", "end": "PEnd", "epoch_after": "PEpochAfter", "epoch_before": "PEpochBefore"}
	cb := func(b bool) string {
		if b {
			return "true"
		}
		return "false"
	}
	sb.WriteString("Definition blockers : list blocker := [\n")
	for i, b := range table {
		if i > 0 {
			sb.WriteString(";\n")
		}
		fmt.Fprintf(&sb, "  mkBlocker %s %s %d %s %s %s %d [", q(b.Module), phase[b.Phase], b.Pos, cb(b.Elys), cb(b.Trivial), cb(b.Propagates), b.Cut)
		for j, p := range b.Points {
			if j > 0 {
				sb.WriteString(";")
			}
			fmt.Fprintf(&sb, "\n    mkPoint %s %s %s %d %s %s %s", q(p.Fn), kind[p.Kind], q(p.Detail), p.Count, cb(p.Guarded), cb(p.Recovered), cb(p.Live))
		}
		sb.WriteString("]")
	}
	sb.WriteString("\n].\n")
	if err := os.MkdirAll(filepath.Dir(out), 0o755); err != nil {
		return err
	}
	if err := writeIfChanged(out, []byte(sb.String())); err != nil {
		return err
	}
	extSites := map[string][]string{}
	if ix.ext != nil {
		for m, s := range ix.ext.memo {
			if len(s) > 0 {
				extSites[m] = s
			}
		}
	}
	js, _ := json.MarshalIndent(map[string]interface{}{"blockers": table, "max_depth": blkMaxDepth, "ext_pkg": blkExtPkg, "ext_sites": extSites}, "", " ")
	return writeIfChanged(filepath.Join(filepath.Dir(out), "blockers.json"), append(js, '\n'))
}
