// Second batch of arithmetic ties (C20, C16, C05, C12, C10) and the constructs they need beyond arith.go:
//
//	targets   "guardnil:#k"   condition of the k-th `if` whose body is a single `return nil[, nil ..]` (a skip)
//	          "ifcond:#k"     condition of the k-th `if` statement of the function (source order)
//	          "retval:#k:i"   result i of the k-th `return` statement (source order, closures excluded)
//	switch    a target inside `switch tag { case c1, c2: .. }` (constant cases, no fallthrough): the walk enters
//	          the clause and the clause's selection `(tag =? c1) || (tag =? c2)` is conjoined to a boolean target
//	          (for default: the negation of all other cases). Enclosing `if`s are NOT conjoined (as before).
//	errors    in slice mode the error result of a fallible opaque reader is the boolean input <reader>_err_nil;
//	          `err == nil` / `err != nil` read it; the other results are plain inputs
//	Wrap64    uint64 `+ - *` are u64_add / u64_sub / u64_mul (mod 2^64), uint64(x) of a signed value is u64_of_int,
//	          int(x) / int64(x) of a uint64 is int_of_u64 (two's complement), see coq/Base/U64.v
//	ExtPure   a package function with a loop (Pow10) passed in as a pure parameter Z -> Z
package main

import (
	"go/ast"
	"go/token"
	"go/types"
	"strconv"
	"strings"
)

var arSpecs2 = []arFn{
	// C20: the spot market price (oracle path, one division) and the trigger comparisons
	{Group: "C20", Coq: "MarketPrice_oraclePath", Pkg: "x/tradeshield/keeper", Recv: "Keeper", Name: "GetAssetPriceFromDenomInToDenomOut",
		Target: "ifcond:#1", Wrap64: true, Opaque: []string{"(x/tradeshield/types.PerpetualKeeper).GetAssetPriceAndDecimals"}},
	{Group: "C20", Coq: "MarketPrice_value", Pkg: "x/tradeshield/keeper", Recv: "Keeper", Name: "GetAssetPriceFromDenomInToDenomOut",
		Target: "retval:#1:0", Wrap64: true, Opaque: []string{"(x/tradeshield/types.PerpetualKeeper).GetAssetPriceAndDecimals"}},
	{Group: "C20", Coq: "StopLoss_skip", Pkg: "x/tradeshield/keeper", Recv: "Keeper", Name: "ExecuteStopLossOrder",
		Target: "guardnil:#1", Opaque: []string{"(x/tradeshield/keeper.Keeper).GetAssetPriceFromDenomInToDenomOut"}},
	{Group: "C20", Coq: "LimitSell_skip", Pkg: "x/tradeshield/keeper", Recv: "Keeper", Name: "ExecuteLimitSellOrder",
		Target: "guardnil:#1", Opaque: []string{"(x/tradeshield/keeper.Keeper).GetAssetPriceFromDenomInToDenomOut"}},
	{Group: "C20", Coq: "LimitBuy_skip", Pkg: "x/tradeshield/keeper", Recv: "Keeper", Name: "ExecuteLimitBuyOrder",
		Target: "guardnil:#1", Opaque: []string{"(x/tradeshield/keeper.Keeper).GetAssetPriceFromDenomInToDenomOut"}},
	{Group: "C20", Coq: "StopLoss_zeroPrice", Pkg: "x/tradeshield/keeper", Recv: "Keeper", Name: "ExecuteStopLossOrder",
		Target: "guard:ErrZeroMarketPrice", Opaque: []string{"(x/tradeshield/keeper.Keeper).GetAssetPriceFromDenomInToDenomOut"}},
	{Group: "C20", Coq: "LimitSell_zeroPrice", Pkg: "x/tradeshield/keeper", Recv: "Keeper", Name: "ExecuteLimitSellOrder",
		Target: "guard:ErrZeroMarketPrice", Opaque: []string{"(x/tradeshield/keeper.Keeper).GetAssetPriceFromDenomInToDenomOut"}},
	{Group: "C20", Coq: "LimitBuy_zeroPrice", Pkg: "x/tradeshield/keeper", Recv: "Keeper", Name: "ExecuteLimitBuyOrder",
		Target: "guard:ErrZeroMarketPrice", Opaque: []string{"(x/tradeshield/keeper.Keeper).GetAssetPriceFromDenomInToDenomOut"}},
	{Group: "C20", Coq: "LimitOpen_skip1", Pkg: "x/tradeshield/keeper", Recv: "Keeper", Name: "ExecuteLimitOpenOrder",
		Target: "guardnil:#1", Opaque: []string{"(x/tradeshield/types.PerpetualKeeper).GetAssetPrice"}},
	{Group: "C20", Coq: "LimitOpen_skip2", Pkg: "x/tradeshield/keeper", Recv: "Keeper", Name: "ExecuteLimitOpenOrder",
		Target: "guardnil:#2", Opaque: []string{"(x/tradeshield/types.PerpetualKeeper).GetAssetPrice"}},
}

var arSpecsC16 = []arFn{
	// C16: the two expiry conditions of EndBlock (uint64 arithmetic, wrap-around kept), the per-base-unit price
	{Group: "C16", Coq: "EndBlock_expiredTime", Pkg: "x/oracle/keeper", Recv: "Keeper", Name: "EndBlock", Target: "ifcond:#1", Wrap64: true,
		Opaque: []string{"(x/oracle/keeper.Keeper).GetParams"}, Getters: []string{"BlockTime", "Unix", "BlockHeight"}},
	{Group: "C16", Coq: "EndBlock_expiredHeight", Pkg: "x/oracle/keeper", Recv: "Keeper", Name: "EndBlock", Target: "ifcond:#2", Wrap64: true,
		Opaque: []string{"(x/oracle/keeper.Keeper).GetParams"}, Getters: []string{"BlockTime", "Unix", "BlockHeight"}},
	{Group: "C16", Coq: "GetAssetPriceFromDenom", Pkg: "x/oracle/keeper", Recv: "Keeper", Name: "GetAssetPriceFromDenom", ExtPure: []string{"Pow10"},
		Opaque: []string{"(x/oracle/keeper.Keeper).GetAssetInfo", "(x/oracle/keeper.Keeper).GetAssetPrice"}},
	// Pow10's loop: initial value and loop body (the loop structure `for i := 0; i < int(decimal); i++` is read by hand)
	{Group: "C16", Coq: "Pow10_init", Pkg: "x/oracle/keeper", Name: "Pow10", Target: "assign:value#1"},
	{Group: "C16", Coq: "Pow10_step", Pkg: "x/oracle/keeper", Name: "Pow10", Target: "assign:value#2"},
}

var arC05Errs = map[string]int{"ErrAmountTooLow": 9, "ErrLimitMaxAmount": 6, "<unregistered>": 8}

const arCoins = "(github.com/cosmos/cosmos-sdk/types.Coins)"

var arSpecsC05 = []arFn{
	// C05: all-asset join (MaximalExactRatioJoin), per coin / per pool
	{Group: "C05", Coq: "MERJ_shareRatio", Pkg: "x/amm/types", Name: "MaximalExactRatioJoin", Target: "assign:shareRatio#1",
		Opaque: []string{arCoins + ".AmountOfNoDenomValidation", "(*x/amm/types.Pool).GetTotalShares"}},
	{Group: "C05", Coq: "MERJ_isNewMin", Pkg: "x/amm/types", Name: "MaximalExactRatioJoin", Target: "ifcond:#1",
		Opaque: []string{arCoins + ".AmountOfNoDenomValidation", "(*x/amm/types.Pool).GetTotalShares"}},
	{Group: "C05", Coq: "MERJ_isNewMax", Pkg: "x/amm/types", Name: "MaximalExactRatioJoin", Target: "ifcond:#2",
		Opaque: []string{arCoins + ".AmountOfNoDenomValidation", "(*x/amm/types.Pool).GetTotalShares"}},
	{Group: "C05", Coq: "MERJ_numShares", Pkg: "x/amm/types", Name: "MaximalExactRatioJoin", Target: "assign:numShares#1",
		Opaque: []string{arCoins + ".AmountOfNoDenomValidation", "(*x/amm/types.Pool).GetTotalShares"}},
	{Group: "C05", Coq: "MERJ_ratiosDiffer", Pkg: "x/amm/types", Name: "MaximalExactRatioJoin", Target: "ifcond:#4",
		Opaque: []string{arCoins + ".AmountOfNoDenomValidation", "(*x/amm/types.Pool).GetTotalShares"}},
	{Group: "C05", Coq: "MERJ_usedAmount", Pkg: "x/amm/types", Name: "MaximalExactRatioJoin", Target: "assign:usedAmount#1",
		Opaque: []string{arCoins + ".AmountOfNoDenomValidation", "(*x/amm/types.Pool).GetTotalShares"}},
	{Group: "C05", Coq: "MERJ_newAmt", Pkg: "x/amm/types", Name: "MaximalExactRatioJoin", Target: "assign:newAmt#1",
		Opaque: []string{arCoins + ".AmountOfNoDenomValidation", "(*x/amm/types.Pool).GetTotalShares"}},
	// C05: pro-rata exit (CalcExitPool)
	{Group: "C05", Coq: "CalcExitPool_tooManyShares", Pkg: "x/amm/types", Name: "CalcExitPool", Target: "guard:ErrLimitMaxAmount",
		Opaque: []string{"(*x/amm/types.Pool).GetTotalShares"}},
	{Group: "C05", Coq: "CalcExitPool_shareOutRatio", Pkg: "x/amm/types", Name: "CalcExitPool", Target: "assign:shareOutRatio#1",
		Opaque: []string{"(*x/amm/types.Pool).GetTotalShares"}},
	{Group: "C05", Coq: "CalcExitPool_exitAmt", Pkg: "x/amm/types", Name: "CalcExitPool", Target: "assign:exitAmt#1",
		Opaque: []string{"(*x/amm/types.Pool).GetTotalShares"}},
	{Group: "C05", Coq: "CalcExitPool_skipAsset", Pkg: "x/amm/types", Name: "CalcExitPool", Target: "ifcond:#-2",
		Opaque: []string{"(*x/amm/types.Pool).GetTotalShares"}},
	{Group: "C05", Coq: "CalcExitPool_tooMuchOut", Pkg: "x/amm/types", Name: "CalcExitPool", Target: "ifcond:#-1",
		Opaque: []string{"(*x/amm/types.Pool).GetTotalShares"}},
	// C05: oracle single-sided exit
	{Group: "C05", Coq: "CalcExitValueWithoutSlippage", Pkg: "x/amm/types", Name: "CalcExitValueWithoutSlippage", Errs: arC05Errs,
		Opaque: []string{"(*x/amm/types.Pool).TVL", "(*x/amm/types.Pool).GetTotalShares"}},
	{Group: "C05", Coq: "CalcExitPool_oracleOutAmount", Pkg: "x/amm/types", Name: "CalcExitPool", Target: "assign:oracleOutAmount#1",
		Opaque: []string{"(*x/amm/types.Pool).GetTotalShares", "x/amm/types.CalcExitValueWithoutSlippage", "(x/amm/types.OracleKeeper).GetAssetPriceFromDenom", "x/amm/types.GetWeightBreakingFee"}},
	{Group: "C05", Coq: "CalcExitPool_oracleTaken", Pkg: "x/amm/types", Name: "CalcExitPool",
		Target: "callarg:(x/amm/types.Pool).NewPoolAssetsAfterSwap#1:2>" + arSDK + ".NewCoin#1",
		Opaque: []string{"(*x/amm/types.Pool).GetTotalShares", "x/amm/types.CalcExitValueWithoutSlippage", "(x/amm/types.OracleKeeper).GetAssetPriceFromDenom", "x/amm/types.GetWeightBreakingFee"}},
	{Group: "C05", Coq: "CalcExitPool_tokenOutAmount", Pkg: "x/amm/types", Name: "CalcExitPool", Target: "assign:tokenOutAmount#1",
		Opaque: []string{"(*x/amm/types.Pool).GetTotalShares", "x/amm/types.CalcExitValueWithoutSlippage", "(x/amm/types.OracleKeeper).GetAssetPriceFromDenom", "x/amm/types.GetWeightBreakingFee"}},
	{Group: "C05", Coq: "CalcExitPool_zeroPrice", Pkg: "x/amm/types", Name: "CalcExitPool", Target: "guard:ErrAmountTooLow",
		Opaque: []string{"(*x/amm/types.Pool).GetTotalShares", "x/amm/types.CalcExitValueWithoutSlippage", "(x/amm/types.OracleKeeper).GetAssetPriceFromDenom", "x/amm/types.GetWeightBreakingFee"}},
	// C05: oracle single-sided join
	{Group: "C05", Coq: "JoinValue_coinValue", Pkg: "x/amm/types", Recv: "Pool", Name: "CalcJoinValueWithoutSlippage", Target: "assign:v#1",
		Opaque: []string{"(x/amm/types.OracleKeeper).GetAssetPriceFromDenom"}},
	{Group: "C05", Coq: "JoinValue_sum", Pkg: "x/amm/types", Recv: "Pool", Name: "CalcJoinValueWithoutSlippage", Target: "assign:joinValue#2",
		Opaque: []string{"(x/amm/types.OracleKeeper).GetAssetPriceFromDenom"}},
	{Group: "C05", Coq: "JoinValue_init", Pkg: "x/amm/types", Recv: "Pool", Name: "CalcJoinValueWithoutSlippage", Target: "assign:joinValue#1",
		Opaque: []string{"(x/amm/types.OracleKeeper).GetAssetPriceFromDenom"}},
	{Group: "C05", Coq: "JoinValue_zeroPrice", Pkg: "x/amm/types", Recv: "Pool", Name: "CalcJoinValueWithoutSlippage", Target: "ifcond:#1",
		Opaque: []string{"(x/amm/types.OracleKeeper).GetAssetPriceFromDenom"}},
	{Group: "C05", Coq: "JoinPool_numShares", Pkg: "x/amm/types", Recv: "Pool", Name: "JoinPool", Target: "assign:numShares#1",
		Opaque: []string{"(*x/amm/types.Pool).CalcJoinValueWithoutSlippage", "(*x/amm/types.Pool).TVL", "(x/amm/types.Pool).WeightDistanceFromTarget",
			"x/amm/types.GetWeightBreakingFee", "(*x/amm/types.Pool).GetTotalShares"}},
	{Group: "C05", Coq: "JoinPool_zeroTvl", Pkg: "x/amm/types", Recv: "Pool", Name: "JoinPool", Target: "guard:ErrAmountTooLow",
		Opaque: []string{"(*x/amm/types.Pool).CalcJoinValueWithoutSlippage", "(*x/amm/types.Pool).TVL", "(x/amm/types.Pool).WeightDistanceFromTarget",
			"x/amm/types.GetWeightBreakingFee", "(*x/amm/types.Pool).GetTotalShares"}},
}

var arSpecsC12 = []arFn{
	// C12: Commitments.DeductFromCommitted / AddCommittedTokens / CommittedTokensLocked, per entry and per lock-up
	{Group: "C12", Coq: "Deduct_newAmount", Pkg: "x/commitment/types", Recv: "Commitments", Name: "DeductFromCommitted", Target: "assign:c.CommittedTokens[i].Amount#1"},
	{Group: "C12", Coq: "Deduct_insufficientCommitted", Pkg: "x/commitment/types", Recv: "Commitments", Name: "DeductFromCommitted", Target: "guard:ErrInsufficientCommittedTokens"},
	{Group: "C12", Coq: "Deduct_keepLock", Pkg: "x/commitment/types", Recv: "Commitments", Name: "DeductFromCommitted", Target: "ifcond:#3"},
	{Group: "C12", Coq: "Deduct_lockedInit", Pkg: "x/commitment/types", Recv: "Commitments", Name: "DeductFromCommitted", Target: "assign:lockedAmount#1"},
	{Group: "C12", Coq: "Deduct_lockedStep", Pkg: "x/commitment/types", Recv: "Commitments", Name: "DeductFromCommitted", Target: "assign:lockedAmount#2"},
	{Group: "C12", Coq: "Deduct_insufficientWithdrawable", Pkg: "x/commitment/types", Recv: "Commitments", Name: "DeductFromCommitted", Target: "guard:ErrInsufficientWithdrawableTokens"},
	{Group: "C12", Coq: "Deduct_removeEntry", Pkg: "x/commitment/types", Recv: "Commitments", Name: "DeductFromCommitted", Target: "ifcond:#-1"},
	{Group: "C12", Coq: "AddCommitted_newAmount", Pkg: "x/commitment/types", Recv: "Commitments", Name: "AddCommittedTokens", Target: "assign:c.CommittedTokens[i].Amount#1"},
	{Group: "C12", Coq: "AddCommitted_withLock", Pkg: "x/commitment/types", Recv: "Commitments", Name: "AddCommittedTokens", Target: "ifcond:#2"},
	{Group: "C12", Coq: "AddCommitted_withLockNew", Pkg: "x/commitment/types", Recv: "Commitments", Name: "AddCommittedTokens", Target: "ifcond:#3"},
	{Group: "C12", Coq: "Locked_isLocked", Pkg: "x/commitment/types", Recv: "Commitments", Name: "CommittedTokensLocked", Target: "ifcond:#1", Wrap64: true,
		Getters: []string{"BlockTime", "Unix"}},
	{Group: "C12", Coq: "Locked_step", Pkg: "x/commitment/types", Recv: "Commitments", Name: "CommittedTokensLocked", Target: "assign:lockedAmount#2"},
}

var arLevOpq = []string{"(x/leveragelp/keeper.Keeper).GetPositionHealth", "(x/leveragelp/keeper.Keeper).GetParams", "(x/leveragelp/keeper.Keeper).GetSafetyFactor",
	"(x/leveragelp/types.StableStakeKeeper).UpdateInterestAndGetDebt", "(x/stablestake/types.Debt).GetTotalLiablities", "(*x/amm/types.Pool).LpTokenPrice"}
var arPerpOpq = []string{"(x/perpetual/keeper.Keeper).GetMTPHealth", "(x/perpetual/keeper.Keeper).GetSafetyFactor", "(x/perpetual/keeper.Keeper).GetAssetPrice"}

var arSpecsC10 = []arFn{
	// C10: the guards of the forced closes and of the open-time health checks
	{Group: "C10", Coq: "LevLiq_isHealthy", Pkg: "x/leveragelp/keeper", Recv: "Keeper", Name: "CheckAndLiquidateUnhealthyPosition", Target: "assign:isHealthy#1", Opaque: arLevOpq},
	{Group: "C10", Coq: "LevLiq_skip", Pkg: "x/leveragelp/keeper", Recv: "Keeper", Name: "CheckAndLiquidateUnhealthyPosition", Target: "ifmentions:isHealthy#1", Opaque: arLevOpq},
	{Group: "C10", Coq: "LevStop_under", Pkg: "x/leveragelp/keeper", Recv: "Keeper", Name: "CheckAndCloseAtStopLoss", Target: "assign:underStopLossPrice#1", Opaque: arLevOpq},
	{Group: "C10", Coq: "LevStop_skip", Pkg: "x/leveragelp/keeper", Recv: "Keeper", Name: "CheckAndCloseAtStopLoss", Target: "ifmentions:underStopLossPrice#1", Opaque: arLevOpq},
	{Group: "C10", Coq: "LevOpen_unhealthy", Pkg: "x/leveragelp/keeper", Recv: "Keeper", Name: "ProcessOpenLong", Target: "guard:ErrPositionUnhealthy", Opaque: arLevOpq},
	{Group: "C10", Coq: "PerpLiq_unhealthy", Pkg: "x/perpetual/keeper", Recv: "Keeper", Name: "CheckAndLiquidateUnhealthyPosition", Target: "ifmentions:MtpHealth#1", Opaque: arPerpOpq},
	{Group: "C10", Coq: "PerpStop_underLong", Pkg: "x/perpetual/keeper", Recv: "Keeper", Name: "CheckAndCloseAtStopLoss", Target: "assign:underStopLossPrice#1", Conj: true, Opaque: arPerpOpq},
	{Group: "C10", Coq: "PerpStop_underShort", Pkg: "x/perpetual/keeper", Recv: "Keeper", Name: "CheckAndCloseAtStopLoss", Target: "assign:underStopLossPrice#2", Conj: true, Opaque: arPerpOpq},
	{Group: "C10", Coq: "PerpTake_missLong", Pkg: "x/perpetual/keeper", Recv: "Keeper", Name: "CheckAndCloseAtTakeProfit", Target: "ifmentions:TakeProfitPrice#1", Conj: true, Opaque: arPerpOpq},
	{Group: "C10", Coq: "PerpTake_missShort", Pkg: "x/perpetual/keeper", Recv: "Keeper", Name: "CheckAndCloseAtTakeProfit", Target: "ifmentions:TakeProfitPrice#2", Conj: true, Opaque: arPerpOpq},
	{Group: "C10", Coq: "PerpOpen_unhealthy", Pkg: "x/perpetual/keeper", Recv: "Keeper", Name: "ProcessOpen", Target: "guard:ErrMTPUnhealthy", Opaque: arPerpOpq},
	{Group: "C10", Coq: "PerpConsolidate_unhealthy", Pkg: "x/perpetual/keeper", Recv: "Keeper", Name: "OpenConsolidate", Target: "guard:ErrMTPUnhealthy", Opaque: arPerpOpq},
	{Group: "C10", Coq: "PerpAfterOpen_unhealthy", Pkg: "x/perpetual/keeper", Recv: "Keeper", Name: "CheckHealthAfterOpen", Target: "guard:ErrMTPUnhealthy", Opaque: arPerpOpq},
}

func init() {
	arSpecs2 = append(append(append(append(arSpecs2, arSpecsC16...), arSpecsC05...), arSpecsC12...), arSpecsC10...)
}

func arExtraImports(fns []*arFn) string {
	for _, f := range fns {
		if f.Wrap64 {
			return " Base.U64"
		}
	}
	return ""
}

// ---------------------------------------------------------------- targets

func arAllNil(rs *ast.ReturnStmt) bool {
	if len(rs.Results) == 0 {
		return false
	}
	for _, r := range rs.Results {
		id, ok := r.(*ast.Ident)
		if !ok || id.Name != "nil" {
			return false
		}
	}
	return true
}

func arIsSpec2(spec *arFn) bool {
	for i := range arSpecs2 {
		if &arSpecs2[i] == spec {
			return true
		}
	}
	return false
}

func (c *arCtx) parseTarget2(t string) bool {
	idx := func(s string) int {
		n, err := strconv.Atoi(s)
		if err != nil || n < 1 {
			c.fail(c.fn, "malformed target %s", t)
		}
		return n
	}
	switch {
	case strings.HasPrefix(t, "guardnil:#"), strings.HasPrefix(t, "ifcond:#"):
		skipOnly := strings.HasPrefix(t, "guardnil:#")
		ks := t[strings.Index(t, "#")+1:]
		fromEnd := strings.HasPrefix(ks, "-") // ifcond:#-1 is the last if statement of the function
		k := idx(strings.TrimPrefix(ks, "-"))
		if fromEnd {
			total := 0
			ast.Inspect(c.fn.Body, func(nd ast.Node) bool {
				if _, ok := nd.(*ast.FuncLit); ok {
					return false
				}
				if _, ok := nd.(*ast.IfStmt); ok {
					total++
				}
				return true
			})
			if skipOnly || total-k+1 < 1 {
				c.fail(c.fn, "target %s: the function has %d if statements", t, total)
			}
			k = total - k + 1
		}
		n := 0
		ast.Inspect(c.fn.Body, func(nd ast.Node) bool {
			if _, ok := nd.(*ast.FuncLit); ok {
				return false
			}
			is, ok := nd.(*ast.IfStmt)
			if !ok {
				return true
			}
			if skipOnly {
				if len(is.Body.List) != 1 || is.Else != nil {
					return true
				}
				rs, ok := is.Body.List[0].(*ast.ReturnStmt)
				if !ok || !arAllNil(rs) {
					return true
				}
			}
			n++
			if n == k {
				c.tgtIf = is
			}
			return true
		})
		if c.tgtIf == nil {
			c.fail(c.fn, "target %s: the function has %d such if statements", t, n)
		}
		return true
	case strings.HasPrefix(t, "ifmentions:"):
		// the k-th if statement whose condition mentions an identifier / field of that name
		body := strings.TrimPrefix(t, "ifmentions:")
		h := strings.LastIndex(body, "#")
		if h < 0 {
			c.fail(c.fn, "malformed target %s", t)
		}
		name, k := body[:h], idx(body[h+1:])
		n := 0
		ast.Inspect(c.fn.Body, func(nd ast.Node) bool {
			if _, ok := nd.(*ast.FuncLit); ok {
				return false
			}
			is, ok := nd.(*ast.IfStmt)
			if !ok {
				return true
			}
			m := false
			ast.Inspect(is.Cond, func(x ast.Node) bool {
				if id, ok := x.(*ast.Ident); ok && id.Name == name {
					m = true
				}
				return true
			})
			if m {
				n++
				if n == k {
					c.tgtIf = is
				}
			}
			return true
		})
		if c.tgtIf == nil {
			c.fail(c.fn, "target %s: %d if statements mention %s", t, n, name)
		}
		return true
	case strings.HasPrefix(t, "assign:"):
		// right-hand side of the k-th assignment (= or :=) to the local of that name, in source order
		body := strings.TrimPrefix(t, "assign:")
		h := strings.LastIndex(body, "#")
		if h < 0 {
			c.fail(c.fn, "malformed target %s", t)
		}
		name, k := body[:h], idx(body[h+1:])
		n := 0
		ast.Inspect(c.fn.Body, func(nd ast.Node) bool {
			if _, ok := nd.(*ast.FuncLit); ok {
				return false
			}
			as, ok := nd.(*ast.AssignStmt)
			if !ok || (as.Tok != token.ASSIGN && as.Tok != token.DEFINE) || len(as.Lhs) != len(as.Rhs) {
				return true
			}
			for i, l := range as.Lhs {
				if id, ok := l.(*ast.Ident); (ok && id.Name == name) || (!ok && c.src(l) == name) {
					n++
					if n == k {
						c.tgtExpr = as.Rhs[i]
					}
				}
			}
			return true
		})
		if c.tgtExpr == nil {
			c.fail(c.fn, "target %s: the function has %d assignments to %s", t, n, name)
		}
		return true
	case strings.HasPrefix(t, "retval:#"):
		parts := strings.Split(strings.TrimPrefix(t, "retval:#"), ":")
		if len(parts) != 2 {
			c.fail(c.fn, "malformed target %s", t)
		}
		k := idx(parts[0])
		i, err := strconv.Atoi(parts[1])
		if err != nil || i < 0 {
			c.fail(c.fn, "malformed target %s", t)
		}
		n := 0
		ast.Inspect(c.fn.Body, func(nd ast.Node) bool {
			if _, ok := nd.(*ast.FuncLit); ok {
				return false
			}
			if rs, ok := nd.(*ast.ReturnStmt); ok {
				n++
				if n == k {
					if i >= len(rs.Results) {
						c.fail(rs, "target %s: the return statement has %d results", t, len(rs.Results))
					}
					c.tgtExpr = rs.Results[i]
				}
			}
			return true
		})
		if c.tgtExpr == nil {
			c.fail(c.fn, "target %s: the function has %d return statements", t, n)
		}
		return true
	}
	return false
}

// a target inside a switch over constants: enter the clause, conjoin its selection to a boolean target
func (c *arCtx) walkSwitch(sw *ast.SwitchStmt) {
	tgt := c.target()
	if sw.Init != nil || sw.Tag == nil {
		c.fail(sw, "target inside a switch with an init statement or without a tag")
	}
	if !arContains(sw.Body, tgt) {
		c.fail(sw, "target in the tag of a switch statement")
	}
	ast.Inspect(sw.Body, func(n ast.Node) bool {
		if b, ok := n.(*ast.BranchStmt); ok && b.Tok == token.FALLTHROUGH {
			c.fail(b, "fallthrough in the switch that contains the target")
		}
		return true
	})
	tag := c.num(sw.Tag, c.expr(sw.Tag))
	if cl := c.classOf(sw.Tag); cl != "N" && cl != "U" {
		c.fail(sw, "switch tag is not a native integer: %s", c.src(sw.Tag))
	}
	sel := func(cc *ast.CaseClause) *arTerm {
		var t *arTerm
		for _, e := range cc.List {
			tv, ok := c.p.info.Types[e]
			if !ok || tv.Value == nil {
				c.fail(e, "case expression is not a constant: %s", c.src(e))
			}
			eq := arInf("=?", tag, c.num(e, c.expr(e)))
			if t == nil {
				t = eq
			} else {
				t = arInf("||", t, eq)
			}
		}
		return t
	}
	var mine *ast.CaseClause
	var others *arTerm
	for _, st := range sw.Body.List {
		cc := st.(*ast.CaseClause)
		if arContains(cc, tgt) {
			mine = cc
			continue
		}
		if cc.List == nil {
			continue
		}
		if s := sel(cc); others == nil {
			others = s
		} else {
			others = arInf("||", others, s)
		}
	}
	if mine == nil {
		c.fail(sw, "target not inside a case clause")
	}
	var cond *arTerm
	if mine.List != nil {
		cond = sel(mine)
	} else if others != nil {
		cond = arApp("negb", others)
	}
	c.walk(mine.Body)
	if c.found == nil {
		c.fail(sw, "target not reached inside the case clause")
	}
	if cond != nil {
		if !c.found.bool {
			c.fail(sw, "target inside a switch is not a condition")
		}
		c.found = &arVal{t: arInf("&&", cond, c.num(sw, c.found)), bool: true}
	}
}

// loops in the slices of this file: the numeric locals a loop assigns are inputs, not poison. Inside the loop that
// contains the target they stand for the values at the start of one iteration; after a loop the value does not
// depend on, for the values the loop left behind.
func (c *arCtx) loopInputs(objs []types.Object, n ast.Node, what string) {
	for _, o := range objs {
		if cl := arClass(o.Type()); arNumeric(cl) || cl == "B" {
			name := o.Name()
			for k := 2; ; k++ {
				clash := false
				for _, i := range c.inputs {
					if i.name == name {
						clash = true
					}
				}
				if !clash {
					break
				}
				name = o.Name() + strconv.Itoa(k)
			}
			inp := &arInput{name: name, kind: 2, ord: [3]int{1 << 20, len(c.inputs), 0}, fields: map[string]string{}, desc: "value of " + o.Name() + " " + what}
			c.inputs = append(c.inputs, inp)
			c.env[o] = c.rooted(n, inp, "", o.Type())
		} else {
			c.env[o] = &arVal{bad: "assigned inside the loop at " + c.pos(n)}
		}
	}
}

func (c *arCtx) afterLoop(objs []types.Object, n ast.Node) {
	c.loopInputs(objs, n, "after the loop `"+c.src(n)+"`")
}

func (c *arCtx) walkRange2(x *ast.RangeStmt, has bool) {
	outer := c.assignedOuter([]ast.Stmt{x.Body}, x.Pos())
	if !has {
		c.afterLoop(outer, x)
		return
	}
	if !arContains(x.Body, c.target()) {
		c.fail(x, "target in the header of a range statement")
	}
	c.loopInputs(outer, x, "at the start of an iteration of the loop")
	if id, ok := x.Key.(*ast.Ident); ok && id.Name != "_" {
		c.env[c.obj(id)] = &arVal{bad: "loop index"}
	}
	if id, ok := x.Value.(*ast.Ident); ok && id.Name != "_" && x.Tok == token.DEFINE {
		inp := &arInput{name: id.Name, kind: 2, ord: [3]int{1 << 20, len(c.inputs), 0}, fields: map[string]string{}, desc: "element of " + c.src(x.X)}
		c.inputs = append(c.inputs, inp)
		c.env[c.obj(id)] = c.rooted(id, inp, "", c.obj(id).Type())
	}
	c.walk(x.Body.List)
	if c.found == nil {
		c.fail(x, "target not reached inside the loop body")
	}
}

// Assignment through an access path (`c.CommittedTokens[i].Amount = e`) rooted at a tracked reference: later reads
// of exactly the same path (same source text) see e. Trusted: two different paths from the same root do not name
// the same location. Other tracked references of pointer type may alias the written location (the loop variable
// `token` of `for i, token := range c.CommittedTokens` is c.CommittedTokens[i]): they are poisoned.
func arRootIdent(e ast.Expr) *ast.Ident {
	for {
		switch y := e.(type) {
		case *ast.SelectorExpr:
			e = y.X
		case *ast.IndexExpr:
			e = y.X
		case *ast.StarExpr:
			e = y.X
		case *ast.ParenExpr:
			e = y.X
		case *ast.Ident:
			return y
		default:
			return nil
		}
	}
}

func (c *arCtx) override(ro types.Object, old *arVal, l ast.Expr, v *arVal) bool {
	if old.ref == nil || old.bad != "" {
		return false
	}
	key := c.src(l)
	if strings.HasSuffix(key, "...") {
		return false
	}
	nv := *old
	nv.ov = map[string]*arVal{}
	for k, x := range old.ov {
		nv.ov[k] = x
	}
	nv.ov[key] = v
	c.env[ro] = &nv
	for o, x := range c.env {
		if o == ro || x.ref == nil || x.bad != "" {
			continue
		}
		if _, ptr := o.Type().(*types.Pointer); ptr {
			c.env[o] = &arVal{bad: o.Name() + " may name the location written by " + key + " at " + c.pos(l)}
		}
	}
	return true
}

func (c *arCtx) overridden(e ast.Expr) *arVal {
	if !c.prune {
		return nil
	}
	id := arRootIdent(e)
	if id == nil {
		return nil
	}
	root, ok := c.env[c.obj(id)]
	if !ok || len(root.ov) == 0 {
		return nil
	}
	key := c.src(e)
	if v, ok := root.ov[key]; ok {
		return v
	}
	for k := range root.ov {
		if strings.HasPrefix(k, key) || strings.HasPrefix(key, k) {
			return &arVal{bad: key + " overlaps the path " + k + " that was assigned"}
		}
	}
	return nil
}

// Conj: the condition of an enclosing if statement (negated when the target is in its else branch)
func (c *arCtx) pathCondOf(x *ast.IfStmt, tgt ast.Node) *arTerm {
	if !c.spec.Conj {
		return nil
	}
	t := c.num(x.Cond, c.expr(x.Cond))
	if len(c.binds) > 0 {
		c.fail(x, "path condition needs a checked operation")
	}
	if x.Else != nil && arContains(x.Else, tgt) {
		return arApp("negb", t)
	}
	return t
}

func (c *arCtx) applyPathCond(x *ast.IfStmt, pc *arTerm) {
	if pc == nil {
		return
	}
	if !c.found.bool {
		c.fail(x, "Conj: the target is not a condition")
	}
	c.found = &arVal{t: arInf("&&", pc, c.num(x, c.found)), bool: true}
}

// LegacyDec.IsNil(): a separate boolean input next to the field it is asked of (a computed value is never nil)
func (c *arCtx) decExtra(call *ast.CallExpr, name string, r *arTerm) *arVal {
	if name != "IsNil" || len(call.Args) != 0 {
		return nil
	}
	if r.k == "fld" && r.inp != nil {
		return c.field(r.inp, r.s+".IsNil()", true)
	}
	if r.k == "var" || r.k == "lit" {
		return nil
	}
	return &arVal{t: arVar("false"), bool: true}
}

// LegacyNewDecFromBigInt(x.BigInt()) for a math.Int x
func (c *arCtx) mathExtra(call *ast.CallExpr, name string) *arVal {
	if name == "LegacyNewDecFromBigInt" && len(call.Args) == 1 {
		if inner, ok := call.Args[0].(*ast.CallExpr); ok && len(inner.Args) == 0 {
			if sel, ok := inner.Fun.(*ast.SelectorExpr); ok && sel.Sel.Name == "BigInt" && c.classOf(sel.X) == "I" {
				return &arVal{t: arApp("dec_of_int", c.num(sel.X, c.expr(sel.X)))}
			}
		}
	}
	return c.mathExtra3(call, name) // arith3.go
}

// sdk.Coin: IsZero / IsPositive / IsNegative are the tests of its Amount
func (c *arCtx) coinMethod(call *ast.CallExpr, fn *types.Func, sig *types.Signature) *arVal {
	if sig.Recv() == nil || len(call.Args) != 0 {
		return nil
	}
	t := sig.Recv().Type()
	if p, ok := t.(*types.Pointer); ok {
		t = p.Elem()
	}
	n, ok := t.(*types.Named)
	if !ok || n.Obj().Pkg() == nil || n.Obj().Pkg().Path() != arSDK || n.Obj().Name() != "Coin" {
		return nil
	}
	sel, ok := call.Fun.(*ast.SelectorExpr)
	if !ok {
		return nil
	}
	var mk func(a *arTerm) *arTerm
	switch fn.Name() {
	case "IsZero":
		mk = func(a *arTerm) *arTerm { return arInf("=?", a, arZero) }
	case "IsPositive":
		mk = func(a *arTerm) *arTerm { return arInf("<?", arZero, a) }
	case "IsNegative":
		mk = func(a *arTerm) *arTerm { return arInf("<?", a, arZero) }
	default:
		return nil
	}
	amt := c.sel(call, c.expr(sel.X), "Amount", arFieldType(n, "Amount"))
	return &arVal{t: mk(c.num(call, amt)), bool: true}
}

// a target inside the body of a `for` loop: the numeric locals the loop assigns (loop-carried values, the counter)
// become inputs of the slice; the value is the one computed in ONE iteration from the values at its start
func (c *arCtx) walkFor(x *ast.ForStmt) {
	tgt := c.target()
	if !arContains(x.Body, tgt) {
		c.fail(x, "target in the header of a for statement")
	}
	if x.Init != nil {
		c.walkStmt(x.Init)
	}
	stmts := []ast.Stmt{x.Body}
	if x.Post != nil {
		stmts = append(stmts, x.Post)
	}
	c.loopInputs(c.assignedOuter(stmts, x.Body.Pos()), x, "at the start of an iteration of the loop")
	c.walk(x.Body.List)
	if c.found == nil {
		c.fail(x, "target not reached inside the loop body")
	}
}

// ---------------------------------------------------------------- error results in slice mode

func (c *arCtx) errInputOf(e ast.Expr) *arInput {
	call, ok := e.(*ast.CallExpr)
	if !ok {
		return nil
	}
	if inp, ok := c.opq[call]; ok && inp.errRes {
		return inp
	}
	return nil
}

// `err == nil` / `err != nil` on the error result of a fallible opaque reader (slice mode)
func (c *arCtx) errNilTest(x *ast.BinaryExpr) *arVal {
	if !c.slice || (x.Op != token.EQL && x.Op != token.NEQ) {
		return nil
	}
	a, b := x.X, x.Y
	if id, ok := a.(*ast.Ident); ok && id.Name == "nil" {
		a, b = b, a
	}
	nid, ok := b.(*ast.Ident)
	if !ok || nid.Name != "nil" {
		return nil
	}
	id, ok := a.(*ast.Ident)
	if !ok || c.classOf(id) != "E" {
		return nil
	}
	v, ok := c.env[c.obj(id)]
	if !ok || v.ein == nil {
		return nil
	}
	t := c.field(v.ein, "err_nil", true).t
	if x.Op == token.NEQ {
		t = arApp("negb", t)
	}
	return &arVal{t: t, bool: true}
}

// An error flag that was only read by statements outside the slice (`if err != nil { return .. }`) is not an input.
// For the targets of this file the same holds for every field: an input field that does not occur in the value
// (it was read by a statement the value does not depend on) is dropped, so that edits elsewhere in the function
// do not change the signature. Numeric parameters of the Go function always stay.
func (c *arCtx) pruneErrFields(t *arTerm) {
	words := map[string]bool{}
	for _, w := range strings.FieldsFunc(t.String(), func(r rune) bool {
		return !(r >= 'a' && r <= 'z' || r >= 'A' && r <= 'Z' || r >= '0' && r <= '9' || r == '_')
	}) {
		words[w] = true
	}
	for _, inp := range c.inputs {
		for p := range inp.fields {
			switch {
			case inp.errRes && p == "err_nil", c.prune && inp.kind != 3 && !(inp.kind == 0 && p == ""):
				if !words[inp.fieldName(p)] {
					delete(inp.fields, p)
				}
			}
		}
	}
}

// ---------------------------------------------------------------- uint64 with wrap-around

func arIsUint64(t types.Type) bool {
	if t == nil {
		return false
	}
	b, ok := t.Underlying().(*types.Basic)
	return ok && b.Kind() == types.Uint64
}

func (c *arCtx) wrap64Binary(x *ast.BinaryExpr, cx, cy string) *arVal {
	if !c.spec.Wrap64 || cx != "U" || cy != "U" {
		return nil
	}
	var f string
	switch x.Op {
	case token.ADD:
		f = "u64_add"
	case token.SUB:
		f = "u64_sub"
	case token.MUL:
		f = "u64_mul"
	default:
		return nil
	}
	if !arIsUint64(c.typeOf(x.X)) || !arIsUint64(c.typeOf(x.Y)) {
		c.fail(x, "unsigned arithmetic on a type other than uint64: %s", c.src(x))
	}
	return &arVal{t: arApp(f, c.num(x.X, c.expr(x.X)), c.num(x.Y, c.expr(x.Y)))}
}

func (c *arCtx) wrap64Conv(call *ast.CallExpr, toT types.Type, to, from string) *arVal {
	if !c.spec.Wrap64 {
		return nil
	}
	is64 := func(t types.Type) bool {
		b, ok := t.Underlying().(*types.Basic)
		return ok && (b.Kind() == types.Int64 || b.Kind() == types.Int)
	}
	fromT := c.typeOf(call.Args[0])
	switch {
	case to == "U" && from == "N" && arIsUint64(toT) && fromT != nil && is64(fromT):
		return &arVal{t: arApp("u64_of_int", c.num(call.Args[0], c.expr(call.Args[0])))}
	case to == "N" && from == "U" && is64(toT) && arIsUint64(fromT):
		return &arVal{t: arApp("int_of_u64", c.num(call.Args[0], c.expr(call.Args[0])))}
	case to == "U" && from == "U" && arIsUint64(toT) && arIsUint64(fromT):
		return c.expr(call.Args[0])
	}
	return nil
}

// ---------------------------------------------------------------- pure external functions

func (c *arCtx) extPureInput(fn *types.Func) *arInput {
	if fn.Pkg() == nil || fn.Type().(*types.Signature).Recv() != nil {
		return nil
	}
	for i, e := range c.spec.ExtPure {
		if e == fn.Name() {
			key := "pure:" + e
			if inp, ok := c.ext[key]; ok {
				return inp
			}
			sig := fn.Type().(*types.Signature)
			if sig.Results().Len() != 1 || !arNumeric(arClass(sig.Results().At(0).Type())) {
				return nil
			}
			ar := "Z"
			for j := 0; j < sig.Params().Len(); j++ {
				if !arNumeric(arClass(sig.Params().At(j).Type())) {
					return nil
				}
				ar = "Z -> " + ar
			}
			inp := &arInput{name: "ext_" + e, kind: 3, ord: [3]int{-1, 100 + i, 0}, fields: map[string]string{"": "fun"}, desc: "external function " + e + " (pure)", sig: ar}
			c.ext[key] = inp
			c.inputs = append(c.inputs, inp)
			return inp
		}
	}
	return nil
}
