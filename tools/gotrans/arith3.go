// Third batch of arithmetic ties: the weight-breaking fee of oracle pools (group C03b -> Generated/ArithC03b.v,
// tied to Models/WeightFee.v by Proofs/ArithTieC03b.v).
//
//	GetWeightBreakingFee (whole function, checked mode, Pow passed in) = WeightFee.get_wbf
//	SwapOutAmtGivenIn / SwapInAmtGivenOut: the fee / bonus decision after GetWeightBreakingFee (perpetual factor, portion,
//	  improving test, threshold test) and distanceDiff = WeightFee.wb_decide_swap, the csub of wb_swap
//	JoinPool: the same decision of the oracle single-sided join = the tail of WeightFee.wb_join
//	CalcExitPool: tokenOutAmount and the returned bonus from the fee
//	GetOraclePoolNormalizedWeights: per-asset weight, running total, the zero-total replacement, the normalisation
package main

import (
	"go/ast"
	"go/constant"
	"strconv"
	"strings"
)

var arWbfOpq = []string{"(x/amm/types.Pool).parsePoolAssets", "(x/amm/types.OracleKeeper).GetAssetPriceFromDenom",
	"(*x/amm/types.Pool).GetAccountedBalance", "(x/amm/types.Pool).WeightDistanceFromTarget", "(x/amm/types.Pool).GetAssetExternalLiquidityRatio", "(*x/amm/types.Pool).GetAssetExternalLiquidityRatio",
	"(x/amm/types.Pool).CalcGivenInSlippage", "(x/amm/types.Pool).CalcGivenOutSlippage", "(x/amm/types.Pool).NewPoolAssetsAfterSwap",
	"x/amm/types.GetDenomNormalizedWeight", "x/amm/types.GetDenomOracleAssetWeight", "x/amm/types.GetWeightBreakingFee",
	"(x/amm/types.Pool).CalcOutAmtGivenIn", "(x/amm/types.Pool).CalcInAmtGivenOut",
	"(*x/amm/types.Pool).CalcJoinValueWithoutSlippage", "(*x/amm/types.Pool).TVL", "(*x/amm/types.Pool).GetTotalShares",
	"x/amm/types.CalcExitValueWithoutSlippage"}

var arSpecsC03b = []arFn{
	{Group: "C03b", Coq: "GetWeightBreakingFee", Pkg: "x/amm/types", Name: "GetWeightBreakingFee", Checked: true, Ext: []string{"Pow"}},
}

// slices (pure mode, constructs of arith2.go)
var arSpecsC03bSlices = []arFn{
	// SwapOutAmtGivenIn / SwapInAmtGivenOut: distance difference, the bonus returned, the amount with the fee applied
	{Group: "C03b", Coq: "SwapOut_distanceDiff", Pkg: "x/amm/types", Recv: "Pool", Name: "SwapOutAmtGivenIn", Target: "assign:distanceDiff#1", Opaque: arWbfOpq},
	{Group: "C03b", Coq: "SwapOut_bonus", Pkg: "x/amm/types", Recv: "Pool", Name: "SwapOutAmtGivenIn", Target: "retval:#12:3", Opaque: arWbfOpq},
	{Group: "C03b", Coq: "SwapOut_amount", Pkg: "x/amm/types", Recv: "Pool", Name: "SwapOutAmtGivenIn", Target: "assign:tokenAmountOutInt#1", Opaque: arWbfOpq},
	{Group: "C03b", Coq: "SwapIn_distanceDiff", Pkg: "x/amm/types", Recv: "Pool", Name: "SwapInAmtGivenOut", Target: "assign:distanceDiff#1", Opaque: arWbfOpq},
	{Group: "C03b", Coq: "SwapIn_bonus", Pkg: "x/amm/types", Recv: "Pool", Name: "SwapInAmtGivenOut", Target: "retval:#11:3", Opaque: arWbfOpq},
	{Group: "C03b", Coq: "SwapIn_amount", Pkg: "x/amm/types", Recv: "Pool", Name: "SwapInAmtGivenOut", Target: "assign:tokenAmountInInt#1", Opaque: arWbfOpq},
	// JoinPool (oracle single-sided): the bonus returned; CalcExitPool (oracle single-sided): the bonus returned
	{Group: "C03b", Coq: "JoinPool_bonus", Pkg: "x/amm/types", Recv: "Pool", Name: "JoinPool", Target: "retval:#12:3", Opaque: arWbfOpq},
	{Group: "C03b", Coq: "JoinPool_feeApplied", Pkg: "x/amm/types", Recv: "Pool", Name: "JoinPool", Target: "assign:numSharesDec#1", Opaque: arWbfOpq},
	{Group: "C03b", Coq: "CalcExitPool_bonus", Pkg: "x/amm/types", Name: "CalcExitPool", Target: "retval:#6:1", Opaque: arWbfOpq},
	// WeightDistanceFromTarget / GetOraclePoolNormalizedWeights: the loop bodies and what follows the loops
	{Group: "C03b", Coq: "OracleWeights_weight", Pkg: "x/amm/types", Name: "GetOraclePoolNormalizedWeights", Target: "assign:weight#1", Opaque: arWbfOpq},
	{Group: "C03b", Coq: "OracleWeights_total", Pkg: "x/amm/types", Name: "GetOraclePoolNormalizedWeights", Target: "assign:totalWeight#2", Opaque: arWbfOpq},
	{Group: "C03b", Coq: "OracleWeights_zeroPrice", Pkg: "x/amm/types", Name: "GetOraclePoolNormalizedWeights", Target: "ifcond:#1", Opaque: arWbfOpq},
	{Group: "C03b", Coq: "OracleWeights_zeroTotal", Pkg: "x/amm/types", Name: "GetOraclePoolNormalizedWeights", Target: "ifcond:#2", Opaque: arWbfOpq},
	{Group: "C03b", Coq: "OracleWeights_normalized", Pkg: "x/amm/types", Name: "GetOraclePoolNormalizedWeights", Target: "assign:oraclePoolWeights[i].Weight#1", Opaque: arWbfOpq},
	// (the loop body of WeightDistanceFromTarget indexes two slices and its result divides by len(..): outside the translator's
	// scope; covered by the correspondence cases of kind 15 only)
}

// C10: the two health formulas (group C10 -> Generated/ArithC10.v, tied to Models/Health.v by Proofs/ArithTieC10b.v)
var arLevHealthOpq = []string{"(x/leveragelp/types.StableStakeKeeper).UpdateInterestAndGetDebt", "(x/stablestake/types.Debt).GetTotalLiablities",
	"(x/leveragelp/types.AssetProfileKeeper).GetUsdcDenom", "(x/leveragelp/types.CommitmentKeeper).GetCommitments", "(x/leveragelp/types.AmmKeeper).ExitPoolEst",
	arCoins + ".AmountOf"}
var arPerpHealthOpq = []string{"(x/perpetual/keeper.Keeper).EstimateSwapGivenOut"}

var arSpecsC10b = []arFn{
	{Group: "C10", Coq: "LevHealth_noDebt", Pkg: "x/leveragelp/keeper", Recv: "Keeper", Name: "GetPositionHealth", Target: "ifcond:#1", Opaque: arLevHealthOpq},
	{Group: "C10", Coq: "LevHealth_value", Pkg: "x/leveragelp/keeper", Recv: "Keeper", Name: "GetPositionHealth", Target: "assign:health#1", Opaque: arLevHealthOpq},
	{Group: "C10", Coq: "Debt_total", Pkg: "x/stablestake/types", Recv: "Debt", Name: "GetTotalLiablities"},
	{Group: "C10", Coq: "PerpHealth_noLiabilities", Pkg: "x/perpetual/keeper", Recv: "Keeper", Name: "GetMTPHealth", Target: "ifcond:#1", Opaque: arPerpHealthOpq},
	{Group: "C10", Coq: "PerpHealth_total", Pkg: "x/perpetual/keeper", Recv: "Keeper", Name: "GetMTPHealth", Target: "assign:totalLiabilities#1", Opaque: arPerpHealthOpq},
	{Group: "C10", Coq: "PerpHealth_shortNothingOwed", Pkg: "x/perpetual/keeper", Recv: "Keeper", Name: "GetMTPHealth", Target: "ifcond:#4", Opaque: arPerpHealthOpq},
	{Group: "C10", Coq: "PerpHealth_noCustody", Pkg: "x/perpetual/keeper", Recv: "Keeper", Name: "GetMTPHealth", Target: "ifmentions:custodyAmtInBaseCurrency#1", Opaque: arPerpHealthOpq},
	{Group: "C10", Coq: "PerpHealth_value", Pkg: "x/perpetual/keeper", Recv: "Keeper", Name: "GetMTPHealth", Target: "retval:#6:0", Opaque: arPerpHealthOpq},
}

func init() {
	arSpecs2 = append(arSpecs2, arSpecsC10b...)
	arSpecs = append(arSpecs, arSpecsC03b...)
	arSpecs2 = append(arSpecs2, arSpecsC03bSlices...)
}

// LegacyNewDecWithPrec(i, prec) with constant arguments, 0 <= prec <= 18: the raw integer i * 10^(18-prec)
func (c *arCtx) mathExtra3(call *ast.CallExpr, name string) *arVal {
	if name == "LegacyNewDecWithPrec" && len(call.Args) == 2 {
		t0, ok0 := c.p.info.Types[call.Args[0]]
		t1, ok1 := c.p.info.Types[call.Args[1]]
		if ok0 && ok1 && t0.Value != nil && t1.Value != nil {
			n, _ := constant.Int64Val(t0.Value)
			d, _ := constant.Int64Val(t1.Value)
			if d >= 0 && d <= 18 {
				lit := strconv.FormatInt(n, 10)
				if n != 0 {
					lit += strings.Repeat("0", int(18-d))
				}
				return &arVal{t: arLit(lit)}
			}
		}
		c.fail(call, "LegacyNewDecWithPrec with non-constant arguments")
	}
	return nil
}
