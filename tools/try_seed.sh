#!/bin/bash
# try_seed.sh <seed-name> [Cnn] [tier]: one stored seeded change against the check of its property (see run_all_seeds.sh)
cd /verif; TIER=${3:-quick} tools/run_all_seeds.sh "$1"
