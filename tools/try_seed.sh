#!/bin/bash
# try_seed.sh <seed-name> <Cnn> [tier]: applies seeded/<seed-name>/patch.diff to /repo, runs ./check Cnn, undoes the patch
cd /verif
git -C /repo diff --quiet || { echo "/repo dirty"; exit 2; }
git -C /repo apply /verif/seeded/$1/patch.diff || exit 2
./check $2 ${3:-quick} 2>&1 | grep -E "^VIOLATION|^OK|^KNOWN|\[check\] C" | cut -c1-260
git -C /repo checkout -- .
git -C /repo status --short | head -3
case "$2" in C15|C17|C18|C19) ./check $2 quick >/dev/null 2>&1;; esac  # regenerate the translator table from the clean tree
