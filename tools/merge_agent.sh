#!/bin/bash
# merge_agent.sh <name>: copies files that agent <name> ADDED in /work/<name>/verif into /verif
set -e
A=/work/$1/verif
cd $A
git status --short | while read st f; do
  case "$st" in
    '??')
      case "$f" in evidence/*|replays/*|seeded/*) continue;; esac
      if [ -d "$f" ]; then mkdir -p /verif/$f; cp -r $f/. /verif/$f/; else mkdir -p /verif/$(dirname $f); cp $f /verif/$f; fi
      echo "added $f";;
    *) echo "SKIP (modified shared) $st $f";;
  esac
done
