# Per-property configuration of ./check: one fragment per property in tools/props/Cnn.py defining PROP = dict(...).
import glob, importlib.util, os, sys
_here = os.path.dirname(os.path.abspath(__file__))
sys.path.insert(0, _here)
PROPS = {}
for _f in sorted(glob.glob(os.path.join(_here, "props", "C*.py"))):
    _name = os.path.basename(_f)[:-3]
    _spec = importlib.util.spec_from_file_location("prop_" + _name, _f)
    _m = importlib.util.module_from_spec(_spec)
    _spec.loader.exec_module(_m)
    PROPS[_name] = _m.PROP
