# C18 configuration fragment (merged by tools/propcfg.py)
from propcommon import COMMON_MODELLED
PROP = dict(
        gotest="TestC18",
        translator="blockers",
        model="coq/Models/Blocks.v (block pipeline with failure points, reviewed list, known defects) over coq/Generated/BlockerSurface.v "
              "(regenerated from the Go sources by tools/gotrans blockers on every run)",
        coq_deps=["Base/Res.v", "Base/Zdec.v", "Models/Blocks.v", "Models/StakerRewards.v", "Generated/BlockerSurface.v", "Proofs/BlocksProofs.v",
                  "Proofs/StakerRewardsProofs.v", "Run/BlocksRun.v", "Run/StakerRewardsRun.v", "Props/C18.v"],
        extra_gotests=[("TestZdec", "Zdec"), ("TestC18Rewards", "C18r")],
        rule="real app, real FinalizeBlock+Commit after every block; histories = ledger-driver user activity (amm swaps/joins/exits, stablestake, leveragelp, "
             "perpetual, third-party close requests) interleaved with environment faults: oracle outages of 1-10 blocks per denom subset, prices deleted, "
             "block-time gaps 5 min .. 366 days (band / five_minutes / ten_days epochs, several at once), odd balances (dust .. 1e13; denoms without asset "
             "info, price or pool; pool/vault share denoms; ibc/ denom) on the fee collector, the perpetual module account, pool revenue addresses, the "
             "burner's zero address and the masterchef account, 22 governance parameter settings accepted by the modules' own validation (masterchef "
             "portions, estaking provider portion / APRs, TotalBlocksPerYear 1 and 2^63, RewardsDataLifetime 1, stablestake/leveragelp EpochLength 0, "
             "oracle expiry 0, burner epoch, perpetual zero rates), Eden rewards and pool multipliers 0 / 1e6, time-based inflation, external incentives "
             "that end (also for missing pools), masterchef claims, Elys staking/unstaking, Eden vesting, dust positions, whole-balance dumps into a pool; "
             "a staking/estaking op family (harness/c18_stake_test.go): SDK MsgDelegate / MsgUndelegate / MsgBeginRedelegate / MsgCancelUnbondingDelegation / "
             "MsgCreateValidator / staking MsgUpdateParams against the genesis validator and validators created by users, commitment MsgCommitClaimedRewards / "
             "MsgUncommitTokens / MsgStake / MsgUnstake of ueden and uedenb (the delegations to the two virtual validators), estaking MsgWithdrawReward / "
             "MsgWithdrawElysStakingRewards / MsgWithdrawAllRewards and distribution withdrawals, amounts dust .. all+1 relative to balance / delegation / claimed / "
             "committed, repeated partial undelegations in consecutive blocks, undelegate everything and stake again, blocks of 5 s .. 30 days (unbonding completion), "
             "rewards from real time-based inflation and from a fixture that pays through the commitment keeper's bank wrapper; "
             "every failing transaction is checked to leave all stores (KV, transient, memory) unchanged; before each real block the same block is run "
             "blocker by blocker on a throw-away branch in the module manager's order (Elys blockers at keeper level) and Coq must predict the real "
             "result from those raw results through the generated table; distinct = op/result sequence of a history; non-trivial = some tx succeeded",
        trusted_base=["tools/gotrans blockers (Go AST, name-based call graph inside x/, depth 6): trusted for what it omits (interfaces into the SDK, panics inside "
                      "the SDK such as math.Int overflow, guards that live in callers); its order lists, its set of Elys blockers and its propagates flags are "
                      "cross-checked against the production module manager and against observed keeper-level results on every run",
                      "hook multiplexers: only MultiCommitmentHooks is followed into its elements (estaking's commitment hooks); the closure stops at the methods of "
                      "MultiAmmHooks / MultiPerpetualHooks / MultiLeverageLpHooks / MultiStableStakeHooks (tools/gotrans/blockers.go resolve(), receiver `mh[i]`)",
                      "calls from a blocker's closure into the cosmos-sdk distribution keeper are LISTED (kind KExtPanic, count = explicit panic sites reachable inside "
                      "x/distribution/keeper of the pinned SDK version, tools/gotrans/blockers_ext.go) but not analysed: that they do not fire (recorded starting stake <= "
                      "current stake: hooks bracket every change and read stored amounts) is part of assumption RSdk, exercised only by the staking histories",
                      "cdc.MustMarshal/MustUnmarshal/address.MustLengthPrefix points (KCodec) are taken not to fire (the stores hold what the keepers wrote)"],
        modelled="a blocker = the sequence of its failure points, each fired or not by the environment (theorems quantify over all choices, all states and all "
                 "state transformers); SDK modules of the order lists are NOT modelled (taken to succeed): capability, staking, slashing, evidence, "
                 "distribution proper, gov, bank, auth, IBC, CCV consumer; Commit is not modelled; review classes RNonNeg, RStoredAddr, RBankOwn, RGovState, "
                 "RSdk are named assumptions of C18_blocks_never_fail_partial, classes RParam / RLocalGuard / RStructural have modelled guards. " + COMMON_MODELLED,
        level_text="PARTIAL. Theorems (Coq, closed under the global context): (1) for ANY table whose blockers are all safe by the syntactic discipline, the block "
                   "pipeline returns Ok for all states, all blocker behaviours and all firing choices (induction over the blocker lists, epochs hooks nested in the "
                   "epochs begin blocker with error->panic); (2) on the table regenerated from the current sources every failure point of every Elys begin/end "
                   "blocker and wired epochs hook is safe by syntax, or in the reviewed list (known_unsafe is empty since the fix: commits 539e64b 2a1f010 84330e0 17361b4) (vm_compute) - a new unguarded panic or a "
                   "newly propagated error breaks this; (3) the modelled guards of the reviewed classes hold on every reachable environment, hence the "
                   "pipeline over the current table never fails under the named assumptions. SDK modules and Commit are covered only by the correspondence "
                   "run (real FinalizeBlock+Commit after every block).",
        level_note="Partial: SDK modules (staking, distribution, gov, IBC, CCV ...), SDK-internal panics and Commit are not modelled; five review classes are assumptions. "
                   "Trusted: Coq kernel+VM; tools/gotrans for what it omits; the Go harness.",
        assumptions=["SDK modules in the begin/end order succeed (not modelled)",
                     "stores hold only values written by the keepers (codec Must* do not fire)",
                     "review classes RNonNeg, RStoredAddr, RBankOwn, RGovState, RSdk (listed with their arguments in coq/Models/Blocks.v)"],
        timeout_quick=900,
    )
