# C17 configuration fragment (merged by tools/propcfg.py)
from propcommon import COMMON_MODELLED
PROP = dict(
        gotest="TestC17",
        translator=["handlers", "ownerflow"],
        model="coq/Models/Authority.v (skeleton semantics) over coq/Generated/Handlers.v, and coq/Models/OwnerFlow.v (object-selection semantics) over "
              "coq/Generated/OwnerFlow.v (both tables regenerated from the Go sources by tools/gotrans on every run)",
        coq_deps=["Base/Res.v", "Models/Authority.v", "Generated/Handlers.v", "Proofs/AuthorityProofs.v", "Run/AuthorityRun.v",
                  "Models/OwnerFlow.v", "Generated/OwnerFlow.v", "Proofs/OwnerFlowProofs.v", "Run/OwnerFlowRun.v", "Props/C17.v"],
        rule="one populated market (pools, vault, leveragelp position, perpetual MTP, pending spot + perpetual orders, airdrop); the router's own list of "
             "elys Msg types (InterfaceRegistry.ListImplementations) is compared with the translator's table in both directions; every governance-only "
             "type is delivered from 5 non-authority signers (user, module account, zero address, empty, garbage) x up to 3 payloads (zero, generic fill, "
             "hand-made payload that the authority itself gets accepted) and once from the authority; every owner-scoped type from 2 non-owners and "
             "from the owner; all stores (KV, transient, memory) are hashed on the handler's own branch after it returned and on the root after the tx; "
             "owner-flow sweep: an attacker account that owns nothing sends every type classified A/B/C by `gotrans ownerflow` (hand-made messages naming "
             "the live orders / positions / MTPs of other accounts, batch variants with one and with all foreign ids, claims, feeder and commitment "
             "messages; reflection-filled messages for the rest) and the four reviewed permissionless triggers; after each delivery a snapshot of every "
             "object owned by somebody else (records + balances of owners and sub-accounts) is compared on the handler's branch; "
             "distinct = (type, signer class, payload, result); non-trivial = payload that the authority gets accepted / that the owner gets accepted",
        trusted_base=["tools/gotrans (Go AST -> skeleton): trusted for what it omits inside a handler (a write hidden behind a call that is named like a getter); "
                      "its set of handlers, Authority fields, signer fields and write-freedom are cross-checked against the production router on every run",
                      "tools/gotrans ownerflow (Go AST -> object-selection skeleton): trusted for (1) its rule of what an OWNED record type is (a stored struct with a string "
                      "field OwnerAddress/Owner/Creator/Address/Delegator/User/Authority/Feeder; amm.Pool and assetprofile.Entry excluded), (2) writes that reach an owned object "
                      "without a preceding read of it other than Remove*/Delete* by id, (3) the name-based read/write split of handlers.go; a handler it cannot classify comes out "
                      "class U and breaks the obligation unless it is in Models/OwnerFlow.v [reviewed] (4 permissionless triggers, justified there)",
                      "the SDK ties the transaction signer to the field named by cosmos.msg.v1.signer (checked per type against codec.GetMsgV1Signers)"],
        modelled="handler bodies abstracted to ordered skeletons {Pure, Read, Check, GuardAuthority, GuardOwner, KeyedLookup, Write, Return}; everything that is "
                 "not an authorisation decision is nondeterministic (theorems quantify over all choices). " + COMMON_MODELLED,
        level_text="Theorems (Coq, closed under the global context): in the table of ALL Msg handlers regenerated from the current Go sources, every governance-only "
                   "handler has the authority comparison on its signer field before anything that can write (vm_compute over the table), hence for every such "
                   "handler, every non-authority signer, every state and every behaviour of the rest of the handler the result is Unauthorized with the state "
                   "unchanged (handler level). Owner-scoped: (first form, partial) error + state unchanged for handlers with a top-level owner comparison or signer-keyed lookup; (second form, all handlers) "
                   "in the regenerated object-selection table every handler is classified signer-keyed / id+owner comparison / inner handler fed from the outer signer / not "
                   "object-scoped / governance-only (4 reviewed permissionless triggers excepted), hence for every such handler - single and batch -, every message, store and "
                   "behaviour of the rest, an object whose stored owner is not the signer is unchanged when the handler returns, and for id-addressed handlers nothing at all is "
                   "written when every addressed object is foreign. "
                   "The table is tied to the production router by the correspondence run (set equality of message types, Authority fields, signers; observed "
                   "rejections and store hashes replayed against the skeleton semantics by Coq's VM).",
        level_note="Trusted: Coq kernel+VM; tools/gotrans for writes it cannot see inside getter-named calls; the Go harness. tools/gotrans ownerflow for its owned-type rule and for blind writes. "
                   "Reviewed (class U, permissionless by design): perpetual.ClosePositions, leveragelp.ClosePositions, tradeshield.ExecuteOrders, tier.SetPortfolio.",
        assumptions=["the transaction signer equals the request's signer field (SDK signature verification)",
                     "a call named Get*/Has*/Is*/Check*/Calc*/Validate*... on a keeper does not write (translator's getter rule)"],
        timeout_quick=600,
    )
