# C17 configuration fragment (merged by tools/propcfg.py)
from propcommon import COMMON_MODELLED
PROP = dict(
        gotest="TestC17",
        translator="handlers",
        model="coq/Models/Authority.v (skeleton semantics) over coq/Generated/Handlers.v (regenerated from the Go sources by tools/gotrans on every run)",
        coq_deps=["Base/Res.v", "Models/Authority.v", "Generated/Handlers.v", "Proofs/AuthorityProofs.v", "Run/AuthorityRun.v", "Props/C17.v"],
        rule="one populated market (pools, vault, leveragelp position, perpetual MTP, pending spot + perpetual orders, airdrop); the router's own list of "
             "elys Msg types (InterfaceRegistry.ListImplementations) is compared with the translator's table in both directions; every governance-only "
             "type is delivered from 5 non-authority signers (user, module account, zero address, empty, garbage) x up to 3 payloads (zero, generic fill, "
             "hand-made payload that the authority itself gets accepted) and once from the authority; every owner-scoped type from 2 non-owners and "
             "from the owner; all stores (KV, transient, memory) are hashed on the handler's own branch after it returned and on the root after the tx; "
             "distinct = (type, signer class, payload, result); non-trivial = payload that the authority gets accepted / that the owner gets accepted",
        trusted_base=["tools/gotrans (Go AST -> skeleton): trusted for what it omits inside a handler (a write hidden behind a call that is named like a getter); "
                      "its set of handlers, Authority fields, signer fields and write-freedom are cross-checked against the production router on every run",
                      "the SDK ties the transaction signer to the field named by cosmos.msg.v1.signer (checked per type against codec.GetMsgV1Signers)"],
        modelled="handler bodies abstracted to ordered skeletons {Pure, Read, Check, GuardAuthority, GuardOwner, KeyedLookup, Write, Return}; everything that is "
                 "not an authorisation decision is nondeterministic (theorems quantify over all choices). " + COMMON_MODELLED,
        level_text="Theorems (Coq, closed under the global context): in the table of ALL Msg handlers regenerated from the current Go sources, every governance-only "
                   "handler has the authority comparison on its signer field before anything that can write (vm_compute over the table), hence for every such "
                   "handler, every non-authority signer, every state and every behaviour of the rest of the handler the result is Unauthorized with the state "
                   "unchanged (handler level). Owner-scoped analogue for handlers with an owner comparison or a signer-keyed lookup (partial: batch variants). "
                   "The table is tied to the production router by the correspondence run (set equality of message types, Authority fields, signers; observed "
                   "rejections and store hashes replayed against the skeleton semantics by Coq's VM).",
        level_note="Trusted: Coq kernel+VM; tools/gotrans for writes it cannot see inside getter-named calls; the Go harness. Owner-scoped part is partial "
                   "(CancelSpotOrders/CancelPerpetualOrders/ClosePositions are only exercised dynamically).",
        assumptions=["the transaction signer equals the request's signer field (SDK signature verification)",
                     "a call named Get*/Has*/Is*/Check*/Calc*/Validate*... on a keeper does not write (translator's getter rule)"],
        timeout_quick=600,
    )
