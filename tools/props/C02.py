from propcommon import COMMON_MODELLED
PROP = dict(
    gotest="TestC02",
    model="coq/Models/Shares.v on coq/Models/SumLedger.v (TotalShares / bank supply / per-account committed shares / commitment custody, handler primitives mint-send-commit and uncommit-send-burn)",
    coq_deps=["Base/", "Models/SumLedger.v", "Proofs/SumLedgerProofs.v", "Models/Shares.v", "Proofs/SharesProofs.v", "Run/SharesRun.v", "Props/C02.v"],
    rule="the shared ledger histories (see C01; two of three with a second oracle pool whose shares are held by the same accounts and by leveraged-LP positions of the same owners): pool creation, all-asset and single-asset joins, exits (pro-rata and single-sided), leveraged-LP opens/closes/liquidations "
         "(position addresses are share holders) by several accounts; every step's committed share mints/burns (coinbase/burn events, with the receiving/paying account) "
         "are replayed through the Coq machine of that pool and TotalShares, supply, commitment-module balance and the touched accounts' committed shares compared; "
         "non-trivial = at least one successful tx",
    trusted_base=["the account a mint went to / a burn came from is read from the adjacent transfer events"],
    modelled="share bookkeeping of amm + commitment as a sum-ledger machine; lock-ups only as an implementation-resolved failure of uncommit; " + COMMON_MODELLED,
    level_text="Theorems (Coq, closed): for EVERY history of joins and exits by any accounts with any amounts, TotalShares = supply = sum of committed shares = commitment "
               "module balance, no share liquid anywhere; supply changes only in join/exit steps by exactly the amount. Tied to the code by replaying every step's observed "
               "share mints/burns of generated histories on the real app and diffing the four quantities; the property's predicate (sum over ALL commitments) is also evaluated "
               "directly on the keepers' state after every tx and block.",
    level_note="Trusted: Coq kernel+VM; the Go harness incl. event-trace extraction.",
    assumptions=[],
)
