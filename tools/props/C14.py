# C14 configuration fragment (merged by tools/propcfg.py)
from propcommon import COMMON_MODELLED
PROP = dict(

        gotest="TestC14",
        translator="arithC14",
        extra_props=["ArithTieC14"],
        model="coq/Models/Vesting.v (exact: VestedSoFar, ProcessTokenVesting, VestLiquid + DepositLiquidTokensClaimed, ClaimVesting per vesting denom, CancelVest over the one mixed list, VestNow, UpdateVestingInfo for two infos, module custody of the liquid denom)",
        coq_deps=["Base/", "Models/Vesting.v", "Proofs/VestingProofs.v", "Run/VestingRun.v", "Props/C14.v", "Generated/ArithC14.v", "Proofs/ArithTieTac.v", "Proofs/ArithTieC14.v", "Props/ArithTieC14.v"],
        rule="histories of 25-55 ops (vest/vest_liquid/claim/cancel/vest_now/gov/gov_liquid/enable_now/blocks) over 3 accounts on a fresh real app each; "
             "75% of the histories get a second vesting info uusdc->uusdc through the real MsgUpdateVestingInfo (own NumBlocks incl. 0, own NumMaxVestings), users hold uusdc; "
             "35% start with a directed prefix that builds one of the list shapes [usdc,elys] [elys,usdc,elys] [zero-block elys,elys] [usdc,usdc,elys] "
             "[zero-block usdc,elys,usdc] [elys,zero-block elys,usdc,elys] and cancels from it (partially, newest only, everything, too much) and claims; "
             "amounts relative to the available Eden / wallet / outstanding vesting (1, 0.1%, 1/3, 1/2, all-1, all, all+1, 2x), initial Eden 1..1e26, "
             "block advances 1,2,3,N/2,N-1,N,N+1; cancel with the wrong denom; distinct = distinct (op,result,account) sequence; non-trivial = at least one successful "
             "vest, vest-liquid, cancel, vest-now or a claim that released something; the op histogram counts the cancels that ran over a list with a skipped entry in front of a running ELYS schedule",
        trusted_base=["tools/gotrans arith (Go AST + go/types -> Gallina over Base/Zdec.v): the method table of coq/Generated/ARITH_README.md (Int/LegacyDec method -> Zdec function, validated by TestZdec); what the opaque readers of a translated function return is covered by the correspondence run only",
                      "two vesting infos are modelled: ueden->uelys and ONE liquid denom vested into itself (uusdc->uusdc; its asset-profile entry with CommitEnabled is set by the fixture); a liquid info whose VestingDenom differs from its BaseDenom, a third info, and MsgVest/MsgVestNow with the liquid denom (always refused: its Claimed bucket is empty between transactions, checked) are not exercised",
                      "claimable Eden is seeded through CommitmentKeeper.SetCommitments (fixture), not earned"],
        modelled="x/commitment vesting handlers as Gallina functions over Z; " + COMMON_MODELLED,
        level_text="Theorems (Coq, closed under the global context) over an exact Gallina model of the vesting handlers: conservation PER VESTING DENOM "
                   "(put in = released + returned + outstanding; liquid wallet + outstanding = initial wallet; module custody = sum of what all liquid schedules owe) and "
                   "0<=claimed<total for every account after EVERY history (induction over the op list), per-entry monotone/<=total/linear/complete, "
                   "claim never fails in any reachable state for any schedule length (the module always holds what it pays), a claim pays each denom exactly the newly vested amounts of ITS entries, "
                   "a cancel leaves every entry of another denom identical at its position, cancel / vest-liquid / vest-now exact. The model is replayed by Coq's VM on the very op sequences "
                   "the real app executed and must reproduce result kind, Eden, ELYS and uusdc balance, the module's uusdc custody and every vesting entry (with its denom) after every step.",
        level_note="Trusted: Coq kernel+VM; the Go harness; the model covers two vesting infos (ueden->uelys, uusdc->uusdc). Since fix: 3c63217 a zero-block schedule is released "
                   "at once and the claim handler cannot fail for any schedule length (C14_claim_never_fails); C14_claim_succeeds (exact accounting per denom in every reachable state) no longer assumes NumBlocks > 0.",
        assumptions=["initial states: claimable Eden and the liquid wallet are non-negative, no vesting entries, the second vesting info absent, module custody of the liquid denom zero (what the harness builds)"],
    )
