# C14 configuration fragment (merged by tools/propcfg.py)
from propcommon import COMMON_MODELLED
PROP = dict(

        gotest="TestC14",
        translator="arithC14",
        extra_props=["ArithTieC14"],
        model="coq/Models/Vesting.v (exact: VestedSoFar, ProcessTokenVesting, ClaimVesting, CancelVest, VestNow, UpdateVestingInfo)",
        coq_deps=["Base/", "Models/Vesting.v", "Proofs/VestingProofs.v", "Run/VestingRun.v", "Props/C14.v", "Generated/ArithC14.v", "Proofs/ArithTieTac.v", "Proofs/ArithTieC14.v", "Props/ArithTieC14.v"],
        rule="histories of 25-55 ops (vest/claim/cancel/vest_now/gov/enable_now/blocks) over 3 accounts on a fresh real app each; "
             "amounts relative to the available Eden / outstanding vesting (1, 0.1%, 1/3, 1/2, all-1, all, all+1, 2x), initial Eden 1..1e26, "
             "block advances 1,2,3,N/2,N-1,N,N+1; distinct = distinct (op,result,account) sequence; non-trivial = at least one successful "
             "vest, cancel, vest-now or a claim that released something",
        trusted_base=["tools/gotrans arith (Go AST + go/types -> Gallina over Base/Zdec.v): the method table of coq/Generated/ARITH_README.md (Int/LegacyDec method -> Zdec function, validated by TestZdec); what the opaque readers of a translated function return is covered by the correspondence run only",
                      "only the ueden->uelys vesting info is modelled (VestLiquid of other denoms is not)",
                      "claimable Eden is seeded through CommitmentKeeper.SetCommitments (fixture), not earned"],
        modelled="x/commitment vesting handlers as Gallina functions over Z; " + COMMON_MODELLED,
        level_text="Theorems (Coq, closed under the global context) over an exact Gallina model of the vesting handlers: conservation and "
                   "0<=claimed<total for every account after EVERY history (induction over the op list), per-entry monotone/<=total/linear/complete, "
                   "claim never fails in any reachable state, cancel and vest-now exact. The model is replayed by Coq's VM on the very op sequences "
                   "the real app executed and must reproduce result kind, Eden, ELYS balance and every vesting entry after every step.",
        level_note="Trusted: Coq kernel+VM; the Go harness; the model covers only the ueden->uelys vesting info. Since fix: 3c63217 a zero-block schedule is released "
                   "at once and the claim handler cannot fail for any schedule length (C14_claim_never_fails); the accounting theorem C14_claim_succeeds is stated for NumBlocks > 0.",
        assumptions=["C14_claim_succeeds (exact accounting of what a claim pays) is stated for histories in which governance keeps NumBlocks > 0; that the claim cannot fail holds unconditionally (C14_claim_never_fails)"],
    )
