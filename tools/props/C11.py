from propcommon import COMMON_MODELLED
PROP = dict(
    gotest="TestC11",
    model="coq/Models/AccPool.v (the two hook families as recomputations from the values the call site passes; fresh vs stale argument and missing hook are explicit)",
    coq_deps=["Base/Res.v", "Models/AccPool.v", "Proofs/AccPoolProofs.v", "Run/AccPoolRun.v", "Props/C11.v"],
    rule="the shared ledger histories (see C01) on the perpetual-enabled oracle pool: swaps/joins/exits (amm hooks) interleaved with perpetual opens (long/short, uusdc/uatom "
         "collateral), consolidations, closes, third-party close-positions requests that settle interest and funding without closing, over long block gaps; two of three histories on a market with a SECOND perpetual-enabled oracle pool (uusdc/aweth, 18 decimals); per step and (pool, denom) "
         "the observed (reserve, liabilities, custody) are fed to the Coq model, whose predicted TotalTokens/NonAmmPoolTokens must equal the keepers'; non-trivial = at least one successful tx",
    trusted_base=["which hook a code path fires is not observable; the model applies the post-fix discipline (fixed_step) and the comparison shows the implementation follows it",
                  "EnableTakeProfitCustodyLiabilities is false (default); with it on the formula has two more terms"],
    modelled="accounted-pool hooks; the perpetual and amm arithmetic producing the new records is implementation-resolved; " + COMMON_MODELLED,
    level_text="Theorems (Coq, closed): for EVERY history of code paths obeying the hook discipline and ANY new values of reserve/liabilities/custody, accounted total = reserve + "
               "liabilities - custody and non-amm = liabilities - custody; both pre-fix sites (stale amm pool passed by Open; settlement without hook) are refuted with witnesses. "
               "Tied to the code by feeding every step's observed source records of generated histories on the real app to the model and diffing its predicted accounted values "
               "with the keepers'; the property's predicate is also evaluated directly after every tx and block.",
    level_note="Trusted: Coq kernel+VM; the Go harness.",
    assumptions=["take-profit custody/liabilities flag off"],
)
