# C15 configuration fragment (merged by tools/propcfg.py)
from propcommon import COMMON_MODELLED
PROP = dict(
    gotest="TestC15",
    translator="mintsites",
    model="coq/Models/Supply.v (bank supply per denomination; steps = committed bank operations attributed to rows of the site table; site_ok / op_ok rules) over "
          "coq/Generated/MintSites.v (every MintCoins/BurnCoins call site of x/ and app/ + maccPerms, regenerated from the Go sources by tools/gotrans mintsites on every run)",
    coq_deps=["Base/Fn.v", "Models/Supply.v", "Generated/MintSites.v", "Proofs/SupplyProofs.v", "Run/SupplyRun.v", "Proofs/SupplyTableProofs.v", "Props/C15.v"],
    rule="the shared ledger histories (amm swaps/joins/exits, stablestake bond/unbond, leveragelp and perpetual opens/closes/liquidations, price moves, blocks of 5 s..1 day) "
         "interleaved with commitment MsgVest/MsgClaimVesting/MsgVestNow/MsgCancelVest/MsgCommitClaimedRewards/MsgUncommitTokens, masterchef and estaking claims, Elys "
         "staking, MsgSend of native/external coins to the zero (burn) address and burner epochs (five-minute epoch set through the gov handler; tokenomics inflation "
         "so that Eden/EdenB rewards flow through the commitment wrapper; every fourth world gives one external denom bank metadata). After EVERY tx and block: bank "
         "events -> ops; supply delta of every denom == mints - burns in the events; the property's predicates; every mint/burn mapped to an entry-reachable bank row of "
         "the generated table; the step replayed by Coq's VM through the model (accepts + reproduces all supplies). non-trivial = at least one successful tx",
    trusted_base=["tools/gotrans mintsites (Go AST -> site table): trusted for what it omits (reflection, go:linkname, calls from outside x/ and app/ into exported "
                  "functions that are none of the entry-point shapes); what it emits is cross-checked: every runtime coinbase/burn event must map to a listed row",
                  "the SDK bank module emits coinbase/burn/transfer events for every supply/balance change (checked per step against GetSupply of every denom)",
                  "SDK-internal burns (gov deposits, staking slashing) and ibc-transfer voucher mint/burn are class-level entries / outside the sandbox, not exercised"],
    modelled="the bank as supply per denom; module code only as the list of bank operations it commits (implementation-resolved amounts), every mint/burn attributed to a "
             "table row; pairing rules (share mint<->deposit, share burn<->withdrawal, native mint<->release, burner burn<->zero-address collection) inside one tx/block. " + COMMON_MODELLED,
    level_text="Theorems (Coq, closed under the global context): the table of ALL MintCoins/BurnCoins sites regenerated from the current Go sources passes site_ok (vm_compute: "
               "no entry-reachable site for an external or unclassifiable denom; native minted only in commitment ClaimVesting/VestNow; shares only on amm/stablestake; Eden/EdenB "
               "only through the commitment wrapper; MatchAmmBalances migration-only) and maccPerms passes perm_ok; for EVERY table passing the check, every classification of "
               "denoms and every history of steps attributed to its rows: external supply is never minted, falls only by burner burns of coins collected from the zero address in "
               "the same step and is unchanged otherwise; Eden/EdenB never in the bank; native mints are vesting releases paid out in the same step, native burns only by "
               "burner/gov/staking pools; share supply changes only with a deposit into / withdrawal from that pool or vault in the same step.",
    level_note="Trusted: Coq kernel+VM; tools/gotrans for omissions; the Go harness. The burner destroys ANY denom with bank metadata found on the zero address (code as it is): "
               "external supply is 'unchanged' only up to such voluntary burns (stated in C15_supply).",
    assumptions=["every supply change of the bank is visible as a coinbase/burn event (checked per step)",
                 "code outside x/ and app/ (SDK, ibc-go, ICS) mints/burns only in the listed SDK classes"],
    timeout_quick=900,
)
