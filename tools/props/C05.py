# C05 configuration fragment (merged by tools/propcfg.py)
from propcommon import COMMON_MODELLED
PROP = dict(
        gotest="TestC05",
        translator=["arithC05", "arithC03b"],
        extra_props=["ArithTieC05", "ArithTieC03b"],
        extra_gotests=[("TestZdec", "Zdec")],
        model="coq/Models/AmmJoinExit.v (exact over Z: MaximalExactRatioJoin/CalcJoinPoolNoSwapShares/JoinPool all-asset incl. the sdk.Coins "
              "semantics for user-supplied coins, GetMaximalNoSwapLPAmount, CalcExitPool pro-rata + processExitPool, keeper.ExitPool guards, "
              "Pool.TVL, oracle single-sided join/exit kernels; coq/Models/WeightFee.v + WeightFeeJoinExit.v: the whole oracle branch of JoinPool / CalcExitPool with the "
              "weight-breaking fee and the weightBalanceBonus COMPUTED from reserves, accounted balances, oracle prices, weights and the amm params, "
              "single-asset weighted join around Pow)",
        coq_deps=["Base/", "Models/AmmJoinExit.v", "Proofs/AmmJoinExitProofs.v", "Run/AmmJoinExitRun.v", "Models/AmmSwap.v", "Proofs/AmmSwapProofs.v",
                  "Proofs/AmmSwapProofs2.v", "Proofs/PowBounds.v", "Proofs/PowSeries.v", "Proofs/PowJoin.v", "Models/WeightFee.v", "Models/WeightFeeJoinExit.v", "Proofs/WeightFeeProofs.v", "Proofs/WeightFeeJoinExitProofs.v", "Props/C05.v", "Generated/ArithC05.v", "Proofs/ArithTieTac.v", "Proofs/ArithTieC05.v", "Props/ArithTieC05.v", "Generated/ArithC03b.v", "Proofs/ArithTieC03b.v", "Props/ArithTieC03b.v"],
        rule="pure cases: types.Pool values with 2-4 assets, reserves 1..1e30 per decade (also 0, 1, 2..9), supplies 1..1e6 and 1e18..1e30, "
             "deposits as a fraction of the pool +-1 / relative to the reserve (1, 0.1%, 1/3, 1/2, all-1, all, all+1, 2-10x, 10^-k) / per decade, "
             "requested shares 0, -5, 1, S/1e18, relative, up to 900 x supply, exiting shares 0, negative, relative, >= supply; ~6% malformed coin "
             "sets (duplicate denom, unsorted, foreign denom, wrong count, zero reserve); oracle pools with prices 1e-6..1e4, unequal weights, "
             "accounted balances, exits aimed at exactly the whole reserve; app histories: 8-15 MsgJoinPool/MsgExitPool on the real app "
             "(constant-product and oracle pool, imbalanced oracle pools, duplicate-denom MaxAmountsIn, 1-hour lock waits); "
             "distinct = distinct inputs; non-trivial = the operation succeeded",
        trusted_base=["tools/gotrans arith (Go AST + go/types -> Gallina over Base/Zdec.v): the method table of coq/Generated/ARITH_README.md; ties the per-coin / per-asset kernels of "
                      "MaximalExactRatioJoin, CalcExitPool (pro-rata and oracle branch), CalcExitValueWithoutSlippage, CalcJoinValueWithoutSlippage and the shares of the oracle JoinPool "
                      "to the model; the loops over coins / assets, the sdk.Coins operations, the single-asset weighted join, and what TVL / GetTotalShares / "
                      "AmountOfNoDenomValidation return, are covered by the correspondence run only (GetWeightBreakingFee: tied as a whole by ArithTieC03b)",
                      "MOVED from 'taken from the implementation' to 'modelled exactly': the weight-breaking fee / bonus of the oracle single-sided join and exit "
                      "(constructors COJoinW / COExitW of Run/AmmJoinExitRun.v: shares / amount, reserves, supply AND bonus must agree with JoinPool / CalcExitPool + "
                      "ExitPool, Pow panics inside GetWeightBreakingFee included; Props/ArithTieC03b.v ties GetWeightBreakingFee, the join / exit bonus decision and "
                      "the fee applied to numSharesDec). Pow of the single-asset WEIGHTED join (CSingle) is still an input. Application histories do not replay "
                      "oracle single-sided joins / exits through the model (implementation-side predicates only)",
                      "|Int| < 2^256 range panics are not modelled (overflowing generated cases are skipped and counted)",
                      "pools with a zero reserve are outside the model of GetMaximalNoSwapLPAmount (unreachable: UpdatePoolAssetBalance rejects them)"],
        modelled="x/amm join/exit share and amount arithmetic as Gallina functions over Z; " + COMMON_MODELLED,
        level_text="Theorems (Coq, closed under the global context) over an exact Gallina model of the all-asset join (both forms), the pro-rata exit, "
                   "the keeper guards and the oracle single-sided kernels: shares*R_i <= joined_i*S and out_i*S <= shares*R_i for every asset with NO slack, "
                   "join-then-exit returns <= deposit per asset exactly, exits leave >= 1 unit of every reserve and >= 1 share, reserve per share is "
                   "monotone over EVERY history of well-formed joins/exits (induction over the op list); oracle kernels within one share unit / one base "
                   "unit. The model is evaluated by Coq's VM on every input the real functions were called with and must return the same integers "
                   "and result kind. Two claims are REFUTED on the code as it is (duplicate-denom MaxAmountsIn; single-sided oracle exit of the whole reserve).",
        level_note="Trusted: Coq kernel+VM; the Go harness; weight-breaking fee MODELLED (C05_oracle_*_with_fee); Pow of the single-asset weighted join taken from the implementation; single-asset weighted join only "
                   "_partial (needs a bound on Pow).",
        assumptions=["C05_join_user_coins_le_deposit covers EVERY user-supplied token list the join accepts (since fix: 383287d a repeated denom is refused); "
                     "the pre-fix code is refuted (C05_join_duplicate_denom_prefix_refuted)",
                     "C05_exit_never_empties covers the pro-rata exit, C05_oracle_exit_never_empties the oracle single-sided exit (since fix: 1c2976e); "
                     "the pre-fix code is refuted (C05_oracle_exit_never_empties_prefix_refuted)",
                     "C05_single_asset_join_partial assumes Pow(y,w) <= y; C05_single_asset_join proves it from the exact model of Pow (Models/AmmSwap.v pow, "
                     "the model the C03 harness replays against the Go Pow) for normalized weight 0, 1/2, 1 and for every weight when y < 2 "
                     "(deposit after fee below the reserve); y >= 2 with another weight (ln/exp method) stays _partial"],
    )
