# C13 configuration fragment (merged by tools/propcfg.py)
from propcommon import COMMON_MODELLED
PROP = dict(
        gotest="TestC13",
        translator="arithC13",
        extra_props=["ArithTieC13"],
        extra_gotests=[("TestZdec", "Zdec"), ("TestC13Ledger", "C13l"), ("TestC13Ibc", "C13i")],
        model="coq/Models/Chef.v (exact: CollectGasFees / CollectPerpRevenue / CollectDEXRevenue split arithmetic incl. the account every portion is "
              "taken from, pool shares and the credited integer of UpdateLPRewards, UpdateAccPerShare, UpdateUserRewardPending/Debt over GetRewardDenoms, "
              "ClaimRewards, AddExternalIncentive, ProcessExternalRewardsDistribution; collected amounts, revenue coins, proxy TVLs and committed share "
              "amounts are implementation-resolved inputs)",
        coq_deps=["Base/", "Models/Chef.v", "Proofs/ChefProofs.v", "Run/ChefRun.v", "Props/C13.v", "Generated/ArithC13.v", "Proofs/ArithTieTac.v", "Proofs/ArithTieC13.v", "Props/ArithTieC13.v"],
        rule="histories of 32-54 ops on a fresh real app each (market fixture; masterchef portions 0.6/0.25, 1/3 / 0.5, 0.7/0.3 through the real "
             "MsgUpdateParams): MsgSwapExactAmountIn on both pools, gas fees in uusdc/uatom/uelys (SendCoinsFromAccountToModule to the fee collector, "
             "as the ante handler does), donations of any denom to pool revenue addresses, perpetual MsgOpen/MsgClose with blocks of 5 s..1 day, "
             "MsgJoinPool (all-asset, single-sided) / MsgExitPool / MsgBond / MsgUnbond by 6 accounts (1, 1/3, all-1, all, all+1, random), "
             "MsgAddExternalIncentive (uinc/uusdc/uatom/uelys/unsupported denom, unknown pool, from<height, empty range), MsgClaimRewards with repeated "
             "and unknown pool ids, real FinalizeBlock+Commit, then every account claims everything in random order; amounts: dust 1..9, "
             "per decade 1e1..1e11; distinct = distinct (op,result) sequence incl. which revenue sources each block had; non-trivial = at least one "
             "block with revenue or one successful share change / incentive / claim",
        trusted_base=["tools/gotrans arith (Go AST + go/types -> Gallina over Base/Zdec.v): the method table of coq/Generated/ARITH_README.md (Int/LegacyDec method -> Zdec function, validated by TestZdec); what the opaque readers of a translated function return is covered by the correspondence run only",
                      "collected amounts per block are read off the block's ordered bank events and the balances before the block; proxy TVLs are read "
                      "right after the block on a context with the block's time (nothing after the masterchef end blocker changes them)",
                      "Eden rewards are disabled on every pool (default); Eden is not bank-backed",
                      "Int/LegacyDec overflow panics are not modelled; negative pool multipliers (governance) are outside the model"],
        modelled="x/masterchef end blocker, hooks, ClaimRewards, external incentives as Gallina functions over Z with Base/Zdec.v LegacyDec arithmetic; "
                 "amm/stablestake/commitment/perpetual flows are driven for real and enter the model as committed-share changes and collected amounts; " + COMMON_MODELLED,
        level_text="Theorems (Coq, closed under the global context) over an exact Gallina model of the reward ledger: for the code as it is (three end-blocker sites repaired by fix: 539e64b 2a1f010 953c7c5), after EVERY "
                   "history (induction over the op list; any accounts, pools, denoms, amounts, parameters) the module balance covers the exact liabilities "
                   "plus the incentive funding not yet credited, hence every sequence of claims in any order succeeds, and every block credits at most "
                   "what it collected or released; share changes never change anyone's claimable reward and a block credits nothing "
                   "to an account without shares; the pre-fix code violates solvency at each of the three sites (witnesses by vm_compute, each with the "
                   "other two repaired). The model is replayed by Coq's VM on the op sequences the real app executed and must reproduce result kind, module "
                   "balances, acc-per-share, TotalCommitted, shares, pending and debt of every changed slot plus checksums over all slots after every step.",
        level_note="Trusted: Coq kernel+VM; the Go harness; collected amounts / TVLs / share amounts are inputs resolved from the implementation. "
                   "C13_solvent is about the model setting the real code is replayed against (mkFx false true true true); the pre-fix code is refuted (C13_dex_refuted, C13_perp_refuted, C13_dust_refuted).",
        assumptions=["C13_solvent / C13_claims_in_any_order / C13_block_credit_le_collected are about the code as it is since the three fix: commits; "
                     "the code before them is refuted at each site",
                     "parameters satisfy lp + stakers <= 1 and provider portion <= 1 (params validation); proxy TVLs are non-negative",
                     "the commitment module's TotalCommitted may over-count (open C12 finding): the theorems hold for both behaviours"],
    )
