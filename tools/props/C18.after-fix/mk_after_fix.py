# transforms the unchanged-tree model files of C18 into the version that matches the tree with the candidate fixes applied
import sys
V=sys.argv[1]
p=V+'/coq/Models/Blocks.v'
s=open(p).read()
i=s.index('Definition known_unsafe : list review := [')
j=s.index('].',i)+2
s=s[:i]+'Definition known_unsafe : list review := [].'+s[j:]
old='''  R "masterchef" PEnd "x/masterchef/keeper.Keeper.CollectPerpRevenue" KExtErr "k.bankKeeper.SendCoinsFromAccountToModule" 1 RBankOwn;'''
new=old+'''
  (* providerPortion = round(x * ProviderStakingRewardsPortion) <= x coin by coin once Validate bounds the portion by 1 *)
  R "masterchef" PEnd "x/masterchef/keeper.Keeper.CollectGasFees" KCoinSub "protocolGasFeeCoins - providerPortion" 1 RParam;
  R "masterchef" PEnd "x/masterchef/keeper.Keeper.CollectPerpRevenue" KCoinSub "protocolGasFeeCoins - providerPortion" 1 RParam;
  R "masterchef" PEnd "x/masterchef/keeper.Keeper.CollectDEXRevenue" KCoinSub "protocolRevenueCoins - providerPortion" 1 RParam;
  (* all portions are paid from the account that received the whole revenue and sum to at most it *)
  R "masterchef" PEnd "x/masterchef/keeper.Keeper.CollectPerpRevenue" KExtErr "k.bankKeeper.SendCoins" 1 RBankOwn;
  R "masterchef" PEnd "x/masterchef/keeper.Keeper.CollectDEXRevenue" KExtErr "k.bankKeeper.SendCoinsFromModuleToModule" 1 RBankOwn;
  R "masterchef" PEnd "x/masterchef/keeper.Keeper.CollectDEXRevenue" KExtErr "k.bankKeeper.SendCoinsFromModuleToAccount" 1 RBankOwn;
  (* the truncated Eden amount is tested positive before it is minted *)
  R "masterchef" PEnd "x/commitment/keeper.Keeper.MintCoins" KExtErr "k.bankKeeper.MintCoins" 1 RLocalGuard;'''
assert old in s
s=s.replace(old,new)
old='''  R "estaking" PEnd "x/estaking/keeper.Keeper.UpdateStakersRewards" KNewCoin "stakersEdenBAmount" 1 RNonNeg;'''
assert old in s
s=s.replace(old,old+'''
  R "estaking" PEnd "x/estaking/keeper.Keeper.UpdateStakersRewards" KNewCoin "stakersEdenAmountForGovernors" 1 RParam;''')
open(p,'w').write(s)
p=V+'/coq/Proofs/BlocksProofs.v'
s=open(p).read()
i=s.index('(* ------------------------------------------------------------------ the unchanged tree: witnesses *)')
j=s.index('(* non-vacuity: a concrete reachable environment *)')
s=s[:i]+s[j:]
open(p,'w').write(s)
p=V+'/coq/Props/C18.v'
s=open(p).read()
i=s.index('(* The UNCHANGED tree (faithful model')
j=s.index('(* Non-vacuity: a concrete environment satisfies [reach]. *)')
s=s[:i]+s[j:]
open(p,'w').write(s)
