# C04 configuration fragment (merged by tools/propcfg.py)
from propcommon import COMMON_MODELLED
PROP = dict(
    gotest="TestC04",
    model="coq/Models/SwapQueue.v (exact: handlers only enqueue after a discarded dry run, MsgSwapByDenom's request construction, the "
          "ExecuteSwapRequests loop with its four outcomes on cache contexts and its deletions, the coded selection over the real store keys, "
          "RouteExactAmountIn/Out hop loops with per-hop recipient and limits, UpdatePoolForSwap's transfer protocol, bank overdraft; "
          "implementation-resolved: priced amounts, insExpected, fee / nested-conversion transfers, bonus, pricing/hook failures)",
    coq_deps=["Base/", "Models/SwapQueue.v", "Proofs/SwapQueueProofs.v", "Proofs/SwapBatchProofs.v", "Proofs/SwapRevisitProofs.v", "Run/SwapQueueRun.v", "Props/C04.v"],
    rule="histories of 2-4 blocks with 1-6 swap messages each on a fresh real app (oracle pool uusdc/uatom, constant-product uusdc/uelys and "
         "uusdc/uatom): exact-in / exact-out / by-denom, 13 valid routes (1-3 hops, cyclic) + 3 invalid, same and opposite directions on one pool, "
         "recipient = sender / other user / empty / a pool address / a module address, amounts 1..1e12 per decade and 1-101 % of the sender's balance, "
         "poor senders queuing more than they can pay, limits loose / exactly achievable / one unit either side / zero, oracle price moves between "
         "messages; on top a third as many histories in which about half of the requests (exact-in and exact-out, 2 and 3 hops) use routes that come "
         "back to a pool they already used (there and back on one pool, A-B-A, the last pool twice in a row, one pool three times) with recipient = "
         "sender / another user / an account that does not exist yet, minimum 1 or at / next to the achievable amount, senders rich in every denom, "
         "and directed histories (revisited last pool with a third-party recipient; oracle pool off its weights with minimums next to the pool output); "
         "every block closed by the real FinalizeBlock+Commit; distinct = distinct (message kinds, routes, limits, results, executed/dropped "
         "sets); non-trivial = at least one request stored or executed",
    trusted_base=["per-request bank operations are cut out of the committed end-block events at the token_swapped events (harness); completeness is "
                  "checked per block: every user's balance change must equal the sum of the executed requests' operations",
                  "amounts of tries whose cache context was discarded are not observable: the replay feeds the model the smallest amounts its "
                  "decision logic accepts for a try that must have succeeded, and a plain failure for a try that left no trace",
                  "store keys are computed by the real types.TKeyPrefixSwapExactAmountIn/Out; the reversed prefix is mirrored in the harness"],
    modelled="x/amm swap queue, routing and settlement protocol as a Gallina machine over a bank nat->nat->Z; pricing is not modelled (choices); "
             + COMMON_MODELLED,
    level_text="Theorems (Coq, closed under the global context) for ALL transaction lists, ALL admissible selection functions (and the coded one), ALL "
               "resolved amounts: handlers move no funds; the batch loop terminates within its fuel; the queue is empty and the index reset after the "
               "block; every stored request is deleted exactly once, executed at most once, and each deletion is either the written settlement of "
               "that request or changes nobody's balance; exact-in: sender -TokenIn exactly, recipient +out >= minimum, everybody else outside the "
               "pools' own addresses untouched except treasury bonuses to sender/recipient; for EVERY hop list, routes that revisit pools included (induction "
               "over the hops, no distinct-pool premise): the sender never loses anything but TokenIn, a recipient other than the sender moves in the final "
               "denom only, and without weight bonuses every denom the route only passes through is unchanged for both (the last hop is the last POSITION; "
               "a witness shows that recognising it by pool id breaks this on a there-and-back route); exact-out: recipient >= TokenOut, third parties untouched, "
               "sender >= -TokenInMaxAmount in the stated denom and nothing else for one hop or sender = recipient. REFUTED on the code as it is: "
               "multi-hop exact-out with recipient <> sender (sender also pays the intermediate denom; proved for the repaired routing), and "
               "MsgSwapByDenom exact-out ignores Recipient. Each block of the real app is replayed by Coq's VM through handlers and batch loop.",
    level_note="Trusted: Coq kernel+VM; the Go harness (event cutting, dry-run probes). Amounts are implementation-resolved.",
    assumptions=["C04_exact_out_debit_partial assumes a single hop or sender = recipient; the full statement is refuted for the code as it is "
                 "(C04_exact_out_multihop_third_party_refuted) and proved for the repaired routing (C04_exact_out_debit_fixed)",
                 "debit/credit theorems speak about addresses that are not the pool / rebalance-treasury / revenue address of a pool on the route"],
)
