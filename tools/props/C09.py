from propcommon import COMMON_MODELLED
PROP = dict(
    gotest="TestC09",
    extra_gotests=[("TestZdec", "Zdec")],
    model="coq/Models/PerpLedger.v (per-field aggregates over stored MTPs, open counter) + coq/Models/PerpBacking.v (per asset amm reserve vs recorded custody: primitive moves with the CheckMinimumCustodyAmt placement as coded, non-atomic MsgClosePositions items, funding distribution value)",
    coq_deps=["Base/", "Models/SumLedger.v", "Proofs/SumLedgerProofs.v", "Models/PerpLedger.v", "Proofs/PerpLedgerProofs.v", "Run/PerpLedgerRun.v", "Models/PerpBacking.v", "Proofs/PerpBackingProofs.v", "Run/PerpBackingRun.v",
              "Models/PerpBackingMulti.v", "Proofs/PerpBackingMultiProofs.v", "Props/C09.v"],
    rule="the shared ledger histories (see C01): perpetual long/short opens with uusdc or uatom collateral, leverage 1.2-10, consolidating re-opens, partial/full closes, "
         "third-party close-positions (liquidate / stop-loss / take-profit), interest and funding settlement over block gaps up to a day, interleaved with swaps, joins/exits and "
         "oracle price moves; two of three histories run on a market with TWO perpetual-enabled oracle pools (uusdc/uatom, uusdc/aweth with 18 decimals at price 2000; the same owners on both, "
         "batches listing MTPs of both, routes crossing both); every step's MTP store changes are replayed through the Coq machine and the 12 aggregates of EVERY pool (field = 12 * pool + side x asset x kind) + the module's open counter compared; for custody backing every "
         "step is classified (bank events, perpetual events, MTP store, pool aggregates) PER POOL (one backing machine per perpetual pool) into the backing model's units (amm operation + hook check, open / consolidation, user close, "
         "ClosePositions items) and replayed: the model must accept every transaction the implementation accepted and reproduce reserve, long/short custody, long collateral and short "
         "liabilities of both assets; a directed history drives the pool to reserve = custody + 1000 and the clock to the second at which a long's settlement leaves open interest 0; "
         "reserve >= custody is evaluated on the real state after every tx and block; non-trivial = at least one successful tx",
    trusted_base=["MTP field deltas are read from the MTP store before/after each step (implementation-resolved amounts)", "backing replay: amounts (interest, funding take, closing custody, repay amount) are read from the perpetual events / MTP fields / bank events; the harness delivers a block's transactions before that block's begin blockers"],
    modelled="perpetual pool bookkeeping as per-field sum ledgers; pricing, interest, funding and health arithmetic are implementation-resolved; " + COMMON_MODELLED,
    level_text="Theorems (Coq, closed): for EVERY history of MTP creations, paired field/aggregate moves with any signed amounts and destructions, every aggregate = sum over stored "
               "MTPs and counter = number of stored MTPs (induction over the history). Custody backing: for EVERY history of transactions (amm operations with their hook check, opens, "
               "consolidations, user closes, arbitrary amounts) and MsgClosePositions messages whose items are all-or-nothing (as they are since fix: 85af696), reserve >= total custody for every asset at every boundary "
               "(C09_custody_backed); funding distribution never raises custody because its amount is read with start block = current block (C09_funding_distribution_is_zero). The code BEFORE "
               "fix: 85af696 ran ClosePositions items without a cache context: C09_custody_backed_refuted is a history that ends unbacked (reproduced on the real application by the directed history, "
               "signature C09:custody-not-backed:close-positions-item-aborts-after-interest-transfer), C09_custody_backed_asis covers every history in which no item leaves a transfer behind. "
               "Tied to the code by replaying every step of the generated histories through both machines and diffing aggregates/counter and reserve/custody numbers.",
    level_note="Trusted: Coq kernel+VM; the Go harness. Custody backing: full theorem for the code as it is (atomic ClosePositions items since fix: 85af696), refuted for the code before it.",
    assumptions=["custody backing is stated per perpetual pool (assets = the pool's two denoms); the pools of a market are independent instances of the machine, tied to the code one tracer per pool", "a position's closing custody handed to Repay is non-negative (per-MTP custody non-negative, as in C09_aggregates)", "the pool account holds at least the pool reserve (C01)"],
)
