from propcommon import COMMON_MODELLED
PROP = dict(
    gotest="TestC09",
    model="coq/Models/PerpLedger.v (per-field aggregates over stored MTPs, open counter, CheckMinimumCustodyAmt)",
    coq_deps=["Base/", "Models/SumLedger.v", "Proofs/SumLedgerProofs.v", "Models/PerpLedger.v", "Proofs/PerpLedgerProofs.v", "Run/PerpLedgerRun.v", "Props/C09.v"],
    rule="the shared ledger histories (see C01): perpetual long/short opens with uusdc or uatom collateral, leverage 1.2-10, consolidating re-opens, partial/full closes, "
         "third-party close-positions (liquidate / stop-loss / take-profit), interest and funding settlement over block gaps up to a day, interleaved with swaps, joins/exits and "
         "oracle price moves; every step's MTP store changes are replayed through the Coq machine and the pool's 12 aggregates + open counter compared; reserve >= custody is "
         "evaluated on the real state after every tx and block; non-trivial = at least one successful tx",
    trusted_base=["MTP field deltas are read from the MTP store before/after each step (implementation-resolved amounts)"],
    modelled="perpetual pool bookkeeping as per-field sum ledgers; pricing, interest, funding and health arithmetic are implementation-resolved; " + COMMON_MODELLED,
    level_text="Theorems (Coq, closed): for EVERY history of MTP creations, paired field/aggregate moves with any signed amounts and destructions, every aggregate = sum over stored "
               "MTPs and counter = number of stored MTPs (induction over the history). Custody backing is PARTIAL (C09_custody_backed_partial; the full statement and what is "
               "missing are in Props/C09.v) and is additionally evaluated on the real state. Tied to the code by replaying every step's observed MTP changes of generated "
               "histories on the real app and diffing aggregates/counter.",
    level_note="Trusted: Coq kernel+VM; the Go harness. Custody-backed part is partial.",
    assumptions=["single perpetual pool (the fixture's oracle pool) with assets uusdc/uatom"],
)
