# C03 configuration fragment (merged by tools/propcfg.py)
from propcommon import COMMON_MODELLED
PROP = dict(
        gotest="TestC03",
        translator=["arithC03", "arithC03b"],
        extra_props=["ArithTieC03", "ArithTieC03b"],
        extra_gotests=[("TestZdec", "Zdec")],
        model="coq/Models/AmmSwap.v (exact over Z, raw 18-decimal integers with the SDK's range panics: solveConstantFunctionInvariant, "
              "Pow incl. powerApproximation (ApproxSqrt, maclaurin series, ln/exp method) as fuelled loops with the Go exit conditions, "
              "CalculateTokenARate, CalcOutAmtGivenIn / CalcInAmtGivenOut for constant-product and oracle-weighted pools incl. accounted-pool "
              "balances and the slippage value, ApplyDiscount, the oracle-pool SwapOutAmtGivenIn / SwapInAmtGivenOut (external-liquidity resizing, "
              "balancer slippage of the resized trade, value formula), the bonus decision of keeper.UpdatePoolForSwap); "
              "coq/Models/WeightFee.v (exact: the WEIGHT-BREAKING FEE of oracle pools - GetOraclePoolNormalizedWeights, NormalizedWeights, "
              "WeightDistanceFromTarget before / after the swap, NewPoolAssetsAfterSwap, GetDenomOracleAssetWeight / GetDenomNormalizedWeight, "
              "GetWeightBreakingFee (Pow of the weight ratio, multiplier, 0.99 cap), perpetual factor, portion, threshold, and the whole of the "
              "oracle SwapOutAmtGivenIn / SwapInAmtGivenOut with the fee and the weightBalanceBonus COMPUTED from the pool state and the amm params)",
        coq_deps=["Base/", "Models/AmmSwap.v", "Proofs/AmmSwapProofs.v", "Proofs/AmmSwapProofs2.v", "Proofs/PowBounds.v", "Proofs/PowSeries.v", "Run/AmmSwapRun.v", "Models/WeightFee.v", "Proofs/WeightFeeProofs.v", "Run/WeightFeeRun.v", "Run/ZdecRun.v", "Props/C03.v", "Generated/ArithC03.v", "Proofs/ArithTieTac.v", "Proofs/ArithTieC03.v", "Props/ArithTieC03.v", "Generated/ArithC03b.v", "Proofs/ArithTieC03b.v", "Props/ArithTieC03b.v"],
        rule="pure cases on types.Pool values: Pow on bases around every branch boundary (0.5, 1, 2, just below 2, tiny, huge, <= 0) x exponents of every "
             "class (integer 0..100, 1/2, 2.5, w1/w2, tiny); CalcOut/CalcIn with reserves 0, 1, 10^k, per decade 1..1e31, weights equal / integer ratio / "
             "ratio 1/2 and 3/2 / fractional 1..100:1..100, fees 0, 1 ulp, 0.1%..2%, random <= 2%, >= 1 (invalid), accounted balances, amounts 0, 1, dust, "
             "1e-6, 1%, 1/3, 1/2, 2/3, all-1, all, all+1, 10x, 1000x and per decade relative to the reserve; round trip and 1/3-2/3 split on every third "
             "equal-weight zero-fee case; oracle pools: prices 1e-6..1e6, balanced / 3x / 1/4 imbalanced reserves, external-liquidity ratios 1..51, "
             "snapshot differing from the live pool, accounted balances, missing prices, zero ratio; integer-ratio weighted pools (weights n:1 and 1:n, "
             "n = 2, 3, 4 mostly, up to 100, in the LegacyDec.Power direction of either function; reserves dust / 1e6..1e18 / 1e18..1e31 / the "
             "boundary of the one-unit corollary +-1 / the fixture's 10e9:30e9; the same relative amounts) checked against the exact-integer "
             "conclusion of C03_weighted_out_integer_ratio / C03_weighted_in_integer_ratio. Application histories (24 quick / 240 thorough "
             "fresh apps, 4-10 real MsgSwapExactAmountIn/Out each, executed by the amm EndBlocker of FinalizeBlock): fixture pools with reserves "
             "1e4..1e18 and fees 0..2% / 1 ulp, an extra 1:1 pool with reserves 1e17..1e31, an extra oracle pool with ratios 1..50, funded rebalance "
             "treasuries, tier discounts (users hold 9e18 of each token), history 0 = the witness of C03_one_unit_refuted / C03_round_trip_gain_refuted / "
             "C03_one_unit_in_refuted through MsgCreatePool + swaps. distinct = distinct inputs; non-trivial = the call succeeded",
        trusted_base=["tools/gotrans arith (Go AST + go/types -> Gallina over Base/Zdec.v): the method table of coq/Generated/ARITH_README.md (Int/LegacyDec method -> Zdec function, validated by TestZdec); what the opaque readers of a translated function return is covered by the correspondence run only",
                      "MOVED from 'taken from the implementation' to 'modelled exactly': the weight-breaking fee and the weightBalanceBonus of oracle pools "
                      "(Models/WeightFee.v; case kinds 12-16 of Run/WeightFeeRun.v compare the model's amount + bonus with what the real swap function returned, "
                      "failures included, on every generated oracle case and every app swap; Props/ArithTieC03b.v ties GetWeightBreakingFee as a whole and the "
                      "fee / bonus decision, distanceDiff, amount formulas and the GetOraclePoolNormalizedWeights loop bodies to the Go text). Still covered by "
                      "the correspondence run only: the loop of WeightDistanceFromTarget (indexed slices, len), NormalizedWeights, NewPoolAssetsAfterSwap, "
                      "the per-denom weight lookups, which pool assets / accounted balances / oracle prices the keeper hands to these functions. The old "
                      "fee-parameterised kinds 3, 4, 9, 10 are kept (fee = -weightBalanceBonus when negative)",
                      "app histories have two-asset oracle pools only (the model and its theorems take any number of assets; 0-4 assets are exercised by the "
                      "direct WeightDistanceFromTarget cases)",
                      "cases whose Pow series would need more than ~1200 (quick) / 12000 (thorough) iterations in Coq's VM are run on the Go code and checked "
                      "by the implementation-side predicate only (counted in evidence extra.coq_budget)",
                      "bank-level atomicity and the routing/queue code around the pool functions are used as they are (C04's subject)"],
        modelled="x/amm/types swap mathematics and the bonus decision of x/amm/keeper UpdatePoolForSwap as Gallina functions over Z with Base/Zdec.v "
                 "LegacyDec arithmetic; " + COMMON_MODELLED,
        level_text="Theorems (Coq, closed under the global context, all over unbounded Z): equal-weight constant-product pools, either direction, every fee in "
                   "[0,1) (tier discounts proved to stay in [0,fee]): out <= floor(exact) + floor(B_out/2e18) + floor(B_out/1e36) + 2 and the two-sided cleared "
                   "bounds; the stated one-base-unit allowance PROVED for B_out <= 2e18-4 (exact-out: B_in <= ~1.96e18) and REFUTED above (witnesses replayed "
                   "on the real functions and through real messages on the full app); product of reserves non-decreasing up to the same rounding; round trip "
                   "A->B->A returns <= a + 2(B_in+a)(HALF+1)/1e36 (nothing above a below 1e18, refuted above: 2000 -> 3000); split trade gains <= 1 + "
                   "B_out(3HALF+2)/1e36; oracle pools: value out <= value in + 0.5e-18 out-token (exact-in), value in > value out - (0.5+1e-18)e-18 in-token "
                   "(exact-out) for all prices, ratios, slippage amounts, weight-breaking fees in [0,1]; bonus <= treasury balance, only for oracle pools with "
                   "a positive rate, <= base*rate. WITH THE FEE COMPUTED BY THE MODEL (no fee parameter): GetWeightBreakingFee in [0, 0.99]; the same two value "
                   "statements for the whole swap functions; fee = 0 when the weight distance falls, bonus = -fee <= 0 when it does not, bonus > 0 only from above the "
                   "threshold and <= 0.99*portion; fee >= min(0.99, multiplier) when the distance grows and the weight ratio handed to Pow is >= 1; treasury pays <= "
                   "min(balance, base*0.99*portion). Unequal weights with an INTEGER ratio w_in/w_out = n (Pow = LegacyDec.Power, n-1 rounding multiplications): "
                   "FULL statement out <= B_out*(1-(B_in/(B_in+a'))^n) + B_out*((2n-1)/2+n*1e-18)*1e-18 against the exact rational power (one unit proved for "
                   "B_out*((2n-1)e18+2n) <= 2e36, refuted above by a 3:1 witness), exact-out in >= B_in*(z^n*(1-(n-1)/2e18)-1); Pow >= 1 for every exponent on "
                   "bases in [1,2) (alternating Maclaurin series with non-increasing terms; Newton square root stays in [1,d]), 0 <= Pow <= 1 on bases in [0.5,1], "
                   "1 <= Pow(y,e) <= y for e in [0,1]. Other unequal weights: _partial (payout = trunc(B_out*(1-pw)) with pw = the exact model of Pow; the 1e-8 "
                   "real-analysis bound of the fractional series and the whole ln/exp method are not proved). The model (incl. Pow) is evaluated by Coq's VM on every input the real functions were called with "
                   "and must return the same integers and error kind; every app swap must be explained by the pure function on the state before the block.",
        level_note="Trusted: Coq kernel+VM; the Go harness; weight-breaking fee MODELLED (range proved for exponents with fractional part 0 or 1/2, incl. the chain's 2.5; _partial otherwise); precision of Pow for fractional exponents "
                   "checked only by the exact rational reference on generated inputs.",
        assumptions=["equal-weight theorems assume non-negative reserves and fee in [0,1); the one-unit corollaries assume B_out <= 2e18-4 resp. the stated "
                     "bound on B_in and are refuted above it (C03_one_unit_refuted, C03_one_unit_in_refuted, C03_round_trip_gain_refuted)",
                     "C03_weighted_out_partial / C03_weighted_in_partial: bound in terms of any lower bound lb <= pw of the value Pow returns",
                     "C03_weighted_out_integer_ratio / C03_weighted_in_integer_ratio assume w_in = n*w_out resp. w_out = n*w_in with n >= 1, non-negative "
                     "reserves and amount, fee in [0,1] resp. [0,1); C03_pow_ge_one / C03_pow_le_one / C03_pow_between_one_and_base do not cover the ln/exp method",
                     "the fee-parameterised oracle theorems assume 0 <= weight-breaking fee <= 1 and prices >= 0; the _with_fee theorems DISCHARGE that: they assume only what Params.Validate "
                     "enforces (multiplier, portion >= 0), a perpetual factor in [0,1], and an exponent >= 0 whose fractional part is 0 or 1/2 (C03_wbf_in_range; "
                     "C03_wbf_in_range_partial for any exponent on which Pow is non-negative)",
                     "C03_fee_positive_when_worsening is stated on the ratio the code hands to Pow (x >= 1); that a growing distance implies x >= 1 is not proved",
                     "C03_split_no_gain / C03_round_trip_no_gain are stated for the pool states named in their hypotheses (second leg on the pool after the "
                     "first leg; the fee skim's own half-unit rounding of the in-reserve is outside the split statement)"],
    )
