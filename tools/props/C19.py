# C19 configuration fragment (merged by tools/propcfg.py)
from propcommon import COMMON_MODELLED
PROP = dict(
        gotest="TestC19",
        translator="determinism",
        model="coq/Models/Restart.v (abstract node: persistent + transient + memory, blocks, commit, restart, map ranges in runtime-chosen order) and "
              "coq/Models/Burner.v (the burner's per-denom burns, std++ gmaps) over coq/Generated/Determinism.v (keeper fields, package variables, map ranges, "
              "wall-clock/rand/goroutine sites; regenerated from the Go sources by tools/gotrans on every run)",
        coq_deps=["Base/Res.v", "Models/Restart.v", "Models/Burner.v", "Generated/Determinism.v", "Proofs/RestartProofs.v", "Proofs/BurnerProofs.v",
                  "Run/RestartRun.v", "Props/C19.v"],
        rule="every history (shared multi-module generator: amm swaps/joins/exits/multihop, stablestake, leveragelp, perpetual, third-party close requests, "
             "price moves, time gaps up to a day, plus burner funding of up to 8 denoms at the zero address with epoch boundaries, masterchef claims, "
             "commit/uncommit/vest/claim-vesting, real oracle MsgFeedPrice) is executed on three replicas of the real application built from ONE genesis: "
             "A never stops, B is a second fresh instance (Go randomises each map range), C runs on a database the harness keeps (mem DB; goleveldb under "
             "/var/tmp for every fourth history) and is dropped and rebuilt with loadLatest after 4 random heights (quick) / every height (thorough); "
             "after every tx: result kind + events hash equal; after every block: app hash, block outcome, multiset of block events equal; "
             "keeper structs of the live app are read by reflection and compared with the translator's table; "
             "distinct = op-kind/result sequence of a history; non-trivial = at least one successful tx",
        trusted_base=["tools/gotrans determinism (go/types over the tree; other modules' packages type-checked one level deep): trusted for what it omits - "
                      "state behind an interface-typed field, mutation of a package variable through a method call on a pointer/struct value or an alias, "
                      "nondeterminism inside other modules; its keeper-field table is cross-checked against reflection on the live application on every run",
                      "Go runtime and goroutine scheduling, the SDK stores (IAVL, cache layers), CometBFT: outside any Gallina model, covered by the replicas only by execution",
                      "std++ (gmap) for the burner model"],
        modelled="a node step is ANY deterministic function of (persistent, transient, listed memory cells); map ranges are folds over an arbitrary permutation; "
                 "commit clears transient; restart reloads persistent and resets transient and memory. " + COMMON_MODELLED,
        level_text="PARTIAL proof. Theorems (Coq, closed under the global context): over the tables regenerated from the current Go sources, no keeper field and no "
                   "package variable holds state in memory, every range over a map is order-free by a syntactic criterion or is the burner's loop (whose per-denom "
                   "burns are proved to commute, failures included), and x/ and app/ contain no wall clock (outside telemetry), randomness, goroutine, select, "
                   "environment lookup; hence for ALL block lists, ALL sets of restart points, ALL iteration orders and ALL deterministic step functions that "
                   "reach only the listed memory cells, the sequence of app hashes and tx results of a restarted node equals that of a node that never stops, and "
                   "two replicas agree block by block. Refutation witnesses show both hypotheses carry weight (one cache field; a first-wins loop body).",
        level_note="Partial: goroutine timing and the Go runtime are outside any Gallina model; the link from the tree to 'every step is a deterministic function "
                   "of the stores' is the translator's search for the known sources of nondeterminism plus the three-replica run, not a proof about Go semantics.",
        assumptions=["every operation of a block is a deterministic function of the stores and of the memory cells the translator lists (none on this tree)",
                     "interface-typed keeper fields hold wiring, not state",
                     "SDK modules, IAVL and CometBFT are deterministic and restart-safe"],
        timeout_quick=900,
    )
