from propcommon import COMMON_MODELLED
PROP = dict(
    gotest="TestC08",
    model="coq/Models/LevLedger.v on coq/Models/SumLedger.v (pool total / positions / shares committed at position addresses / open counter), lifted to several pools with one "
          "module-wide counter by coq/Models/LevLedgerMulti.v",
    coq_deps=["Base/", "Models/SumLedger.v", "Proofs/SumLedgerProofs.v", "Models/LevLedger.v", "Proofs/LevLedgerProofs.v", "Run/LevLedgerRun.v",
              "Models/LevLedgerMulti.v", "Proofs/LevLedgerMultiProofs.v", "Run/LevLedgerMultiRun.v", "Props/C08.v"],
    rule="two of three histories run on a market with TWO leverage-enabled oracle pools (uusdc/uatom and uusdc/aweth: 18 decimals, price 2000; same owners on both, batches listing "
         "positions of both, only one asset's price moving); the shared ledger histories (see C01) with leveraged-LP opens (leverage 1.5-10, stop-loss set or not), consolidating re-opens, owner closes (1 unit .. all, "
         "non-owner attempts), third-party MsgClosePositions (liquidate / stop-loss) and begin-block sweeps under oracle price moves and long block gaps; every step's position "
         "changes are replayed through the Coq machine of the position's pool and EVERY pool's total, the module counter, each position's pool, amount and the shares committed at its address compared; "
         "non-trivial = at least one successful tx",
    trusted_base=["position changes are read from the position store before/after each step (LOpen/LClose amounts are implementation-resolved)"],
    modelled="leveragelp bookkeeping as a sum-ledger machine; health, prices, interest and repayment amounts are not part of this property's model; " + COMMON_MODELLED,
    level_text="Theorems (Coq, closed): for EVERY history of opens/closes/liquidations with any positive amounts on any number of pools, each pool's total = sum of ITS stored positions, "
               "the module counter = number of stored positions of all pools, operations on one pool leave the others untouched, each position's amount = shares committed at its address, nothing left behind after a full close (induction over the history); the pre-fix "
               "swallowed partial close is refuted. Tied to the code by replaying every step's observed position changes of generated histories on the real app and "
               "diffing totals/counter/commitments; the property's predicate is also evaluated directly on the keepers' state after every tx and block.",
    level_note="Trusted: Coq kernel+VM; the Go harness. Each close item is atomic (cache context) since fix: commit f605879.",
    assumptions=[],
)
