from propcommon import COMMON_MODELLED
PROP = dict(
    gotest="TestC06",
    extra_gotests=[("TestZdec", "Zdec")],
    model="coq/Models/VaultLedger.v (TotalValue / module cash / Debt records {Borrowed, InterestStacked, InterestPaid} / ghost third-party receipts; "
          "the 90 % cap reuses the exact kernel of coq/Models/Stable.v over Base/Zdec.v)",
    coq_deps=["Base/", "Models/SumLedger.v", "Proofs/SumLedgerProofs.v", "Models/Stable.v", "Proofs/StableProofs.v",
              "Models/VaultLedger.v", "Proofs/VaultLedgerProofs.v", "Run/VaultLedgerRun.v", "Props/C06.v"],
    rule="the shared ledger histories (two of three on a market with TWO leveraged-LP pools borrowing from the one vault; see C01: swaps incl. recipient = the vault's module account, joins, exits, bond, unbond, leveraged-LP open / consolidating re-open / "
         "owner close 1 unit..all / third-party liquidate and stop-loss / begin-block sweeps, perpetual traffic, oracle price moves, block gaps 5 s .. 1 day) with C06-only "
         "additions from a separate PRNG stream: keeper-level add-collateral (dust .. liability+1 .. 2x), unbonds of the big lender (1/1000 .. all: refused when cash is short), "
         "block gaps of 1-30 days (interest), price halvings followed by liquidation requests (positions worth less than their debt: partial repay), 9.5-10x opens of 1e8..1e11, "
         "swaps paying out to the vault, bonds of 1..1e12; plus a corpus of five hand-made histories (minimal donation, full life cycle with record deletion, shortfall "
         "liquidation, cash-short unbond + cap under donation). After every tx and block the bank transfers of the module account and the debt-store deltas are "
         "replayed through the Coq machine (vm_compute) and TotalValue, cash, the set of Debt records and every record's three fields compared; "
         "non-trivial = at least one successful tx",
    trusted_base=["classification of a module-account transfer (bond / repay / borrow / redemption / third party) uses the driver's op kind and the debt store; "
                  "amounts, interest and redemption amounts are implementation-resolved choices (the redemption amount is C07's exact kernel)",
                  "Base/Zdec.v kernels (cap arithmetic) validated against cosmossdk.io/math by TestZdec in the same run"],
    modelled="leveragelp's own books (C08), share issue / redemption arithmetic (C07), GetInterest's formula and the interest-rate controller are not part of this model: "
             "their results enter as choices over which the theorems quantify; " + COMMON_MODELLED,
    level_text="Theorems (Coq, closed under the global context): for EVERY history (any length, any interleaving, any amounts, any interest amounts, failing transactions "
               "included) of bond / unbond / Borrow / Repay (partial, full with record deletion, less than owed) / interest accrual: TotalValue = cash + sum over stored debts of "
               "Borrowed + InterestStacked - InterestPaid; for the code as it is since fix: a75f29f (a transfer whose recipient is the module account is refused) this holds for every history, attempted "
               "donations included (C06_vault_equation_fixed: the machine the real app is replayed against); for the code before the fix the equation held only up to exactly the "
               "amount received from swaps addressed to the vault (C06_donation_refuted, and the 90 % cap then admitted real loans of 100 % of TotalValue); a repayment below the liability writes nothing off; a record is deleted only "
               "when nothing is owed. Tied to the code by replaying every transaction and block of generated histories on the real app.",
    level_note="Trusted: Coq kernel+VM; the Go harness. Fixed finding: C06:swap-recipient-vault-inflates-cash (a75f29f).",
    assumptions=[],
)
