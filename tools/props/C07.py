# C07 configuration fragment (merged by tools/propcfg.py)
from propcommon import COMMON_MODELLED
PROP = dict(
        gotest="TestC07",
        translator="arithC07",
        extra_props=["ArithTieC07"],
        extra_gotests=[("TestZdec", "Zdec")],
        model="coq/Models/Stable.v (exact: GetRedemptionRate, Bond, Unbond, Borrow with the 90% cap, Repay, UpdateInterestStacked; "
              "interest amounts and non-vault wallet movements are implementation-resolved choices)",
        coq_deps=["Base/", "Models/Stable.v", "Proofs/StableProofs.v", "Run/StableRun.v", "Run/ZdecRun.v", "Props/C07.v", "Generated/ArithC07.v", "Proofs/ArithTieTac.v", "Proofs/ArithTieC07.v", "Props/ArithTieC07.v"],
        rule="histories of 30-55 ops on a fresh real app each (market fixture, funded vault): bond/unbond/round-trips by 6 lenders "
             "(amounts: 1, 2..20, rate-adversarial (k+1/2)*rate-1/0/+1, k*rate, per-decade 1..1e12, wallet/3, wallet-1, wallet, wallet+1; "
             "own shares 1/3, all-1, all, all+1; shares that drain the vault's cash -1/0/+1), a quarter of the histories with 1e20..1e33 uusdc per user; "
             "keeper Borrow at the cap headroom -1/0/+1, Repay at interest-1/0/+1 and all-1/0/+1, interest accrual; real leveragelp MsgOpen/MsgClose; "
             "blocks of 5 s .. 30 days so that the rate is non-integral from the third op on; 10 uncommitted round-trip probes per probe op; "
             "distinct = distinct (op,result,account) sequence; non-trivial = at least one successful vault operation",
        trusted_base=["tools/gotrans arith (Go AST + go/types -> Gallina over Base/Zdec.v): the method table of coq/Generated/ARITH_README.md (Int/LegacyDec method -> Zdec function, validated by TestZdec); what the opaque readers of a translated function return is covered by the correspondence run only",
                      "interest amounts (GetInterest) are taken from the implementation as op parameters; the model only requires them >= 0",
                      "TotalValue - module balance equals the real loans only if C06 holds (direct transfers to the module account are not generated here)",
                      "Int/LegacyDec overflow panics (|x| >= 2^256) are not modelled"],
        modelled="x/stablestake msg_server_bond/unbond, params.go GetRedemptionRate, debt.go Borrow/Repay/UpdateInterestStacked as Gallina functions over Z "
                 "with Base/Zdec.v LegacyDec arithmetic; commitment/masterchef hooks of Bond/Unbond are not modelled (they must not fail or touch the vault: "
                 "checked by the correspondence); " + COMMON_MODELLED,
        level_text="Theorems (Coq, closed under the global context) over an exact Gallina model of the vault: deposit-then-redeem gains at most "
                   "rate/2*(1+1e-18+2e-36)+1/2, hence at most one share's worth for every vault size, amount and rate >= 1; explicit two-sided bounds on "
                   "the shares minted and the amount redeemed; every step of every account lowers the exact value per share by at most an explicit slack "
                   "(0 for borrow/repay/accrual); one share's worth for the other lenders is proved for operations of <= 5e17 shares and REFUTED above "
                   "(witness replayed on the real code); the 90% cap decision is characterised exactly (accepted iff (TV-cash)+amt <= 0.9 TV). "
                   "The model is replayed by Coq's VM on the op sequences the real app executed and must reproduce result kind, TotalValue, share supply, "
                   "module balance, wallets, committed shares and debts after every step.",
        level_note="Trusted: Coq kernel+VM; the Go harness; interest amounts are parameters; rate >= 1 (supply <= TotalValue) is a hypothesis of the "
                   "one-share corollaries (it is the property's own quantifier).",
        assumptions=["one-share corollaries assume supply <= TotalValue (redemption rate >= 1), as the property's quantifier does",
                     "C07_others_one_share_bond/unbond assume the operation moves at most 5e17 / 1e18 shares; refuted above (C07_others_one_share_refuted)"],
    )
