from propcommon import COMMON_MODELLED
PROP = dict(
    gotest="TestC01",
    model="coq/Models/AmmLedger.v (Level A: pool ledger primitives and paired operations; Level B: UpdatePoolForSwap + OnCollectFee with the shared in-memory pool array, cache-context branch and failure points)",
    coq_deps=["Base/", "Models/AmmLedger.v", "Proofs/AmmLedgerProofs.v", "Run/AmmLedgerRun.v", "Props/C01.v"],
    rule="histories of 30-55 ops over the full app; two of three on a market with a SECOND oracle pool uusdc/aweth (18 decimals, price 2000, leverage + perpetual enabled; every "
         "pool-naming op picks either oracle pool, routes cross both via uusdc, 18-decimals dust) (swaps exact-in/out both directions on an oracle and a constant-product pool, multi-hop, joins, exits, "
         "stable-stake bond/unbond, leveraged-LP open/close/close-positions, perpetual long/short open/close/close-positions, oracle price moves, "
         "donations to pool addresses, block gaps 5s..1day), amounts per decade 1..1e12, every 2nd op followed by a real FinalizeBlock+Commit; "
         "the pool-related committed bank operations of every tx and every block (from SDK bank events) are replayed through the Coq ledger and "
         "reserves, pool bank balances and DenomLiquidity compared after every step; distinct = distinct (op,result) sequence, non-trivial = at least one successful tx",
    trusted_base=["which transfer is a donation is decided by the harness (only its own plain MsgSend to a pool address)",
                  "Level-B parse of a single-swap block's transfers into (in, out, fee, conversion, weight-breaking fee) is done by the harness; a wrong parse can only cause a mismatch"],
    modelled="amm pool bookkeeping as a ledger machine; pricing amounts are resolved by the implementation (all theorems quantify over all amounts); " + COMMON_MODELLED,
    level_text="Theorems (Coq, closed): for every set of pools and EVERY history of transactions built from the code's paired transfer+book primitives and "
               "third-party donations with arbitrary amounts, bank balance = reserve + donations and DenomLiquidity = sum of reserves (induction over the history); "
               "UpdatePoolForSwap+OnCollectFee modelled with its shared in-memory array and cache branch preserves the invariant for all amounts and all "
               "failure points of the nested conversion (and is refuted for the pre-fix code). Tied to the code by replaying the committed bank operations of "
               "every step of generated histories on the real app through the model and diffing reserves/balances/liquidity; the property's own predicate is "
               "also evaluated directly on the keepers' state after every tx and block.",
    level_note="Trusted: Coq kernel+VM; the Go harness incl. event-trace extraction; amounts are implementation-resolved choices.",
    assumptions=["initial state = the fixture's freshly created pools (reserves = deposited coins)"],
)
