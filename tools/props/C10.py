from propcommon import COMMON_MODELLED
PROP = dict(
    gotest="TestC10",
    translator="arithC10",
    extra_props=["ArithTieC10", "ArithTieC10b"],
    model="coq/Models/CloseGuard.v (decision layer of x/leveragelp and x/perpetual as coded: liquidation / stop-loss / take-profit guards with their exact comparison "
          "operators and nil handling, per-item loops of both MsgClosePositions handlers, the leveragelp begin-block sweep, open health comparison, sender-keyed user close); "
          "coq/Models/Health.v (exact: leveragelp GetPositionHealth as a function of the exit value of the committed shares and the debt record; perpetual GetMTPHealth as a "
          "function of side, Liabilities, BorrowInterestUnpaidLiability, Custody and the swap estimates, with its degenerate cases)",
    coq_deps=["Base/Res.v", "Models/CloseGuard.v", "Proofs/CloseGuardProofs.v", "Run/CloseGuardRun.v", "Props/C10.v", "Base/Zdec.v", "Base/ZdecChk.v", "Generated/ArithC10.v", "Proofs/ArithTieTac.v", "Proofs/ArithTieC10.v", "Props/ArithTieC10.v", "Models/Health.v", "Proofs/HealthProofs.v", "Run/HealthRun.v", "Proofs/ArithTieC10b.v", "Props/ArithTieC10b.v"],
    rule="histories of 26-41 ops on a fresh real app each (oracle pool uusdc/uatom with leveragelp + perpetual enabled, funded vault): leveraged-LP and perpetual opens "
         "(leverage 1.2-10, long/short, uusdc/uatom collateral, stop-loss unset / far / one ulp from the price / already reached), consolidating re-opens, user closes by the "
         "owner and by others naming the owner's id, trigger updates by owner and non-owner, MsgClosePositions of both modules from arbitrary senders with 1-4 items (healthy, "
         "unhealthy, unknown (owner,id), right id under the wrong owner, repeated), oracle price moves x0.5..x2, block gaps 5 s .. 1 week (interest, funding, begin-block sweep), "
         "swaps and joins. Boundaries on purpose: safety factor set through the real MsgUpdateParams to exactly the health just read / one ulp either side before a liquidation "
         "request and before an open; leveragelp stop-loss set to exactly the lp price / one ulp either side; oracle price set to exactly a perpetual stop-loss / take-profit / "
         "one ulp either side. Before every close-positions tx and every block the items are walked on a throw-away context: health recomputed at the moment of each item "
         "(GetPositionHealth; GetMTPHealth after settling interest and funding), guard evaluated by the harness, state advanced by that one item; after the real step all "
         "positions and owner balances are diffed. distinct = distinct (op,result) sequence; non-trivial = at least one forced close, successful open or user close",
    trusted_base=["tools/gotrans arith (Go AST + go/types -> Gallina): the method table of coq/Generated/ARITH_README.md; ties the comparisons of CheckAndLiquidateUnhealthyPosition / "
                  "CheckAndCloseAtStopLoss / CheckAndCloseAtTakeProfit (both modules, by position side) and of the open-time health checks to the guard functions of Models/CloseGuard.v; "
                  "what GetPositionHealth / GetMTPHealth / GetSafetyFactor / GetAssetPrice / LpTokenPrice return, that a pointer passed as an argument (SetMTP, hooks) is not written "
                  "through between `mtp.MtpHealth = h` and the test, and the order of the steps around the guards, are covered by the correspondence run only",
                  "MOVED from 'taken from the implementation' to 'modelled exactly': the two health FORMULAS (Models/Health.v; every health value read from the keepers in a history "
                  "is emitted with its inputs - HLev: ExitPoolEst amount, Borrowed / InterestStacked / InterestPaid; HPerp: MTP fields and the EstimateSwapGivenOut result of the "
                  "side - and recomputed by Coq, Run/HealthRun.v; Props/ArithTieC10b.v ties the Go text). Still inputs: the exit estimate and the swap estimates themselves "
                  "(amm pricing: C03/C05 models), the debt record (C06/C07), settlement amounts",
                  "health values, lp / oracle prices, settled interest and funding amounts and pay-outs are read from the implementation (recomputed on throw-away contexts "
                  "with the keepers' own GetPositionHealth / GetMTPHealth / LpTokenPrice / settlement functions): the link health value <-> economic value is taken as given, "
                  "except for leveraged-LP health, which is ALSO recomputed from first principles (amm ExitPoolEst of the shares committed at the position address in uusdc over "
                  "Borrowed + InterestStacked - InterestPaid of the stablestake debt record); the two must agree (C10:lev-health-differs-from-exit-value-over-debt) and the verdict uses the recomputed value",
                  "owner funds = bank balances of uusdc, uatom, uelys, ueden, uedenb (claimed-but-uncommitted reward records are not diffed)",
                  "balances over a whole block are not attributed to the sweep (queued swaps settle in the same block); transfers out of a position's own address are"],
    modelled="decision layer only (guards, loops, keys); pricing, interest, funding and swap estimation are implementation-resolved; tradeshield order execution (owner-created "
             "orders) is outside this property; " + COMMON_MODELLED,
    level_text="Theorems (Coq, closed under the global context): for EVERY state, EVERY list of third-party items (both MsgClosePositions handlers, the begin-block sweep; any "
               "(owner,id) pairs, repeated / unknown) and ALL resolved healths, prices and pay-outs, a position whose size net of settled interest/funding, collateral, "
               "principal or trigger differs afterwards was named by an item whose guard - health <= safety factor (equal liquidates, one ulp above does not), lp price <= "
               "stop-loss, oracle price at/beyond stop-loss or take-profit for its side, nil triggers never - held at that moment; same for every owner balance; a position whose "
               "items all evaluate to false survives unchanged; a user close touches only the position stored under the sender; an accepted open passed `health > safety "
               "factor` on the value the handler computed. The FULL open statement (health of the stored position in the resulting state > safety factor) is proved for "
               "perpetual on the code as it is since fix: ba85cca (C10_open_healthy_perpetual, also over histories) and REFUTED for the code before it "
               "(C10_open_healthy_prefix_refuted, observed numbers; harness signature C10:open-unhealthy:perpetual); for leveragelp it holds whenever the compared value is the final health (C10_open_healthy_partial). Tied to the code by replaying every observed close-positions tx, sweep, open and user close of generated "
               "histories on the real app through the model (vm_compute) and diffing positions, balances and verdicts; the property's own predicate is evaluated on the real "
               "state with independently recomputed health at the moment of every item.",
    level_note="Trusted: Coq kernel+VM; the Go harness; price/settlement values and the estimates the health formulas start from come from the implementation's own functions (the formulas themselves are modelled: C10_lev_liq_guard_means_value_below_debt_times_sf, C10_perp_liq_guard_means_custody_below_owed_times_sf). Open statement: full for perpetual, partial for leveragelp "
               "(its handler compares the health computed right after the pool join; the harness checks on every observed open that it equals the final health).",
    assumptions=["single oracle pool uusdc/uatom (the fixture's) for both modules", "C10_open_healthy_partial assumes the value compared by the handler is the final health "
                 "(observed true for leveragelp on every open of every run; perpetual re-checks the final health itself)"],
)
