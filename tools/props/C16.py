# C16 configuration fragment (merged by tools/propcfg.py)
from propcommon import COMMON_MODELLED
PROP = dict(
        gotest="TestC16",
        translator="arithC16",
        extra_props=["ArithTieC16"],
        extra_gotests=[("TestZdec", "Zdec")],
        model="coq/Models/Oracle.v (exact, byte-string keys: PriceKey, sorted KV store, reverse prefix iteration, GetAssetPrice, "
              "GetAssetPriceFromDenom, EndBlock expiry in uint64 arithmetic, feeder registry, FeedPrice/FeedMultiplePrices, asset infos, params)",
        coq_deps=["Base/", "Models/Oracle.v", "Proofs/OracleProofs.v", "Run/OracleRun.v", "Props/C16.v", "Generated/ArithC16.v", "Proofs/ArithTieTac.v", "Proofs/ArithTieC16.v", "Props/ArithTieC16.v"],
        rule="histories of 35-65 ops (feed / feed_multi from active, inactive, unregistered and governance senders, feeder registry "
             "messages, asset infos, governance changes of PriceExpiryTime/LifeTimeInBlocks incl. 0 and values that wrap uint64, blocks "
             "with time gaps 1..7 and e-1, e, e+1, e/2 around the expiry) on a fresh real app each; 60% over an alphabet of assets/sources "
             "BUILT TO COLLIDE (ATM, ATMO, ATMe, ATMelys, ATMband, elys, band, elysium, elys/x, lys, ...), 40% over ordinary tickers; "
             "prices per decade 1..1e40 raw, zero, negative, invalid asset/source; after EVERY step GetAssetPrice of every name and "
             "GetAssetPriceFromDenom of every denom are compared with the Coq model (exact) and with a reference map kept by the harness; "
             "distinct = distinct (op,result) sequence; non-trivial = at least one accepted feed",
        trusted_base=["tools/gotrans arith (Go AST + go/types -> Gallina over Base/Zdec.v, Base/U64.v): the method table of coq/Generated/ARITH_README.md and Go's uint64 "
                      "semantics as written in Base/U64.v (+ modulo 2^64, uint64(int64) modulo 2^64); ties the two EndBlock expiry conditions, GetAssetPriceFromDenom and the "
                      "body of Pow10's loop to expired_time / expired_height / price_from_denom / pow10_dec; that the loop runs int(decimal) times, and what GetParams / "
                      "GetAssetInfo / GetAssetPrice return, is covered by the correspondence run only",
                      "the price store is modelled as its own sorted byte-keyed list; asset infos, feeders and params (exact-key Get/Set under the "
                      "disjoint prefixes 'AssetInfo/value/', 0x02, 0x01 of the same KV store) are modelled as association lists",
                      "price writers outside the two feed messages are not executed: Band IBC receive (x/oracle/oracle.go; no channel offline), "
                      "InitGenesis, MigrateAllLegacyPrices (upgrade only); the harness scans the source tree on every run and reports any "
                      "SetPrice/PriceKey site outside this list (C16:new-price-writer-site)",
                      "MsgCreateAssetInfo tickers (BandTicker/ElysTicker) are fixed non-empty strings"],
        modelled="x/oracle price store, lookups, end-blocker, feeder and asset-info handlers as Gallina functions over byte strings and N/Z; " + COMMON_MODELLED,
        level_text="Theorems (Coq, closed under the global context) over an exact Gallina model with byte-string keys: for every history whose fed "
                   "(asset, source) names are separated the store equals the specification map and GetAssetPrice returns the newest elys, else band, "
                   "else some source's newest price of exactly the asked asset (and nothing iff none is live); for the repaired lookup (fix: b6f0d96) the lookup "
                   "returns a stored entry of exactly the asked asset/source for ALL names; the pre-fix lookup and the key format (same-key overwrite, open known finding) are REFUTED "
                   "by witnesses that are replayed on the real keeper; expiry, no-info/no-price => zero, and only-registered-and-active-feeders-write "
                   "hold for all names and histories. The model is replayed by Coq's VM on the very histories the real app executed and must "
                   "reproduce result kind, number of stored prices and every lookup after every step.",
        level_note="Trusted: Coq kernel+VM; the Go harness; disjointness of the sub-store prefixes; price writers that cannot run offline (Band IBC, "
                   "genesis, migration). C16_lookup_refines_spec carries the side condition sep names (exact) / sepb names = true (decidable).",
        assumptions=["C16_lookup_refines_spec assumes the fed (asset, source) names are separated (sep names) and the asked asset's scan prefixes "
                     "are separated (sep_for names a); without it the property is refuted (C16_prefix_collision_refuted, C16_key_overwrite_refuted)",
                     "histories start from an empty price store (genesis of the test app has no prices)"],
    )
