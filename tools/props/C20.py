# C20 configuration fragment (merged by tools/propcfg.py)
from propcommon import COMMON_MODELLED
PROP = dict(
        gotest="TestC20",
        translator="arithC20",
        extra_props=["ArithTieC20"],
        extra_gotests=[("TestZdec", "Zdec")],
        model="coq/Models/Shield.v (exact: order ids/counters, escrow accounts, owner checks, trigger comparisons, order of escrow return / inner call / "
              "removal in ExecuteOrders, which errors revert and which are swallowed (no cache context), nil-dereference panic for a skipped spot order, "
              "UpdatePerpetualOrder ratio check with LegacyDec.Quo; resolved from the implementation: market price read by the keeper, result + committed "
              "bank transfers of the inner amm.SwapByDenom / perpetual.Open call); coq/Models/ShieldPrice.v (exact: the spot market price "
              "GetAssetPriceFromDenomInToDenomOut computes from the two oracle price records and the decimals: Dec(P).Quo(10^dec) per side, "
              "Mul by 1, ErrPriceNotFound on zero, Quo; not modelled: the amm spot-price fallback when the oracle has no record / the per-unit value rounds to zero)",
        coq_deps=["Base/", "Models/Shield.v", "Proofs/ShieldProofs.v", "Run/ShieldRun.v", "Models/ShieldPrice.v", "Proofs/ShieldPriceProofs.v",
                  "Run/ShieldPriceRun.v", "Props/C20.v", "Generated/ArithC20.v", "Proofs/ArithTieTac.v", "Proofs/ArithTieC20.v", "Props/ArithTieC20.v"],
        rule="histories of 34-60 ops over 4 funded users on a fresh real app with the market fixture, 3 of 4 with the 18-decimals asset aweth (2000 USD) and its "
             "oracle pool (MarketOpts.Extra18): MsgCreateSpotOrder (stop-loss/limit-sell/limit-buy/market-buy, "
             "9 denom pairs incl. aweth/uusdc, uusdc/aweth, aweth/uatom, uatom/aweth (market prices near 1e-9 / 1e+9 per base unit), wrong amount/target denoms; absolute "
             "amounts of an 18-decimals denom scaled by 1e12), MsgCreatePerpetualOpenOrder (trading asset uatom in pool 1 or aweth in pool 2; long usdc/asset collateral, short; leverage 1..25; sized against the pool so that "
             "perpetual.Open fails after the collateral moved), MsgUpdate*/MsgCancel*/MsgCancel*Orders from owners and non-owners, MsgExecuteOrders from owners and third "
             "parties with 1-6 ids (unknown and duplicate ids included), bank sends to escrow accounts, oracle price moved to exactly / one step beside a pending "
             "order's trigger (also by steps below the resolution of the code's per-base-unit value), +-1..25 %, +0.03 % / -0.015 % / +7e-9 (prices with many digits), price removed, blocks of 5s..3700s; amounts 0, 1, 1e3, 0.1%, 1/3, all-1, all, all+1 of the wallet and 1..1e12 per decade; "
             "trigger prices at / one ulp above / below the market, +-10 %, 0, 3x. distinct = distinct (op,result,user) sequence; non-trivial = at least one "
             "successful state-changing transaction",
        trusted_base=["tools/gotrans arith (Go AST + go/types -> Gallina over Base/Zdec.v, Base/U64.v): the method table of coq/Generated/ARITH_README.md; ties the oracle path of "
                      "GetAssetPriceFromDenomInToDenomOut and the skip comparisons of the four order executors to market_price_fixed / triggered; which executor "
                      "ExecuteOrders calls for which OrderType, and what GetAssetPriceAndDecimals / GetAssetPrice return, is covered by the correspondence run only",
                      "the inner call's result/transfers are read from the implementation by running each order attempt on a scratch branch; the spot market price the "
                      "replay is driven with is the keeper's value, which Coq recomputes (Models/ShieldPrice.v) from the oracle records the harness reads from x/oracle "
                      "and the fixture's decimals on every attempt with a record on both sides; without a record (amm spot-price fallback) the keeper's value is taken as is",
                      "the harness judges 'trigger met' by the exact rational (P_base/10^dec_base)/(P_quote/10^dec_quote) (big.Rat), not by the keeper's value; within 2 units "
                      "of the rate's 18th digit the verdict is withheld (counted in extra)",
                      "escrow accounts may hold uusdc/uatom/uelys/aweth only (the denoms of the fixture); transfers to not-yet-created order accounts are not generated",
                      "the settlement of queued swaps at the end of a block is taken from the implementation (OEnv: user wallets), escrows/orders must not move"],
        modelled="x/tradeshield handlers as Gallina functions over Z; amm / perpetual internals are resolved choices; " + COMMON_MODELLED,
        level_text="Theorems (Coq, closed under the global context) over a Gallina model of the tradeshield handlers, universally quantified over states, senders, "
                   "market prices and inner-call results: non-owner update / cancel / batch cancel refused without change; an execute request none of whose orders "
                   "is triggered changes nothing; the owner's cancel returns exactly the escrow and touches no other account; for the repaired ExecuteOrders a "
                   "failed attempt changes nothing; over ALL histories of the repaired model without transfers to escrow accounts (induction over the op list, every "
                   "op kind, any prices / inner results): every pending order's escrow account holds exactly its escrowed coin and all other escrow accounts are "
                   "empty (invariant), so the owner's cancel always succeeds and returns the escrow in full, and wallet + escrows of every user are conserved by "
                   "every step except the user's own executed orders / market buys / plain transfers / swap settlement (per step and composed over histories); for the code before fix: 8bfd5d3 two refutation witnesses (a failing perpetual.Open keeps its transfers: owner funds lost "
                   "from wallet+escrow while the order stays pending; any failed attempt strands the order with an empty escrow and the owner's cancel is refused). "
                   "The spot market price as a function of the two oracle records and the decimals (Models/ShieldPrice.v): each LegacyDec stage within 1/2 + 1e-18 unit of "
                   "its 18th digit, exact on prices with at most 18 - decimals digits, monotone in the base price / antitone in the quote price, trigger decision "
                   "monotone in the market price and in the oracle price; and a refutation witness: the per-base-unit value price/10^decimals keeps only "
                   "18 - decimals digits, so the code executes a limit sell of aweth (18 decimals) at 2000.8 while the market is at 2000.6, and a uatom stop loss at the 13th digit. "
                   "The model is replayed by Coq's VM on the very op sequences the real app executed and must reproduce result kind, every user wallet, every "
                   "escrow account and both pending-order lists after every step.",
        level_note="Trusted: Coq kernel+VM; the Go harness; resolved market prices and inner results. The unchanged code violates the property "
                   "(C20:failed-execute-moved-owner-funds); the repaired model differs only inside ExecuteOrders. Open: C20:executed-without-trigger:market-price-rounded-per-base-unit "
                   "(C20_trigger_by_exact_price_refuted).",
        assumptions=["C20_market_price_* are about the oracle-record path of GetAssetPriceFromDenomInToDenomOut (both per-base-unit values non-zero); the amm spot-price fallback is outside the model",
                     "C20_cancel_full assumes the escrow account holds exactly the escrowed amount (exact_escrow)",
                     "C20_escrow_invariant / C20_cancel_full_history / C20_conserved / C20_conserved_history are about the handler since fix: 8bfd5d3 (fixed = true) "
                     "and assume no_escrow_transfers: no plain bank transfer of the history goes to an escrow account (third-party tokens there are not the "
                     "owner's funds: a perpetual cancel leaves them behind, a spot cancel hands them to the owner); the harness does generate such transfers "
                     "for the correspondence run",
                     "C20_conserved excludes, for user u, exactly: execute requests listing an order of u whose attempt can succeed, a market-buy create of u, "
                     "plain transfers from/to u, blocks that settle u's queued swaps (quiet s o u); C20_conserved_partial is kept from the first round",
                     "C20_failed_execute_unchanged_fixed is about ExecuteOrders as it is since fix: 8bfd5d3 (the harness compares the real code with the fixed = true model); the two _refuted theorems are about the pre-fix code"],
    )
