# C12 configuration fragment (merged by tools/propcfg.py)
from propcommon import COMMON_MODELLED
PROP = dict(
        gotest="TestC12",
        translator="arithC12",
        extra_props=["ArithTieC12"],
        extra_gotests=[("TestZdec", "Zdec"), ("TestC12Ledger", "C12l")],
        model="coq/Models/Commit.v (exact: AddCommittedTokens, DeductFromCommitted, CommitLiquidTokens, UncommitTokens incl. liquidation flag, "
              "CommitClaimedRewards, BurnEdenBoost, DepositLiquidTokensClaimed, claimed ledger, estaking EdenUncommitted burn formula; "
              "TotalCommitted updates per call site as coded)",
        coq_deps=["Base/", "Models/Commit.v", "Proofs/CommitProofs.v", "Run/CommitRun.v", "Props/C12.v", "Generated/ArithC12.v", "Proofs/ArithTieTac.v", "Proofs/ArithTieC12.v", "Props/ArithTieC12.v"],
        rule="APP: histories of 28-54 ops + claimable Eden/EdenB seeding over 4 of 6 users on a fresh real app with the market fixture: "
             "MsgCommitClaimedRewards, MsgUncommitTokens, stablestake MsgBond/MsgUnbond, amm MsgJoinPool/MsgExitPool on the oracle pool (1h lock) and the "
             "constant-product pool, MsgStake, keeper calls as other modules make them (CommitLiquidTokens with locks, UncommitTokens with/without the "
             "liquidation flag, BurnEdenBoost, DepositLiquidTokensClaimed), asset-profile toggles, donations, block advances 1s..3700s and aimed at "
             "unlock-1/unlock/unlock+1; amounts relative to committed/claimed/unlocked (1, 0.1%, 1/3, 1/2, all-1, all, all+1, 2x, unlocked, unlocked±1), "
             "also <=0; PURE: 4-12 AddCommittedTokens/DeductFromCommitted calls on 3 denoms with unlock times == now, now±1, amounts 0..1e30. "
             "distinct = distinct (op,denom,result,account) sequence; non-trivial = at least one successful commit, uncommit or deduct",
        trusted_base=["tools/gotrans arith (Go AST + go/types -> Gallina over Base/Zdec.v, Base/U64.v): the method table of coq/Generated/ARITH_README.md; ties the per-entry tests and values of "
                      "DeductFromCommitted / AddCommittedTokens / CommittedTokensLocked to deduct_committed / add_committed / keep_lock / locked_sum; the loops over entries and lock-ups, "
                      "the denom comparison that selects the entry, and that a value assigned through c.CommittedTokens[i].Amount is what the same path reads later (no aliasing "
                      "between different access paths) are read by hand and covered by the correspondence run",
                      "hook side effects other than the EdenUncommitted EdenB burn are taken as not touching the ledger (checked by the per-step comparison)",
                      "Eden/EdenB credited by estaking WithdrawAllRewards inside the hook and the account's ElysStaked are read from the implementation",
                      "claimable Eden/EdenB is seeded through CommitmentKeeper.SetCommitments (fixture), keeper calls are made on a cache context by the harness"],
        modelled="x/commitment ledger handlers + estaking burn formula as Gallina functions over Z; leveragelp/masterchef/vesting callers are not driven "
                 "(their commitment-side calls are the modelled keeper functions); " + COMMON_MODELLED,
        level_text="Theorems (Coq, closed under the global context) over an exact Gallina model of the commitment ledger: after EVERY history (induction over "
                   "the op list) total >= sum for the code as it is, total == sum for the repaired model, custody covers committed+claimed of every bank-backed "
                   "denom, no amount negative; per step: locked amounts stay committed after any non-liquidation uncommit, overdraw is an error that changes "
                   "nothing, liquidation overrides locks; the two models provably differ only in the total and only at the two listed call sites. The model is "
                   "replayed by Coq's VM on the very op sequences the real app executed and must reproduce result kind, every committed entry with lock-ups, "
                   "claimed, share wallets, TotalCommitted and the module balances after every step.",
        level_note="Trusted: Coq kernel+VM; the Go harness; amounts credited by reward hooks are resolved from the implementation. The full statement "
                   "'total == sum' is refuted for the unchanged code at two call sites (C12_total_refuted, C12_burn_total_refuted).",
        assumptions=["C12_total_eq_sum is about the repaired model (both TotalCommitted sites subtract); for the code as it is only C12_total_ge_sum holds",
                     "C12_liquidation_override excludes d = ueden (the EdenUncommitted hook may fail for reasons outside the ledger)"],
    )
