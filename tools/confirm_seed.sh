#!/bin/bash
# confirm_seed.sh <ID> [name]: re-confirms a seeded breaking change written by a sub-agent in /tmp/seed/<ID>-wt with deliverables in
# /tmp/seed/<ID>-out (patch.diff, demo_test.go, meta.json): fresh worktree, (1) clean+demo passes, (2) patch+demo fails, (3) patch + existing
# tests of the packages named in meta.json pass. On success copies the deliverables to /verif/seeded/<name>/ and removes the worktrees.
set -u
ID=$1; NAME=${2:-$ID}
OUT=/tmp/seed/$ID-out; WT=/tmp/seed/$ID-confirm
export GOFLAGS=-mod=mod GOPROXY=off GOSUMDB=off GOTOOLCHAIN=local
git -C /repo worktree remove --force $WT >/dev/null 2>&1; rm -rf $WT
git -C /repo worktree add --detach $WT HEAD >/dev/null 2>&1 || { echo "cannot create worktree"; exit 2; }
cd $WT
DIR=$(python3 -c "import json;print(json.load(open('$OUT/meta.json'))['demo_dir'])")
RUN=$(python3 -c "import json;print(json.load(open('$OUT/meta.json'))['demo_run'])")
PKGS=$(python3 -c "
import json,re
t=' '.join(json.load(open('$OUT/meta.json'))['tests_run_with_patch'])
print(' '.join(sorted(set(re.findall(r'\./[A-Za-z0-9_/.]+', t)))))")
cp $OUT/demo_test.go $DIR/zz_seed_demo_test.go
echo "== (1) clean + demo: $RUN"
if eval "timeout 1800 $RUN" > /tmp/seed/$ID-c1.log 2>&1; then echo "PASS (as required)"; else echo "FAIL (unexpected)"; tail -20 /tmp/seed/$ID-c1.log; exit 1; fi
git apply $OUT/patch.diff || { echo "patch does not apply"; exit 1; }
echo "== (2) patch + demo"
if eval "timeout 1800 $RUN" > /tmp/seed/$ID-c2.log 2>&1; then echo "PASS (unexpected: demo does not detect the change)"; exit 1; else echo "FAIL (as required)"; grep -m3 -E "Error:|panic|--- FAIL" /tmp/seed/$ID-c2.log; fi
rm $DIR/zz_seed_demo_test.go
echo "== (3) patch + existing tests: $PKGS"
if timeout 3000 go test -vet=off -count=1 $PKGS > /tmp/seed/$ID-c3.log 2>&1; then echo "PASS (as required)"; else
  # client/cli packages time out (600 s) when the machine is loaded: re-run the failed packages alone, once
  FAILED=$(grep -E "^FAIL\s+github.com" /tmp/seed/$ID-c3.log | awk '{print $2}' | sed 's|github.com/elys-network/elys|.|' | sort -u | tr '\n' ' ')
  echo "first run failed in: $FAILED; re-running those alone"
  if [ -n "$FAILED" ] && timeout 3000 go test -vet=off -count=1 -p 2 $FAILED > /tmp/seed/$ID-c3b.log 2>&1; then echo "PASS on re-run (as required)"; else echo "FAIL (existing tests break)"; grep -E "^(FAIL|--- FAIL)" /tmp/seed/$ID-c3.log /tmp/seed/$ID-c3b.log | head; exit 1; fi
fi
mkdir -p /verif/seeded/$NAME
cp $OUT/patch.diff $OUT/demo_test.go /verif/seeded/$NAME/
python3 - <<P
import json
m=json.load(open('$OUT/meta.json'))
m['confirmed_by_integrator']={'clean_plus_demo':'pass','patch_plus_demo':'fail','patch_plus_existing_tests':'pass: $PKGS',
  'how':'tools/confirm_seed.sh in a fresh worktree of /repo HEAD'}
json.dump(m,open('/verif/seeded/$NAME/meta.json','w'),indent=1)
P
cd /; git -C /repo worktree remove --force $WT; git -C /repo worktree remove --force /tmp/seed/$ID-wt 2>/dev/null
echo "CONFIRMED $NAME"
