# Translator tie (T): builds tools/gotrans and regenerates coq/Generated/<Table>.v from the CURRENT
# working tree of the repository. Called by ./check inside the Coq build lock, before `make`.
import hashlib, json, os, tempfile

TABLES = {"handlers": "Handlers.v", "mintsites": "MintSites.v", "blockers": "BlockerSurface.v", "determinism": "Determinism.v",
          "ownerflow": "OwnerFlow.v",
          # arithmetic ties (tools/gotrans/arith.go): one table per property so that a broken tie only fails its own property
          "arithC14": "ArithC14.v", "arithC07": "ArithC07.v", "arithC13": "ArithC13.v", "arithC03": "ArithC03.v",
          "arithC20": "ArithC20.v", "arithC16": "ArithC16.v", "arithC05": "ArithC05.v", "arithC12": "ArithC12.v", "arithC10": "ArithC10.v",
          "arithC03b": "ArithC03b.v"}  # weight-breaking fee of oracle pools (tools/gotrans/arith3.go), shared by C03 and C05
BROKEN = "(* gotrans failed on the current tree *)\nDefinition handlers := gotrans_failed_on_the_current_tree_see_log.\n"


def _stamp(srcdir):
    h = hashlib.sha1()
    for f in sorted(os.listdir(srcdir)):
        if f.endswith(".go") or f == "go.mod":
            h.update(f.encode())
            h.update(open(os.path.join(srcdir, f), "rb").read())
    return h.hexdigest()


def generate(kind, REPO, COQ, BUILD, GOENV, run, log):
    """returns a dict (table sizes, whether the table changed) that goes into the evidence file.
    If the translator cannot be built or fails on the tree, an uncompilable table is installed so that
    the Coq build fails and ./check reports the broken obligation (never a stale table)."""
    V = os.path.dirname(os.path.dirname(os.path.abspath(__file__)))
    src = os.path.join(V, "tools", "gotrans")
    binp = os.path.join(BUILD, "gotrans")
    sp = os.path.join(BUILD, "gotrans.stamp")
    st = _stamp(src)
    if not (os.path.exists(binp) and os.path.exists(sp) and open(sp).read() == st):
        rc, out, dt = run(["go", "build", "-o", binp, "."], cwd=src, env=GOENV, timeout=1200)
        log("gotrans build: rc=%d %.1fs" % (rc, dt))
        if rc != 0:
            os.makedirs(os.path.join(COQ, "Generated"), exist_ok=True)
            for name in TABLES.values():
                open(os.path.join(COQ, "Generated", name), "w").write(BROKEN)
            return dict(error="gotrans does not build: " + out[-1500:])
        open(sp, "w").write(st)
    kinds = [kind] if isinstance(kind, str) else list(kind)
    info = {}
    gen = os.path.join(COQ, "Generated")
    os.makedirs(gen, exist_ok=True)
    for k in kinds:
        name = TABLES[k]
        dst = os.path.join(gen, name)
        old = open(dst).read() if os.path.exists(dst) else None
        # generate into a scratch directory, install only on change (keeps make incremental)
        with tempfile.TemporaryDirectory(dir=BUILD) as td:
            tmpv = os.path.join(td, name)
            rc, out, dt = run([binp, k, REPO, tmpv], env=GOENV, timeout=600)
            log("gotrans %s: rc=%d %.1fs" % (k, rc, dt))
            if rc != 0:
                # leave an uncompilable table behind so that the obligation visibly breaks
                open(dst, "w").write(BROKEN + "(* " + out[-1500:].replace("(*", "( *").replace("*)", "* )") + " *)\n")
                log("gotrans %s failed: %s" % (k, out[-600:].strip()))
                info[k] = dict(error=out[-1500:])
                continue
            new = open(tmpv).read()
            changed = new != old
            if changed:
                open(dst, "w").write(new)
            for f in os.listdir(td):
                if f.endswith(".json"):
                    data = open(os.path.join(td, f)).read()
                    jd = os.path.join(gen, f)
                    if not os.path.exists(jd) or open(jd).read() != data:
                        open(jd, "w").write(data)
                    if k == "handlers":
                        hs = json.loads(data)["handlers"]
                        info[k] = dict(
                            handlers=len(hs),
                            modules=len({h["module"] for h in hs}),
                            with_authority_field=sum(1 for h in hs if h["has_authority"]),
                            with_authority_guard=sum(1 for h in hs if any(s["kind"] == "GuardAuthority" for s in h["skel"])),
                            with_owner_guard=sum(1 for h in hs if any(s["kind"] in ("GuardOwner", "KeyedLookup") for s in h["skel"])),
                            unresolved=[h["module"] + "." + h["method"] for h in hs if not h["resolved"]],
                            statements=sum(len(h["skel"]) for h in hs),
                            table_changed_since_last_run=changed,
                            sha1=hashlib.sha1(new.encode()).hexdigest(),
                        )
                    if k == "mintsites":
                        ss = json.loads(data)["sites"]
                        info[k] = dict(
                            sites=len(ss),
                            bank_sites=sum(1 for x in ss if x["target"] == "bank"),
                            entry_reachable_bank_sites=["%s:%d %s %s %s %s" % (x["file"], x["line"], x["func"], x["kind"], x["macc"], ",".join(x.get("origin") or []))
                                                        for x in ss if x["target"] == "bank" and x["reach"] == "REntry"],
                            not_entry_reachable=["%s:%d %s %s %s %s referrers=%s" % (x["file"], x["line"], x["func"], x["kind"], ",".join(x.get("origin") or []), x["reach"], ",".join(x.get("referrers") or []))
                                                 for x in ss if x["reach"] != "REntry"],
                            table_changed_since_last_run=changed,
                            sha1=hashlib.sha1(new.encode()).hexdigest(),
                        )
                    if k == "ownerflow":
                        fs = json.loads(data)["flows"]
                        cls = {}
                        for f in fs:
                            cls[f["class"]] = cls.get(f["class"], 0) + 1
                        info[k] = dict(
                            handlers=len(fs), classes=cls,
                            unknown={f["module"] + "." + f["method"]: f.get("reasons", [])[:3] for f in fs if f["class"] == "U"},
                            delegations=sorted({"%s.%s -> %s (%s <- %s)" % (f["module"], f["method"], i["handler"], i["field"], i["from"])
                                                for f in fs for i in (f.get("inner") or [])}),
                            table_changed_since_last_run=changed,
                            sha1=hashlib.sha1(new.encode()).hexdigest(),
                        )
            if k not in info:
                info[k] = dict(table=name, bytes=len(new), table_changed_since_last_run=changed, sha1=hashlib.sha1(new.encode()).hexdigest())
    return info
