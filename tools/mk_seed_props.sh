#!/bin/bash
# mk_seed_props.sh <suffix> <Cnn>...: writes /tmp/seed/props/<Cnn><suffix>.txt (property text + summaries of the seeded changes already stored
# in /verif/seeded/<Cnn>-*) and creates a scratch worktree /tmp/seed/<Cnn><suffix>-wt of /repo HEAD for a seeding sub-agent.
SUF=$1; shift
mkdir -p /tmp/seed/props
for P in "$@"; do
python3 - "$P" "$SUF" <<'P'
import json,sys,glob
pid,suf=sys.argv[1],sys.argv[2]
for l in open('/verif/properties.jsonl'):
    p=json.loads(l)
    if p['id']==pid: break
t=json.dumps(p,indent=1)
prev=sorted(glob.glob('/verif/seeded/%s-*/meta.json'%pid))
if prev:
    t+="\n\n\nPrevious seeded changes for this property already exist; DO NOT repeat them or close variants, choose a different code path and mechanism. The previous ones were:\n"
    for m in prev:
        t+=" - "+json.load(open(m))['summary'].replace("\n"," ")+"\n"
open('/tmp/seed/props/%s%s.txt'%(pid,suf),'w').write(t)
P
git -C /repo worktree remove --force /tmp/seed/$P$SUF-wt >/dev/null 2>&1; rm -rf /tmp/seed/$P$SUF-wt
git -C /repo worktree add --detach /tmp/seed/$P$SUF-wt HEAD >/dev/null 2>&1 && echo "ready $P$SUF"
done
