#!/bin/bash
# run_all_seeds.sh [pattern]: applies every stored seeded change in turn to a scratch worktree of /repo HEAD (never to /repo itself: other
# jobs read it), runs the quick check of its property against that worktree (VERIF_REPO), and prints one line per seed (CAUGHT / MISSED).
# Takes about 40 s per seed. Afterwards the translator properties are re-run against /repo so that coq/Generated/ and evidence/ describe /repo.
cd /verif
WT=/var/tmp/seedtry-wt
git -C /repo worktree remove --force $WT >/dev/null 2>&1; rm -rf $WT
git -C /repo worktree add --detach $WT HEAD >/dev/null 2>&1 || { echo "cannot create worktree"; exit 2; }
git -C /repo diff --quiet || (cd /repo && git diff HEAD | git -C $WT apply)   # carry an uncommitted fix under test
base=$(git -C $WT diff HEAD | sha1sum)
touched=""
for d in seeded/${1:-*}/; do
  n=$(basename $d); p=${n%%-*}
  git -C $WT apply /verif/$d/patch.diff 2>/dev/null || { echo "$n: PATCH DOES NOT APPLY"; continue; }
  out=$(VERIF_REPO=$WT ./check $p ${TIER:-quick} 2>&1 | grep -E "^VIOLATION|^OK" | head -3 | tr '\n' ' ')
  git -C $WT apply -R /verif/$d/patch.diff; git -C $WT clean -fdq -- x app 2>/dev/null
  [ "$(git -C $WT diff HEAD | sha1sum)" = "$base" ] || { echo "worktree not restored after $n"; exit 2; }
  case "$out" in *VIOLATION*) echo "$n: CAUGHT  ${out:0:160}";; *) echo "$n: MISSED  $out";; esac
  touched="$touched $p"
done
git -C /repo worktree remove --force $WT
for p in $(echo $touched | tr ' ' '\n' | sort -u); do ./check $p quick >/dev/null 2>&1; done   # evidence and generated tables from /repo again
