#!/bin/bash
# run_all_seeds.sh [pattern]: applies every stored seeded change to /repo in turn, runs the quick check of its property, undoes it,
# and prints one line per seed (CAUGHT / MISSED). /repo must be clean. Takes about 40 s per seed.
cd /verif
git -C /repo diff --quiet || { echo "/repo dirty"; exit 2; }
for d in seeded/${1:-*}/; do
  n=$(basename $d); p=${n%%-*}
  git -C /repo apply /verif/$d/patch.diff 2>/dev/null || { echo "$n: PATCH DOES NOT APPLY"; continue; }
  out=$(./check $p quick 2>&1 | grep -E "^VIOLATION|^OK" | head -3 | tr '\n' ' ')
  git -C /repo checkout -- . ; git -C /repo clean -fdq -- x app 2>/dev/null
  case "$out" in *VIOLATION*) echo "$n: CAUGHT  ${out:0:160}";; *) echo "$n: MISSED  $out";; esac
done
for p in C15 C17 C18 C19; do ./check $p quick >/dev/null 2>&1; done   # regenerate translator tables from the clean tree
