(* gotrans failed on the current tree *)
Definition handlers := gotrans_failed_on_the_current_tree_see_log.
(* gotrans: arith C07: 1 function(s) outside the translator's scope:
  x/stablestake/keeper/debt.go:200: x/stablestake/keeper.Borrow: target guard:ErrMaxBorrowAmount: 2 if statements return that error (want exactly 1)
 *)
