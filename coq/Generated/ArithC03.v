(* gotrans failed on the current tree *)
Definition handlers := gotrans_failed_on_the_current_tree_see_log.
