(* gotrans failed on the current tree *)
Definition handlers := gotrans_failed_on_the_current_tree_see_log.
(* gotrans: arith C10: 1 function(s) outside the translator's scope:
  x/leveragelp/keeper/position_open.go:131: x/leveragelp/keeper.ProcessOpenLong: value not available: x/leveragelp/keeper/position_open.go:104: x/leveragelp/keeper.ProcessOpenLong: value not available: x/leveragelp/keeper/position_open.go:93: x/leveragelp/keeper.ProcessOpenLong: value not available: x/leveragelp/keeper/position_open.go:75: x/leveragelp/keeper.ProcessOpenLong: value not available: x/leveragelp/keeper/position_open.go:74: x/leveragelp/keeper.ProcessOpenLong: call of (x/leveragelp/keeper.Keeper).GetMaxLeverageParam is outside the translator's scope (not an Int/LegacyDec method, a listed function or a declared opaque reader): k.GetMaxLeverageParam(ctx)
 *)
