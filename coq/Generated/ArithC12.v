(* gotrans failed on the current tree *)
Definition handlers := gotrans_failed_on_the_current_tree_see_log.
(* gotrans: arith C12: 1 function(s) outside the translator's scope:
  x/commitment/types/commitments.go:51: x/commitment/types.AddCommittedTokens: value not available: x/commitment/types/commitments.go:51: x/commitment/types.AddCommittedTokens: call of a function value: len(token.Lockups)
 *)
