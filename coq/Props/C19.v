(* C19 - The state transition is deterministic and survives restart.           PARTIAL PROOF.

   Full statement wanted: two nodes that process the same blocks from the same genesis compute the same
   application hash and transaction results after every block regardless of map iteration order, goroutine
   timing or wall-clock time, and a node restarted from its database after any committed block continues
   with exactly the same hashes.

   What is proved (over the abstract node of Models/Restart.v, for ALL block lists, ALL restart points, ALL
   iteration orders, ALL deterministic step functions) and tied to the tree:
     - restart is invisible if the code has no memory cell            (table: keeper fields, package vars)
     - replicas agree whatever order each map range is visited in     (table: map ranges + instances)
     - no wall clock / randomness / goroutine / select / environment  (table: nd_sites)
   The tables are regenerated from the Go sources by tools/gotrans on every run of ./check.
   What is NOT proved and cannot be in Gallina: goroutine scheduling and the Go runtime, the SDK's stores
   (IAVL, cache layers), CometBFT; state hidden behind interface-typed fields; that every function of the
   tree is a deterministic function of its inputs beyond the constructs the translator searches for.
   Those are covered by the replicas of the correspondence run (harness/c19_test.go) only by execution.

   Only statements + [exact]; proofs in Proofs/RestartProofs.v and Proofs/BurnerProofs.v. *)
From Coq Require Import String List Bool Permutation NArith ZArith.
From Elys Require Import Base.Res Models.Restart Models.Burner Generated.Determinism Proofs.RestartProofs Proofs.BurnerProofs.
Import ListNotations.

(* --- obligations over the regenerated tables --- *)

(* No field of any keeper / msg server / hooks wrapper holds state in memory: every field is wiring
   (interface, other keeper, store key, codec, callback) or a string/scalar assigned only by the constructor.
   Breaks when somebody adds a cache, a counter, a map, a slice or a pointer to data to a keeper. *)
Theorem C19_no_keeper_memory : forallb no_memory_state fields = true.
Proof. exact fields_ok. Qed.
Print Assumptions C19_no_keeper_memory.

(* No package-level variable of x/ and app/ is written outside init (three reviewed exceptions, see
   Models/Restart.v reviewed_vars: two test knobs nothing calls, and version.Version in the constructor). *)
Theorem C19_no_package_state : forallb var_ok pkgvars = true.
Proof. exact vars_ok. Qed.
Print Assumptions C19_no_package_state.

(* Every range over a map is order-free by the syntactic criterion (lookups, locals, building a map,
   exact commutative accumulation; or collecting into slices that are sorted afterwards), or is on the
   reviewed list with a commutativity instance. A NEW map range that writes state makes this false. *)
Theorem C19_map_ranges_reviewed : forallb range_ok map_ranges = true.
Proof. exact ranges_ok. Qed.
Print Assumptions C19_map_ranges_reviewed.

Theorem C19_reviewed_ranges_have_instances :
  forallb (fun '(p, f, e, _) => existsb (fun '(p', f', e') => String.eqb p p' && String.eqb f f' && String.eqb e e') range_instances)
          reviewed_ranges = true.
Proof. exact reviewed_ranges_have_instances. Qed.
Print Assumptions C19_reviewed_ranges_have_instances.

(* time.Now only as the start time handed to a telemetry call; no math/rand, crypto/rand, unsafe, goroutine,
   select, environment lookup or %p anywhere in x/ and app/ (non-test, non-cli, non-simulation). *)
Theorem C19_no_nondeterminism_sources : forallb site_ok nd_sites = true.
Proof. exact sites_ok. Qed.
Print Assumptions C19_no_nondeterminism_sources.

(* --- restart --- *)

(* For every block list, every set of restart points, every deterministic step function that can reach only
   the memory cells the tables list (the translator's completeness is the trusted part), and every order the
   runtime picks in the map ranges: the sequence of application hashes and of transaction results equals that
   of the run that is never restarted. *)
Theorem C19_restart_invisible_partial :
  forall (P T V R H K E : Type) (hash : P -> H) (t0 : T) (m0 : list V) (blocks : list (list (@op P T V R K E))),
    Forall (Forall (op_ok (length (memory_cells fields pkgvars)))) blocks ->
    forall (cuts : nat -> bool) (n : @node P T V) tr tr',
      run hash t0 m0 cuts 0 blocks n tr -> run hash t0 m0 (fun _ => false) 0 blocks n tr' ->
      map fst tr = map fst tr' /\ map snd tr = map snd tr'.
Proof. exact restart_invisible. Qed.
Print Assumptions C19_restart_invisible_partial.

(* The table hypothesis carries the weight: with ONE state-holding keeper field (a map used as a cache) there
   is a node whose step respects that cell and whose hashes differ once it is restarted. *)
Theorem C19_restart_visible_with_memory_refuted :
  no_memory_state cache_field = false /\
  Forall (Forall (op_ok (length (memory_cells [cache_field] [])))) leaky_blocks /\
  exists cuts tr tr',
    run (fun p : nat => p) tt [0%nat] cuts 0%nat leaky_blocks leaky_node tr /\
    run (fun p : nat => p) tt [0%nat] (fun _ => false) 0%nat leaky_blocks leaky_node tr' /\
    map fst tr <> map fst tr'.
Proof. exact restart_visible_with_memory. Qed.
Print Assumptions C19_restart_visible_with_memory_refuted.

(* --- replicas and map order --- *)

(* A loop body that commutes per key gives the same outcome for every two orders of the same map. *)
Theorem C19_order_irrelevant :
  forall (S K E : Type) (body : K -> E -> S -> res S) (entries l1 l2 : list (K * E)) (s : S),
    commutes body -> NoDup (map fst entries) -> Permutation l1 entries -> Permutation l2 entries ->
    fold_res body l1 (Ok s) = fold_res body l2 (Ok s).
Proof. exact @order_irrelevant. Qed.
Print Assumptions C19_order_irrelevant.

(* ... and without commutation it does not ("first one wins"). *)
Theorem C19_order_matters_without_commutation_refuted :
  fold_res first_wins [(1%nat, tt); (2%nat, tt)] (Ok None) <> fold_res first_wins [(2%nat, tt); (1%nat, tt)] (Ok None)
  /\ Permutation [(1%nat, tt); (2%nat, tt)] [(2%nat, tt); (1%nat, tt)] /\ NoDup (map fst [(1%nat, tt); (2%nat, tt)]).
Proof. exact order_matters_without_commutation. Qed.
Print Assumptions C19_order_matters_without_commutation_refuted.

(* The instance for the one state-writing map range of the tree: the burner's per-denom burns. *)
Theorem C19_burner_order_irrelevant :
  forall ts meta s l1 l2, burn_orders meta s l1 -> burn_orders meta s l2 -> burn_in_order ts l1 s = burn_in_order ts l2 s.
Proof. exact burner_order_irrelevant. Qed.
Print Assumptions C19_burner_order_irrelevant.

Theorem C19_burner_is_admissible_op :
  forall (T V : Type) (ncell : nat) ts meta, op_ok ncell (@burner_op T V ts meta).
Proof. exact @burner_op_ok. Qed.
Print Assumptions C19_burner_is_admissible_op.

(* "collect the keys, sort, iterate": the loop after the sort sees the same list whatever order the range
   delivered, for ANY body. *)
Theorem C19_sorted_keys_deterministic :
  forall (S : Type) (body : N -> S -> res S) (collected collected' : list N) (s : S),
    Permutation collected collected' -> sorted_loop body collected s = sorted_loop body collected' s.
Proof. exact @sorted_keys_deterministic. Qed.
Print Assumptions C19_sorted_keys_deterministic.

(* Two replicas, each with its own iteration orders, restarted at the same heights or never: same hashes and
   results after every block (this one holds even for code WITH memory cells). *)
Theorem C19_replicas_agree_partial :
  forall (P T V R H K E : Type) (hash : P -> H) (t0 : T) (m0 : list V) (ncell : nat) (blocks : list (list (@op P T V R K E))),
    Forall (Forall (op_ok ncell)) blocks ->
    forall (cuts : nat -> bool) (n : @node P T V) tr tr',
      run hash t0 m0 cuts 0 blocks n tr -> run hash t0 m0 cuts 0 blocks n tr' -> tr = tr'.
Proof. exact replicas_agree. Qed.
Print Assumptions C19_replicas_agree_partial.

(* non-vacuity: the burner on a concrete state with two positive balances (both orders, successful burn) *)
Example C19_burner_example :
  burn_orders [1%N; 2%N; 3%N] demo_state [(1%N, 70%Z); (2%N, 5%Z)] /\
  burn_orders [1%N; 2%N; 3%N] demo_state [(2%N, 5%Z); (1%N, 70%Z)] /\
  is_ok (burn_in_order 9%N [(1%N, 70%Z); (2%N, 5%Z)] demo_state) = true /\
  burn_in_order 9%N [(1%N, 70%Z); (2%N, 5%Z)] demo_state = burn_in_order 9%N [(2%N, 5%Z); (1%N, 70%Z)] demo_state.
Proof. exact burner_two_denoms. Qed.
