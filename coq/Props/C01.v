(* C01 - AMM pool reserves always equal the tokens the pool really holds; DenomLiquidity = sum of reserves.
   Statements only; proofs in Proofs/AmmLedgerProofs.v, model in Models/AmmLedger.v. *)
From Coq Require Import ZArith List Bool Arith.
From Elys Require Import Base.Res Base.Fn Models.AmmLedger Proofs.AmmLedgerProofs.
Import ListNotations.
Open Scope Z_scope.

(* Level A. For every set of pools, every initial state satisfying the invariant (pool creation
   establishes it: reserves = deposited coins), and EVERY history of transactions - each an arbitrary
   list of paired transfers+book updates (swap legs, fee skims, joins, exits, perpetual
   SendTo/FromAmmPool, reward conversions) and third-party donations with arbitrary amounts, failing
   transactions rolled back - bank balance = reserve + donations (donations >= 0) for every pool and
   denom, and the liquidity record of every denom = sum of the reserves over all pools. *)
Theorem C01_reserves_match_bank : forall (ps : list nat), NoDup ps ->
  forall h s, Inv ps s -> Forall (Forall (fun o => In (pool_of o) ps)) h -> Inv ps (arun s h).
Proof. exact arun_inv. Qed.
Print Assumptions C01_reserves_match_bank.

Theorem C01_no_drift_either_direction : forall (ps : list nat), NoDup ps ->
  forall h s p d, Inv ps s -> Forall (Forall (fun o => In (pool_of o) ps)) h ->
  reserve (arun s h) p d <= pbank (arun s h) p d /\
  pbank (arun s h) p d - reserve (arun s h) p d = donated (arun s h) p d.
Proof. exact no_drift. Qed.
Print Assumptions C01_no_drift_either_direction.

(* Level B. UpdatePoolForSwap + OnCollectFee as coded (in-memory pool array shared with the nested
   fee conversion that runs on a cache context; the array is restored when the conversion is
   discarded): whatever the amounts, the fee, the weight-breaking fee, and whatever the nested
   conversion does or wherever it fails, a successful swap preserves the invariant. *)
Theorem C01_swap_handler_preserves : forall (ps : list nat), NoDup ps ->
  forall s p din dout ain aout fee wb conv s',
  Inv ps s -> In p ps -> 0 <= ain -> 0 <= aout -> 0 <= wb ->
  (match conv with Some n => 0 <= n_in n /\ 0 <= n_out n | None => True end) ->
  swap_handler true s p din dout ain aout fee wb conv = Ok s' -> Inv ps s'.
Proof. exact swap_handler_inv. Qed.
Print Assumptions C01_swap_handler_preserves.

(* The code at the pinned commit (no restore): a nested conversion rejected by the AfterSwap hooks
   leaves reserve > bank balance and liquidity <> sum of reserves (repaired by a fix: commit). *)
Theorem C01_prefix_shared_array_refuted :
  Inv [0%nat] refute_s0 /\
  exists s', swap_handler false refute_s0 0 1 0 10000 30000 30 0 (Some (mkN 19 90 0 3)) = Ok s' /\
             reserve s' 0%nat 1%nat = pbank s' 0%nat 1%nat + 19 /\
             liq s' 1%nat <> sumf (fun p => reserve s' p 1%nat) [0%nat].
Proof. exact prefix_swap_refuted. Qed.
Print Assumptions C01_prefix_shared_array_refuted.

Example C01_nonvacuous :
  let s := arun refute_s0 [[AIn 0 1 500; AOut 0 0 2000; AOut 0 1 2]; [ADonate 0 0 7]; [AOut 0 0 999999]] in
  reserve s 0%nat 0%nat = 98000 /\ pbank s 0%nat 0%nat = 98007 /\ liq s 1%nat = 20498.
Proof. vm_compute. repeat split. Qed.
