(* C01 - AMM pool reserves always equal the tokens the pool really holds; DenomLiquidity = sum of reserves.
   Statements only; proofs in Proofs/AmmLedgerProofs.v, model in Models/AmmLedger.v. *)
From Coq Require Import ZArith List Bool Arith.
From Elys Require Import Base.Res Base.Fn Models.AmmLedger Proofs.AmmLedgerProofs Proofs.AmmLedgerFrame.
Import ListNotations.
Open Scope Z_scope.

(* Level A. For every set of pools, every initial state satisfying the invariant (pool creation
   establishes it: reserves = deposited coins), and EVERY history of transactions - each an arbitrary
   list of paired transfers+book updates (swap legs, fee skims, joins, exits, perpetual
   SendTo/FromAmmPool, reward conversions) and third-party donations with arbitrary amounts, failing
   transactions rolled back - bank balance = reserve + donations (donations >= 0) for every pool and
   denom, and the liquidity record of every denom = sum of the reserves over all pools. *)
Theorem C01_reserves_match_bank : forall (ps : list nat), NoDup ps ->
  forall h s, Inv ps s -> Forall (Forall (fun o => In (pool_of o) ps)) h -> Inv ps (arun s h).
Proof. exact arun_inv. Qed.
Print Assumptions C01_reserves_match_bank.

Theorem C01_no_drift_either_direction : forall (ps : list nat), NoDup ps ->
  forall h s p d, Inv ps s -> Forall (Forall (fun o => In (pool_of o) ps)) h ->
  reserve (arun s h) p d <= pbank (arun s h) p d /\
  pbank (arun s h) p d - reserve (arun s h) p d = donated (arun s h) p d.
Proof. exact no_drift. Qed.
Print Assumptions C01_no_drift_either_direction.

(* Level B. UpdatePoolForSwap + OnCollectFee as coded (in-memory pool array shared with the nested
   fee conversion that runs on a cache context; the array is restored when the conversion is
   discarded): whatever the amounts, the fee, the weight-breaking fee, and whatever the nested
   conversion does or wherever it fails, a successful swap preserves the invariant. *)
Theorem C01_swap_handler_preserves : forall (ps : list nat), NoDup ps ->
  forall s p din dout ain aout fee wb conv s',
  Inv ps s -> In p ps -> 0 <= ain -> 0 <= aout -> 0 <= wb ->
  (match conv with Some n => 0 <= n_in n /\ 0 <= n_out n | None => True end) ->
  swap_handler true s p din dout ain aout fee wb conv = Ok s' -> Inv ps s'.
Proof. exact swap_handler_inv. Qed.
Print Assumptions C01_swap_handler_preserves.

(* The code at the pinned commit (no restore): a nested conversion rejected by the AfterSwap hooks
   leaves reserve > bank balance and liquidity <> sum of reserves (repaired by a fix: commit). *)
Theorem C01_prefix_shared_array_refuted :
  Inv [0%nat] refute_s0 /\
  exists s', swap_handler false refute_s0 0 1 0 10000 30000 30 0 (Some (mkN 19 90 0 3)) = Ok s' /\
             reserve s' 0%nat 1%nat = pbank s' 0%nat 1%nat + 19 /\
             liq s' 1%nat <> sumf (fun p => reserve s' p 1%nat) [0%nat].
Proof. exact prefix_swap_refuted. Qed.
Print Assumptions C01_prefix_shared_array_refuted.

(* From the EMPTY chain (no pools, no balances: the invariant holds there for every pool list), i.e. with no hypothesis
   on a start state: every history over the pools that exist keeps bank = reserve + donations and
   DenomLiquidity = sum of reserves. *)
Theorem C01_every_history_from_genesis : forall (ps : list nat), NoDup ps ->
  forall h, Forall (Forall (fun o => In (pool_of o) ps)) h -> Inv ps (arun amm_empty h).
Proof. exact arun_from_empty. Qed.
Print Assumptions C01_every_history_from_genesis.

(* What a successful primitive step changes EXACTLY at its own (pool, denom): book reserve, bank balance and liquidity
   record move by the same signed amount (a donation moves the bank balance and the donation ghost only) ... *)
Theorem C01_step_exact : forall s o s', astep s o = Ok s' ->
  reserve s' (pool_of o) (denom_of o) = reserve s (pool_of o) (denom_of o) + d_reserve o /\
  pbank s' (pool_of o) (denom_of o) = pbank s (pool_of o) (denom_of o) + d_bank o /\
  liq s' (denom_of o) = liq s (denom_of o) + d_reserve o /\
  donated s' (pool_of o) (denom_of o) = donated s (pool_of o) (denom_of o) + d_donated o.
Proof. exact astep_exact. Qed.
Print Assumptions C01_step_exact.

(* ... and what it must NOT change: no other pool, no other denom of the same pool, no other liquidity record. *)
Theorem C01_step_frame : forall s o s', astep s o = Ok s' ->
  (forall p d, (p <> pool_of o \/ d <> denom_of o) ->
     reserve s' p d = reserve s p d /\ pbank s' p d = pbank s p d /\ donated s' p d = donated s p d) /\
  (forall d, d <> denom_of o -> liq s' d = liq s d).
Proof. exact astep_frame. Qed.
Print Assumptions C01_step_frame.

(* A whole transaction (successful or not) leaves every pool it does not name exactly as it was. *)
Theorem C01_tx_other_pools_untouched : forall s l p, (forall o, In o l -> pool_of o <> p) ->
  forall d, reserve (atx s l) p d = reserve s p d /\ pbank (atx s l) p d = pbank s p d /\
            donated (atx s l) p d = donated s p d.
Proof. exact atx_other_pools. Qed.
Print Assumptions C01_tx_other_pools_untouched.

(* All or nothing: a transaction one of whose steps fails leaves the whole ledger as it was. *)
Theorem C01_failed_tx_changes_nothing : forall s l, (forall s', asteps s l <> Ok s') -> atx s l = s.
Proof. exact atx_failed_unchanged. Qed.
Print Assumptions C01_failed_tx_changes_nothing.

(* A payout above the book reserve, the bank balance or the liquidity record is refused (no negative book, no overdraft). *)
Theorem C01_payout_beyond_books_refused : forall s p d a,
  (reserve s p d < a \/ pbank s p d < a \/ liq s d < a) -> exists c, astep s (AOut p d a) = Err c.
Proof. exact aout_refused. Qed.
Print Assumptions C01_payout_beyond_books_refused.

(* non-vacuity of the refusal and the all-or-nothing statements on a reachable state *)
Example C01_refusal_nonvacuous :
  let s := arun amm_empty [[AIn 0 0 100; AIn 0 1 50]; [ADonate 0 0 7]] in
  pbank s 0%nat 0%nat = 107 /\ reserve s 0%nat 0%nat = 100 /\
  astep s (AOut 0 0 101) = Err E_neg /\ atx s [AOut 0 1 20; AOut 0 0 101] = s /\
  reserve (atx s [AOut 0 1 20; AOut 0 0 100]) 0%nat 1%nat = 30.
Proof. vm_compute. repeat split. Qed.

Example C01_nonvacuous :
  let s := arun refute_s0 [[AIn 0 1 500; AOut 0 0 2000; AOut 0 1 2]; [ADonate 0 0 7]; [AOut 0 0 999999]] in
  reserve s 0%nat 0%nat = 98000 /\ pbank s 0%nat 0%nat = 98007 /\ liq s 1%nat = 20498.
Proof. vm_compute. repeat split. Qed.
