(* C04 - A swap settles exactly as requested within the user's limit, or changes nothing.
   Statements only; model in Models/SwapQueue.v, proofs in Proofs/SwapQueueProofs.v and Proofs/SwapBatchProofs.v.

   [settle] = [settle_gen cur_out_coded] and [msg_req] = [msg_req_gen cur_bydenom_fwd] are the code AS IT IS in the tree: they are
   what the correspondence run evaluates against the real application (Run/SwapQueueRun.v). Since fix: e1a97d2 / f444cb8
   cur_out_coded = false and cur_bydenom_fwd = true.
   [settle_gen true] is RouteExactAmountOut as it was BEFORE fix: e1a97d2 (the output of an intermediate hop paid to the
   recipient); [settle_gen false] = [settle_fixed] pays it to the SENDER (as RouteExactAmountIn does).
   [msg_req_gen false] is SwapByDenom as it was before fix: f444cb8 (Recipient dropped on the exact-out branch),
   [msg_req_gen true] forwards it. The pre-fix variants survive only in the _partial / _refuted statements below.
   nonsys e (route_pools r) a : a is not the pool, rebalance-treasury or revenue address of a pool on the route.
   ind c x = if c then x else 0.  All choices (priced amounts, fees, bonus, failures) are universally quantified. *)
From Coq Require Import ZArith List Bool Arith.
From Elys Require Import Base.Res Base.Fn Models.SwapQueue Proofs.SwapQueueProofs Proofs.SwapBatchProofs Proofs.SwapRevisitProofs.
Import ListNotations.
Open Scope Z_scope.

(* One block, for EVERY list of transactions, EVERY admissible selection function (any order in which the batch may
   pick requests and reverse requests), EVERY resolution of amounts and slippage comparisons:
   - the handlers move no funds (they only enqueue);
   - the batch loop terminates within its fuel (end_block <> None), the queue is empty afterwards and the index is reset;
   - the deletions [tr] thread the bank from its value before the end blocker to its value after (chain), each one
     either is the written cache context of a successful settlement of that request on the bank of that moment, or
     leaves the bank untouched (ev_ok);
   - no request is executed twice (NoDup of the executed indices), every stored request is deleted (exactly the
     stored requests occur in tr), and every deleted request was stored by a transaction of this block. *)
Theorem C04_block_at_most_once_queue_empty : forall e coded sel1 sel2 ch lt b txs,
  (forall q m, sel1 q = Some m -> In m q) -> (forall q, sel1 q = None -> q = []) ->
  (forall q m m2, sel2 q m = Some m2 -> In m2 q) ->
  let s := run_txs e (mkSt b [] 0) txs in
  s_bank s = b /\
  exists s' tr, end_block e coded sel1 sel2 ch lt s = Some (s', tr) /\
    s_q s' = [] /\ s_last s' = 0%nat /\
    chain b tr (s_bank s') /\ Forall (ev_ok coded e) tr /\ NoDup (applied_idx tr) /\
    (forall m, In m (s_q s) <-> In m (map ev_req tr)) /\
    (forall v, In v tr -> exists mc, In mc txs /\ ev_req v = msg_req (fst mc)).
Proof. exact block_spec. Qed.
Print Assumptions C04_block_at_most_once_queue_empty.

(* the selection as coded (first key of the exact-in store, else of the exact-out store; reversed prefix) is admissible *)
Theorem C04_block_coded_selection : forall e coded ch lt b txs,
  let s := run_txs e (mkSt b [] 0) txs in
  s_bank s = b /\
  exists s' tr, end_block e coded sel1c sel2c ch lt s = Some (s', tr) /\
    s_q s' = [] /\ s_last s' = 0%nat /\
    chain b tr (s_bank s') /\ Forall (ev_ok coded e) tr /\ NoDup (applied_idx tr) /\
    (forall m, In m (s_q s) <-> In m (map ev_req tr)) /\
    (forall v, In v tr -> exists mc, In mc txs /\ ev_req v = msg_req (fst mc)).
Proof. exact block_spec_coded_selection. Qed.
Print Assumptions C04_block_coded_selection.

(* the fuel 2*|queue|+1 of the loop is never exhausted *)
Theorem C04_loop_terminates : forall e coded sel1 sel2 ch lt,
  (forall q m, sel1 q = Some m -> In m q) -> (forall q m m2, sel2 q m = Some m2 -> In m2 q) ->
  forall q b, exec_requests e coded sel1 sel2 ch lt q b <> None.
Proof. intros e coded sel1 sel2 ch lt H1 H2. exact (exec_total e coded sel1 sel2 ch lt H1 H2). Qed.
Print Assumptions C04_loop_terminates.

(* A deleted request whose cache context was not written changed nobody's balance. *)
Theorem C04_failed_request_no_effect : forall coded e v,
  ev_ok coded e v -> ev_applied v = false -> forall a d, ev_after v a d = ev_before v a d.
Proof. exact failed_no_effect. Qed.
Print Assumptions C04_failed_request_no_effect.

(* Exact-in, any route (multi-hop, cyclic), any recipient: the final output is >= TokenOutMinAmount and positive; the
   sender held the input; and for EVERY address that is not a pool-owned address of the route and every denom:
   balance after = before - TokenIn (sender, input denom) + final output (recipient, output denom) + bonus, where bonus
   is >= 0, is paid by a rebalance treasury, goes only to sender/recipient and is 0 when no pool pays a weight bonus. *)
Theorem C04_exact_in_debit_credit : forall coded e b r c b',
  r_kind r = KIn -> settle_gen coded e b r c = Ok b' ->
  r_limit r <= in_out_amt r c /\ 0 < in_out_amt r c /\ 0 < r_amt r /\ r_amt r <= b (r_sender r) (r_denom r) /\
  (forall a, nonsys e (route_pools r) a -> forall d,
     b' a d = b a d - ind (Nat.eqb a (r_sender r) && Nat.eqb d (r_denom r)) (r_amt r)
                    + ind (Nat.eqb a (r_rcpt r) && Nat.eqb d (in_out_denom r c)) (in_out_amt r c)
                    + req_bonus r c a d) /\
  (forall a d, 0 <= req_bonus r c a d) /\
  (forall a d, a <> r_sender r -> a <> r_rcpt r -> req_bonus r c a d = 0) /\
  (Forall (fun h => h_bonus h <= 0) (c_hops c) -> forall a d, req_bonus r c a d = 0).
Proof. exact exact_in_debit_credit. Qed.
Print Assumptions C04_exact_in_debit_credit.

(* Exact-in, EVERY hop list - no premise that the pools of the route are distinct: a route may use one pool on several
   hops (there and back, A-B-A, the last pool on an earlier hop too). By induction over the hops:
   - the sender's stated input denom moves by exactly -TokenIn (+ the final output when it is its own recipient and the
     route is cyclic, + weight bonuses); no other denom of the sender ever decreases, and it changes by weight bonuses only;
   - a recipient other than the sender is touched in the denom leaving the LAST hop only (bonuses included), by at least
     the minimum: the output of every earlier hop, whatever pool it uses, goes to the sender and is the next hop's input;
   - when no pool of the route pays a weight bonus, every denom other than the paid and the received one - every denom the
     route only passes through - is exactly unchanged for sender and recipient. *)
Theorem C04_exact_in_intermediate_denoms_untouched : forall coded e b r c b',
  r_kind r = KIn -> settle_gen coded e b r c = Ok b' ->
  (nonsys e (route_pools r) (r_sender r) ->
     b' (r_sender r) (r_denom r) =
       b (r_sender r) (r_denom r) - r_amt r
       + ind (Nat.eqb (r_sender r) (r_rcpt r) && Nat.eqb (r_denom r) (in_out_denom r c)) (in_out_amt r c)
       + req_bonus r c (r_sender r) (r_denom r) /\
     (forall d, d <> r_denom r -> (r_sender r <> r_rcpt r \/ d <> in_out_denom r c) ->
        b' (r_sender r) d = b (r_sender r) d + req_bonus r c (r_sender r) d) /\
     (forall d, d <> r_denom r -> b (r_sender r) d <= b' (r_sender r) d)) /\
  (r_rcpt r <> r_sender r -> nonsys e (route_pools r) (r_rcpt r) ->
     (forall d, d <> in_out_denom r c -> b' (r_rcpt r) d = b (r_rcpt r) d) /\
     b (r_rcpt r) (in_out_denom r c) + in_out_amt r c <= b' (r_rcpt r) (in_out_denom r c) /\
     r_limit r <= in_out_amt r c) /\
  (Forall (fun h => h_bonus h <= 0) (c_hops c) ->
     forall a, a = r_sender r \/ a = r_rcpt r -> nonsys e (route_pools r) a ->
     forall d, d <> r_denom r -> d <> in_out_denom r c -> b' a d = b a d).
Proof. exact exact_in_intermediate_denoms_untouched. Qed.
Print Assumptions C04_exact_in_intermediate_denoms_untouched.

(* "Last hop" means last POSITION. Route pool 1 (denom 0 -> 1), pool 1 (denom 1 -> 0), sender 1, recipient 2, minimum 1:
   the coded hop loop takes 1000 of denom 0 from the sender, pays 990 of denom 0 to the recipient and leaves denom 1 of
   both untouched; the same loop with the last hop recognised by its pool id ([in_loop_by_pool], not the code) hands the
   first hop's 199 of denom 1 to the recipient and takes the second hop's input from the sender's own holdings. *)
Theorem C04_last_hop_is_by_position_witness :
  (exists b', settle wit_env rv_bank rv_req rv_choice = Ok b' /\
     b' 1%nat 0%nat = rv_bank 1%nat 0%nat - 1000 /\ b' 1%nat 1%nat = rv_bank 1%nat 1%nat /\
     b' 2%nat 0%nat = rv_bank 2%nat 0%nat + 990 /\ b' 2%nat 1%nat = rv_bank 2%nat 1%nat) /\
  (exists b', in_loop_by_pool 1 wit_env 1 2 (r_hops rv_req) (c_hops rv_choice) 1 0 1000 rv_bank = Ok b' /\
     b' 1%nat 1%nat = rv_bank 1%nat 1%nat - 199 /\ b' 2%nat 1%nat = rv_bank 2%nat 1%nat + 199).
Proof. exact last_hop_by_pool_id_differs. Qed.
Print Assumptions C04_last_hop_is_by_position_witness.

(* Exact-out, code as it is AND repaired, any route: a recipient other than the sender gains at least TokenOut in the
   output denom and loses nothing in any denom; nobody else (outside the pools' own addresses) is touched. *)
Theorem C04_exact_out_credit : forall coded e b r c b',
  r_kind r = KOut -> settle_gen coded e b r c = Ok b' ->
  (r_rcpt r <> r_sender r -> nonsys e (route_pools r) (r_rcpt r) ->
     forall d, b (r_rcpt r) d + ind (Nat.eqb d (r_denom r)) (r_amt r) <= b' (r_rcpt r) d) /\
  (forall a, a <> r_sender r -> a <> r_rcpt r -> nonsys e (route_pools r) a -> forall d, b' a d = b a d).
Proof. exact exact_out_credit_and_third. Qed.
Print Assumptions C04_exact_out_credit.

(* Exact-out, THE CODE AS IT IS ([settle], the function the correspondence run evaluates), every route, every recipient:
   the sender loses at most TokenInMaxAmount of the stated input denom, nothing of any other denom, and (when it is the
   recipient) gains at least TokenOut. Full statement, no side condition. *)
Theorem C04_exact_out_debit : forall e b r c b',
  r_kind r = KOut -> settle e b r c = Ok b' -> nonsys e (route_pools r) (r_sender r) ->
  out_sender_bound b b' r.
Proof. exact exact_out_debit_fixed. Qed.
Print Assumptions C04_exact_out_debit.

(* SwapByDenom AS IT IS stores exactly the request the message states (Recipient included), on both branches. *)
Theorem C04_by_denom_recipient : forall r, msg_req (MByDenom r) = r.
Proof. exact by_denom_recipient_forwarded. Qed.
Print Assumptions C04_by_denom_recipient.

(* Exact-out, code as it was before fix: e1a97d2: the sender's bound holds only PROVIDED the route has one hop or the
   sender is the recipient.
   Full statement (holds for [settle_fixed] = [settle], refuted for [settle_gen true], see below):
     forall e b r c b', r_kind r = KOut -> settle_gen true e b r c = Ok b' ->
       nonsys e (route_pools r) (r_sender r) -> out_sender_bound b b' r. *)
Theorem C04_exact_out_debit_partial : forall e b r c b',
  r_kind r = KOut -> settle_gen true e b r c = Ok b' -> nonsys e (route_pools r) (r_sender r) ->
  (length (r_hops r) = 1%nat \/ r_sender r = r_rcpt r) ->
  out_sender_bound b b' r.
Proof. exact exact_out_debit_coded. Qed.
Print Assumptions C04_exact_out_debit_partial.

(* With intermediate outputs routed to the sender the bound holds for every route and every recipient. *)
Theorem C04_exact_out_debit_fixed : forall e b r c b',
  r_kind r = KOut -> settle_fixed e b r c = Ok b' -> nonsys e (route_pools r) (r_sender r) ->
  out_sender_bound b b' r.
Proof. exact exact_out_debit_fixed. Qed.
Print Assumptions C04_exact_out_debit_fixed.

(* Code as it was before fix: e1a97d2, two hops, recipient <> sender (numbers of the real application, harness corpus entry 0):
   the sender pays the first hop's input (within its maximum) AND the second hop's input in the intermediate denom
   from its own wallet; the recipient keeps the first hop's output as well as the final output. *)
Theorem C04_exact_out_multihop_third_party_refuted :
  exists b', settle_gen true wit_env wit_bank wit_req wit_choice = Ok b' /\
    r_sender wit_req <> r_rcpt wit_req /\ nonsys wit_env (route_pools wit_req) (r_sender wit_req) /\
    out_in_denom wit_req = 0%nat /\
    b' 1%nat 0%nat = wit_bank 1%nat 0%nat - 1806607 /\
    b' 1%nat 1%nat = wit_bank 1%nat 1%nat - 9013258 /\
    b' 2%nat 1%nat = wit_bank 2%nat 1%nat + 9017320 /\
    b' 2%nat 2%nat = wit_bank 2%nat 2%nat + 1000000 /\
    ~ out_sender_bound wit_bank b' wit_req.
Proof. exact exact_out_multihop_third_party_refuted. Qed.
Print Assumptions C04_exact_out_multihop_third_party_refuted.

(* Before fix: f444cb8 MsgSwapByDenom resolved to an exact-out request whose recipient is the SENDER, whatever Recipient the message
   names (the exact-in branch forwards it). *)
Theorem C04_by_denom_exact_out_recipient_refuted :
  exists r, r_kind r = KOut /\ r_rcpt r <> r_sender r /\ r_rcpt (msg_req_gen false (MByDenom r)) = r_sender r /\
            r_rcpt (msg_req_gen false (MOut r)) = r_rcpt r.
Proof. exact by_denom_exact_out_recipient_refuted. Qed.
Print Assumptions C04_by_denom_exact_out_recipient_refuted.

(* With Recipient forwarded the stored request is the one the message states. *)
Theorem C04_by_denom_recipient_fixed : forall r, msg_req_gen true (MByDenom r) = r.
Proof. exact by_denom_recipient_forwarded. Qed.
Print Assumptions C04_by_denom_recipient_fixed.

(* since fix: a75f29f the handlers refuse a recipient on bank's blocked-address list: nothing is stored *)
Theorem C04_blocked_recipient_refused : forall e s m c,
  e_blocked e (r_rcpt (msg_req m)) = true -> enqueue e s m c = Err 12.
Proof. exact enqueue_blocked_refused. Qed.
Print Assumptions C04_blocked_recipient_refused.

(* Non-vacuity: a block with an exact-in and an opposite exact-out request on one pool, coded selection: the
   exact-in request executes (sender -1000 of denom 0, +1990 of denom 1 incl. a bonus of 0), the opposite one is
   dropped because its maximum is exceeded, the queue ends empty. *)
Example C04_nonvacuous :
  let e := wit_env in
  let b : bank := fun a d => if Nat.eqb a 1 then 5000 else if Nat.eqb a 101 then 1000000 else 0 in
  let r1 := mkReq 1 KIn 1 1 [(1, 1)]%nat 0 1000 1990 [0; 1; 1; 1]%nat [1; 1; 0]%nat in
  let r2 := mkReq 2 KOut 1 1 [(1, 1)]%nat 0 500 10 [1; 1; 0; 2]%nat [0; 1; 1]%nat in
  let c1 := mkCh false [] [mkHop false 1990 [(RPool, RTreas, 0%nat, 3)] 0 false] in
  let c2 := mkCh false [0] [mkHop false 251 [] 0 false] in
  let s := run_txs e (mkSt b [] 0) [(MIn r1, c1); (MOut r2, mkCh false [0] [mkHop false 10 [] 0 false])] in
  match end_block e cur_out_coded sel1c sel2c (fun _ second _ => if second then c2 else c1) (fun _ => true) s with
  | Some (s', tr) => s_q s' = [] /\ map (fun v => (r_idx (ev_req v), ev_applied v)) tr = [(2%nat, false); (1%nat, true)] /\
                     s_bank s' 1%nat 0%nat = 4000 /\ s_bank s' 1%nat 1%nat = 6990 /\ s_bank s' 201%nat 0%nat = 3
  | None => False
  end.
Proof. vm_compute. repeat split. Qed.
