(* C20, arithmetic tie: the oracle path of the spot market price (its condition and the one-division value) and the
   skip conditions of the spot and perpetual order executors, translated from the current Go source on every run
   (Generated/ArithC20.v), are the model functions the C20 theorems are about ([market_price_fixed], [triggered]). *)
From Coq Require Import ZArith Bool.
From Elys Require Import Base.Res Base.Zdec Base.U64 Models.Shield Models.ShieldPrice Generated.ArithC20 Proofs.ArithTieC20.
Open Scope Z_scope.

Theorem C20_tie_MarketPrice_oraclePath : forall (e1 e2 : bool) (pin din pout dout : Z),
  MarketPrice_oraclePath e1 pin din e2 pout dout =
  (e1 && e2 && negb ((pin <=? 0) || (pout <=? 0)) && (din <=? 18) && (dout <=? 18)).
Proof. exact tie_MarketPrice_oraclePath. Qed.
Print Assumptions C20_tie_MarketPrice_oraclePath.

Theorem C20_tie_MarketPrice_value : forall pin din pout dout : Z,
  0 <= din <= 18 -> 0 <= dout <= 18 ->
  market_price_fixed pin din pout dout =
  if MarketPrice_oraclePath true pin din true pout dout then Some (MarketPrice_value pin din pout dout) else None.
Proof. exact tie_MarketPrice_value. Qed.
Print Assumptions C20_tie_MarketPrice_value.

Theorem C20_tie_MarketPrice_fallback : forall e1 e2 pin din pout dout,
  MarketPrice_oraclePath e1 pin din e2 pout dout = false ->
  e1 = false \/ e2 = false \/ pin <= 0 \/ pout <= 0 \/ 18 < din \/ 18 < dout.
Proof. exact tie_MarketPrice_fallback. Qed.
Print Assumptions C20_tie_MarketPrice_fallback.

Theorem C20_tie_StopLoss_skip : forall o mp, o_perp o = false -> o_type o = 0 ->
  StopLoss_skip (o_rate o) mp = negb (triggered o mp).
Proof. exact tie_StopLoss_skip. Qed.
Print Assumptions C20_tie_StopLoss_skip.

Theorem C20_tie_LimitSell_skip : forall o mp, o_perp o = false -> o_type o = 1 ->
  LimitSell_skip (o_rate o) mp = negb (triggered o mp).
Proof. exact tie_LimitSell_skip. Qed.
Print Assumptions C20_tie_LimitSell_skip.

Theorem C20_tie_LimitBuy_skip : forall o mp, o_perp o = false -> o_type o = 2 ->
  LimitBuy_skip (o_rate o) mp = negb (triggered o mp).
Proof. exact tie_LimitBuy_skip. Qed.
Print Assumptions C20_tie_LimitBuy_skip.

Theorem C20_tie_zeroPrice : forall mp,
  StopLoss_zeroPrice mp = (mp =? 0) /\ LimitSell_zeroPrice mp = (mp =? 0) /\ LimitBuy_zeroPrice mp = (mp =? 0).
Proof. exact tie_zeroPrice. Qed.
Print Assumptions C20_tie_zeroPrice.

Theorem C20_tie_LimitOpen_skip : forall o mp, o_perp o = true ->
  (LimitOpen_skip1 (o_type o) (o_rate o) mp || LimitOpen_skip2 (o_type o) (o_rate o) mp) = negb (triggered o mp).
Proof. exact tie_LimitOpen_skip. Qed.
Print Assumptions C20_tie_LimitOpen_skip.

Theorem C20_tie_exec_one_spot_skip : forall fixed o r s mp,
  o_perp o = false -> r_price r = Some mp ->
  StopLoss_zeroPrice mp = false ->
  (if o_type o =? 1 then LimitSell_skip (o_rate o) mp else StopLoss_skip (o_rate o) mp) = true ->
  exec_one fixed o r s = Panic P_nilres.
Proof. exact tie_exec_one_spot_skip. Qed.
Print Assumptions C20_tie_exec_one_spot_skip.

Theorem C20_tie_exec_one_perp_skip : forall fixed o r s mp,
  o_perp o = true -> r_price r = Some mp ->
  (LimitOpen_skip1 (o_type o) (o_rate o) mp || LimitOpen_skip2 (o_type o) (o_rate o) mp) = true ->
  exec_one fixed o r s = Ok s.
Proof. exact tie_exec_one_perp_skip. Qed.
Print Assumptions C20_tie_exec_one_perp_skip.
