(* C09 - Perpetual pool aggregates equal the sum of positions; custody is always backed. Statements only. *)
From Coq Require Import ZArith List Bool Arith.
From Elys Require Import Base.Res Base.Fn Models.SumLedger Models.PerpLedger Proofs.PerpLedgerProofs.
Import ListNotations.
Open Scope Z_scope.

(* For every set of fields (side x asset x {liabilities, custody, collateral}) and EVERY history of
   transactions built from "store a new MTP", "an MTP field and the pool aggregate move together" (opens,
   consolidation merges, collateral top-ups, partial closes, interest and funding settlement, with any
   signed amounts that keep the MTP field non-negative) and "destroy an MTP whose fields are all zero",
   failing transactions rolled back: every aggregate = sum over the stored MTPs, the open counter = the
   number of stored MTPs, and a destroyed MTP contributes nothing. *)
Theorem C09_aggregates : forall fields h,
  let s := prun fields perp_empty h in
  (forall f, agg s f = sumf (pp s f) (live s)) /\ cnt s = Z.of_nat (length (live s)) /\
  (forall f k, ~ In k (live s) -> pp s f k = 0).
Proof. exact perp_aggregates. Qed.
Print Assumptions C09_aggregates.

Theorem C09_invariant : forall fields h s, PInv fields s -> PInv fields (prun fields s h).
Proof. exact prun_inv. Qed.
Print Assumptions C09_invariant.

(* FULL STATEMENT (not proved): in every reachable state, for every asset, amm reserve >= total custody.
   PROVED PART: it holds as long as, since the last successful CheckMinimumCustodyAmt, the reserve did not
   go down and the total custody did not go up. Missing: funding-fee distribution raises custody without a
   transfer and without the check; deriving that distributions never exceed collections needs the funding
   arithmetic, which is implementation-resolved here. The harness evaluates reserve >= custody on the real
   state after every tx and block. *)
Theorem C09_custody_backed_partial : forall s cf reserve reserve' s',
  check_min_custody s cf reserve = true ->
  reserve <= reserve' -> total_custody s' cf <= total_custody s cf ->
  total_custody s' cf <= reserve'.
Proof. exact custody_backed_partial. Qed.
Print Assumptions C09_custody_backed_partial.

Example C09_nonvacuous :
  let s := prun (seq 0 12) perp_empty
    [[PNew 0; PDelta 0 0 2000; PDelta 0 4 390; PDelta 0 2 1000]; [PNew 1; PDelta 1 9 500; PDelta 1 7 1400; PDelta 1 8 1000];
     [PDelta 0 4 (-3)]; [PDelta 0 0 (-2000); PDelta 0 4 (-387); PDelta 0 2 (-1000); PDel 0]; [PDel 1]] in
  agg s 4%nat = 0 /\ agg s 7%nat = 1400 /\ cnt s = 1 /\ live s = [1%nat].
Proof. vm_compute. repeat split. Qed.
