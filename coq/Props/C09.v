(* C09 - Perpetual pool aggregates equal the sum of positions; custody is always backed. Statements only. *)
From Coq Require Import ZArith List Bool Arith.
From Elys Require Import Base.Res Base.Fn Models.SumLedger Models.PerpLedger Proofs.PerpLedgerProofs Proofs.PerpLedgerFrame Models.PerpBacking Proofs.PerpBackingProofs.
From Elys Require Import Models.PerpBackingMulti Proofs.PerpBackingMultiProofs.
Import ListNotations.
Open Scope Z_scope.

(* For every set of fields (side x asset x {liabilities, custody, collateral}) and EVERY history of
   transactions built from "store a new MTP", "an MTP field and the pool aggregate move together" (opens,
   consolidation merges, collateral top-ups, partial closes, interest and funding settlement, with any
   signed amounts that keep the MTP field non-negative) and "destroy an MTP whose fields are all zero",
   failing transactions rolled back: every aggregate = sum over the stored MTPs, the open counter = the
   number of stored MTPs, and a destroyed MTP contributes nothing. *)
Theorem C09_aggregates : forall fields h,
  let s := prun fields perp_empty h in
  (forall f, agg s f = sumf (pp s f) (live s)) /\ cnt s = Z.of_nat (length (live s)) /\
  (forall f k, ~ In k (live s) -> pp s f k = 0).
Proof. exact perp_aggregates. Qed.
Print Assumptions C09_aggregates.

Theorem C09_invariant : forall fields h s, PInv fields s -> PInv fields (prun fields s h).
Proof. exact prun_inv. Qed.
Print Assumptions C09_invariant.

(* EXACTLY what one primitive changes, and what it must not: a delta moves the acting MTP's field and the pool's aggregate
   of THAT field by the same amount (the MTP field stays non-negative), no other aggregate, no other MTP, no other field of
   the MTP, not the counter; storing / destroying an MTP moves only the counter (by one) and a destroyed MTP held nothing. *)
Theorem C09_step_exact_and_frame : forall fields s o s', pstep fields s o = Ok s' ->
  match o with
  | PDelta k f d =>
      pp s' f k = pp s f k + d /\ agg s' f = agg s f + d /\ 0 <= pp s' f k /\
      (forall f', f' <> f -> agg s' f' = agg s f') /\
      (forall f' k', (f' <> f \/ k' <> k) -> pp s' f' k' = pp s f' k') /\ cnt s' = cnt s /\ live s' = live s
  | PNew k => (forall f, agg s' f = agg s f) /\ (forall f k', pp s' f k' = pp s f k') /\ cnt s' = cnt s + 1
  | PDel k => (forall f, agg s' f = agg s f) /\ (forall f k', pp s' f k' = pp s f k') /\ cnt s' = cnt s - 1 /\
              (forall f, In f fields -> pp s f k = 0)
  end.
Proof. exact pstep_exact. Qed.
Print Assumptions C09_step_exact_and_frame.

(* Over EVERY history of transactions (failing ones rolled back): an MTP no step names keeps every one of its amounts
   (nobody's close, liquidation or settlement changes another position's liabilities, custody or collateral). *)
Theorem C09_other_positions_untouched : forall fields h s k', (forall l o, In l h -> In o l -> mtp_of o <> k') ->
  forall f, pp (prun fields s h) f k' = pp s f k'.
Proof. exact prun_other_mtps. Qed.
Print Assumptions C09_other_positions_untouched.

(* All or nothing, and no negative position amount: a failing transaction changes nothing; a delta that would take an
   MTP's field below zero is refused. *)
Theorem C09_failed_tx_changes_nothing : forall fields s l, (forall s', psteps fields s l <> Ok s') -> ptx fields s l = s.
Proof. exact ptx_failed_unchanged. Qed.
Print Assumptions C09_failed_tx_changes_nothing.

Theorem C09_negative_amount_refused : forall fields s k f d, pp s f k + d < 0 -> pstep fields s (PDelta k f d) = Err E_p.
Proof. exact pdelta_below_zero_refused. Qed.
Print Assumptions C09_negative_amount_refused.

(* CUSTODY BACKING.  Model: Models/PerpBacking.v (per asset: amm reserve, long/short custody, long collateral, short
   liabilities; the primitive moves with CheckMinimumCustodyAmt placed exactly where the code runs it).
   FULL STATEMENT: in every reachable state, for every asset, amm reserve >= total custody.
   - On the code BEFORE fix: 85af696 the statement was FALSE (C09_custody_backed_refuted; reproduced on the real application,
     signature C09:custody-not-backed:close-positions-item-aborts-after-interest-transfer): perpetual MsgClosePositions ran its
     items without a cache context, and a liquidation item that failed in FundingFeeDistribution (open interest of the side = 0)
     had already transferred the borrow interest out of the pool while the custody reduction was dropped.
   - For that code it was TRUE for every history in which no item does that (C09_custody_backed_asis).
   - THE CODE AS IT IS (since 85af696 every item runs on a cache context written only on success: items are all-or-nothing,
     everything else as coded): TRUE for ALL histories (C09_custody_backed, C09_custody_backed_from_genesis).
   The older, weaker statement is kept below (C09_custody_backed_partial). *)

(* the guard that keeps funding distribution from raising custody: the caller passes the current height as start block *)
Theorem C09_funding_distribution_is_zero : forall sd fs cur share price, fund_dist sd fs cur share price = 0.
Proof. exact fund_dist_zero. Qed.
Print Assumptions C09_funding_distribution_is_zero.

(* every transaction (any list of amm operations with their hook checks, opens, consolidations, user closes, with arbitrary
   amounts, all or nothing) and every MsgClosePositions with all-or-nothing items keeps reserve >= custody for every asset,
   over every history and at every boundary of it *)
Theorem C09_custody_backed : forall assets h s, Inv assets s -> Inv assets (brun item_atomic assets s h).
Proof. intros assets h. exact (brun_atomic_inv assets h). Qed.
Print Assumptions C09_custody_backed.

Theorem C09_custody_backed_from_genesis : forall assets h1 h2,
  Inv assets (brun item_atomic assets b_empty h1) /\ Inv assets (brun item_atomic assets b_empty (h1 ++ h2)).
Proof. intros assets h1 h2. apply brun_atomic_prefix. apply b_empty_inv. Qed.
Print Assumptions C09_custody_backed_from_genesis.

(* SEVERAL perpetual pools (Models/PerpBackingMulti.v): every pool has its own books and asset list, a transaction may touch
   any of them (routes crossing pools, an open on one pool after a swap on another) and is written for all pools or for none, a
   MsgClosePositions may list positions of several pools (each item all-or-nothing on its own pool).  Over EVERY such history
   every pool stays backed in every asset. *)
Theorem C09_custody_backed_all_pools : forall assets h f,
  (forall p, Inv (assets p) (f p)) -> forall p, Inv (assets p) (mbrun assets f h p).
Proof. intros assets h f HI. exact (mbrun_inv assets h f HI). Qed.
Print Assumptions C09_custody_backed_all_pools.

(* ... and the family projects onto the one-pool machine the harness replays per pool: an accepted cross-pool transaction is,
   seen from pool p, the accepted one-pool transaction of its operations on p; a mixed MsgClosePositions is, seen from pool p,
   the message of its items on p *)
Theorem C09_cross_pool_tx_projects : forall assets p l f f',
  mhrun assets f l = Ok f' -> hrun (assets p) (f p) (hops_of p l) = Ok (f' p).
Proof. intros assets p l. exact (mhrun_proj assets p l). Qed.
Print Assumptions C09_cross_pool_tx_projects.

Theorem C09_mixed_close_positions_projects : forall assets p l f,
  fold_left (mitem assets) l f p = fold_left (item_atomic (assets p)) (items_of p l) (f p).
Proof. intros assets p l. exact (mitems_proj assets p l). Qed.
Print Assumptions C09_mixed_close_positions_projects.

(* the code before fix: 85af696 (items not atomic): true for every history in which no item leaves a transfer behind *)
Theorem C09_custody_backed_asis : forall assets h s,
  Inv assets s -> abort_free assets s h = true -> Inv assets (brun item_asis assets s h).
Proof. intros assets h. exact (brun_asis_inv assets h). Qed.
Print Assumptions C09_custody_backed_asis.

(* ... and the transfer that can be left behind is the whole interest payment only: in a backed state the second of the two
   interest transfers cannot fail after the first *)
Theorem C09_second_interest_transfer_cannot_fail : forall assets s it s1,
  Inv assets s -> In (si_d it) assets -> 0 <= scu s (si_d it) -> 0 <= lcu s (si_d it) ->
  si_take it + si_rev it <= cu s (si_side it) (si_d it) -> 0 <= si_rev it ->
  mstep assets s (MOut (si_d it) (si_take it)) = Ok s1 ->
  exists s2, mstep assets s1 (MOut (si_d it) (si_rev it)) = Ok s2.
Proof. exact second_transfer_cannot_fail. Qed.
Print Assumptions C09_second_interest_transfer_cannot_fail.

(* the code before fix: 85af696 refutes the full statement: a history of a join, an open, an exit (all accepted by the hook check) and
   one MsgClosePositions ends with custody 6000 > reserve 5959 of asset 1; the state before the last message is backed *)
Theorem C09_custody_backed_refuted : exists h,
  backed_b [0%nat; 1%nat] (brun item_asis [0%nat; 1%nat] b_empty (firstn 3 h)) = true /\
  let s := brun item_asis [0%nat; 1%nat] b_empty h in rsv s 1%nat < tcu s 1%nat.
Proof.
  exists refute_history. split; [exact refuted_prefix_backed|]. destruct refuted_asis as [H1 H2]. cbv zeta. rewrite H1, H2. reflexivity.
Qed.
Print Assumptions C09_custody_backed_refuted.

Theorem C09_custody_backed_partial : forall s cf reserve reserve' s',
  check_min_custody s cf reserve = true ->
  reserve <= reserve' -> total_custody s' cf <= total_custody s cf ->
  total_custody s' cf <= reserve'.
Proof. exact custody_backed_partial. Qed.
Print Assumptions C09_custody_backed_partial.

Example C09_nonvacuous :
  let s := prun (seq 0 12) perp_empty
    [[PNew 0; PDelta 0 0 2000; PDelta 0 4 390; PDelta 0 2 1000]; [PNew 1; PDelta 1 9 500; PDelta 1 7 1400; PDelta 1 8 1000];
     [PDelta 0 4 (-3)]; [PDelta 0 0 (-2000); PDelta 0 4 (-387); PDelta 0 2 (-1000); PDel 0]; [PDel 1]] in
  agg s 4%nat = 0 /\ agg s 7%nat = 1400 /\ cnt s = 1 /\ live s = [1%nat].
Proof. vm_compute. repeat split. Qed.
