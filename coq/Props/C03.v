(* C03 - No swap gives the trader a better rate than the pool's reference price.
   Only statements + [exact]; proofs in Proofs/AmmSwapProofs.v and Proofs/AmmSwapProofs2.v, model in
   Models/AmmSwap.v (exact raw-integer model of x/amm/types CalcOutAmtGivenIn / CalcInAmtGivenOut /
   solveConstantFunctionInvariant / Pow / the oracle-pool value formulas / the bonus decision of UpdatePoolForSwap).
   Everything is over unbounded Z; PREC = 10^18, HALF = 5*10^17; fees, prices, ratios are raw 18-decimal integers.
   [rin p] / [rout p] are the effective in/out reserves (accounted-pool balance if positive, else the pool's own),
   [cp_eq p] = constant-product pool (use_oracle = false) with equal positive weights and non-negative reserves. *)
From Coq Require Import ZArith List Bool.
From Elys Require Import Base.Res Base.Zdec Models.AmmSwap Proofs.AmmSwapProofs Proofs.AmmSwapProofs2.
From Elys Require Import Proofs.PowBounds Proofs.PowSeries Models.WeightFee Proofs.WeightFeeProofs.
Import ListNotations.
Open Scope Z_scope.

(* Exact-in, equal weights, every amount / reserve / fee in [0,1): with a' = a*(1-fee)
     out <= floor(B_out*a'/(B_in+a')) + floor(B_out/(2*10^18)) + floor(B_out/10^36) + 2.
   The B_out/(2*10^18) term is REAL (C03_one_unit_refuted): y = B_in/(B_in+a') is rounded to the nearest 10^-18
   and then multiplied by B_out. *)
Theorem C03_cp_equal_weight_out : forall p a fee out slip,
  cp_eq p -> 0 <= a -> 0 <= fee < PREC ->
  calc_out p a fee = Ok (out, slip) ->
  out <= (rout p * (a * (PREC - fee))) / (rin p * PREC + a * (PREC - fee))
         + rout p / (2 * PREC) + rout p / (PREC * PREC) + 2.
Proof. exact cp_out_floor. Qed.
Print Assumptions C03_cp_equal_weight_out.

(* The same without floors (divisions cleared), two-sided, plus 0 < out <= B_out:
     out <= B_out*x/(B_in*P + x) + B_out*(HALF+1)/P^2     and    out > B_out*x/(B_in*P+x) - B_out*HALF/P^2 - 1,  x = a*(P-fee). *)
Theorem C03_cp_equal_weight_out_bounds : forall p a fee out slip,
  cp_eq p -> 0 <= a -> 0 <= fee < PREC ->
  calc_out p a fee = Ok (out, slip) ->
  Ub PREC (HALF + 1) (rin p) (rout p) (a * (PREC - fee)) out /\
  Lb PREC HALF (rin p) (rout p) (a * (PREC - fee)) out /\
  0 < rin p * PREC + a * (PREC - fee) /\ 0 < out <= rout p.
Proof. exact calc_out_Ub. Qed.
Print Assumptions C03_cp_equal_weight_out_bounds.

(* The property's stated allowance - ONE base unit of the output token - holds for every out-reserve up to
   2*10^18 - 4 base units (B_out*(HALF+1) <= 10^36). *)
Theorem C03_cp_out_one_unit_below_2e18 : forall p a fee out slip,
  cp_eq p -> 0 <= a -> 0 <= fee < PREC ->
  calc_out p a fee = Ok (out, slip) ->
  rout p * (HALF + 1) <= PREC * PREC ->
  out <= (rout p * (a * (PREC - fee))) / (rin p * PREC + a * (PREC - fee)) + 1.
Proof. exact calc_out_equal_one_unit. Qed.
Print Assumptions C03_cp_out_one_unit_below_2e18.

(* ... and is REFUTED above: reserves 3*10^21 : 3*10^21 (3000 tokens of an 18-decimals asset), weights 1:1, fee 0,
   10^18 in: the pool pays floor(exact) + 918. Replayed on the real CalcOutAmtGivenIn AND through MsgCreatePool +
   MsgSwapExactAmountIn on the full application by harness/c03_test.go in every run. *)
Theorem C03_one_unit_refuted :
  cp_eq (cp11 W_R W_R) /\
  exists out slip, calc_out (cp11 W_R W_R) 1000000000000000000 0 = Ok (out, slip) /\
    out = (W_R * (1000000000000000000 * PREC)) / (W_R * PREC + 1000000000000000000 * PREC) + 918.
Proof. exact one_unit_out_refuted. Qed.
Print Assumptions C03_one_unit_refuted.

(* The product of the reserves never decreases by more than the same rounding:
   (B_in + a)(B_out - out) >= B_in*B_out - B_out*(B_in + a)*(HALF+1)/10^36. *)
Theorem C03_product_nondecreasing : forall p a fee out slip,
  cp_eq p -> 0 <= a -> 0 <= fee < PREC ->
  calc_out p a fee = Ok (out, slip) ->
  (rin p + a) * (rout p - out) * (PREC * PREC) >=
  rin p * rout p * (PREC * PREC) - rout p * (rin p + a) * (HALF + 1).
Proof. exact cp_out_product. Qed.
Print Assumptions C03_product_nondecreasing.

(* Round trip A -> B -> A, any fees on either leg; the second leg runs on ANY equal-weight pool whose in-reserve is at
   least B_out - o1 and whose out-reserve is at most B_in + a (so: the pool after the first leg, with or without the
   fee skimmed to the treasury). The trader gets back at most a + 2*(B_in+a)*(HALF+1)/10^36, and NOTHING more than a
   when B_in + a < 10^18 - 1. *)
Theorem C03_round_trip_no_gain : forall p1 p2 a f1 f2 o1 s1 o2 s2,
  cp_eq p1 -> cp_eq p2 -> 0 <= a -> 0 <= f1 < PREC -> 0 <= f2 < PREC ->
  calc_out p1 a f1 = Ok (o1, s1) -> calc_out p2 o1 f2 = Ok (o2, s2) ->
  rout p1 - o1 <= rin p2 -> rout p2 <= rin p1 + a ->
  o2 * (PREC * PREC) <= a * (PREC * PREC) + 2 * (rin p1 + a) * (HALF + 1) /\
  (2 * (rin p1 + a) * (HALF + 1) < PREC * PREC -> o2 <= a).
Proof. exact round_trip_no_gain. Qed.
Print Assumptions C03_round_trip_no_gain.

(* ... and above that size a round trip DOES gain: on 3*10^21 : 3*10^21 at zero fee 2000 units buy 3000, and the
   3000 swapped back return 3000 (the allowance of one base unit is exceeded by 999). *)
Theorem C03_round_trip_gain_refuted :
  exists s1 s2, calc_out (cp11 W_R W_R) 2000 0 = Ok (3000, s1) /\
                calc_out (cp11 (W_R - 3000) (W_R + 2000)) 3000 0 = Ok (3000, s2).
Proof. exact round_trip_gain_refuted. Qed.
Print Assumptions C03_round_trip_gain_refuted.

(* A trade split into two pieces (same fee; second piece on the pool after the first, in-reserve at least
   B_in + a1*(1-fee)) never beats the single trade by more than 1 + B_out*(3*HALF+2)/10^36 units, i.e. by more than one
   unit when B_out <= 6.6*10^17. *)
Theorem C03_split_no_gain : forall p p2 a1 a2 fee o s o1 s1 o2 s2,
  cp_eq p -> cp_eq p2 -> 0 <= a1 -> 0 <= a2 -> 0 <= fee < PREC ->
  calc_out p (a1 + a2) fee = Ok (o, s) -> calc_out p a1 fee = Ok (o1, s1) -> calc_out p2 a2 fee = Ok (o2, s2) ->
  rout p2 = rout p - o1 -> rin p * PREC + a1 * (PREC - fee) <= rin p2 * PREC ->
  (o1 + o2) * (PREC * PREC) < o * (PREC * PREC) + PREC * PREC + rout p * (3 * HALF + 2) /\
  (rout p * (3 * HALF + 2) <= PREC * PREC -> o1 + o2 <= o + 1).
Proof. exact split_no_gain. Qed.
Print Assumptions C03_split_no_gain.

(* Exact-out, equal weights: the trader never pays less than the exact amount B_in*o/((B_out-o)(1-fee)) minus
   floor(B_in/(10^18 (1-fee))) + 2 units; cleared of divisions. *)
Theorem C03_cp_equal_weight_in : forall p o fee inn slip,
  use_oracle p = false -> w_in p = w_out p -> 0 < w_in p -> 0 <= o -> 0 <= fee < PREC -> 0 <= rin p ->
  calc_in p o fee = Ok (inn, slip) ->
  rin p * o * PREC < (inn + rin p / (PREC - fee) + 2) * ((rout p - o) * (PREC - fee)).
Proof. exact calc_in_equal_floor. Qed.
Print Assumptions C03_cp_equal_weight_in.

(* ... within ONE unit when B_in*10^18*(1+HALF) + (10^18-fee)(1+HALF) <= 10^36*(10^18-fee) (B_in <= 1.96*10^18 at 2% fee) *)
Theorem C03_cp_in_one_unit_below_bound : forall p o fee inn slip,
  use_oracle p = false -> w_in p = w_out p -> 0 < w_in p -> 0 <= o -> 0 <= fee < PREC -> 0 <= rin p ->
  calc_in p o fee = Ok (inn, slip) ->
  rin p * PREC * (1 + HALF) + (PREC - fee) * (1 + HALF) <= PREC * PREC * (PREC - fee) ->
  rin p * o * PREC < (inn + 1) * ((rout p - o) * (PREC - fee)).
Proof. exact calc_in_equal_one_unit. Qed.
Print Assumptions C03_cp_in_one_unit_below_bound.

(* ... and refuted above: on 3*10^21 : 3*10^21 at zero fee 4400 units are bought for 3000 (exact price 4400.000...006). *)
Theorem C03_one_unit_in_refuted :
  exists s, calc_in (cp11 W_R W_R) 4400 0 = Ok (3000, s) /\
            (W_R * 4400 * PREC) / ((W_R - 4400) * PREC) = 4400.
Proof. exact one_unit_in_refuted. Qed.
Print Assumptions C03_one_unit_in_refuted.

(* Tier discounts only lower the fee within [0, fee]: every theorem above quantifies over all fees in [0,1). *)
Theorem C03_discounted_fee_in_range : forall fee d f',
  0 <= fee -> 0 <= d <= PREC -> apply_discount fee d = Ok f' -> 0 <= f' <= fee.
Proof. exact apply_discount_range. Qed.
Print Assumptions C03_discounted_fee_in_range.

(* PARTIAL - unequal weights. Full statement (NOT proved): out <= B_out*(1 - (B_in/(B_in+a'))^(w_in/w_out))*(1+10^-8) + 1,
   i.e. Pow(y, r) >= y^r * (1 - 10^-8) for the fixed-point series of pow_approx.go (Pow IS modelled exactly and replayed
   against the Go code, but its real-analysis error bound is not proved). Proved for ALL weights: the payout is
   exactly trunc(B_out*(1 - pw)) with pw the value returned by Pow, hence bounded by ANY lower bound lb of pw;
   exact-out: the charge is at least B_in*(lb - 1) for any lb with 1 <= lb <= pw. *)
Theorem C03_weighted_out_partial : forall p a fee out slip,
  use_oracle p = false -> 0 <= rout p ->
  calc_out p a fee = Ok (out, slip) ->
  exists pw,
    pow (dquo (rin p * PREC) (rin p * PREC + a * (PREC - fee))) (dquo (w_in p * PREC) (w_out p * PREC)) = Ok pw /\
    out = trunc_int (rout p * (PREC - pw)) /\ 0 < out /\
    forall lb, lb <= pw -> out * PREC <= rout p * (PREC - lb).
Proof. exact weighted_out_partial. Qed.
Print Assumptions C03_weighted_out_partial.

Theorem C03_weighted_in_partial : forall p o fee inn slip,
  use_oracle p = false -> 0 <= rin p -> 0 <= fee < PREC ->
  calc_in p o fee = Ok (inn, slip) ->
  exists pw,
    pow (dquo (rout p * PREC) (rout p * PREC - o * PREC)) (dquo (w_out p * PREC) (w_in p * PREC)) = Ok pw /\
    inn = trunc_int (dceil (dquo (rin p * (pw - PREC)) (PREC - fee))) /\ 0 < inn /\
    forall lb, PREC <= lb <= pw -> rin p * (lb - PREC) <= inn * PREC.
Proof. exact weighted_in_partial. Qed.
Print Assumptions C03_weighted_in_partial.

(* ---------- weighted pools, what IS proved about Pow (Proofs/PowBounds.v, Proofs/PowSeries.v) ---------- *)

(* LegacyDec.Power (the integer path of Pow: square-and-multiply, one rounding Mul per step), n >= 1, base y >= 0,
   M any number >= max(y, 10^18):   2*10^18*y^n <= 2*pw*10^(18n) + (n-1)*M^n,  i.e.
     y <= 1:  pw >= y^n/10^(18(n-1)) - (n-1)/2        (at most (n-1)/2 units of 10^-18 below the exact power)
     y >= 1:  pw >= y^n*(1 - (n-1)/(2*10^18))/10^(18(n-1)). *)
Theorem C03_pow_integer_lower_bound : forall y M n pw,
  0 <= y <= M -> PREC <= M -> 1 <= n -> pow y (n * PREC) = Ok pw ->
  2 * PREC * y ^ n <= 2 * pw * PREC ^ n + (n - 1) * M ^ n /\ 0 <= pw.
Proof. exact pow_integer_lb. Qed.
Print Assumptions C03_pow_integer_lower_bound.

(* FULL statement for constant-product pools whose weight ratio w_in/w_out is an integer n >= 1 (the fixture's 1:3
   pool swapped uelys -> uusdc; 1:2, 1:4, ... pools in that direction), exact-in, every amount / reserve / fee in [0,1]:
   with N = B_in*10^18 + a*(10^18 - fee) and y = the rounded base Quo(B_in, B_in + a') the code computes,
     (a) out <= B_out*(1 - (y/10^18)^n) + B_out*(n-1)/(2*10^18),
     (b) out <= B_out*(1 - (B_in*10^18/N)^n) + B_out*((2n-1)/2 + n*10^-18)/10^18     (exact rational power),
   both cleared of divisions; 0 < out <= B_out. For n = 1 (b) is C03_cp_equal_weight_out_bounds. The slack is REAL
   and exceeds one base unit of the output token once B_out*(2n-1) > 2*10^18 (C03_weighted_integer_one_unit_refuted). *)
Theorem C03_weighted_out_integer_ratio : forall p a fee out slip n,
  use_oracle p = false -> 0 < w_out p -> w_in p = n * w_out p -> 1 <= n ->
  0 <= rin p -> 0 <= rout p -> 0 <= a -> 0 <= fee <= PREC ->
  calc_out p a fee = Ok (out, slip) ->
  let N := rin p * PREC + a * (PREC - fee) in
  let y := dquo (rin p * PREC) N in
  (0 < N /\ 0 < y <= PREC /\ 0 < out <= rout p /\
   2 * out * PREC ^ n <= rout p * (2 * (PREC ^ n - y ^ n) + (n - 1) * PREC ^ (n - 1))) /\
  2 * out * (PREC * PREC) * N ^ n <=
    2 * rout p * (PREC * PREC) * (N ^ n - (rin p * PREC) ^ n) + rout p * N ^ n * ((2 * n - 1) * PREC + 2 * n).
Proof. exact int_ratio_out_full. Qed.
Print Assumptions C03_weighted_out_integer_ratio.

(* The stated allowance - ONE base unit above the floor of the exact constant-weighted-product amount - holds while
   B_out*((2n-1)*10^18 + 2n) <= 2*10^36  (n = 2: B_out <= 6.6*10^17, n = 3: <= 4*10^17 - 1, n = 4: <= 2.8*10^17). *)
Theorem C03_weighted_out_integer_ratio_one_unit : forall p a fee out slip n,
  use_oracle p = false -> 0 < w_out p -> w_in p = n * w_out p -> 1 <= n ->
  0 <= rin p -> 0 <= rout p -> 0 <= a -> 0 <= fee <= PREC ->
  calc_out p a fee = Ok (out, slip) ->
  rout p * ((2 * n - 1) * PREC + 2 * n) <= 2 * (PREC * PREC) ->
  let N := rin p * PREC + a * (PREC - fee) in
  out <= (rout p * (N ^ n - (rin p * PREC) ^ n)) / N ^ n + 1.
Proof. exact int_ratio_out_one_unit. Qed.
Print Assumptions C03_weighted_out_integer_ratio_one_unit.

(* ... and is exceeded above (same cause as C03_one_unit_refuted; part of the same known finding): reserves
   4*10^23 : 3*10^23, weights 3:1, fee 0, 10^18 in pays floor(exact) + 225176 (proved slack: 750000). *)
Theorem C03_weighted_integer_one_unit_refuted :
  let p := cp13 400000000000000000000000 300000000000000000000000 3 1 in
  let N := rin p * PREC + 1000000000000000000 * PREC in
  exists out slip, calc_out p 1000000000000000000 0 = Ok (out, slip) /\
    out = (rout p * (N ^ 3 - (rin p * PREC) ^ 3)) / N ^ 3 + 225176.
Proof. exact int_ratio_one_unit_refuted. Qed.
Print Assumptions C03_weighted_integer_one_unit_refuted.

(* Exact-out with an integer ratio w_out/w_in = n >= 1 (the 1:3 pool bought in the other direction): with
   R = B_out - o and y = the rounded base Quo(B_out, R) >= 1 the code computes,
     in >= B_in*((y/10^18)^n*(1 - (n-1)/(2*10^18)) - 1)    (the fee only raises the charge),
   and y > B_out/R*10^18 - (1/2 + 10^-18) (last conjunct). *)
Theorem C03_weighted_in_integer_ratio : forall p o fee inn slip n,
  use_oracle p = false -> 0 < w_in p -> w_out p = n * w_in p -> 1 <= n ->
  0 <= rin p -> 0 <= o -> 0 <= fee < PREC ->
  calc_in p o fee = Ok (inn, slip) ->
  let R := rout p - o in
  let y := dquo (rout p * PREC) (R * PREC) in
  0 < R /\ PREC <= y /\ 0 < inn /\
  rin p * ((2 * PREC - (n - 1)) * y ^ n - 2 * PREC * PREC ^ n) <= 2 * inn * PREC * PREC ^ n /\
  rout p * (PREC * PREC) < y * PREC * R + (HALF + 1) * R.
Proof. exact int_ratio_in_base. Qed.
Print Assumptions C03_weighted_in_integer_ratio.

(* Range of Pow for EVERY exponent e >= 0 (what makes the _partial theorems usable with lb = pw resp. lb = 0):
   - base in [1,2) (exact-out buying less than half of the out-reserve), or any base >= 1 when the fractional part of
     the exponent is 0 or 1/2: Pow >= 1, so the charge B_in*(pw - 1) is non-negative and C03_weighted_in_partial
     applies with lb = pw;
   - base in [0.5,1] with a fractional part other than 1/2, or any base in (0,1] with an integer exponent: 0 <= Pow <= 1.
   (ApproxSqrt: Newton iterates stay in [1,d]; Maclaurin series: alternating with non-increasing terms for a base >= 1;
   for a base in [0.5,1) all terms are subtracted and decay geometrically - ratio <= 1/4 then <= 0.51.) NOT covered: the ln/exp method (base outside [0.5,2), fractional exponent). *)
Theorem C03_pow_ge_one : forall y e pw,
  PREC <= y -> 0 <= e -> (y < TWO \/ Z.rem e PREC = 0 \/ Z.rem e PREC = HALF) ->
  pow y e = Ok pw -> PREC <= pw.
Proof. exact pow_ge_one. Qed.
Print Assumptions C03_pow_ge_one.

Theorem C03_pow_le_one : forall y e pw,
  0 < y <= PREC -> 0 <= e -> (Z.rem e PREC = 0 \/ (HALF <= y /\ Z.rem e PREC <> HALF)) ->
  pow y e = Ok pw -> 0 <= pw <= PREC.
Proof. exact pow_range_le_one. Qed.
Print Assumptions C03_pow_le_one.

(* hence, for ALL weights: when the rounded base y = Quo(B_in, B_in + a') is at least 1/2 (the amount in after fee does
   not exceed the in-reserve) and the fractional part of w_in/w_out is not 1/2 (or the ratio is an integer, any y),
   the payout is positive and within the out-reserve *)
Theorem C03_weighted_out_within_reserve : forall p a fee out slip,
  use_oracle p = false -> 0 <= rin p -> 0 <= rout p -> 0 <= a -> 0 <= fee <= PREC ->
  calc_out p a fee = Ok (out, slip) ->
  let y := dquo (rin p * PREC) (rin p * PREC + a * (PREC - fee)) in
  let r := dquo (w_in p * PREC) (w_out p * PREC) in
  0 <= r -> (Z.rem r PREC = 0 \/ (HALF <= y /\ Z.rem r PREC <> HALF)) ->
  0 < out <= rout p.
Proof. exact weighted_out_within_reserve. Qed.
Print Assumptions C03_weighted_out_within_reserve.

(* exponent in [0,1] (w_in <= w_out): 1 <= Pow(y,e) <= y, so an exact-out trade on such a pool charges at most
   B_in*(y - 1) before fee and rounding - never more than the equal-weight pool would *)
Theorem C03_pow_between_one_and_base : forall y e pw,
  PREC <= y -> 0 <= e <= PREC -> (y < TWO \/ e = 0 \/ e = HALF \/ e = PREC) ->
  pow y e = Ok pw -> PREC <= pw <= y.
Proof. exact pow_le_base. Qed.
Print Assumptions C03_pow_between_one_and_base.

(* Oracle pools, exact-in (the whole of SwapOutAmtGivenIn: resize by the external-liquidity ratio, balancer slippage
   of the resized trade, value formula), for all prices, ratios, reserves, weight-breaking fee in [0,1] as resolved
   from the implementation, swap fee >= 0: value out <= value in + half of 10^-18 out-token. *)
Theorem C03_oracle_value_out_le_in : forall p a ratio wbf fee out s oo,
  0 <= a -> 0 <= ratio -> 0 <= wbf <= PREC -> 0 <= fee -> 0 <= price_in p -> 0 <= price_out p ->
  oracle_swap_out p a ratio wbf fee = Ok (out, s, oo) ->
  0 <= s /\ out * price_out p * (PREC * PREC) <= a * price_in p * (PREC * PREC) + HALF * price_out p.
Proof. exact oracle_swap_out_value. Qed.
Print Assumptions C03_oracle_value_out_le_in.

(* Oracle pools, exact-out: value charged > value received - (1/2 + 10^-18) * 10^-18 in-token. *)
Theorem C03_oracle_value_in_ge_out : forall p o ratio wbf fee inn s oi,
  0 <= o -> 0 <= ratio -> 0 <= wbf < PREC -> 0 <= fee -> 0 <= price_in p -> 0 <= price_out p ->
  oracle_swap_in p o ratio wbf fee = Ok (inn, s, oi) ->
  0 <= s /\ o * price_out p * (PREC * PREC) < inn * price_in p * (PREC * PREC) + (1 + HALF) * price_in p.
Proof. exact oracle_swap_in_value. Qed.
Print Assumptions C03_oracle_value_in_ge_out.

(* The value formulas alone, for EVERY slippage amount >= 0 and ratio >= 0 (not only the ones the kernels produce). *)
Theorem C03_oracle_formula_out : forall a pi po ratio slip wbf fee out oo,
  0 <= a -> 0 <= pi -> 0 < po -> 0 <= ratio -> 0 <= slip -> 0 <= wbf <= PREC -> 0 <= fee ->
  oracle_out a pi po ratio slip wbf fee = Ok (out, oo) ->
  out * po * (PREC * PREC) <= a * pi * (PREC * PREC) + HALF * po /\ out * PREC <= oo.
Proof. exact oracle_out_value. Qed.
Print Assumptions C03_oracle_formula_out.

Theorem C03_oracle_formula_in : forall o pi po ratio slip wbf fee inn oi,
  0 <= o -> 0 < pi -> 0 <= po -> 0 <= ratio -> 0 <= slip -> 0 <= wbf < PREC -> 0 <= fee ->
  oracle_in o pi po ratio slip wbf fee = Ok (inn, oi) ->
  o * po * (PREC * PREC) < inn * pi * (PREC * PREC) + (1 + HALF) * pi /\ oi <= inn * PREC.
Proof. exact oracle_in_value. Qed.
Print Assumptions C03_oracle_formula_in.

(* The rebalancing bonus: [bonus_paid] is the amount UpdatePoolForSwap sends FROM THE REBALANCE TREASURY (the source
   account of that transfer is checked on the real bank events by the harness): never negative, only for oracle pools
   with a positive bonus rate, never above the treasury balance, never above base*rate. *)
Theorem C03_bonus_from_treasury_capped : forall use_orc base bonus treasury b,
  bonus_paid use_orc base bonus treasury = Ok b ->
  0 <= b /\ (0 < b -> b <= treasury /\ use_orc = true /\ 0 < bonus /\ b * PREC <= base * bonus).
Proof. exact bonus_capped. Qed.
Print Assumptions C03_bonus_from_treasury_capped.

(* ---------- oracle pools with the WEIGHT-BREAKING FEE COMPUTED BY THE MODEL (Models/WeightFee.v) ----------
   The fee is no longer a parameter resolved from the implementation: [oracle_swap_out_wf] / [oracle_swap_in_wf] are the whole
   of Pool.SwapOutAmtGivenIn / SwapInAmtGivenOut for oracle pools incl. GetOraclePoolNormalizedWeights, WeightDistanceFromTarget
   before and after the swap, GetWeightBreakingFee (Pow of the weight ratio, multiplier, 0.99 cap), the perpetual factor, the
   portion and the threshold. [assets] = accounted assets of the pool (any number), kin / kout = positions of the two swapped
   assets, [prm] = (multiplier, exponent, portion, threshold). [exp_int_or_half e]: e >= 0 with fractional part 0 or 1/2 (the
   chain's 2.5, C03_wbf_default_exponent): Pow is proved non-negative there (LegacyDec.Power and the Newton square root). *)

(* (a) GetWeightBreakingFee returns a value in [0, 0.99] (0.99 < 1): the hypothesis "wbf in [0,1]" of the theorems above is
   discharged for the modelled formula. Params.Validate enforces multiplier >= 0. *)
Theorem C03_wbf_in_range : forall prm fi fo ti to ii io dd f,
  0 <= wp_mult prm -> exp_int_or_half (wp_exp prm) ->
  get_wbf prm fi fo ti to ii io dd = Ok f -> 0 <= f <= WBF_CAP /\ WBF_CAP < PREC.
Proof. exact get_wbf_range_exp. Qed.
Print Assumptions C03_wbf_in_range.

(* PARTIAL for the other exponents. Full statement (NOT proved): the same for every exponent >= 0; it needs Pow >= 0 on the
   ln/exp and Maclaurin paths. Proved: for ANY exponent on which Pow never returns a negative value. *)
Theorem C03_wbf_in_range_partial : forall prm fi fo ti to ii io dd f,
  0 <= wp_mult prm -> pow_nonneg (wp_exp prm) ->
  get_wbf prm fi fo ti to ii io dd = Ok f -> 0 <= f <= WBF_CAP.
Proof. exact get_wbf_range. Qed.
Print Assumptions C03_wbf_in_range_partial.

Theorem C03_pow_nonneg_int_or_half_exponent : forall e y pw,
  0 <= e -> (Z.rem e PREC = 0 \/ Z.rem e PREC = HALF) -> pow y e = Ok pw -> 0 <= pw.
Proof. intros e y pw H0 H1. exact (pow_nonneg_int_or_half e H0 H1 y pw). Qed.
Print Assumptions C03_pow_nonneg_int_or_half_exponent.

Example C03_wbf_default_exponent : exp_int_or_half 2500000000000000000.
Proof. exact default_exponent_ok. Qed.

(* the FULL oracle-pool statement, exact-in, fee computed by the model (no fee parameter): for all pool states, prices, ratios,
   params with multiplier, portion >= 0, perpetual factor in [0,1]: value out <= value in + half of 10^-18 out-token, and the
   bonus rate returned is at most 0.99 * portion *)
Theorem C03_oracle_value_out_le_in_with_fee : forall p assets kin kout a ratio perp fee prm out s oo bonus,
  0 <= wp_mult prm -> exp_int_or_half (wp_exp prm) -> 0 <= wp_portion prm -> 0 <= perp <= PREC ->
  0 <= a -> 0 <= ratio -> 0 <= fee -> 0 <= price_in p -> 0 <= price_out p ->
  oracle_swap_out_wf p assets kin kout a ratio perp fee prm = Ok (out, s, oo, bonus) ->
  0 <= s /\ out * price_out p * (PREC * PREC) <= a * price_in p * (PREC * PREC) + HALF * price_out p /\
  bonus <= dmul WBF_CAP (wp_portion prm).
Proof. exact oracle_swap_out_wf_value_exp. Qed.
Print Assumptions C03_oracle_value_out_le_in_with_fee.

Theorem C03_oracle_value_in_ge_out_with_fee : forall p assets kin kout o ratio perp fee prm inn s oi bonus,
  0 <= wp_mult prm -> exp_int_or_half (wp_exp prm) -> 0 <= wp_portion prm -> 0 <= perp <= PREC ->
  0 <= o -> 0 <= ratio -> 0 <= fee -> 0 <= price_in p -> 0 <= price_out p ->
  oracle_swap_in_wf p assets kin kout o ratio perp fee prm = Ok (inn, s, oi, bonus) ->
  0 <= s /\ o * price_out p * (PREC * PREC) < inn * price_in p * (PREC * PREC) + (1 + HALF) * price_in p /\
  bonus <= dmul WBF_CAP (wp_portion prm).
Proof. exact oracle_swap_in_wf_value_exp. Qed.
Print Assumptions C03_oracle_value_in_ge_out_with_fee.

(* (b) direction: with d0 / d1 the weight distance before / after the swap as the code computes them, the whole function IS
   the fee-parameterised one at some fee wbf, and
     d1 < d0  (improving): wbf = 0, the bonus is >= 0 and positive only if d0 was above the threshold;
     d1 >= d0 (not improving): bonus = - wbf <= 0 (the trader is charged, never rewarded);
     a positive bonus implies d1 < d0, d0 > threshold, no fee. *)
Theorem C03_fee_zero_when_improving : forall p assets kin kout a ratio perp fee prm out s oo bonus,
  0 <= wp_mult prm -> exp_int_or_half (wp_exp prm) -> 0 <= wp_portion prm -> 0 <= perp <= PREC ->
  oracle_swap_out_wf p assets kin kout a ratio perp fee prm = Ok (out, s, oo, bonus) ->
  exists wbf d0 after fin d1,
    oracle_swap_out p a ratio wbf fee = Ok (out, s, oo) /\
    weight_distance assets = Ok d0 /\
    after_swap assets 0 kin kout a after = Ok fin /\ weight_distance fin = Ok d1 /\
    (d1 < d0 -> wbf = 0 /\ 0 <= bonus /\ (0 < bonus -> wp_thr prm < d0)) /\
    (d0 <= d1 -> bonus = - wbf /\ bonus <= 0) /\
    (0 < bonus -> d1 < d0 /\ wp_thr prm < d0 /\ wbf = 0).
Proof. exact oracle_swap_out_wf_direction_exp. Qed.
Print Assumptions C03_fee_zero_when_improving.

(* ... and POSITIVE when the distance grows (dd > 0) and the in-asset ends over-weight relative to the out-asset, i.e. the
   ratio x = finalWeightIn*targetWeightOut/finalWeightOut/targetWeightIn the code hands to Pow is >= 1: the fee is at least
   min(0.99, multiplier). (That a growing distance of a two-asset pool implies x >= 1 is real-number reasoning about the
   normalized weights; it is not proved here - the correspondence run reports the fee of every generated swap.) *)
Theorem C03_fee_positive_when_worsening : forall prm fi fo ti to ii io dd f x1 x2 x3,
  0 < wp_mult prm -> 0 <= wp_exp prm ->
  (Z.rem (wp_exp prm) PREC = 0 \/ Z.rem (wp_exp prm) PREC = HALF \/ x3 < TWO) ->
  0 < dd -> fo <> 0 -> fi <> 0 -> to <> 0 -> ti <> 0 ->
  x1 = dmul fi to -> x2 = dquo x1 fo -> x3 = dquo x2 ti -> PREC <= x3 ->
  get_wbf prm fi fo ti to ii io dd = Ok f ->
  Z.min WBF_CAP (wp_mult prm) <= f.
Proof. exact get_wbf_worsening_lower. Qed.
Print Assumptions C03_fee_positive_when_worsening.

(* (c) tie with C03_bonus_from_treasury_capped: for a swap whose bonus rate the model computed, what UpdatePoolForSwap sends
   from the rebalance treasury is at most the treasury balance and at most base * 0.99 * portion *)
Theorem C03_bonus_with_fee_capped : forall p assets kin kout a ratio perp fee prm out s oo bonus base treasury b,
  0 <= wp_mult prm -> exp_int_or_half (wp_exp prm) -> 0 <= wp_portion prm -> 0 <= perp <= PREC -> 0 <= base ->
  oracle_swap_out_wf p assets kin kout a ratio perp fee prm = Ok (out, s, oo, bonus) ->
  bonus_paid true base bonus treasury = Ok b ->
  0 <= b /\ (0 < b -> b <= treasury /\ 0 < bonus /\ b * PREC <= base * dmul WBF_CAP (wp_portion prm)).
Proof. exact swap_out_bonus_from_treasury. Qed.
Print Assumptions C03_bonus_with_fee_capped.

(* non-vacuity of the with-fee theorems: a generated case replayed on the real SwapOutAmtGivenIn (worsening swap, fee 1.43 %) *)
Example C03_with_fee_nonvacuous :
  let p := mkPool 7321 880 1 1 0 0 true 7321 880 100000000000000 831857364403457 in
  let prm := mkWP 500000000000000 2500000000000000000 500000000000000000 300000000000000000 in
  exists s oo, oracle_swap_out_wf p (pool_assets p true) 0 1 4880 (100 * PREC) PREC 0 prm = Ok (490, s, oo, -14349589350757062)
    /\ exp_int_or_half (wp_exp prm) /\ 0 <= wp_mult prm /\ 0 <= wp_portion prm.
Proof. exact with_fee_nonvacuous. Qed.

(* non-vacuity: the fixture's pool sizes, a successful swap, hypotheses satisfied, bound tight (out = floor(exact)) *)
Example C03_nonvacuous :
  exists slip, calc_out (cp11 30000000000 10000000000) 1000000 3000000000000000 = Ok (332322, slip) /\
  cp_eq (cp11 30000000000 10000000000) /\
  (10000000000 * (1000000 * (PREC - 3000000000000000))) / (30000000000 * PREC + 1000000 * (PREC - 3000000000000000)) = 332322.
Proof. exact nonvacuous_example. Qed.

(* non-vacuity of the integer-ratio theorems: the fixture's 1:3 pool (uusdc 30e9 weight 1 : uelys 10e9 weight 3), 1e6
   uelys in at 0.3% pays 8971211 = floor(exact); hypotheses of the one-unit corollary hold; the opposite exact-out
   trade (1e6 uelys bought with uusdc) succeeds as well *)
Example C03_integer_ratio_nonvacuous :
  let p := cp13 10000000000 30000000000 3 1 in
  let N := rin p * PREC + 1000000 * (PREC - 3000000000000000) in
  exists slip, calc_out p 1000000 3000000000000000 = Ok (8971211, slip) /\
  (rout p * (N ^ 3 - (rin p * PREC) ^ 3)) / N ^ 3 = 8971211 /\
  rout p * ((2 * 3 - 1) * PREC + 2 * 3) <= 2 * (PREC * PREC) /\
  exists slip2, calc_in (cp13 30000000000 10000000000 1 3) 1000000 3000000000000000 = Ok (9028887, slip2).
Proof. exact int_ratio_nonvacuous. Qed.
