(* C12 - The commitment ledger's totals, custody and lock-ups are exact.
   Only statements + [exact]; proofs in Proofs/CommitProofs.v, model in Models/Commit.v.
   [step]/[run] model the code AS IT IS; [step_fixed]/[run_fixed] = step_gen true true is the model with
   Params.TotalCommitted lowered at the two sites where the code does not lower it:
     fu: Keeper.UncommitTokens adds the amount again   (x/commitment/keeper/msg_server_uncommit_tokens.go:75)
     fb: Keeper.BurnEdenBoost deducts committed EdenB and leaves the total alone (x/commitment/keeper/commitments.go:187)
   Full statement "total d = Σ accounts' committed d after every history" is REFUTED for the code
   (C12_total_refuted, C12_burn_total_refuted), proved for the repaired model (C12_total_eq_sum), and its
   one-sided half is proved for the code (C12_total_ge_sum).  Everything else holds for the code as it is
   and is stated for every setting of the switches. *)
From Coq Require Import ZArith List Bool.
From Elys Require Import Base.Res Models.Commit Proofs.CommitProofs.
Import ListNotations.
Open Scope Z_scope.

(* The code as it is: commit 100 ueden, uncommit 100 ueden -> TotalCommitted = 200ueden, nothing committed. *)
Theorem C12_total_refuted :
  let s := run (init_state 1) refute_ops in
  s_total s EDEN = 200 /\ sum_committed EDEN (s_led s) = 0 /\ a_claimed (get_acct (s_led s) 0) EDEN = 100.
Proof. exact total_refuted. Qed.
Print Assumptions C12_total_refuted.

(* Second site, shown with the first one repaired: commit 100 uedenb and 100 ueden, uncommit the ueden;
   the EdenUncommitted hook burns the 100 committed uedenb; TotalCommitted[uedenb] stays 100. *)
Theorem C12_burn_total_refuted :
  let s := run_gen true false (init_state 1) refute_burn_ops in
  s_total s EDENB = 100 /\ sum_committed EDENB (s_led s) = 0 /\ s_total s EDEN = 0.
Proof. exact burn_total_refuted. Qed.
Print Assumptions C12_burn_total_refuted.

(* Code as it is, every history, every denom: the chain-wide total never falls below the sum of the
   accounts' committed amounts. *)
Theorem C12_total_ge_sum : forall n ops d,
  let s := run (init_state n) ops in sum_committed d (s_led s) <= s_total s d.
Proof. exact total_ge_sum. Qed.
Print Assumptions C12_total_ge_sum.

(* Repaired model, every history (any interleaving of commits, uncommits, joins/bonds, exits/unbonds,
   liquidations, claimed-ledger operations, EdenB burns, profile changes; failed transactions included;
   any accounts, amounts, times): the total EQUALS the sum for every denom. *)
Theorem C12_total_eq_sum : forall n ops d,
  let s := run_fixed (init_state n) ops in s_total s d = sum_committed d (s_led s).
Proof. exact total_eq_sum_fixed. Qed.
Print Assumptions C12_total_eq_sum.

(* The two models differ in nothing but the total, and only at the listed sites: result kind and ledger
   of every step coincide, and off the sites the whole step coincides. *)
Theorem C12_fixed_same_ledger : forall fu fb fu' fb' s o,
  match step_gen fu fb s o, step_gen fu' fb' s o with
  | Ok a, Ok b => s_led a = s_led b
  | Err x, Err y => x = y
  | Panic x, Panic y => x = y
  | _, _ => False
  end.
Proof. exact step_same_ledger. Qed.
Print Assumptions C12_fixed_same_ledger.

Theorem C12_fixed_same_off_sites : forall fu fb fu' fb' s o,
  total_site o = false -> step_gen fu fb s o = step_gen fu' fb' s o.
Proof. exact step_same_off_sites. Qed.
Print Assumptions C12_fixed_same_off_sites.

Theorem C12_histories_same_ledger : forall fu fb fu' fb' ops s1 s2,
  s_led s1 = s_led s2 -> s_led (run_gen fu fb s1 ops) = s_led (run_gen fu' fb' s2 ops).
Proof. exact led_indep. Qed.
Print Assumptions C12_histories_same_ledger.

(* Custody, every history, code as it is and repaired: for every bank-backed denom the module account
   holds at least Σ committed + Σ claimed. (ueden / uedenb never exist in x/bank.) *)
Theorem C12_custody_covers : forall fu fb n ops d,
  is_virtual d = false ->
  let s := s_led (run_gen fu fb (init_state n) ops) in
  sum_committed d s + sum_claimed d s <= s_mod s d.
Proof. exact custody_covers. Qed.
Print Assumptions C12_custody_covers.

(* Every reachable account: amounts, lock-up amounts, claimed and wallet balances are never negative,
   lock-ups of an entry never exceed the entry, and an account has at most one entry per denom. *)
Theorem C12_never_negative : forall fu fb n ops a,
  wf_acct (get_acct (s_led (run_gen fu fb (init_state n) ops)) a).
Proof. exact reachable_wf. Qed.
Print Assumptions C12_never_negative.

(* Lock-ups: Ok from a NON-liquidation uncommit (MsgUncommitTokens, keeper call, exit pool / unbond) at
   time [now] implies that what remains committed covers every lock-up with unlock > now. *)
Theorem C12_locked_not_withdrawable : forall fu fb s o a d amt now s',
  uncommit_of o = Some (a, d, amt, now, false) -> step_gen fu fb s o = Ok s' ->
  let com := a_com (get_acct (s_led s) a) in
  clocked now d com <= camt d com - amt /\ 0 <= camt d com - amt.
Proof. exact locked_not_withdrawable. Qed.
Print Assumptions C12_locked_not_withdrawable.

(* the same in post-state form for DeductFromCommitted itself *)
Theorem C12_deduct_keeps_locked : forall d amt now l l',
  wf_toks l -> deduct_committed d amt now false l = Ok l' ->
  camt d l' = camt d l - amt /\ 0 <= camt d l' /\ clocked now d l <= camt d l'.
Proof. exact deduct_keeps_locked. Qed.
Print Assumptions C12_deduct_keeps_locked.

(* An account can never uncommit more than it has: error, and nothing changes (liquidation included). *)
Theorem C12_no_overdraw : forall fu fb s o a d amt now liq,
  uncommit_of o = Some (a, d, amt, now, liq) ->
  camt d (a_com (get_acct (s_led s) a)) < amt ->
  (exists e, step_gen fu fb s o = Err e) /\ exec_gen fu fb s o = s.
Proof. exact no_overdraw. Qed.
Print Assumptions C12_no_overdraw.

(* Only a liquidation overrides the lock: within the committed amount it always succeeds, whatever the
   lock-ups (the custody invariant supplies the module balance). *)
Theorem C12_liquidation_override : forall s a d amt now st re rb ce,
  Inv s -> has_acct s a = true -> s_ap s d = Some (ce, true) -> d <> EDEN ->
  In d (map t_denom (a_com (get_acct s a))) -> 0 <= amt <= camt d (a_com (get_acct s a)) ->
  exists r, uncommit s a d amt now true st re rb = Ok r.
Proof. exact liquidation_override. Qed.
Print Assumptions C12_liquidation_override.

(* non-vacuity: a locked join, a refused early exit, a liquidation that goes through, an exit at the
   unlock second; the repaired total follows *)
Example C12_nonvacuous :
  let ops := [OSetProfile 3 (Some (true, true)); OMintCommit 0 3 1000 4600; OMintCommit 0 3 500 0;
              OUncommitBurn 0 3 501 1000 false; OUncommitBurn 0 3 500 1000 false;
              OUncommit 0 3 200 1001 true 0 0 0; OUncommitBurn 0 3 800 4600 false] in
  let s := run_fixed (init_state 2) ops in let c := run (init_state 2) ops in
  a_com (get_acct (s_led s) 0) = [] /\ s_total s 3 = 0 /\ s_mod (s_led s) 3 = 0 /\
  a_wallet (get_acct (s_led s) 0) 3 = 200 /\ s_total c 3 = 3000 /\ s_led c = s_led s.
Proof. vm_compute. repeat split. Qed.
