(* C02 - LP share supply, pool total shares and committed shares always agree. Statements only. *)
From Coq Require Import ZArith List Bool Arith.
From Elys Require Import Base.Res Base.Fn Models.SumLedger Proofs.SumLedgerProofs Models.Shares Proofs.SharesProofs.
Import ListNotations.
Open Scope Z_scope.

(* For EVERY history of joins (pool creation, all-asset, single-asset, leveraged-LP opens) and exits
   (exits, leveraged-LP closes and liquidations) by any accounts with any amounts, failing ones included:
   TotalShares = bank supply = sum of all accounts' committed shares = commitment module balance, and no
   share is ever left liquid in a wallet or in the amm module account. *)
Theorem C02_share_agreement : forall h,
  let s := shrun sh_empty h in
  sh_tshares s = total (sh_sl s) /\
  total (sh_sl s) = sumf (parts (sh_sl s)) (keys (sh_sl s)) /\
  sh_custody s = total (sh_sl s) /\
  (forall k, sh_wallet s k = 0) /\ sh_amm s = 0.
Proof. exact share_agreement. Qed.
Print Assumptions C02_share_agreement.

(* Shares are created only by joining (or pool creation) and destroyed only by exiting, by exactly
   the joined / exited amount; a failed step changes nothing. *)
Theorem C02_shares_only_by_join_exit : forall s o,
  ShInv s ->
  total (sh_sl (shexec s o)) = total (sh_sl s) \/
  (exists k a, o = ShJoin k a /\ 0 < a /\ total (sh_sl (shexec s o)) = total (sh_sl s) + a) \/
  (exists k a, o = ShExit k a /\ 0 < a /\ total (sh_sl (shexec s o)) = total (sh_sl s) - a).
Proof. exact supply_only_by_join_exit. Qed.
Print Assumptions C02_shares_only_by_join_exit.

Example C02_nonvacuous :
  let s := shrun sh_empty [ShJoin 0 1000; ShJoin 1 50; ShExit 0 300; ShExit 1 51; ShJoin 1 5] in
  sh_tshares s = 755 /\ total (sh_sl s) = 755 /\ parts (sh_sl s) 1%nat = 55 /\ sh_custody s = 755.
Proof. vm_compute. repeat split. Qed.
