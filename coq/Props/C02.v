(* C02 - LP share supply, pool total shares and committed shares always agree. Statements only. *)
From Coq Require Import ZArith List Bool Arith.
From Elys Require Import Base.Res Base.Fn Models.SumLedger Proofs.SumLedgerProofs Models.Shares Proofs.SharesProofs Proofs.SharesFrame.
Import ListNotations.
Open Scope Z_scope.

(* For EVERY history of joins (pool creation, all-asset, single-asset, leveraged-LP opens) and exits
   (exits, leveraged-LP closes and liquidations) by any accounts with any amounts, failing ones included:
   TotalShares = bank supply = sum of all accounts' committed shares = commitment module balance, and no
   share is ever left liquid in a wallet or in the amm module account. *)
Theorem C02_share_agreement : forall h,
  let s := shrun sh_empty h in
  sh_tshares s = total (sh_sl s) /\
  total (sh_sl s) = sumf (parts (sh_sl s)) (keys (sh_sl s)) /\
  sh_custody s = total (sh_sl s) /\
  (forall k, sh_wallet s k = 0) /\ sh_amm s = 0.
Proof. exact share_agreement. Qed.
Print Assumptions C02_share_agreement.

(* Shares are created only by joining (or pool creation) and destroyed only by exiting, by exactly
   the joined / exited amount; a failed step changes nothing. *)
Theorem C02_shares_only_by_join_exit : forall s o,
  ShInv s ->
  total (sh_sl (shexec s o)) = total (sh_sl s) \/
  (exists k a, o = ShJoin k a /\ 0 < a /\ total (sh_sl (shexec s o)) = total (sh_sl s) + a) \/
  (exists k a, o = ShExit k a /\ 0 < a /\ total (sh_sl (shexec s o)) = total (sh_sl s) - a).
Proof. exact supply_only_by_join_exit. Qed.
Print Assumptions C02_shares_only_by_join_exit.

(* Per account, exactly: a successful join / exit moves the committed shares of the ACTING account by exactly the signed
   amount (an account not yet stored starts from nothing), moves supply, pool.TotalShares and the commitment module's
   custody by the same amount, and leaves EVERY other account's committed shares as they were. *)
Theorem C02_step_exact_and_frame : forall s o s', shstep s o = Ok s' ->
  (In (sh_acct o) (keys (sh_sl s)) -> parts (sh_sl s') (sh_acct o) = parts (sh_sl s) (sh_acct o) + sh_delta o) /\
  (~ In (sh_acct o) (keys (sh_sl s)) -> parts (sh_sl s') (sh_acct o) = sh_delta o) /\
  (forall k, k <> sh_acct o -> parts (sh_sl s') k = parts (sh_sl s) k) /\
  total (sh_sl s') = total (sh_sl s) + sh_delta o /\
  sh_tshares s' = sh_tshares s + sh_delta o /\
  sh_custody s' = sh_custody s + sh_delta o /\
  In (sh_acct o) (keys (sh_sl s')).
Proof. exact shstep_exact. Qed.
Print Assumptions C02_step_exact_and_frame.

(* Over EVERY history: an account that does not act keeps exactly its committed shares (nobody's exit, close or
   liquidation can burn another holder's shares). *)
Theorem C02_other_holders_untouched : forall h s k, (forall o, In o h -> sh_acct o <> k) ->
  parts (sh_sl (shrun s h)) k = parts (sh_sl s) k.
Proof. exact shrun_other_accounts. Qed.
Print Assumptions C02_other_holders_untouched.

(* An exit above what the account itself has committed is refused and changes nothing (no share is burnt that the
   exiting account does not hold). *)
Theorem C02_exit_beyond_committed_no_effect : forall s k a,
  parts (sh_sl s) k < a -> (exists c, shstep s (ShExit k a) = Err c) /\ shexec s (ShExit k a) = s.
Proof. intros s k a H. split; [exact (sh_exit_beyond_committed_refused s k a H) | exact (sh_exit_beyond_committed_no_effect s k a H)]. Qed.
Print Assumptions C02_exit_beyond_committed_no_effect.

Example C02_nonvacuous :
  let s := shrun sh_empty [ShJoin 0 1000; ShJoin 1 50; ShExit 0 300; ShExit 1 51; ShJoin 1 5] in
  sh_tshares s = 755 /\ total (sh_sl s) = 755 /\ parts (sh_sl s) 1%nat = 55 /\ sh_custody s = 755.
Proof. vm_compute. repeat split. Qed.

Example C02_frame_nonvacuous :
  let s := shrun sh_empty [ShJoin 0 1000; ShJoin 1 50] in
  shexec s (ShExit 1 51) = s /\ parts (sh_sl (shrun s [ShExit 0 300; ShJoin 0 7])) 1%nat = 50.
Proof. vm_compute. repeat split. Qed.
