(* C07 - Vault shares are issued and redeemed at the fair rate and lending is capped.
   Only statements + [exact]; proofs in Proofs/StableProofs.v, model in Models/Stable.v (exact Gallina
   transcription of x/stablestake Bond / Unbond / GetRedemptionRate / Borrow / Repay /
   UpdateInterestStacked over Base/Zdec.v; interest amounts are parameters >= 0).
   Notation: P = PREC = 10^18; r = rate_of tv sup = the code's stored 18-digit redemption rate (raw);
   "one share's worth" = r / P base units. No theorem bounds the size of the vault, of the amounts or
   the length of a history; numeric side conditions are written out where one is needed. *)
From Coq Require Import ZArith List Bool.
From Elys Require Import Base.Res Base.Zdec Models.Stable Proofs.StableProofs.
Import ListNotations.
Open Scope Z_scope.

(* (1) Deposit a, then at once redeem the shares just minted: for EVERY vault size, supply, amount and
   rate > 0,   payout - a  <=  (r/P)/2 * (1 + 10^-18 + 2*10^-36) + 1/2   (exact form, cleared of fractions). *)
Theorem C07_bond_unbond_le : forall tv sup a, 0 <= tv -> 0 < sup -> 0 < rate_of tv sup -> 0 <= a ->
  let r := rate_of tv sup in
  let sh := bond_shares tv sup a in
  let p := unbond_payout (tv + a) (sup + sh) sh in
  2 * PREC * PREC * PREC * (p - a) <= r * (PREC * PREC + PREC + 2) + PREC * PREC * PREC.
Proof. exact roundtrip_explicit. Qed.
Print Assumptions C07_bond_unbond_le.

(* ... hence never more than one share's worth when the rate is >= 1 - at ANY size (the pre-registered
   suspicion that huge supplies break the round trip is refuted: the same rounded rate is used on both legs) *)
Theorem C07_bond_unbond_le_one_share : forall tv sup a, 0 < sup -> sup <= tv -> 0 <= a ->
  let r := rate_of tv sup in
  let sh := bond_shares tv sup a in
  let p := unbond_payout (tv + a) (sup + sh) sh in
  (p - a) * PREC <= r.
Proof. exact roundtrip_one_share. Qed.
Print Assumptions C07_bond_unbond_le_one_share.

(* the same on the state machine (wallets, committed shares, failure points included) *)
Theorem C07_roundtrip_state : forall s u amt s1 s2,
  0 < s_supply s -> s_supply s <= s_tv s ->
  bond u amt s = Ok s1 ->
  unbond u (a_shares (get_acct s1 u) - a_shares (get_acct s u)) s1 = Ok s2 ->
  (a_wallet (get_acct s2 u) - a_wallet (get_acct s u)) * PREC <= rate_of (s_tv s) (s_supply s) /\
  a_shares (get_acct s2 u) = a_shares (get_acct s u).
Proof. exact roundtrip_state. Qed.
Print Assumptions C07_roundtrip_state.

(* first deposit into an empty vault: shares = amount, redemption = amount, exactly *)
Theorem C07_first_deposit_exact : forall a, 0 <= a ->
  bond_shares 0 0 a = a /\ unbond_payout (0 + a) (0 + a) a = a.
Proof. exact first_deposit_exact. Qed.
Print Assumptions C07_first_deposit_exact.

(* (2) The lenders that were there before a deposit: their sup shares were worth tv, afterwards
   sup*(tv+a)/(sup+sh) (exact rational); the loss (tv*sh - sup*a)/(sup+sh) is at most
   [sup/(sup+sh)] * bond_slack r sh / (2 P^2) ~ [sup/(sup+sh)] * (rate/2 + sh/(2*10^18)). *)
Theorem C07_others_not_diluted_by_bond : forall tv sup a, 0 <= tv -> 0 < sup -> 0 < rate_of tv sup -> 0 <= a ->
  let r := rate_of tv sup in
  let sh := bond_shares tv sup a in
  0 <= sh /\ 2 * PREC * PREC * (tv * sh - sup * a) <= sup * bond_slack r sh.
Proof. exact bond_others_value. Qed.
Print Assumptions C07_others_not_diluted_by_bond.

(* The lenders that remain after a withdrawal of sh shares lose exactly payout - sh*tv/sup, which is at
   most unbond_slack sh / (2 P) = 1/2 + sh/(2*10^18); and the redeemer is not short-changed by more. *)
Theorem C07_others_not_diluted_by_unbond : forall tv sup sh, 0 <= tv -> 0 < sup -> 0 <= sh ->
  let p := unbond_payout tv sup sh in
  0 <= p /\
  2 * PREC * (p * sup - sh * tv) <= sup * unbond_slack sh /\
  2 * PREC * PREC * (sh * tv - p * sup) <= sup * (PREC * PREC + (PREC + 2) * sh).
Proof. exact unbond_others_value. Qed.
Print Assumptions C07_others_not_diluted_by_unbond.

(* the depositor is credited at the fair rate too (lower bound on the value of the minted shares) *)
Theorem C07_depositor_fair : forall tv sup a, 0 <= tv -> 0 < sup -> 0 < rate_of tv sup -> 0 <= a ->
  let sh := bond_shares tv sup a in
  4 * PREC * PREC * PREC * (a * sup - tv * sh)
    < 2 * sh * PREC * PREC * sup + (2 * tv * PREC + sup) * (PREC * PREC + PREC + 2).
Proof. exact bond_depositor_value. Qed.
Print Assumptions C07_depositor_fair.

(* "the same allowance" (one share's worth) for the others holds whenever the operation moves at most
   5*10^17 shares (deposit) / 10^18 shares (withdrawal), whatever the size of the vault ... *)
Theorem C07_others_one_share_bond : forall tv sup a, 0 < sup -> sup <= tv -> 0 <= a ->
  let r := rate_of tv sup in
  let sh := bond_shares tv sup a in
  2 * sh <= PREC ->
  (tv * sh - sup * a) * PREC <= r * (sup + sh).
Proof. exact bond_others_one_share. Qed.
Print Assumptions C07_others_one_share_bond.

Theorem C07_others_one_share_unbond : forall tv sup sh, 0 < sup -> sup <= tv -> 0 <= sh -> sh <= PREC ->
  let r := rate_of tv sup in
  let p := unbond_payout tv sup sh in
  (p * sup - sh * tv) * PREC <= r * sup.
Proof. exact unbond_others_one_share. Qed.
Print Assumptions C07_others_one_share_unbond.

(* ... and is REFUTED above them on the faithful model (and on the real code: harness corpus history 2,
   signature C07:others-value-reduced-beyond-one-share:operation-above-5e17-shares): redeeming 10^21 of
   2*10^21 shares costs the remaining lenders > 369 base units, depositing 10^21 costs the previous
   lenders > 129, while a share is worth 1.003. *)
Theorem C07_others_one_share_refuted :
  (0 < refute_sup_u <= refute_tv_u /\ 0 < refute_sh_u <= refute_sup_u /\
   let p := unbond_payout refute_tv_u refute_sup_u refute_sh_u in
   (p * refute_sup_u - refute_sh_u * refute_tv_u) * PREC > 369 * PREC * refute_sup_u /\
   rate_of refute_tv_u refute_sup_u < 2 * PREC) /\
  (0 < refute_sup_b <= refute_tv_b /\
   let sh := bond_shares refute_tv_b refute_sup_b refute_a_b in
   (refute_tv_b * sh - refute_sup_b * refute_a_b) * PREC > 129 * PREC * (refute_sup_b + sh) /\
   rate_of refute_tv_b refute_sup_b < 2 * PREC).
Proof. exact others_one_share_refuted. Qed.
Print Assumptions C07_others_one_share_refuted.

(* (2') EVERY successful step of ANY account (bond, unbond, borrow, repay, interest accrual, transfers
   elsewhere), in every state with a positive rate: the exact value per share tv/S falls by at most
   step_slack / (2 P^2 S'), where step_slack is 0 for everything but a bond / unbond. *)
Theorem C07_share_value_per_step : forall s o s',
  0 <= s_tv s -> 0 < s_supply s -> 0 < rate_of (s_tv s) (s_supply s) ->
  step s o = Ok s' ->
  2 * PREC * PREC * (s_tv s * s_supply s' - s_tv s' * s_supply s) <= s_supply s * step_slack s o.
Proof. exact step_share_value. Qed.
Print Assumptions C07_share_value_per_step.

(* the same on the code's own stored rate: r' > r - 1 - 10^-18 - step_slack/(2 P S') raw units ... *)
Theorem C07_rate_monotone_under_others : forall s o s',
  0 <= s_tv s -> 0 < s_supply s -> 0 < rate_of (s_tv s) (s_supply s) ->
  0 <= s_tv s' -> 0 < s_supply s' ->
  step s o = Ok s' ->
  2 * PREC * s_supply s' * (rate_of (s_tv s) (s_supply s) - rate_of (s_tv s') (s_supply s') - 1)
     < step_slack s o + 2 * s_supply s'.
Proof. exact step_code_rate. Qed.
Print Assumptions C07_rate_monotone_under_others.

(* ... and borrowing, repaying, accruing interest never lower the stored rate at all *)
Theorem C07_rate_nondecreasing_without_share_op : forall s o s',
  0 <= s_tv s -> 0 < s_supply s -> share_op o = false -> step s o = Ok s' ->
  s_supply s' = s_supply s /\ s_tv s <= s_tv s' /\
  rate_of (s_tv s) (s_supply s) <= rate_of (s_tv s') (s_supply s').
Proof. exact other_ops_rate_nondecreasing. Qed.
Print Assumptions C07_rate_nondecreasing_without_share_op.

(* The hypothesis "rate >= 1" (supply <= TotalValue) of the one-share statements is stable: every deposit keeps
   it at any size (and never mints more shares than base units paid in); every withdrawal of fewer than
   10^18 shares keeps it; interest only raises TotalValue. Above 10^18 shares it can be lost (sharpness). *)
Theorem C07_rate_ge_one_kept_by_bond : forall tv sup a, 0 < sup -> sup <= tv -> 0 <= a ->
  let sh := bond_shares tv sup a in 0 <= sh <= a /\ sup + sh <= tv + a.
Proof. exact bond_keeps_rate_ge_one. Qed.
Print Assumptions C07_rate_ge_one_kept_by_bond.

Theorem C07_rate_ge_one_kept_by_unbond : forall tv sup sh, 0 < sup -> sup <= tv -> 0 <= sh -> sh <= sup -> sh < PREC ->
  let p := unbond_payout tv sup sh in sup - sh <= tv - p.
Proof. exact unbond_keeps_rate_ge_one. Qed.
Print Assumptions C07_rate_ge_one_kept_by_unbond.

Theorem C07_rate_ge_one_unbond_sharp :
  let tv := 10000000000000000006 in let sup := 10000000000000000000 in let sh := 9000000000000000000 in
  0 < sup <= tv /\ 0 <= sh <= sup /\ tv - unbond_payout tv sup sh < sup - sh.
Proof. exact rate_ge_one_unbond_sharp. Qed.
Print Assumptions C07_rate_ge_one_unbond_sharp.

(* (3) The cap, exactly as the code decides it (LegacyDec Mul(9).Quo(10) is exact): a Borrow that
   returns Ok had (TV - cash) + amount <= 0.9 TV on the state it read; the post-state satisfies it up
   to a tenth of the interest the call itself stacked. *)
Theorem C07_cap_enforced : forall u amt i s s', borrow u amt i s = Ok s' ->
  0 < amt /\ 0 <= i /\
  10 * (s_tv s - s_cash s + amt) <= 9 * s_tv s /\
  s_tv s' = s_tv s + i /\ s_cash s' = s_cash s - amt /\ s_supply s' = s_supply s /\
  10 * (s_tv s' - s_cash s') <= 9 * s_tv s' + i /\
  a_borrowed (get_acct s' u) - a_borrowed (get_acct s u) = (if (u <? length (s_accts s))%nat then amt else 0).
Proof. exact borrow_cap. Qed.
Print Assumptions C07_cap_enforced.

Theorem C07_cap_refuses_above : forall u amt i s, 0 <= amt -> 0 <= i ->
  9 * s_tv s < 10 * (s_tv s - s_cash s + amt) -> borrow u amt i s = Err E_cap.
Proof. exact borrow_refused. Qed.
Print Assumptions C07_cap_refuses_above.

Theorem C07_cap_grants_within : forall u amt i s, 0 < amt -> 0 <= i -> 0 <= s_tv s ->
  10 * (s_tv s - s_cash s + amt) <= 9 * s_tv s -> exists s', borrow u amt i s = Ok s'.
Proof. exact borrow_granted. Qed.
Print Assumptions C07_cap_grants_within.

(* sharpness of the "+ i" above: the strict post-state form fails by exactly i/10 *)
Theorem C07_cap_after_own_interest_sharp :
  let s := mkS 1000 1000 200 [mkA 0 0 800 0 0] in
  exists s', borrow 0 100 10 s = Ok s' /\ 10 * (s_tv s' - s_cash s') = 9 * s_tv s' + 10.
Proof. exact cap_after_own_interest_sharp. Qed.
Print Assumptions C07_cap_after_own_interest_sharp.

(* (4) non-vacuity: a reachable state at a non-integral rate >= 1 with dust deposits and the cap boundary *)
Example C07_nonvacuous :
  let s0 := mkS 200000000000 200000000000 200000000000
               [mkA 1000000000000 0 0 0 0; mkA 800000000000 200000000000 0 0 0; mkA 1000000000000 0 0 0 0] in
  let s := run s0 [OBorrow 2 100000000000 0; OAccrue 2 1232876712; OBond 0 1; OBond 0 3; OUnbond 0 3; OUnbond 1 2;
                   OBorrow 2 79876712328 0; OBorrow 2 79876712327 0] in
  s_tv s = 201232876711 /\ s_supply s = 199999999999 /\ s_cash s = 20123287672 /\
  rate_of (s_tv s) (s_supply s) = 1006164383560030822 /\
  a_wallet (get_acct s 0) = 999999999999 /\ a_shares (get_acct s 0) = 1 /\
  a_borrowed (get_acct s 2) = 179876712327 /\
  0 < s_supply s <= s_tv s /\
  step s (OBorrow 2 1 0) = Err E_cap.
Proof. exact nonvacuous_example. Qed.
