(* C14, arithmetic tie: the Go function VestedSoFar, translated from the current source on every run
   (Generated/ArithC14.v), is the model function the C14 theorems are about. *)
From Coq Require Import ZArith.
From Elys Require Import Base.Res Models.Vesting Generated.ArithC14 Proofs.ArithTieC14.
Open Scope Z_scope.

Theorem C14_tie_VestedSoFar : forall (v : ventry) (h : Z),
  vested_so_far v h = Ok (VestedSoFar (v_num v) (v_start v) (v_total v) h).
Proof. exact tie_VestedSoFar. Qed.
Print Assumptions C14_tie_VestedSoFar.
