(* C10, arithmetic tie of the HEALTH formulas: the definitions translated from the current Go source on every run
   (Generated/ArithC10.v) are the functions of Models/Health.v the theorems C10_lev_* / C10_perp_* of Props/C10.v are about. *)
From Coq Require Import ZArith Bool.
From Elys Require Import Base.Res Base.Zdec Models.Health Generated.ArithC10 Proofs.ArithTieC10b.
Open Scope Z_scope.

Theorem C10_tie_Debt_total : forall b s p, total_debt b s p = Debt_total b p s.
Proof. exact tie_Debt_total. Qed.
Print Assumptions C10_tie_Debt_total.

Theorem C10_tie_lev_health : forall exit debt,
  lev_health exit debt = if LevHealth_noDebt debt then MAXSORT else LevHealth_value debt exit.
Proof. exact tie_lev_health. Qed.
Print Assumptions C10_tie_lev_health.

Theorem C10_tie_perp_health : forall position l u c e1 e2,
  position = 1 \/ position = 2 ->
  let long := position =? 1 in
  perp_health long l u c (Some e1) (Some e2) =
  if PerpHealth_noLiabilities l then Ok MAXSORT else
  if negb long && PerpHealth_shortNothingOwed e1 then Ok 0 else
  if PerpHealth_noCustody c then Ok 0 else
  if (if long then PerpHealth_total u l else e1) =? 0 then Panic P_quozero else
  Ok (PerpHealth_value u c l position e1 e2).
Proof. exact tie_perp_health. Qed.
Print Assumptions C10_tie_perp_health.
