(* C05 - Joining and exiting a pool cannot extract value from other liquidity providers.
   Only statements + [exact]; proofs in Proofs/AmmJoinExitProofs.v, model in Models/AmmJoinExit.v.
   R = reserves in PoolAssets order, S = total shares, all over unbounded Z. [enum amts] is a
   well-formed sdk.Coins value (one coin per pool asset, in denom order). The two [_prefix_refuted]
   theorems are about the code as it was before the two fix: commits 383287d and 1c2976e (the witnesses are
   replayed on the real application by harness/c05_test.go c05Corpus and must now be rejected). *)
From Coq Require Import ZArith List Bool.
From Elys Require Import Base.Res Base.Zdec Models.AmmJoinExit Proofs.AmmJoinExitProofs.
From Elys Require Models.AmmSwap Proofs.PowJoin.
From Elys Require Models.WeightFee Models.WeightFeeJoinExit Proofs.WeightFeeProofs Proofs.WeightFeeJoinExitProofs.
Import ListNotations.
Open Scope Z_scope.

(* All-asset join with the tokens given (MaximalExactRatioJoin): for EVERY asset the minted shares
   are worth at most what was joined (sh * R_i <= joined_i * S, no slack), joined_i <= offered_i, the
   book grows by exactly joined_i / sh, and the reserve per share of those left behind does not fall. *)
Theorem C05_join_shares_le_deposit : forall R S amts sh j R' S',
  Forall (fun r => 0 < r) R -> 0 <= S -> Forall (fun a => 0 <= a) amts ->
  join_coins R S (enum amts) = Ok (sh, j, R', S') ->
  length j = length R /\ S' = S + sh /\ 0 <= sh /\
  forall i, (i < length R)%nat ->
    sh * nth i R 0 <= nth i j 0 * S /\ 0 <= nth i j 0 <= nth i amts 0 /\
    nth i R' 0 = nth i R 0 + nth i j 0 /\
    nth i R 0 * S' <= nth i R' 0 * S.
Proof. exact join_tokens_le_deposit. Qed.
Print Assumptions C05_join_shares_le_deposit.

(* All-asset join for a requested number of shares (GetMaximalNoSwapLPAmount rounds the needed tokens
   up, JoinPool recomputes the shares from them rounding down): same guarantees, and never more than
   the quoted tokens is charged. *)
Theorem C05_join_requested_shares_le_deposit : forall R S so needed sh j R' S',
  Forall (fun r => 0 < r) R -> 0 <= S ->
  join_shares R S so = Ok (needed, (sh, j, R', S')) ->
  length j = length R /\ S' = S + sh /\ 0 <= sh /\
  forall i, (i < length R)%nat ->
    sh * nth i R 0 <= nth i j 0 * S /\ 0 <= nth i j 0 <= nth i needed 0 /\
    nth i R' 0 = nth i R 0 + nth i j 0 /\
    nth i R 0 * S' <= nth i R' 0 * S.
Proof. exact join_shares_le_deposit. Qed.
Print Assumptions C05_join_requested_shares_le_deposit.

(* Pro-rata exit: out_i * S <= sh * R_i for every asset, the book falls by exactly out_i / sh, at least
   one unit of every reserve and one share stay, the reserve per share of those left behind does not fall. *)
Theorem C05_exit_le_prorata : forall R S sh outs R' S',
  Forall (fun r => 0 < r) R -> 0 <= sh ->
  exit_prorata R S sh = Ok (outs, R', S') ->
  S' = S - sh /\ 1 <= S' /\
  forall i, (i < length R)%nat ->
    0 <= nth i outs 0 /\ nth i outs 0 * S <= sh * nth i R 0 /\
    nth i R' 0 = nth i R 0 - nth i outs 0 /\ 1 <= nth i R' 0 /\
    nth i R 0 * S' <= nth i R' 0 * S.
Proof. exact exit_le_prorata. Qed.
Print Assumptions C05_exit_le_prorata.

(* Join (either form), then exit any part of the shares just minted: asset by asset at most what was
   deposited comes back - exactly, the arithmetic leaves no slack at all. *)
Theorem C05_join_then_exit_le_deposit : forall R S amts sh j R' S' t outs R'' S'',
  Forall (fun r => 0 < r) R -> 0 <= S -> Forall (fun a => 0 <= a) amts ->
  join_coins R S (enum amts) = Ok (sh, j, R', S') -> 0 <= t <= sh ->
  exit_prorata R' S' t = Ok (outs, R'', S'') ->
  forall i, (i < length R)%nat -> nth i outs 0 <= nth i j 0 <= nth i amts 0.
Proof. exact join_tokens_then_exit. Qed.
Print Assumptions C05_join_then_exit_le_deposit.

Theorem C05_join_requested_then_exit_le_deposit : forall R S so needed sh j R' S' t outs R'' S'',
  Forall (fun r => 0 < r) R -> 0 <= S ->
  join_shares R S so = Ok (needed, (sh, j, R', S')) -> 0 <= t <= sh ->
  exit_prorata R' S' t = Ok (outs, R'', S'') ->
  forall i, (i < length R)%nat -> nth i outs 0 <= nth i j 0 <= nth i needed 0.
Proof. exact join_shares_then_exit. Qed.
Print Assumptions C05_join_requested_then_exit_le_deposit.

(* An exit accepted by the keeper (0 < shares < total) never empties a reserve nor burns all shares. *)
Theorem C05_exit_never_empties : forall R S sh outs R' S',
  Forall (fun r => 1 <= r) R ->
  keeper_exit R S sh = Ok (outs, R', S') ->
  1 <= S' /\ length R' = length R /\ Forall (fun r => 1 <= r) R'.
Proof. exact exit_never_empties. Qed.
Print Assumptions C05_exit_never_empties.

(* Every history of well-formed all-asset joins (both forms) and exits, failed transactions included,
   any length: for every asset the reserve per share never ends below where it started
   (R_i * S_final <= R_i_final * S), reserves and supply stay >= 1. *)
Theorem C05_value_per_share_monotone : forall R S ops,
  Forall (fun r => 0 < r) R -> 0 < S ->
  let s' := run (R, S) ops in
  Forall (fun r => 1 <= r) (fst s') /\ 1 <= snd s' /\ length (fst s') = length R /\
  forall i, (i < length R)%nat -> nth i R 0 * snd s' <= nth i (fst s') 0 * S.
Proof. exact value_per_share_history. Qed.
Print Assumptions C05_value_per_share_monotone.

(* Oracle pool, single-sided join: with jv the joined value, T the pool's TVL and wbf the weight-breaking
   fee as computed by the implementation (raw 18-decimal integers), the minted shares are worth at most
   the joined value plus one share unit (RoundInt). *)
Theorem C05_oracle_join_value : forall S jv T wbf,
  0 <= S -> 0 <= jv -> 0 < T -> 0 <= wbf <= PREC ->
  0 <= oracle_join_shares S jv T wbf /\ oracle_join_shares S jv T wbf * T <= S * jv + T.
Proof. exact oracle_join_value. Qed.
Print Assumptions C05_oracle_join_value.

(* Oracle pool, single-sided exit: the amount paid is worth at most the pro-rata share of the TVL plus
   one base unit of the asset (+ 10^-18 of value); the fee only reduces it. *)
Theorem C05_oracle_exit_value : forall T S sh p wbf,
  0 <= T -> 0 < S -> 0 <= sh -> 0 < p -> 0 <= wbf <= PREC ->
  let '(pre, out) := oracle_exit_out T S sh p wbf in
  0 <= out <= pre /\ out * p * S <= T * sh + S * (p + 1).
Proof. exact oracle_exit_value. Qed.
Print Assumptions C05_oracle_exit_value.

(* The tokens of an all-asset join are USER input that MsgJoinPool.ValidateBasic checks coin by coin only
   (unsorted lists, repeated denoms and zero amounts get through, and for oracle pools the list is handed
   to Pool.JoinPool as it is). For EVERY such list that the join accepts, the list is a well-formed coin
   set (one coin per pool asset, pool order) and the guarantees of C05_join_shares_le_deposit hold. *)
Theorem C05_join_user_coins_le_deposit : forall R S (t : list coin) sh j R' S',
  Forall (fun r => 0 < r) R -> 0 <= S -> Forall (fun c : coin => 0 <= snd c) t ->
  join_coins R S t = Ok (sh, j, R', S') ->
  t = enum (map snd t) /\
  length j = length R /\ S' = S + sh /\ 0 <= sh /\
  forall i, (i < length R)%nat ->
    sh * nth i R 0 <= nth i j 0 * S /\ 0 <= nth i j 0 <= nth i (map snd t) 0 /\
    nth i R' 0 = nth i R 0 + nth i j 0 /\
    nth i R 0 * S' <= nth i R' 0 * S.
Proof. exact join_user_coins_le_deposit. Qed.
Print Assumptions C05_join_user_coins_le_deposit.

Theorem C05_join_duplicate_denom_rejected : forall R S t,
  has_dup t = true -> is_ok (join_coins R S t) = false.
Proof. exact join_duplicate_denom_rejected. Qed.
Print Assumptions C05_join_duplicate_denom_rejected.

(* Single-sided exit of an oracle pool, for all inputs (TVL, prices, accounted balances, fee): an accepted
   exit books exactly reserve - out for the exit asset, leaves the other reserves alone, and leaves every
   reserve >= 1 and at least one share. *)
Theorem C05_oracle_exit_never_empties : forall R S sh k acc prices weights wbf out R' S',
  exit_oracle R S sh k acc prices weights wbf = Ok (out, R', S') ->
  sh < S /\ S' = S - sh /\ length R' = length R /\ Forall (fun r => 1 <= r) R' /\
  ((k < length R)%nat -> nth k R' 0 = nth k R 0 - out) /\
  (forall i, (i < length R)%nat -> i <> k -> nth i R' 0 = nth i R 0).
Proof. exact oracle_exit_never_empties. Qed.
Print Assumptions C05_oracle_exit_never_empties.

(* REFUTED for the code BEFORE fix: 383287d (join_coins_prefix = CalcJoinPoolNoSwapShares without the
   repeated-denom check): with a duplicated denom the shares are worth more than the deposit, and
   join + exit takes value out of the other LPs. Replayed on the real application by c05Corpus()[0],
   which must now be REJECTED. *)
Theorem C05_join_duplicate_denom_prefix_refuted :
  exists sh j R' S' outs R'' S'',
    Forall (fun r => 0 < r) dup_R /\ coins_sorted dup_tokens = true /\
    join_coins_prefix dup_R dup_S dup_tokens = Ok (sh, j, R', S') /\
    nth 0 j 0 = 0 /\ nth 1 j 0 = 100000000 /\
    ~ (sh * nth 0 dup_R 0 <= nth 0 j 0 * dup_S) /\
    exit_prorata R' S' sh = Ok (outs, R'', S'') /\
    5 * nth 0 outs 0 + nth 1 outs 0 > 5 * nth 0 j 0 + nth 1 j 0 + 24900000 /\
    nth 0 dup_R 0 * S'' > nth 0 R'' 0 * dup_S.
Proof. exact join_duplicate_denom_refuted. Qed.
Print Assumptions C05_join_duplicate_denom_prefix_refuted.

(* REFUTED for the code BEFORE fix: 1c2976e (processExitPool without the emptied-reserve check): the whole
   reserve is paid out (without weight-breaking fee) and the pool keeps booking the old amount. *)
Theorem C05_oracle_exit_never_empties_prefix_refuted :
  exists out R' S',
    exit_oracle_prefix drain_R drain_S 100000000000000000000000 1 [0; 0]
                [5000000000000000000; 1000000000000000000] [10737418240; 10737418240] 0 = Ok (out, R', S') /\
    out = nth 1 drain_R 0 /\ nth 1 drain_R 0 - out = 0 /\ nth 1 R' 0 = nth 1 drain_R 0 /\
    S' = 100000000000000000000000.
Proof. exact oracle_exit_drains_reserve_refuted. Qed.
Print Assumptions C05_oracle_exit_never_empties_prefix_refuted.

(* PARTIAL: single-asset join of a weighted (non-oracle) pool. Pow is not modelled; its result pw is an
   input. Full statement (not proved): with the real y^w in place of pw, (B+a)^w * S <= B^w * (S + shares)
   up to the 1e-8 relative precision of powerApproximation. Proved: whenever the implementation's
   pw = Pow(y, w) does not exceed its base y, shares * B <= S * a + S * B / 10^18. *)
Theorem C05_single_asset_join_partial : forall B w tw a fee S pw,
  0 < B -> 0 <= a -> 0 <= S -> 0 <= fee <= PREC -> 0 <= w <= tw -> 0 < tw ->
  PREC <= pw <= single_join_y B w tw a fee ->
  0 <= single_join_shares S pw /\
  single_join_shares S pw * B * PREC <= S * (a * PREC + B).
Proof. exact single_join_le_deposit. Qed.
Print Assumptions C05_single_asset_join_partial.

(* The same WITHOUT the hypothesis, for the cases in which the range of Pow is proved from its exact model
   (Models/AmmSwap.v [pow], the model the C03 harness replays against the Go Pow; Proofs/PowSeries.v, Proofs/PowJoin.v):
     - w = tw   (normalized weight 1: Pow(y,1) = y),
     - tw = 2w  (two equal weights: normalized weight 1/2, ApproxSqrt; Newton iterates stay in [1,y]),
     - w = 0    (Pow(y,0) = 1: no shares),
     - any weights when y < 2, i.e. the deposit after fee is smaller than the reserve (Maclaurin series: alternating with
       non-increasing terms, every partial sum in [1, 1 + wn*(y-1)]).
   Then 1 <= Pow(y,wn) <= y and shares*B*10^18 <= S*(a*10^18 + B). NOT covered: y >= 2 with another weight (ln/exp method). *)
Theorem C05_single_asset_join : forall B w tw a fee S pw,
  0 < B -> 0 <= a -> 0 <= S -> 0 <= fee <= PREC -> 0 <= w <= tw -> 0 < tw ->
  AmmSwap.pow (single_join_y B w tw a fee) (single_join_wn w tw) = Ok pw ->
  (w = tw \/ tw = 2 * w \/ w = 0 \/ single_join_y B w tw a fee < AmmSwap.TWO) ->
  PREC <= pw <= single_join_y B w tw a fee /\
  0 <= single_join_shares S pw /\
  single_join_shares S pw * B * PREC <= S * (a * PREC + B).
Proof. exact PowJoin.single_join_le_deposit_pow. Qed.
Print Assumptions C05_single_asset_join.

(* non-vacuity of C05_single_asset_join: normalized weights 1/2 (square root), 1/4 (series, y < 2) and 1 on a reserve
   of 30e9 with 1e9 in at 0.3%: Pow succeeds and shares are minted *)
Example C05_single_asset_join_nonvacuous :
  exists pw1 pw2 pw3,
    AmmSwap.pow (single_join_y 30000000000 1 2 1000000000 3000000000000000) (single_join_wn 1 2) = Ok pw1 /\
    AmmSwap.pow (single_join_y 30000000000 1 4 1000000000 3000000000000000) (single_join_wn 1 4) = Ok pw2 /\
    AmmSwap.pow (single_join_y 30000000000 1 1 1000000000 3000000000000000) (single_join_wn 1 1) = Ok pw3 /\
    0 < single_join_shares 60000000000000000000000 pw1 /\
    0 < single_join_shares 60000000000000000000000 pw2 /\
    single_join_y 30000000000 1 4 1000000000 3000000000000000 < AmmSwap.TWO.
Proof. exact PowJoin.single_join_nonvacuous. Qed.

(* non-vacuity: a reachable pool, both join forms and an exit succeed and satisfy the hypotheses *)
Example C05_nonvacuous :
  let s := run ([30000000000; 10000000000], 60000000000000000000000)
               [OJoinShares 1000000000000; OJoinTokens [3000001; 1000000]; OExit 500000000000; OExit 0;
                OExit 70000000000000000000000] in
  s = ([30003000001; 10001000001], 60006000001499599979997).
Proof. vm_compute. reflexivity. Qed.

(* ---------- oracle single-sided join / exit with the WEIGHT-BREAKING FEE COMPUTED BY THE MODEL ----------
   [join_oracle_wf] / [exit_oracle_wf] (Models/WeightFeeJoinExit.v) are the whole oracle branch of Pool.JoinPool / CalcExitPool +
   processExitPool incl. WeightDistanceFromTarget before and after, GetWeightBreakingFee and the bonus decision; the fee no
   longer is an input. prm = (multiplier, exponent, portion, threshold); [exp_int_or_half]: exponent >= 0 with fractional part 0
   or 1/2 (the chain's 2.5). The fee lies in [0, 0.99], so C05_oracle_join_value / C05_oracle_exit_value /
   C05_oracle_exit_never_empties apply to the whole functions. *)
Theorem C05_oracle_join_value_with_fee : forall R S k amt acc prices weights prm sh R' S' bonus,
  0 <= WeightFee.wp_mult prm -> WeightFeeProofs.exp_int_or_half (WeightFee.wp_exp prm) -> 0 <= WeightFee.wp_portion prm ->
  0 <= S -> 0 <= amt -> 0 <= nth k prices 0 ->
  WeightFeeJoinExit.join_oracle_wf R S k amt acc prices weights prm = Ok (sh, R', S', bonus) ->
  exists T, tvl R acc prices weights = Ok T /\
    (0 < T -> 0 <= sh /\ sh * T <= S * dmul (nth k prices 0) (dec_of_int amt) + T) /\
    bonus <= dmul WeightFee.WBF_CAP (WeightFee.wp_portion prm).
Proof. exact WeightFeeJoinExitProofs.join_oracle_wf_value_exp. Qed.
Print Assumptions C05_oracle_join_value_with_fee.

Theorem C05_oracle_join_with_fee_is_join : forall R S k amt acc prices weights prm sh R' S' bonus,
  0 <= WeightFee.wp_mult prm -> WeightFeeProofs.exp_int_or_half (WeightFee.wp_exp prm) -> 0 <= WeightFee.wp_portion prm ->
  WeightFeeJoinExit.join_oracle_wf R S k amt acc prices weights prm = Ok (sh, R', S', bonus) ->
  exists wbf, 0 <= wbf <= WeightFee.WBF_CAP /\ (bonus <= 0 -> bonus = - wbf) /\
    join_oracle R S k amt acc prices weights wbf = Ok (sh, R', S').
Proof. exact WeightFeeJoinExitProofs.join_oracle_wf_is_join_oracle. Qed.
Print Assumptions C05_oracle_join_with_fee_is_join.

(* exit: paid value <= pro-rata value + one unit, and an exit NEVER earns a bonus (the code returns - fee) *)
Theorem C05_oracle_exit_value_with_fee : forall R S sh k acc prices weights prm out R' S' bonus,
  0 <= WeightFee.wp_mult prm -> WeightFeeProofs.exp_int_or_half (WeightFee.wp_exp prm) ->
  0 <= sh -> 0 < nth k prices 0 ->
  WeightFeeJoinExit.exit_oracle_wf R S sh k acc prices weights prm = Ok (out, R', S', bonus) ->
  exists T, tvl R acc prices weights = Ok T /\
    (0 <= T -> 0 <= out /\ out * nth k prices 0 * S <= T * sh + S * (nth k prices 0 + 1)) /\
    bonus <= 0.
Proof. exact WeightFeeJoinExitProofs.exit_oracle_wf_value_exp. Qed.
Print Assumptions C05_oracle_exit_value_with_fee.

Theorem C05_oracle_exit_with_fee_is_exit : forall R S sh k acc prices weights prm out R' S' bonus,
  0 <= WeightFee.wp_mult prm -> WeightFeeProofs.exp_int_or_half (WeightFee.wp_exp prm) ->
  WeightFeeJoinExit.exit_oracle_wf R S sh k acc prices weights prm = Ok (out, R', S', bonus) ->
  exists wbf, 0 <= wbf <= WeightFee.WBF_CAP /\ bonus = - wbf /\ exit_oracle R S sh k acc prices weights wbf = Ok (out, R', S').
Proof. exact WeightFeeJoinExitProofs.exit_oracle_wf_is_exit_oracle. Qed.
Print Assumptions C05_oracle_exit_with_fee_is_exit.
