(* C13, arithmetic tie: the per-coin amount of ammkeeper.PortionCoins and the values UpdateAccPerShare /
   UpdateUserRewardPending / UpdateUserRewardDebt store, translated from the current Go source on every run
   (Generated/ArithC13.v), are the model's [portion_coin], [credit] and [checkpoint] arithmetic. *)
From Coq Require Import ZArith.
From Elys Require Import Base.Res Base.Zdec Models.Chef Generated.ArithC13 Proofs.ArithTieC13.
Open Scope Z_scope.

Theorem C13_tie_PortionCoins_amount : forall a portion : Z,
  PortionCoins_amount portion a = portion_coin a portion.
Proof. exact tie_PortionCoins_amount. Qed.
Print Assumptions C13_tie_PortionCoins_amount.

Theorem C13_tie_UpdateAccPerShare_acc : forall (pid c a : Z) (found : bool) (tot : Z),
  UpdateAccPerShare_acc pid c a found tot = (if found then a else 0) + dquo_int (dec_of_int (c * ONE)) tot.
Proof. exact tie_UpdateAccPerShare_acc. Qed.
Print Assumptions C13_tie_UpdateAccPerShare_acc.

Theorem C13_tie_UpdateUserRewardPending_pending : forall (pid : Z) (is_deposit : bool) (amt acc : Z) (foundP : bool)
    (debt pend : Z) (foundU : bool) (bal : Z),
  UpdateUserRewardPending_pending pid is_deposit amt acc foundP debt pend foundU bal =
  (if foundU then pend else 0) +
  dquo_int (dmul_int (if foundP then acc else 0) (if is_deposit then bal - amt else bal + amt) - (if foundU then debt else 0)) ONE.
Proof. exact tie_UpdateUserRewardPending_pending. Qed.
Print Assumptions C13_tie_UpdateUserRewardPending_pending.

Theorem C13_tie_UpdateUserRewardDebt_debt : forall (pid acc : Z) (foundP foundU : bool) (bal : Z),
  UpdateUserRewardDebt_debt pid acc foundP foundU bal = dmul (if foundP then acc else 0) (dec_of_int bal).
Proof. exact tie_UpdateUserRewardDebt_debt. Qed.
Print Assumptions C13_tie_UpdateUserRewardDebt_debt.

Theorem C13_tie_credit_uses_generated : forall (s : state) (p d : nat) (c pid : Z),
  tot s p <> 0 ->
  acc (credit s p d c) p d = UpdateAccPerShare_acc pid c (acc s p d) true (tot s p).
Proof. exact tie_credit_uses_generated. Qed.
Print Assumptions C13_tie_credit_uses_generated.

Theorem C13_tie_checkpoint_uses_generated : forall (s : state) (u p d : nat) (bold pid : Z),
  is_rden s p d = true ->
  pend (checkpoint s u p bold) u p d =
    UpdateUserRewardPending_pending pid true 0 (acc s p d) true (debt s u p d) (pend s u p d) true bold /\
  debt (checkpoint s u p bold) u p d =
    UpdateUserRewardDebt_debt pid (acc s p d) true true (bal s u p).
Proof. exact tie_checkpoint_uses_generated. Qed.
Print Assumptions C13_tie_checkpoint_uses_generated.
