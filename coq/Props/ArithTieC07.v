(* C07 (and C06), arithmetic tie: the redemption rate, the shares minted by Bond, the amount paid by Unbond
   and the 90% cap test of Borrow, translated from the current Go source on every run (Generated/ArithC07.v),
   are the model functions the C07 theorems are about. *)
From Coq Require Import ZArith.
From Elys Require Import Base.Res Base.Zdec Models.Stable Generated.ArithC07 Proofs.ArithTieC07.
Open Scope Z_scope.

Theorem C07_tie_GetRedemptionRate : forall tv sup : Z, GetRedemptionRate tv sup = rate_of tv sup.
Proof. exact tie_GetRedemptionRate. Qed.
Print Assumptions C07_tie_GetRedemptionRate.

Theorem C07_tie_Bond_shareAmount : forall tv sup amt : Z,
  Bond_shareAmount amt (GetRedemptionRate tv sup) = bond_shares tv sup amt.
Proof. exact tie_Bond_shareAmount. Qed.
Print Assumptions C07_tie_Bond_shareAmount.

Theorem C07_tie_Unbond_redemptionAmount : forall tv sup sh : Z,
  Unbond_redemptionAmount sh (GetRedemptionRate tv sup) = unbond_payout tv sup sh.
Proof. exact tie_Unbond_redemptionAmount. Qed.
Print Assumptions C07_tie_Unbond_redemptionAmount.

Theorem C07_tie_Borrow_overCap : forall tv cash amt : Z,
  Borrow_overCap amt tv cash = (cap_max tv <? cap_borrowed tv cash amt).
Proof. exact tie_Borrow_overCap. Qed.
Print Assumptions C07_tie_Borrow_overCap.

Theorem C07_tie_bond_uses_generated : forall u amt s s',
  bond u amt s = Ok s' ->
  s_supply s' = s_supply s + Bond_shareAmount amt (GetRedemptionRate (s_tv s) (s_supply s)) /\
  s_tv s' = s_tv s + amt.
Proof. exact tie_bond_uses_generated. Qed.
Print Assumptions C07_tie_bond_uses_generated.

Theorem C07_tie_unbond_uses_generated : forall u sh s s',
  unbond u sh s = Ok s' ->
  s_tv s' = s_tv s - Unbond_redemptionAmount sh (GetRedemptionRate (s_tv s) (s_supply s)) /\
  s_supply s' = s_supply s - sh.
Proof. exact tie_unbond_uses_generated. Qed.
Print Assumptions C07_tie_unbond_uses_generated.

Theorem C07_tie_Repay_negativeBorrowed : forall amt borrowed paid stacked : Z,
  Repay_negativeBorrowed amt borrowed paid stacked = (repay_left amt borrowed paid stacked <? 0).
Proof. exact tie_Repay_negativeBorrowed. Qed.
Print Assumptions C07_tie_Repay_negativeBorrowed.

Theorem C07_tie_repay_uses_generated : forall u amt i s,
  0 < amt -> 0 <= i -> amt <= a_wallet (get_acct s u) ->
  Repay_negativeBorrowed amt (a_borrowed (get_acct s u)) (a_paid (get_acct s u)) (a_stacked (get_acct s u) + i) = true ->
  repay u amt i s = Err E_negborrowed.
Proof. exact tie_repay_uses_generated. Qed.
Print Assumptions C07_tie_repay_uses_generated.
