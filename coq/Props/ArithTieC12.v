(* C12, arithmetic tie: the per-entry / per-lock-up tests and values of Commitments.DeductFromCommitted, AddCommittedTokens and
   CommittedTokensLocked, translated from the current Go source on every run (Generated/ArithC12.v), are the tests and
   values of the model functions the C12 theorems are about (deduct_committed, add_committed, keep_lock, locked_sum). *)
From Coq Require Import ZArith List Bool.
From Elys Require Import Base.Res Base.Zdec Base.U64 Models.Commit Generated.ArithC12 Proofs.ArithTieC12.
Import ListNotations.
Open Scope Z_scope.

Theorem C12_tie_Deduct_keepLock : forall amt now liq k,
  Deduct_keepLock amt now liq (l_unlock k) = keep_lock now liq k.
Proof. exact tie_Deduct_keepLock. Qed.
Print Assumptions C12_tie_Deduct_keepLock.

Theorem C12_tie_Deduct_locked_sum : forall amt now liq ls,
  fold_left (fun a k => if Deduct_keepLock amt now liq (l_unlock k) then Deduct_lockedStep amt now liq a (l_amt k) else a) ls
            (Deduct_lockedInit amt now liq)
  = locked_sum (filter (keep_lock now liq) ls).
Proof. exact tie_Deduct_locked_sum. Qed.
Print Assumptions C12_tie_Deduct_locked_sum.

Theorem C12_tie_deduct_committed_entry : forall d amt now liq t r,
  (t_denom t =? d) = true ->
  deduct_committed d amt now liq (t :: r) =
  if Deduct_insufficientCommitted amt now liq (t_amt t) then Err E_insufficient_committed else
  let nl := filter (keep_lock now liq) (t_locks t) in
  if Deduct_insufficientWithdrawable amt now liq (t_amt t) (locked_sum nl) then Err E_insufficient_withdrawable else
  if Deduct_removeEntry amt now liq (t_amt t) then Ok r
  else Ok (mkT (t_denom t) (Deduct_newAmount amt now liq (t_amt t)) nl :: r).
Proof. exact tie_deduct_committed_entry. Qed.
Print Assumptions C12_tie_deduct_committed_entry.

Theorem C12_tie_Deduct_tests : forall amt now liq a L,
  Deduct_insufficientCommitted amt now liq a = (a - amt <? 0) /\
  Deduct_insufficientWithdrawable amt now liq a L = (a - amt <? L) /\
  Deduct_removeEntry amt now liq a = (a - amt =? 0) /\
  Deduct_newAmount amt now liq a = a - amt.
Proof. exact tie_Deduct_tests. Qed.
Print Assumptions C12_tie_Deduct_tests.

Theorem C12_tie_add_committed_entry : forall d amt unlock t r,
  (t_denom t =? d) = true ->
  add_committed d amt unlock (t :: r) =
  mkT (t_denom t) (AddCommitted_newAmount amt unlock (t_amt t))
      (if AddCommitted_withLock amt unlock then t_locks t ++ [mkLk amt unlock] else t_locks t) :: r.
Proof. exact tie_add_committed_entry. Qed.
Print Assumptions C12_tie_add_committed_entry.

Theorem C12_tie_add_committed_new : forall d amt unlock,
  add_committed d amt unlock [] = [mkT d amt (if AddCommitted_withLockNew amt unlock then [mkLk amt unlock] else [])].
Proof. exact tie_add_committed_new. Qed.
Print Assumptions C12_tie_add_committed_new.

Theorem C12_tie_Locked_isLocked : forall now k, 0 <= now < U64M ->
  Locked_isLocked now (l_unlock k) = keep_lock now false k.
Proof. exact tie_Locked_isLocked. Qed.
Print Assumptions C12_tie_Locked_isLocked.

Theorem C12_tie_Locked_sum : forall now ls, 0 <= now < U64M ->
  fold_left (fun a k => if Locked_isLocked now (l_unlock k) then Locked_step a (l_amt k) else a) ls 0
  = locked_sum (filter (keep_lock now false) ls).
Proof. exact tie_Locked_sum. Qed.
Print Assumptions C12_tie_Locked_sum.
