(* C11 - Accounted pool balance = pool holdings + perpetual liabilities - custody. Statements only. *)
From Coq Require Import ZArith List Bool.
From Elys Require Import Base.Res Models.AccPool Proofs.AccPoolProofs Proofs.AccPoolExact.
Import ListNotations.
Open Scope Z_scope.

(* For EVERY history of code paths that follow the hook discipline (amm-only changes fire the amm hook
   with the updated pool; every change of perpetual totals fires a perpetual hook with freshly read
   pools), whatever the new reserve / liabilities / custody values are: accounted total = reserve +
   liabilities - custody and non-amm part = liabilities - custody. *)
Theorem C11_accounted : forall h s, AInv s -> disciplined_run s h -> AInv (accrun s h).
Proof. exact accrun_inv. Qed.
Print Assumptions C11_accounted.

(* the step the correspondence check uses (hook chosen as the fixed code chooses it) keeps the invariant
   for every sequence of observed source-record values *)
Theorem C11_fixed_discipline_sound : forall l s, AInv s ->
  AInv (fold_left (fun s '(R', L', C') => fixed_step s R' L' C') l s).
Proof. exact fixed_run_inv. Qed.
Print Assumptions C11_fixed_discipline_sound.

(* The discipline is NECESSARY as well as sufficient. From a consistent accounted pool, a code path leaves it consistent IF
   AND ONLY IF: it fires a perpetual hook with freshly read pools; or it fires the amm hook and liabilities - custody did
   not move; or it passes a stale amm pool and the reserve did not move; or it fires no hook and neither the reserve nor
   liabilities - custody moved. Every one-sided update (a source record moved without the matching hook, a hook fed a
   value read before the transfer) breaks the equation - for all values. *)
Theorem C11_consistent_iff_discipline : forall s o, AInv s -> (AInv (accstep s o) <-> needed s o).
Proof. exact accstep_inv_iff. Qed.
Print Assumptions C11_consistent_iff_discipline.

(* ... over whole histories: consistent after every step iff every step met the condition. *)
Theorem C11_history_consistent_iff : forall h s, AInv s -> (inv_along s h <-> needed_run s h).
Proof. exact inv_along_iff. Qed.
Print Assumptions C11_history_consistent_iff.

(* the discipline of C11_accounted implies the necessary condition (it is the special case in which the code changes
   nothing it does not report) *)
Theorem C11_disciplined_is_needed : forall s o, disciplined s o -> needed s o.
Proof. exact disciplined_needed. Qed.
Print Assumptions C11_disciplined_is_needed.

(* A fresh accounted pool (created with the amm pool, no perpetual totals yet) is consistent: the histories of
   C11_accounted start from a state that exists. *)
Theorem C11_fresh_pool_consistent : forall R, AInv (mkAcc R 0 0 R 0).
Proof. exact fresh_pool_inv. Qed.
Print Assumptions C11_fresh_pool_consistent.

(* What the two hooks write, exactly, and what they must not touch (the three source records). *)
Theorem C11_perp_hook_exact : forall s Ra La Ca,
  a_T (perp_hook s Ra La Ca) = Ra + La - Ca /\ a_N (perp_hook s Ra La Ca) = La - Ca /\
  a_R (perp_hook s Ra La Ca) = a_R s /\ a_L (perp_hook s Ra La Ca) = a_L s /\ a_C (perp_hook s Ra La Ca) = a_C s.
Proof. exact perp_hook_exact. Qed.
Print Assumptions C11_perp_hook_exact.

Theorem C11_amm_hook_exact : forall s Ra,
  a_T (amm_hook s Ra) = Ra + a_N s /\ a_N (amm_hook s Ra) = a_N s /\
  a_R (amm_hook s Ra) = a_R s /\ a_L (amm_hook s Ra) = a_L s /\ a_C (amm_hook s Ra) = a_C s.
Proof. exact amm_hook_exact. Qed.
Print Assumptions C11_amm_hook_exact.

(* The pinned commit violated the discipline at two sites (both repaired by fix: commits). *)
Theorem C11_prefix_stale_open_refuted :
  let s := mkAcc 5000000 0 0 5000000 0 in
  AInv s /\ ~ AInv (accstep s (AChange 5001000 2000 0 HPerpStaleAmm)) /\
  a_N (accstep s (AChange 5001000 2000 0 HPerpStaleAmm)) = 2000.
Proof. exact prefix_stale_open_refuted. Qed.
Print Assumptions C11_prefix_stale_open_refuted.

Theorem C11_prefix_settle_without_hook_refuted :
  let s := mkAcc 5001000 2000 900 5002100 1100 in
  AInv s /\ ~ AInv (accstep s (AChange 5000990 2000 890 HNone)).
Proof. exact prefix_settle_without_hook_refuted. Qed.
Print Assumptions C11_prefix_settle_without_hook_refuted.

Example C11_nonvacuous :
  let s := accrun (mkAcc 100 0 0 100 0) [AChange 150 0 0 HAmmFresh; AChange 160 30 12 HPerpFresh; AChange 140 30 12 HAmmFresh; AChange 139 30 11 HPerpFresh] in
  a_T s = 158 /\ a_N s = 19.
Proof. vm_compute. split; reflexivity. Qed.
