(* C11 - Accounted pool balance = pool holdings + perpetual liabilities - custody. Statements only. *)
From Coq Require Import ZArith List Bool.
From Elys Require Import Base.Res Models.AccPool Proofs.AccPoolProofs.
Import ListNotations.
Open Scope Z_scope.

(* For EVERY history of code paths that follow the hook discipline (amm-only changes fire the amm hook
   with the updated pool; every change of perpetual totals fires a perpetual hook with freshly read
   pools), whatever the new reserve / liabilities / custody values are: accounted total = reserve +
   liabilities - custody and non-amm part = liabilities - custody. *)
Theorem C11_accounted : forall h s, AInv s -> disciplined_run s h -> AInv (accrun s h).
Proof. exact accrun_inv. Qed.
Print Assumptions C11_accounted.

(* the step the correspondence check uses (hook chosen as the fixed code chooses it) keeps the invariant
   for every sequence of observed source-record values *)
Theorem C11_fixed_discipline_sound : forall l s, AInv s ->
  AInv (fold_left (fun s '(R', L', C') => fixed_step s R' L' C') l s).
Proof. exact fixed_run_inv. Qed.
Print Assumptions C11_fixed_discipline_sound.

(* The pinned commit violated the discipline at two sites (both repaired by fix: commits). *)
Theorem C11_prefix_stale_open_refuted :
  let s := mkAcc 5000000 0 0 5000000 0 in
  AInv s /\ ~ AInv (accstep s (AChange 5001000 2000 0 HPerpStaleAmm)) /\
  a_N (accstep s (AChange 5001000 2000 0 HPerpStaleAmm)) = 2000.
Proof. exact prefix_stale_open_refuted. Qed.
Print Assumptions C11_prefix_stale_open_refuted.

Theorem C11_prefix_settle_without_hook_refuted :
  let s := mkAcc 5001000 2000 900 5002100 1100 in
  AInv s /\ ~ AInv (accstep s (AChange 5000990 2000 890 HNone)).
Proof. exact prefix_settle_without_hook_refuted. Qed.
Print Assumptions C11_prefix_settle_without_hook_refuted.

Example C11_nonvacuous :
  let s := accrun (mkAcc 100 0 0 100 0) [AChange 150 0 0 HAmmFresh; AChange 160 30 12 HPerpFresh; AChange 140 30 12 HAmmFresh; AChange 139 30 11 HPerpFresh] in
  a_T s = 158 /\ a_N s = 19.
Proof. vm_compute. split; reflexivity. Qed.
