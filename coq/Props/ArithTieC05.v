(* C05, arithmetic tie: the kernels of the all-asset join (MaximalExactRatioJoin), of the pro-rata exit (CalcExitPool) and of the
   oracle single-sided join / exit, translated from the current Go source on every run (Generated/ArithC05.v), are the
   model functions the C05 theorems are about (ratio_of, min/max ratio, shares_of, used_amt, eff, exit_amt, oracle_exit_out,
   oracle_join_shares). *)
From Coq Require Import ZArith List Bool.
From Elys Require Import Base.Res Base.Zdec Models.AmmJoinExit Generated.ArithC05 Proofs.ArithTieC05.
Import ListNotations.
Open Scope Z_scope.

Theorem C05_tie_MERJ_shareRatio : forall (R : list Z) (c : coin),
  MERJ_shareRatio (rsv R (fst c)) (snd c) = ratio_of R c.
Proof. exact tie_MERJ_shareRatio. Qed.
Print Assumptions C05_tie_MERJ_shareRatio.

Theorem C05_tie_MERJ_min_step : forall r m a,
  (if MERJ_isNewMin r m a then MERJ_shareRatio r a else m) = Z.min m (MERJ_shareRatio r a).
Proof. exact tie_MERJ_min_step. Qed.
Print Assumptions C05_tie_MERJ_min_step.

Theorem C05_tie_MERJ_max_step : forall r m a,
  (if MERJ_isNewMax r m a then MERJ_shareRatio r a else m) = Z.max m (MERJ_shareRatio r a).
Proof. exact tie_MERJ_max_step. Qed.
Print Assumptions C05_tie_MERJ_max_step.

Theorem C05_tie_MERJ_min_loop : forall (R : list Z) (t : list coin) (m0 : Z),
  fold_left (fun m c => if MERJ_isNewMin (rsv R (fst c)) m (snd c) then MERJ_shareRatio (rsv R (fst c)) (snd c) else m) t m0
  = fold_left Z.min (map (ratio_of R) t) m0.
Proof. exact tie_MERJ_min_loop. Qed.
Print Assumptions C05_tie_MERJ_min_loop.

Theorem C05_tie_MERJ_max_loop : forall (R : list Z) (t : list coin) (m0 : Z),
  fold_left (fun m c => if MERJ_isNewMax (rsv R (fst c)) m (snd c) then MERJ_shareRatio (rsv R (fst c)) (snd c) else m) t m0
  = fold_left Z.max (map (ratio_of R) t) m0.
Proof. exact tie_MERJ_max_loop. Qed.
Print Assumptions C05_tie_MERJ_max_loop.

Theorem C05_tie_MERJ_numShares : forall minr S, MERJ_numShares S minr = shares_of minr S.
Proof. exact tie_MERJ_numShares. Qed.
Print Assumptions C05_tie_MERJ_numShares.

Theorem C05_tie_MERJ_usedAmount : forall minr r, MERJ_usedAmount r minr = used_amt minr r.
Proof. exact tie_MERJ_usedAmount. Qed.
Print Assumptions C05_tie_MERJ_usedAmount.

Theorem C05_tie_MERJ_newAmt : forall minr r a, MERJ_newAmt r minr a = a - used_amt minr r.
Proof. exact tie_MERJ_newAmt. Qed.
Print Assumptions C05_tie_MERJ_newAmt.

Theorem C05_tie_MERJ_ratiosDiffer : forall minr maxr, MERJ_ratiosDiffer minr maxr = negb (minr =? maxr).
Proof. exact tie_MERJ_ratiosDiffer. Qed.
Print Assumptions C05_tie_MERJ_ratiosDiffer.

Theorem C05_tie_eff : forall R minr maxr c,
  eff R minr maxr c =
  if MERJ_ratiosDiffer minr maxr && negb (MERJ_shareRatio (rsv R (fst c)) (snd c) =? minr)
  then (fst c, MERJ_usedAmount (rsv R (fst c)) minr) else c.
Proof. exact tie_eff. Qed.
Print Assumptions C05_tie_eff.

Theorem C05_tie_join_coins_shares : forall R S t sh j R' S',
  join_coins R S t = Ok (sh, j, R', S') ->
  sh = MERJ_numShares S (min_ratio (map (ratio_of R) t)).
Proof. exact tie_join_coins_shares. Qed.
Print Assumptions C05_tie_join_coins_shares.

Theorem C05_tie_CalcExitPool_tooManyShares : forall S sh, CalcExitPool_tooManyShares sh S = (S <=? sh).
Proof. exact tie_CalcExitPool_tooManyShares. Qed.
Print Assumptions C05_tie_CalcExitPool_tooManyShares.

Theorem C05_tie_CalcExitPool_shareOutRatio : forall S sh, CalcExitPool_shareOutRatio sh S = Z.quot (sh * PREC) S.
Proof. exact tie_CalcExitPool_shareOutRatio. Qed.
Print Assumptions C05_tie_CalcExitPool_shareOutRatio.

Theorem C05_tie_CalcExitPool_exit_amt : forall S sh r,
  (if CalcExitPool_skipAsset sh S r then 0 else CalcExitPool_exitAmt sh S r) = exit_amt (Z.quot (sh * PREC) S) r.
Proof. exact tie_CalcExitPool_exit_amt. Qed.
Print Assumptions C05_tie_CalcExitPool_exit_amt.

Theorem C05_tie_CalcExitPool_tooMuchOut : forall S sh r,
  (negb (CalcExitPool_skipAsset sh S r) && CalcExitPool_tooMuchOut sh S r) =
  (let o := exit_amt (Z.quot (sh * PREC) S) r in (0 <? o) && (r <=? o)).
Proof. exact tie_CalcExitPool_tooMuchOut. Qed.
Print Assumptions C05_tie_CalcExitPool_tooMuchOut.

Theorem C05_tie_exit_prorata_outs : forall R S sh outs R' S',
  exit_prorata R S sh = Ok (outs, R', S') ->
  CalcExitPool_tooManyShares sh S = false /\
  outs = map (fun r => if CalcExitPool_skipAsset sh S r then 0 else CalcExitPool_exitAmt sh S r) R /\
  S' = S - sh.
Proof. exact tie_exit_prorata_outs. Qed.
Print Assumptions C05_tie_exit_prorata_outs.

Theorem C05_tie_CalcExitValueWithoutSlippage : forall T S sh,
  CalcExitValueWithoutSlippage sh (Ok T) S =
  if S =? 0 then Err E_LOW else if S <=? sh then Err E_MAXSHARES
  else Ok (dquo (dmul T (dec_of_int sh)) (dec_of_int S)).
Proof. exact tie_CalcExitValueWithoutSlippage. Qed.
Print Assumptions C05_tie_CalcExitValueWithoutSlippage.

Theorem C05_tie_oracle_exit_out : forall T S sh p wbf ev,
  CalcExitValueWithoutSlippage sh (Ok T) S = Ok ev ->
  oracle_exit_out T S sh p wbf = (CalcExitPool_oracleTaken sh ev p, CalcExitPool_tokenOutAmount sh ev p wbf) /\
  CalcExitPool_oracleOutAmount sh ev p = dquo ev p.
Proof. exact tie_oracle_exit_out. Qed.
Print Assumptions C05_tie_oracle_exit_out.

Theorem C05_tie_CalcExitPool_zeroPrice : forall sh p, CalcExitPool_zeroPrice sh p = (p =? 0).
Proof. exact tie_CalcExitPool_zeroPrice. Qed.
Print Assumptions C05_tie_CalcExitPool_zeroPrice.

Theorem C05_tie_JoinValue_single : forall p amt, JoinValue_sum p JoinValue_init amt = dmul p (dec_of_int amt).
Proof. exact tie_JoinValue_single. Qed.
Print Assumptions C05_tie_JoinValue_single.

Theorem C05_tie_JoinValue_sum : forall p jv amt, JoinValue_sum p jv amt = jv + JoinValue_coinValue p amt.
Proof. exact tie_JoinValue_sum. Qed.
Print Assumptions C05_tie_JoinValue_sum.

Theorem C05_tie_JoinValue_zeroPrice : forall p, JoinValue_zeroPrice p = (p =? 0).
Proof. exact tie_JoinValue_zeroPrice. Qed.
Print Assumptions C05_tie_JoinValue_zeroPrice.

Theorem C05_tie_JoinPool_zeroTvl : forall T, JoinPool_zeroTvl T = (T =? 0).
Proof. exact tie_JoinPool_zeroTvl. Qed.
Print Assumptions C05_tie_JoinPool_zeroTvl.

Theorem C05_tie_JoinPool_numShares : forall thr jv T d0 d1 wbf S,
  JoinPool_numShares thr jv T d0 d1 wbf S = oracle_join_shares S jv T (join_effective_fee thr d0 d1 wbf).
Proof. exact tie_JoinPool_numShares. Qed.
Print Assumptions C05_tie_JoinPool_numShares.

Theorem C05_tie_join_oracle_shares : forall R S k amt acc prices weights wbf sh R' S' thr d0 d1 wbf0,
  wbf = join_effective_fee thr d0 d1 wbf0 ->
  join_oracle R S k amt acc prices weights wbf = Ok (sh, R', S') ->
  exists T, tvl R acc prices weights = Ok T /\ JoinPool_zeroTvl T = false /\
            JoinValue_zeroPrice (nth k prices 0) = false /\
            sh = JoinPool_numShares thr (JoinValue_sum (nth k prices 0) JoinValue_init amt) T d0 d1 wbf0 S.
Proof. exact tie_join_oracle_shares. Qed.
Print Assumptions C05_tie_join_oracle_shares.
