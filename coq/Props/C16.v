(* C16 - The oracle serves the newest live price of the asked asset; only feeders can write.
   Only statements + [exact]; proofs are in Proofs/OracleProofs.v, the model in Models/Oracle.v
   (byte-string keys, sorted store, reverse prefix iteration; [lookup false] is the code as it is,
   [lookup true] the proposed repair that skips iterator entries decoding to another asset/source).
   The specification is the map (asset, source) -> fed prices: [spec_run] evolves it along the same
   history (an authorised feed inserts, a block end keeps the live ones, nothing else touches it). *)
From Coq Require Import ZArith NArith List Bool.
From Elys Require Import Base.Res Base.Zdec Models.Oracle Proofs.OracleProofs.
Import ListNotations.
Open Scope N_scope.

(* Every history from an empty price store whose fed (asset, source) pairs all lie in a name set that is
   SEPARATED ([sep]: asset||tier, tier in {elys, band, empty}, is a prefix of asset'||source'||"/"||ts only
   for asset' = asset and, for elys/band, source' = tier):
   - the store holds exactly the prices of the specification map;
   - GetAssetPrice of an asset whose scan prefixes are separated returns the newest price of source elys if
     the map has one, else the newest of band if it has one, else the newest price of one of the asset's
     sources, and nothing iff the map has no price for the asset. *)
Theorem C16_lookup_refines_spec : forall names ops a s0,
  sep names -> Forall (op_in names) ops -> sep_for names a -> st_prices s0 = [] ->
  let s := fst (spec_run s0 [] ops) in
  let m := snd (spec_run s0 [] ops) in
  s = run s0 ops /\
  (forall v, In v (values (st_prices s)) <-> In v m) /\
  lookup_ok m a (lookup false s a) /\
  ((forall w, In w m -> p_asset w <> a) -> lookup false s a = None).
Proof. exact lookup_refines_from_empty. Qed.
Print Assumptions C16_lookup_refines_spec.

(* a decidable sufficient condition: the asked name has no "/" and asset||tier is a prefix of no other
   asset'||source' of the name set *)
Theorem C16_separation_decidable : forall names,
  sepb names = true -> sep names /\ forall a, sep_forb names a = true -> sep_for names a.
Proof. intros names H. split; [apply sepb_sound, H | intros a; apply sep_forb_sound]. Qed.
Print Assumptions C16_separation_decidable.

(* Without the side condition the code as written serves a price fed for ANOTHER asset: one feed of
   (ATMelys, band) by the only feeder; the specification map has no price for ATM, GetAssetPrice("ATM")
   returns the ATMelys price, and a denom whose asset info displays ATM is priced from it. The repaired
   lookup returns nothing. Replayed on the real keeper by harness/c16_test.go c16Corpus()[0]. *)
Theorem C16_prefix_collision_refuted :
  let s := fst (spec_run w_init [] w_ops) in
  let m := snd (spec_run w_init [] w_ops) in
  (forall w, In w m -> p_asset w <> ATM) /\
  (exists v, lookup false s ATM = Some v /\ p_asset v = ATMelys /\ p_asset v <> ATM /\
             price_from_denom false (exec s (OCreateInfo [117; 97; 116; 111; 109] ATM 6)) [117; 97; 116; 111; 109]
             = 7000000000000%Z) /\
  lookup true s ATM = None.
Proof. exact prefix_collision_witness. Qed.
Print Assumptions C16_prefix_collision_refuted.

(* The repaired lookup meets the specification for ALL names, with respect to what the store holds ... *)
Theorem C16_fixed_lookup_refines_store_all_names : forall s0 ops a,
  st_prices s0 = [] ->
  let s := run s0 ops in
  lookup_ok (values (st_prices s)) a (lookup true s a) /\
  ((forall w, In w (values (st_prices s)) -> p_asset w <> a) -> lookup true s a = None).
Proof. exact fixed_lookup_all_names. Qed.
Print Assumptions C16_fixed_lookup_refines_store_all_names.

(* ... but the store itself loses prices when two pairs concatenate identically: (ATM, elys) and (ATMe, lys)
   fed in the same second share one key. The map has a live (ATM, elys) price; the code as written returns
   the ATMe price for ATM, the repaired lookup returns nothing. Only a key format with a separator or a
   length prefix repairs this (c16Corpus()[2] replays it). *)
Theorem C16_key_overwrite_refuted :
  let s := fst (spec_run w_init [] w_ops2) in
  let m := snd (spec_run w_init [] w_ops2) in
  has m ATM ELYS /\
  (exists v, lookup false s ATM = Some v /\ p_asset v = ATMe) /\
  lookup true s ATM = None /\
  ~ lookup_ok m ATM (lookup true s ATM).
Proof. exact key_overwrite_witness. Qed.
Print Assumptions C16_key_overwrite_refuted.

(* Expiry, for all names and both lookups: whatever a lookup returns right after the end of a block was
   stored before and is not expired by that block's end-blocker, in the code's own uint64 arithmetic:
   neither ts + PriceExpiryTime < block time nor height + LifeTimeInBlocks < block height. *)
Theorem C16_expiry : forall fixed s0 ops dt a v,
  st_prices s0 = [] ->
  let s := run s0 ops in
  lookup fixed (exec s (OEndBlock dt)) a = Some v ->
  In v (values (st_prices s)) /\
  add64 (p_ts v) (expiry (st_params s)) <? u64 (st_t s) = false /\
  add64 (p_height v) (life (st_params s)) <? u64 (st_h s) = false.
Proof. exact expiry_from_empty. Qed.
Print Assumptions C16_expiry.

(* A denom without asset info, or whose display asset has no price, is priced zero. *)
Theorem C16_no_info_no_price : forall fixed s d,
  (iget d (st_infos s) = None -> price_from_denom fixed s d = 0%Z) /\
  (forall i, iget d (st_infos s) = Some i -> lookup fixed s (i_display i) = None ->
     price_from_denom fixed s d = 0%Z).
Proof. intros. split; [apply no_info_zero | intros i; apply no_price_zero]. Qed.
Print Assumptions C16_no_info_no_price.

(* Only a registered AND active feeder writes, in every reachable state: (1) a feed of anyone else is an
   error and leaves the state unchanged; (2) the price store changes only at a block end or in a feed of a
   registered active sender; (3) every stored price was stored before or is a price of this very message
   stamped with the current block time and height - so an expired price can only come back by being fed
   again; (4) a block end only removes. *)
Theorem C16_only_active_feeder_writes : forall s0 ops o,
  st_prices s0 = [] ->
  let s := run s0 ops in
  (forall sender, feed_sender o = Some sender -> authorised s sender = false ->
     (exists c, step s o = Err c) /\ exec s o = s) /\
  (st_prices (exec s o) <> st_prices s ->
     is_end_block o = true \/ exists sender, feed_sender o = Some sender /\ authorised s sender = true) /\
  (forall v, In v (values (st_prices (exec s o))) ->
     In v (values (st_prices s)) \/
     exists sender f, authorised s sender = true /\ op_feeds o sender f /\ v = mk_price s sender f) /\
  (is_end_block o = true -> forall v, In v (values (st_prices (exec s o))) -> In v (values (st_prices s))).
Proof. exact feeder_writes. Qed.
Print Assumptions C16_only_active_feeder_writes.

(* non-vacuity: ordinary tickers x {elys, band, binance, cex} are separated, and on such names the code as
   written serves elys before band before another source, the newest first, and drops what expired *)
Example C16_nonvacuous :
  sepb clean_names = true /\
  let ATOM := [65;84;79;77] in let CEX := [99;101;120] in
  let s := run (mkS [] [(0, true)] [] (mkP 10 1000) 2 1700000000)
     [OFeed 0 (mkF ATOM CEX 5%Z); OEndBlock 5; OFeed 0 (mkF ATOM BAND 6%Z); OFeed 1 (mkF ATOM ELYS 9%Z);
      OEndBlock 5; OFeed 0 (mkF ATOM BAND 7%Z); OEndBlock 1; OEndBlock 5] in
  option_map p_price (lookup false s ATOM) = Some 7%Z /\
  option_map p_price (lookup false (exec s (OEndBlock 5)) ATOM) = Some 7%Z /\
  lookup false (exec (exec s (OEndBlock 5)) (OEndBlock 1)) ATOM = None.
Proof. vm_compute. repeat split. Qed.
