(* C13 - Every liquidity-provider reward that has been credited can actually be paid.
   Only statements + [exact]; proofs in Proofs/ChefProofs.v, model in Models/Chef.v.
   [step fx]/[run fx] with fx = [repaired false] = mkFx false true true true model the code AS IT IS NOW (the three
   masterchef sites below were repaired by fix: commits 2a1f010 (perp), 539e64b (dex), 953c7c5 (round); the harness
   replays the real application against exactly that setting); fx = as_coded is the code BEFORE those commits.
   [repaired fu] covers either behaviour fu of the commitment module's TotalCommitted at uncommit (the open C12
   finding). The three sites:
     perp   x/masterchef/keeper/abci.go CollectPerpRevenue: the stakers' and the provider portion are sent FROM the
            masterchef account (lines 475, 493) although only the LP portion was moved in (line 466)
     dex    x/masterchef/keeper/abci.go CollectDEXRevenue line 567: consumerPortion := stakerRevenueCoins.Sub(providerPortion...)
            (protocolRevenueCoins is what was meant): the masterchef account pays out 2 x stakers instead of stakers + protocol
     round  x/masterchef/keeper/abci.go UpdateLPRewards lines 175-182, 222, 251: the gas + perpetual LP amount that is
            credited is the sum of the UNtruncated decimals while the truncated coins were moved, and pool shares are
            rounded half-up (their sum can exceed 1)
   The full statement "module balance >= sum of credited, unclaimed rewards after every history" is proved for the
   code as it is now (C13_solvent) and REFUTED for the pre-fix code at each of the three sites (C13_dex_refuted,
   C13_perp_refuted, C13_dust_refuted: each also with the other two sites repaired). Everything else holds for every
   setting of the switches. *)
From Coq Require Import ZArith List Bool.
From Elys Require Import Base.Res Base.Zdec Models.Chef Proofs.ChefProofs.
Import ListNotations.
Open Scope Z_scope.

(* Repaired model, every history (deposits, withdrawals, claims, incentive funding, failed transactions, end blockers
   with any collected amounts, any revenue coins in any denoms, any proxy TVLs; any accounts, pools, parameters with
   lp + stakers <= 1 and provider portion <= 1), every denom: the module balance covers the EXACT liabilities
   (pending + acc*balance - debt, at scale 10^36) plus the incentive funding not yet credited; hence also the sum of
   the truncated amounts ClaimRewards would pay. No bound on the number of checkpoints is needed: every rounding
   in UpdateUserRewardPending / UpdateUserRewardDebt / ClaimRewards is in the module's favour (debt is exact). *)
Theorem C13_solvent : forall fu P n m h ops d, wf_params P ->
  let s := run (repaired fu) P (init_state n m h) ops in
  owed s d + reserved s d * (ONE * ONE) <= chef s d * (ONE * ONE) /\
  sum_claimable s d + reserved s d <= chef s d /\ 0 <= sum_claimable s d /\ 0 <= reserved s d.
Proof. exact solvent_all_histories. Qed.
Print Assumptions C13_solvent.

(* ... so after every history every sequence of claims, by any accounts for any pool lists in any order, succeeds *)
Theorem C13_claims_in_any_order : forall fu P n m h ops cl, wf_params P ->
  let s := run (repaired fu) P (init_state n m h) ops in
  (forall u ps, In (u, ps) cl -> (u < n)%nat) -> exists s', claims s cl = Ok s'.
Proof. exact claims_any_order. Qed.
Print Assumptions C13_claims_in_any_order.

(* per block: the liabilities added by a block never exceed what the block added to the module balance plus the
   incentive funding it released (repaired model) *)
Theorem C13_block_credit_le_collected : forall fu P n m h ops b s' d, wf_params P ->
  let s := run (repaired fu) P (init_state n m h) ops in
  block (repaired fu) P s b = Ok s' ->
  owed s' d - owed s d <= (chef s' d - chef s d) * (ONE * ONE) + (reserved s d - reserved s' d) * (ONE * ONE).
Proof. exact block_credit_le_collected. Qed.
Print Assumptions C13_block_credit_le_collected.

(* Code as it is (every setting of the switches): committing or uncommitting shares (and the write-through pending-reward
   query the tier module issues) changes nobody's claimable reward - a deposit just before a distribution earns nothing from earlier blocks ... *)
Theorem C13_no_retroactive_accrual : forall fx P n m h ops o s', wf_params P ->
  let s := run fx P (init_state n m h) ops in
  (exists u p a, o = ODeposit u p a \/ o = OWithdraw u p a \/ o = OTouch u) ->
  step fx P s o = Ok s' ->
  forall u' p' d, pending_total s' u' p' d = pending_total s u' p' d.
Proof. exact no_retroactive_accrual. Qed.
Print Assumptions C13_no_retroactive_accrual.

(* ... and a block credits nothing to an account without committed shares in the pool. *)
Theorem C13_accrual_needs_shares : forall fx P n m h ops b s' u p d, wf_params P ->
  let s := run fx P (init_state n m h) ops in
  block fx P s b = Ok s' -> bal s u p = 0 ->
  pending_total s' u p d = pending_total s u p d /\ bal s' u p = 0.
Proof. exact accrual_needs_shares. Qed.
Print Assumptions C13_accrual_needs_shares.

(* The code BEFORE the three fix: commits violates solvency; minimal witnesses (one pool, one provider with 10^18 shares, one block),
   each also with the two OTHER sites repaired: *)
Theorem C13_dex_refuted :
  let s := run as_coded P0 (init_state 1 1 10) dex_ops in
  chef s USDC = 15000000 /\ claimable s 0 0 USDC = 18000000 /\ step as_coded P0 s (OClaim 0 [0%nat]) = Err E_funds /\
  let s1 := run (mkFx false true false true) P0 (init_state 1 1 10) dex_ops in
  chef s1 USDC = 15000000 /\ claimable s1 0 0 USDC = 18000000.
Proof. exact dex_refuted. Qed.
Print Assumptions C13_dex_refuted.

Theorem C13_perp_refuted :
  let s := run as_coded P0 (init_state 1 1 10) perp_ops in
  chef s USDC = 312500 /\ claimable s 0 0 USDC = 600000 /\ step as_coded P0 s (OClaim 0 [0%nat]) = Err E_funds /\
  let s1 := run (mkFx false false true true) P0 (init_state 1 1 10) perp_ops in
  chef s1 USDC = 312500 /\ claimable s1 0 0 USDC = 600000.
Proof. exact perp_refuted. Qed.
Print Assumptions C13_perp_refuted.

Theorem C13_dust_refuted :
  let s := run as_coded P0 (init_state 1 1 10) dust_ops in
  chef s USDC = 0 /\ claimable s 0 0 USDC = 1 /\ step as_coded P0 s (OClaim 0 [0%nat]) = Err E_funds /\
  let s1 := run (mkFx false true true false) P0 (init_state 1 1 10) dust_ops in
  chef s1 USDC = 0 /\ claimable s1 0 0 USDC = 1.
Proof. exact dust_refuted. Qed.
Print Assumptions C13_dust_refuted.

(* The repaired model and the code agree off the listed sites: every transaction is the same function, and the two
   end blockers leave the same balances, pendings, debts, totals and height (they differ in money moved and credit). *)
Theorem C13_fixed_same_off_sites : forall fx fx' P s o, fx_unc fx = fx_unc fx' ->
  (forall b, o <> OBlock b) -> step fx P s o = step fx' P s o.
Proof. exact same_off_sites. Qed.
Print Assumptions C13_fixed_same_off_sites.

Theorem C13_fixed_same_book_in_blocks : forall fx fx' P s b s1 s2, wf_params P -> WF s ->
  block fx P s b = Ok s1 -> block fx' P s b = Ok s2 ->
  bal s1 = bal s2 /\ pend s1 = pend s2 /\ debt s1 = debt s2 /\ tot s1 = tot s2 /\ height s1 = height s2.
Proof. exact block_same_frame. Qed.
Print Assumptions C13_fixed_same_book_in_blocks.

(* non-vacuity: on the three witness histories the repaired model pays exactly what it credits *)
Example C13_nonvacuous :
  (let s := run (repaired false) P0 (init_state 1 1 10) dex_ops in chef s USDC = 18000000 /\ claimable s 0 0 USDC = 18000000) /\
  (let s := run (repaired false) P0 (init_state 1 1 10) perp_ops in chef s USDC = 600000 /\ claimable s 0 0 USDC = 600000) /\
  (let s := run (repaired false) P0 (init_state 1 1 10) dust_ops in chef s USDC = 0 /\ claimable s 0 0 USDC = 0).
Proof. exact repaired_witnesses_pay. Qed.
