(* C16, arithmetic tie: the two expiry conditions of the oracle EndBlock (uint64 arithmetic with wrap-around), the
   per-base-unit price GetAssetPriceFromDenom and the loop of Pow10, translated from the current Go source on every
   run (Generated/ArithC16.v), are the model functions the C16 theorems are about. *)
From Coq Require Import ZArith NArith Bool.
From Elys Require Import Base.Res Base.Zdec Base.U64 Models.Oracle Generated.ArithC16 Proofs.ArithTieC16.
Open Scope Z_scope.

Theorem C16_tie_EndBlock_expiredTime : forall (p : params) (t : N) (v : price),
  EndBlock_expiredTime (Z.of_N t) (Z.of_N (expiry p)) (Z.of_N (p_ts v)) = expired_time p t v.
Proof. exact tie_EndBlock_expiredTime. Qed.
Print Assumptions C16_tie_EndBlock_expiredTime.

Theorem C16_tie_EndBlock_expiredHeight : forall (p : params) (h : N) (v : price),
  EndBlock_expiredHeight (Z.of_N h) (Z.of_N (life p)) (Z.of_N (p_height v)) = expired_height p h v.
Proof. exact tie_EndBlock_expiredHeight. Qed.
Print Assumptions C16_tie_EndBlock_expiredHeight.

Theorem C16_tie_EndBlock_expiredTime_nowrap : forall t e ts : Z,
  0 <= t < U64M -> 0 <= e -> 0 <= ts -> ts + e < U64M ->
  EndBlock_expiredTime t e ts = (ts + e <? t).
Proof. exact tie_EndBlock_expiredTime_nowrap. Qed.
Print Assumptions C16_tie_EndBlock_expiredTime_nowrap.

Theorem C16_tie_GetAssetPriceFromDenom : forall (fixed : bool) (s : state) (denom : bytes),
  price_from_denom fixed s denom =
  let oi := iget denom (st_infos s) in
  let ov := match oi with Some i => lookup fixed s (i_display i) | None => None end in
  GetAssetPriceFromDenom pow10_Z
    (match oi with Some i => Z.of_N (i_decimal i) | None => 0 end) (match oi with Some _ => true | None => false end)
    (match ov with Some v => p_price v | None => 0 end) (match ov with Some _ => true | None => false end).
Proof. exact tie_GetAssetPriceFromDenom. Qed.
Print Assumptions C16_tie_GetAssetPriceFromDenom.

Theorem C16_tie_GetAssetPriceFromDenom_value : forall (pw : Z -> Z) (dec price : Z) (f1 f2 : bool),
  GetAssetPriceFromDenom pw dec f1 price f2 = if f1 && f2 then dquo price (pw dec) else 0.
Proof. exact tie_GetAssetPriceFromDenom_value. Qed.
Print Assumptions C16_tie_GetAssetPriceFromDenom_value.

Theorem C16_tie_Pow10_loop : forall (n : nat) (d : Z),
  Nat.iter n (Pow10_step d) (Pow10_init d) = pow10_dec (N.of_nat n).
Proof. exact tie_Pow10_loop. Qed.
Print Assumptions C16_tie_Pow10_loop.
