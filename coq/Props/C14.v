(* C14 - A vesting schedule releases exactly its total, monotonically, and never more.
   Only statements + [exact]; the proofs are in Proofs/VestingProofs.v, the model in Models/Vesting.v.
   [step]/[claim] model the code WITH the "fix:" commit (clamp in ClaimVesting); the pre-fix code is
   [step_prefix] and its failure is recorded by C14_prefix_claim_after_cancel_refuted. *)
From Coq Require Import ZArith List Bool.
From Elys Require Import Base.Res Models.Vesting Proofs.VestingProofs.
Import ListNotations.
Open Scope Z_scope.

(* One claim of one entry: cumulative released (v_claimed) is non-decreasing, never exceeds the
   total, equals max(previous, floor(total * min(elapsed, N) / N)) - the linear block schedule -
   and equals the total once the schedule has elapsed. Never fails on an entry with N > 0. *)
Theorem C14_entry_monotone_le_total_linear_complete : forall h v,
  live_entry v ->
  exists c v', claim_entry true h v = Ok (c, v') /\
    0 <= c /\
    v_claimed v' = v_claimed v + c /\
    v_claimed v <= v_claimed v' <= v_total v /\
    v_total v' = v_total v /\ v_start v' = v_start v /\ v_num v' = v_num v /\
    v_claimed v' = Z.max (v_claimed v)
        (Z.quot (v_total v * Z.min (h - v_start v) (v_num v)) (v_num v)) /\
    (v_num v <= h - v_start v -> v_claimed v' = v_total v).
Proof. exact claim_entry_spec. Qed.
Print Assumptions C14_entry_monotone_le_total_linear_complete.

(* Every history (any interleaving of vest / claim / cancel / vest-now / governance updates, failed
   transactions included, any heights): for every account, Eden put into vesting = ELYS released +
   Eden returned by cancels + still outstanding, and every stored entry has 0 <= claimed < total. *)
Theorem C14_conservation : forall p l ops i,
  wf_params p -> Forall (fun '(e, _) => 0 <= e) l ->
  let s := run (init_state p l) ops in
  (i < length (s_accts s))%nat ->
  let a := get_acct s i in
  g_in a = g_released a + g_returned a + outstanding a /\
  Forall (fun v => 0 <= v_claimed v < v_total v) (a_vs a).
Proof. exact conservation. Qed.
Print Assumptions C14_conservation.

(* Claiming what has vested always succeeds, in every reachable state, at every height, and pays exactly the drop in
   what is outstanding. (Stated for histories in which governance keeps NumBlocks > 0, because the accounting of
   [outstanding] below is proved for live schedules; that the claim itself cannot fail for ANY schedule length is
   C14_claim_never_fails.) *)
Theorem C14_claim_succeeds : forall p l ops i h,
  wf_params p -> 0 < p_num p -> Forall (fun '(e, _) => 0 <= e) l -> Forall gov_ok ops ->
  let s := run (init_state p l) ops in
  (i < length (s_accts s))%nat ->
  exists s', step s (OClaim i h) = Ok s' /\
    0 <= a_elys (get_acct s' i) - a_elys (get_acct s i) /\
    a_elys (get_acct s' i) - a_elys (get_acct s i) = outstanding (get_acct s i) - outstanding (get_acct s' i).
Proof. exact claim_succeeds. Qed.
Print Assumptions C14_claim_succeeds.

(* ... and since fix: 3c63217 (a zero-block schedule is fully vested instead of dividing by zero) the claim handler
   cannot fail at all: for EVERY account state, every height and every schedule length, including NumBlocks = 0. *)
Theorem C14_claim_never_fails : forall h a, exists a', claim h a = Ok a'.
Proof. exact claim_total. Qed.
Print Assumptions C14_claim_never_fails.

(* a zero-block schedule is released in full by the first claim *)
Theorem C14_zero_block_schedule_released_at_once : forall h v, wf_entry v -> v_num v = 0 ->
  claim_entry true h v = Ok (v_total v - v_claimed v, mkV (v_total v) (v_total v) (v_start v) (v_num v)).
Proof. exact claim_entry_zero. Qed.
Print Assumptions C14_zero_block_schedule_released_at_once.

(* Once every schedule of the account has elapsed one claim pays out everything outstanding. *)
Theorem C14_complete_at_end : forall a h,
  wf_acct a -> live_acct a -> Forall (fun v => v_num v <= h - v_start v) (a_vs a) ->
  exists a', claim h a = Ok a' /\ a_vs a' = [] /\ a_elys a' = a_elys a + outstanding a.
Proof. exact complete_at_end. Qed.
Print Assumptions C14_complete_at_end.

(* Cancel returns exactly the cancelled amount as claimable Eden, takes exactly that amount out of
   the not-yet-released part, and releases nothing. *)
Theorem C14_cancel_exact : forall amt a a',
  wf_acct a -> cancel amt a = Ok a' ->
  wf_acct a' /\ (live_acct a -> live_acct a') /\
  a_eden a' = a_eden a + amt /\ a_elys a' = a_elys a /\
  outstanding a' = outstanding a - amt /\ g_returned a' = g_returned a + amt /\
  g_released a' = g_released a.
Proof. exact cancel_inv. Qed.
Print Assumptions C14_cancel_exact.

(* Vest-now pays exactly amount / factor (integer division) and debits exactly amount. *)
Theorem C14_vest_now_exact : forall amt p a a',
  wf_acct a -> 0 < p_factor p -> vest_now amt p a = Ok a' ->
  wf_acct a' /\ a_vs a' = a_vs a /\
  a_eden a' = a_eden a - amt /\ a_elys a' = a_elys a + Z.quot amt (p_factor p) /\
  0 <= Z.quot amt (p_factor p) <= amt.
Proof. exact vest_now_inv. Qed.
Print Assumptions C14_vest_now_exact.

(* The code at the pinned commit (before the fix: commit): claim - cancel - claim panics. *)
Theorem C14_prefix_claim_after_cancel_refuted :
  let s := fold_left exec_prefix (firstn 3 refute_ops) refute_init in
  Inv s /\ Live s /\ step_prefix s (OClaim 0 61) = Panic P_negcoin.
Proof. exact prefix_refuted. Qed.
Print Assumptions C14_prefix_claim_after_cancel_refuted.

(* non-vacuity: the hypotheses are met by a state the harness really builds *)
Example C14_nonvacuous :
  let s := run (init_state (mkP 100 10 90 true) [(1000, 5); (2000, 0)])
               [OVest 0 10 900; OClaim 0 60; OCancel 0 400; OClaim 0 61; OVestNow 1 180; OClaim 0 200] in
  a_elys (get_acct s 0) = 505 /\ a_eden (get_acct s 0) = 500 /\ a_vs (get_acct s 0) = [] /\
  a_elys (get_acct s 1) = 2.
Proof. vm_compute. repeat split. Qed.
