(* C14 - A vesting schedule releases exactly its total, monotonically, and never more.
   Only statements + [exact]; the proofs are in Proofs/VestingProofs.v, the model in Models/Vesting.v.
   The model knows SEVERAL vesting infos: ueden -> uelys (MsgVest) and a bank-held liquid denom vested into itself
   (MsgVestLiquid under its own governance VestingInfo); all schedules of an account live in ONE list, a claim pays
   every entry in its own denom, a cancel touches only the ELYS entries. [outstanding] / [outstanding1] = not yet
   released by the ELYS / the liquid schedules.
   [step]/[claim] model the code WITH the "fix:" commit (clamp in ClaimVesting); the pre-fix code is
   [step_prefix] and its failure is recorded by C14_prefix_claim_after_cancel_refuted. *)
From Coq Require Import ZArith List Bool.
From Elys Require Import Base.Res Models.Vesting Proofs.VestingProofs.
Import ListNotations.
Open Scope Z_scope.

(* One claim of one entry: cumulative released (v_claimed) is non-decreasing, never exceeds the
   total, equals max(previous, floor(total * min(elapsed, N) / N)) - the linear block schedule -
   and equals the total once the schedule has elapsed. Never fails on an entry with N > 0. The denom is kept. *)
Theorem C14_entry_monotone_le_total_linear_complete : forall h v,
  live_entry v ->
  exists c v', claim_entry true h v = Ok (c, v') /\
    0 <= c /\
    v_claimed v' = v_claimed v + c /\
    v_claimed v <= v_claimed v' <= v_total v /\
    v_total v' = v_total v /\ v_start v' = v_start v /\ v_num v' = v_num v /\ v_den v' = v_den v /\
    v_claimed v' = Z.max (v_claimed v)
        (Z.quot (v_total v * Z.min (h - v_start v) (v_num v)) (v_num v)) /\
    (v_num v <= h - v_start v -> v_claimed v' = v_total v).
Proof. exact claim_entry_spec. Qed.
Print Assumptions C14_entry_monotone_le_total_linear_complete.

(* Every history (any interleaving of vest / vest-liquid / claim / cancel / vest-now / governance updates of either
   vesting info, failed transactions included, any heights): for every account, PER DENOM,
     Eden put into vesting      = ELYS released + Eden returned by cancels + still outstanding (ELYS schedules),
     liquid coins put into vesting = liquid coins released + still outstanding (liquid schedules),
     liquid wallet + still outstanding (liquid schedules) = the initial liquid wallet (nothing appears or is lost),
   every stored entry has 0 <= claimed < total, and the commitment module's custody of the liquid denom is exactly
   the sum over all accounts of what their liquid schedules still owe. *)
Theorem C14_conservation : forall p l ops i,
  wf_params p -> Forall init_ok l ->
  let s := run (init_state p l) ops in
  (i < length (s_accts s))%nat ->
  let a := get_acct s i in
  g_in a = g_released a + g_returned a + outstanding a /\
  g_in1 a = g_released1 a + outstanding1 a /\
  a_usdc a + outstanding1 a = nth i (map (fun '(_, _, u) => u) l) 0 /\ 0 <= a_usdc a /\
  Forall (fun v => 0 <= v_claimed v < v_total v) (a_vs a) /\
  s_mod s = zsum (map outstanding1 (s_accts s)) /\
  length (s_accts s) = length l.
Proof. exact conservation. Qed.
Print Assumptions C14_conservation.

(* Claiming what has vested always succeeds, in every reachable state, at every height, whatever schedule lengths
   governance configured (zero-block schedules included - the former restriction to NumBlocks > 0 is gone): the
   module always holds the liquid coins the claim pays, and each wallet receives exactly the drop of what is
   outstanding in the schedules of ITS denom. *)
Theorem C14_claim_succeeds : forall p l ops i h,
  wf_params p -> Forall init_ok l ->
  let s := run (init_state p l) ops in
  (i < length (s_accts s))%nat ->
  exists s', step s (OClaim i h) = Ok s' /\
    0 <= a_elys (get_acct s' i) - a_elys (get_acct s i) /\
    a_elys (get_acct s' i) - a_elys (get_acct s i) = outstanding (get_acct s i) - outstanding (get_acct s' i) /\
    0 <= a_usdc (get_acct s' i) - a_usdc (get_acct s i) /\
    a_usdc (get_acct s' i) - a_usdc (get_acct s i) = outstanding1 (get_acct s i) - outstanding1 (get_acct s' i) /\
    s_mod s' = s_mod s - (a_usdc (get_acct s' i) - a_usdc (get_acct s i)).
Proof. exact claim_succeeds. Qed.
Print Assumptions C14_claim_succeeds.

(* ... and since fix: 3c63217 (a zero-block schedule is fully vested instead of dividing by zero) the account part of
   the claim handler cannot fail at all: for EVERY account state, every height and every schedule length. *)
Theorem C14_claim_never_fails : forall h a, exists a', claim h a = Ok a'.
Proof. exact claim_total. Qed.
Print Assumptions C14_claim_never_fails.

(* A claim pays each denom its own: the ELYS wallet receives exactly the newly vested amounts
   max(0, vested(h) - claimed) of the ELYS entries, the liquid wallet exactly those of the liquid entries;
   claimable Eden is not touched. For ANY account state (no invariant needed). *)
Theorem C14_claim_pays_each_denom_its_own : forall h a a',
  claim h a = Ok a' ->
  a_elys a' - a_elys a = zsum (map (newly h) (filter is0 (a_vs a))) /\
  a_usdc a' - a_usdc a = zsum (map (newly h) (filter non0 (a_vs a))) /\
  a_eden a' = a_eden a.
Proof. exact claim_pays_each_denom. Qed.
Print Assumptions C14_claim_pays_each_denom_its_own.

(* a zero-block schedule is released in full by the first claim *)
Theorem C14_zero_block_schedule_released_at_once : forall h v, wf_entry v -> v_num v = 0 ->
  claim_entry true h v = Ok (v_total v - v_claimed v, mkV (v_total v) (v_total v) (v_start v) (v_num v) (v_den v)).
Proof. exact claim_entry_zero. Qed.
Print Assumptions C14_zero_block_schedule_released_at_once.

(* Once every schedule of the account has elapsed one claim pays out everything outstanding, each denom to its
   own wallet (zero-block schedules included). *)
Theorem C14_complete_at_end : forall a h,
  wf_acct a -> Forall (fun v => v_num v <= h - v_start v) (a_vs a) ->
  exists a', claim h a = Ok a' /\ a_vs a' = [] /\
    a_elys a' = a_elys a + outstanding a /\ a_usdc a' = a_usdc a + outstanding1 a.
Proof. exact complete_at_end. Qed.
Print Assumptions C14_complete_at_end.

(* Cancel returns exactly the cancelled amount as claimable Eden, takes exactly that amount out of
   the not-yet-released part of the ELYS schedules, releases nothing, and leaves the liquid schedules and wallet alone. *)
Theorem C14_cancel_exact : forall d amt a a',
  wf_acct a -> cancel d amt a = Ok a' ->
  wf_acct a' /\ (live_acct a -> live_acct a') /\
  a_eden a' = a_eden a + amt /\ a_elys a' = a_elys a /\ a_usdc a' = a_usdc a /\
  outstanding a' = outstanding a - amt /\ outstanding1 a' = outstanding1 a /\
  g_returned a' = g_returned a + amt /\
  g_released a' = g_released a /\ g_usdc0 a' = g_usdc0 a /\ d = 0 /\ 0 < amt.
Proof. exact cancel_inv. Qed.
Print Assumptions C14_cancel_exact.

(* A cancel touches only the entries of its denom: in the list [mid] the loop leaves behind (same length, position
   by position) every entry of another denom is the very same entry at the very same index and no entry changes
   its denom; the final drop-filter removes none of the other-denom entries; hence the sub-list of the other denoms
   is unchanged, and so are the liquid wallet and what the liquid schedules still owe. *)
Theorem C14_cancel_touches_only_its_denom : forall d amt a a',
  wf_acct a -> cancel d amt a = Ok a' ->
  exists mid,
    Forall2 (fun v v' => (is0 v = false -> v' = v) /\ is0 v' = is0 v) (a_vs a) mid /\
    a_vs a' = filter cancel_keep mid /\
    Forall (fun v => is0 v = false -> cancel_keep v = true) mid /\
    filter non0 (a_vs a') = filter non0 (a_vs a) /\
    a_usdc a' = a_usdc a /\ outstanding1 a' = outstanding1 a.
Proof. exact cancel_other_denoms. Qed.
Print Assumptions C14_cancel_touches_only_its_denom.

(* Vest-liquid moves exactly the amount from the wallet into a new schedule of the liquid denom (appended at the
   end of the one list, with the NumBlocks of THAT denom's info); the ELYS side is untouched. *)
Theorem C14_vest_liquid_exact : forall h amt li a a',
  wf_acct a -> (match li with Some x => 0 <= l_num x | None => True end) -> vest_liquid h amt li a = Ok a' ->
  wf_acct a' /\ 0 < amt /\
  a_eden a' = a_eden a /\ a_elys a' = a_elys a /\ a_usdc a' = a_usdc a - amt /\ g_in1 a' = g_in1 a + amt /\
  outstanding a' = outstanding a /\ outstanding1 a' = outstanding1 a + amt /\ g_usdc0 a' = g_usdc0 a /\
  exists x, li = Some x /\ a_vs a' = a_vs a ++ [mkV amt 0 h (l_num x) 1].
Proof. exact vest_liquid_inv. Qed.
Print Assumptions C14_vest_liquid_exact.

(* Vest-now pays exactly amount / factor (integer division) and debits exactly amount. *)
Theorem C14_vest_now_exact : forall amt p a a',
  wf_acct a -> 0 < p_factor p -> vest_now amt p a = Ok a' ->
  wf_acct a' /\ a_vs a' = a_vs a /\
  a_eden a' = a_eden a - amt /\ a_elys a' = a_elys a + Z.quot amt (p_factor p) /\
  0 <= Z.quot amt (p_factor p) <= amt /\ a_usdc a' = a_usdc a /\ g_usdc0 a' = g_usdc0 a.
Proof. exact vest_now_inv. Qed.
Print Assumptions C14_vest_now_exact.

(* The code at the pinned commit (before the fix: commit): claim - cancel - claim panics (here with a liquid
   schedule of the other denom in front of the ELYS schedule). *)
Theorem C14_prefix_claim_after_cancel_refuted :
  let s := fold_left exec_prefix (firstn 5 refute_ops) refute_init in
  Inv s /\ Live s /\ step_prefix s (OClaim 0 61) = Panic P_negcoin.
Proof. exact prefix_refuted. Qed.
Print Assumptions C14_prefix_claim_after_cancel_refuted.

(* non-vacuity: the hypotheses are met by a state the harness really builds; list [usdc; elys; usdc], cancel of the
   ELYS entry in the middle, claims paying both wallets *)
Example C14_nonvacuous :
  let s := run (init_state (mkP 100 10 90 true) [(1000, 5, 700); (2000, 0, 0)])
               [OGovL 20 10 1; OVestLiquid 0 10 200; OVest 0 10 900; OVestLiquid 0 10 100; OClaim 0 60;
                OCancel 0 0 400; OClaim 0 61; OVestNow 1 180; OClaim 0 200] in
  a_elys (get_acct s 0) = 505 /\ a_eden (get_acct s 0) = 500 /\ a_vs (get_acct s 0) = [] /\
  a_usdc (get_acct s 0) = 700 /\ s_mod s = 0 /\
  a_elys (get_acct s 1) = 2.
Proof. vm_compute. repeat split. Qed.
