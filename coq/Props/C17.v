(* C17 - Governance-only messages are refused from all but the governance authority; owner-scoped
   messages are refused from all but the owner.
   Only statements + [exact]; proofs in Proofs/AuthorityProofs.v, semantics in Models/Authority.v,
   the table [handlers] in Generated/Handlers.v is REGENERATED from the Go sources by tools/gotrans
   on every run of ./check, so the first four theorems are re-decided against the current tree. *)
From Coq Require Import String List Bool.
From Elys Require Import Base.Res Models.Authority Generated.Handlers Proofs.AuthorityProofs.
From Elys Require Models.OwnerFlow Generated.OwnerFlow Proofs.OwnerFlowProofs.
Import ListNotations.
Open Scope string_scope.

(* In every handler that is governance-only (its request has an Authority field, or it compares a
   request field with the keeper's authority anywhere), the authority comparison precedes everything
   that can write or return successfully (only local computation, state reads and error-only checks
   may come first), and the field it tests is the message's signer field.
   Breaks when a handler loses, inverts, weakens or postpones the check. *)
Theorem C17_guard_dominates : forallb guarded (filter gov_only handlers) = true.
Proof. exact guard_dominates. Qed.
Print Assumptions C17_guard_dominates.

(* Every request type that carries an Authority field is signed by exactly that field. *)
Theorem C17_authority_is_signer : forallb authority_is_signer (filter h_has_authority handlers) = true.
Proof. exact authority_is_signer_all. Qed.
Print Assumptions C17_authority_is_signer.

(* For every governance-only handler of the table, every message whose signer is not the authority,
   every state, every resolution of everything else the handler does: the handler returns an error
   and the state is the one it started with (handler level: no reliance on the transaction branch
   being discarded). *)
Theorem C17_rejects : forall h, In h handlers -> gov_only h = true ->
  forall (state : Type) (owner : state -> option string) (msg : message) (auth : string) (s : state)
         (chs : list (choice state)),
    msg (h_signer h) <> auth ->
    exists c, run_handler owner h msg auth s chs = (Err c, s).
Proof. exact rejects. Qed.
Print Assumptions C17_rejects.

Theorem C17_rejects_authority_field : forall h, In h handlers -> h_has_authority h = true ->
  forall (state : Type) (owner : state -> option string) (msg : message) (auth : string) (s : state)
         (chs : list (choice state)),
    msg "Authority" <> auth ->
    exists c, run_handler owner h msg auth s chs = (Err c, s).
Proof. exact rejects_authority_field. Qed.
Print Assumptions C17_rejects_authority_field.

(* Where nothing that can return precedes the guard (true of all 38 governance-only handlers of the
   pinned tree; not made an obligation, because putting a stateless validation of the request in front
   of the guard is a harmless change) the error is exactly Unauthorized. *)
Theorem C17_rejects_unauthorized : forall h, strictly_guarded h = true ->
  forall (state : Type) (owner : state -> option string) (msg : message) (auth : string) (s : state)
         (chs : list (choice state)),
    msg (h_signer h) <> auth ->
    run_handler owner h msg auth s chs = (Err Unauthorized, s).
Proof. exact rejects_unauthorized. Qed.
Print Assumptions C17_rejects_unauthorized.

(* Owner-scoped messages, first form (handler-level "error and state unchanged"). Proved for [owner_scoped]: every
   handler whose top-level skeleton contains an owner comparison, plus the hand-written list [owner_spec]
   (tradeshield update/cancel, leveragelp/perpetual close and position updates, tokenomics claim). Kept under the
   name _partial: it does not follow loops and inner messages. The batch variants and EVERY other handler are covered
   by the second form below (the C17_owner_batch theorems), over the table Generated/OwnerFlow.v. *)
Theorem C17_owner_guard_dominates_partial : forallb owner_guarded (filter owner_scoped handlers) = true.
Proof. exact owner_guard_dominates. Qed.
Print Assumptions C17_owner_guard_dominates_partial.

Theorem C17_owner_spec_present :
  forallb (fun n => existsb (fun h => String.eqb (h_name h) n) handlers) owner_spec = true.
Proof. exact owner_spec_present. Qed.
Print Assumptions C17_owner_spec_present.

Theorem C17_owner_rejects_partial : forall h, In h handlers -> owner_scoped h = true ->
  forall (state : Type) (owner : state -> option string) (msg : message) (auth : string) (s : state)
         (chs : list (choice state)),
    owner s <> Some (msg (h_signer h)) ->
    exists c, run_handler owner h msg auth s chs = (Err c, s).
Proof. exact owner_rejects. Qed.
Print Assumptions C17_owner_rejects_partial.


(* ---------------------------------------------------------------- owner-scoped messages, second form: ALL handlers.
   Table Generated/OwnerFlow.v (regenerated on every run by `gotrans ownerflow`): for every method of every MsgServer
   how the object it acts on is selected - through loops, same-package callees and inner messages. *)
Module OF.
Import Elys.Models.OwnerFlow Elys.Generated.OwnerFlow Elys.Proofs.OwnerFlowProofs.

(* Every handler of the table is classified and its class agrees with its body: signer-keyed (A), id lookup +
   owner comparison before any write (B), inner handler fed from the outer signer (C), not object-scoped (D),
   governance-only (E); an unknown one (U) only if it is in the reviewed list Models/OwnerFlow.v [reviewed]
   (4 permissionless triggers). Breaks when a comparison is dropped, an inner message gets its owner field from the
   stored object, a signer-keyed lookup becomes an id lookup, or a new handler cannot be classified. *)
Theorem C17_owner_batch_all_classified : forallb class_ok oflows = true.
Proof. exact all_classified. Qed.
Print Assumptions C17_owner_batch_all_classified.

(* For every handler of the table that is not governance-only and not reviewed - single-object AND batch -, every
   message, store, and behaviour of everything else: an object whose stored owner is not the signer is unchanged
   when the handler returns, whatever it returns (for A: the signer's key addresses a different object; for B/C:
   the comparison fails before any write; handler level, no reliance on the transaction being rolled back). *)
Theorem C17_owner_batch_rejects : forall h, In h oflows -> of_class h <> CE -> is_reviewed h = false ->
  forall (msg : message) (st : ostore) (chs : list ch) (i : nat) (o : obj),
    st i = Some o -> o_owner o <> msg (of_signer h) ->
    res_store (run_flow h msg st chs) i = Some o.
Proof. exact owner_batch_rejects. Qed.
Print Assumptions C17_owner_batch_rejects.

(* For every class A/B/C handler that looks an object up by id (tradeshield update/cancel and the batch cancels):
   if every object the run addresses belongs to somebody else, NOTHING is written at all - each item fails at the
   comparison (the whole handler, or the item inside a loop) before any write. *)
Theorem C17_owner_batch_compared_rejects : forall h, In h oflows -> owner_scoped_class h = true ->
  has_step is_select_id (of_body h) = true ->
  forall (msg : message) (st : ostore) (chs : list ch),
    picks_foreign (msg (of_signer h)) st chs = true ->
    res_store (run_flow h msg st chs) = st.
Proof. exact owner_compared_rejects. Qed.
Print Assumptions C17_owner_batch_compared_rejects.

(* inner handlers named by class C bodies are themselves in the table, safe, class A-D; reviewed names exist *)
Theorem C17_owner_batch_inner_present :
  filter (fun n => negb (existsb (fun h => String.eqb (of_name h) n && flow_safe h &&
                                           match of_class h with CA | CB | CC | CD => true | _ => false end) oflows))
         (flat_map (fun h => match of_class h with CE | CU => [] | _ => inner_names (of_body h) end) oflows) = [] /\
  filter (fun p => negb (existsb (fun h => String.eqb (of_name h) (fst p)) oflows)) reviewed = [].
Proof. split; [exact inner_missing_none|exact reviewed_missing_none]. Qed.
Print Assumptions C17_owner_batch_inner_present.

(* non-vacuity: the table is populated and the reviewed list short; the three broken shapes are NOT accepted
   (comparison dropped; inner owner field fed from the stored object; id lookup without comparison), and on
   the first of them the adversary really overwrites the victim's object. *)
Example C17_owner_batch_nonvacuous :
  negb (Nat.leb (length (filter owner_scoped_class oflows)) 20) && negb (Nat.leb 6 (length reviewed)) = true /\
  flow_safe (mkOF "m" "Cancel" "MsgCancel" "Owner" CB "" (<[OSelect KId "o" "k.Get"; OCheck; OCompare "o" "Owner"; OWrite WObj "k.Remove"]>)) = true /\
  flow_safe (mkOF "m" "Cancel" "MsgCancel" "Owner" CB "" (<[OSelect KId "o" "k.Get"; OCheck; OWrite WObj "k.Remove"]>)) = false /\
  flow_safe (mkOF "m" "CancelMany" "MsgCancelMany" "Creator" CC ""
     (<[OLoop false (<[OInner "m.Cancel" "Owner" SrcState (<[OSelect KId "o" "k.Get"; OCompare "o" "Creator"; OWrite WObj "k.Remove"]>)]>)]>)) = false /\
  flow_safe (mkOF "m" "Close" "MsgClose" "Creator" CA "" (<[OSelect KSigner "o" "k.GetPosition"; OWrite WObj "k.Set"]>)) = true /\
  res_store (run_flow (mkOF "m" "Cancel" "MsgCancel" "Owner" CB "" (<[OSelect KId "o" "k.Get"; OCheck; OWrite WObj "k.Remove"]>))
               (fun _ => "attacker") (fun i => if Nat.eqb i 1 then Some (mkObj "victim" 0) else None)
               [CPick 1; CCont; CPut "o" None]) 1 = None /\
  res_outcome (run_flow (mkOF "m" "Cancel" "MsgCancel" "Owner" CB "" (<[OSelect KId "o" "k.Get"; OCheck; OCompare "o" "Owner"; OWrite WObj "k.Remove"]>))
               (fun _ => "attacker") (fun i => if Nat.eqb i 1 then Some (mkObj "victim" 0) else None)
               [CPick 1; CCont; CPut "o" None]) = Fail Unauthorized.
Proof. repeat split; vm_compute; reflexivity. Qed.
End OF.

(* The guard does not lock the authority out: its execution continues behind the guard. *)
Theorem C17_authority_continues : forall h, strictly_guarded h = true ->
  forall (state : Type) (owner : state -> option string) (msg : message) (auth : string) (s : state)
         (chs : list (choice state)),
    msg (h_signer h) = auth ->
    exists pre r, h_skel h = (pre ++ SGuardAuthority (h_signer h) :: r)%list /\
                  run_handler owner h msg auth s chs = run_skel owner r msg auth s chs.
Proof. exact authority_continues. Qed.
Print Assumptions C17_authority_continues.

(* non-vacuity: the table is populated, a concrete handler rejects a stranger and lets the authority
   write; a skeleton whose check comes after a write is NOT accepted by [guarded]. *)
Example C17_nonvacuous :
  negb (Nat.leb (length (filter gov_only handlers)) 20) = true /\
  (exists h, find (fun h => String.eqb (h_name h) "amm.UpdateParams") handlers = Some h /\
     run_handler (fun _ : nat => None) h (fun _ => "elys1user") "elys1gov" 0 [ChWrite 1] = (Err Unauthorized, 0) /\
     run_handler (fun _ : nat => None) h (fun _ => "elys1gov") "elys1gov" 0 [ChWrite 1] = (Ok tt, 1)) /\
  guarded (mkH "m" "X" "MsgX" true "Authority" [SPure; SWrite "k.SetParams"; SGuardAuthority "Authority"; SReturn]) = false /\
  run_handler (fun _ : nat => None) (mkH "m" "X" "MsgX" true "Authority" [SPure; SWrite "k.SetParams"; SGuardAuthority "Authority"; SReturn])
     (fun _ => "elys1user") "elys1gov" 0 [ChWrite 1] = (Err Unauthorized, 1).
Proof.
  split; [vm_compute; reflexivity|]. split.
  - eexists. split; [vm_compute; reflexivity|]. split; vm_compute; reflexivity.
  - split; vm_compute; reflexivity.
Qed.
