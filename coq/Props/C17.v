(* C17 - Governance-only messages are refused from all but the governance authority; owner-scoped
   messages are refused from all but the owner.
   Only statements + [exact]; proofs in Proofs/AuthorityProofs.v, semantics in Models/Authority.v,
   the table [handlers] in Generated/Handlers.v is REGENERATED from the Go sources by tools/gotrans
   on every run of ./check, so the first four theorems are re-decided against the current tree. *)
From Coq Require Import String List Bool.
From Elys Require Import Base.Res Models.Authority Generated.Handlers Proofs.AuthorityProofs.
Import ListNotations.
Open Scope string_scope.

(* In every handler that is governance-only (its request has an Authority field, or it compares a
   request field with the keeper's authority anywhere), the authority comparison precedes everything
   that can write or return successfully (only local computation, state reads and error-only checks
   may come first), and the field it tests is the message's signer field.
   Breaks when a handler loses, inverts, weakens or postpones the check. *)
Theorem C17_guard_dominates : forallb guarded (filter gov_only handlers) = true.
Proof. exact guard_dominates. Qed.
Print Assumptions C17_guard_dominates.

(* Every request type that carries an Authority field is signed by exactly that field. *)
Theorem C17_authority_is_signer : forallb authority_is_signer (filter h_has_authority handlers) = true.
Proof. exact authority_is_signer_all. Qed.
Print Assumptions C17_authority_is_signer.

(* For every governance-only handler of the table, every message whose signer is not the authority,
   every state, every resolution of everything else the handler does: the handler returns an error
   and the state is the one it started with (handler level: no reliance on the transaction branch
   being discarded). *)
Theorem C17_rejects : forall h, In h handlers -> gov_only h = true ->
  forall (state : Type) (owner : state -> option string) (msg : message) (auth : string) (s : state)
         (chs : list (choice state)),
    msg (h_signer h) <> auth ->
    exists c, run_handler owner h msg auth s chs = (Err c, s).
Proof. exact rejects. Qed.
Print Assumptions C17_rejects.

Theorem C17_rejects_authority_field : forall h, In h handlers -> h_has_authority h = true ->
  forall (state : Type) (owner : state -> option string) (msg : message) (auth : string) (s : state)
         (chs : list (choice state)),
    msg "Authority" <> auth ->
    exists c, run_handler owner h msg auth s chs = (Err c, s).
Proof. exact rejects_authority_field. Qed.
Print Assumptions C17_rejects_authority_field.

(* Where nothing that can return precedes the guard (true of all 38 governance-only handlers of the
   pinned tree; not made an obligation, because putting a stateless validation of the request in front
   of the guard is a harmless change) the error is exactly Unauthorized. *)
Theorem C17_rejects_unauthorized : forall h, strictly_guarded h = true ->
  forall (state : Type) (owner : state -> option string) (msg : message) (auth : string) (s : state)
         (chs : list (choice state)),
    msg (h_signer h) <> auth ->
    run_handler owner h msg auth s chs = (Err Unauthorized, s).
Proof. exact rejects_unauthorized. Qed.
Print Assumptions C17_rejects_unauthorized.

(* Owner-scoped messages. Full statement wanted: for EVERY message type that addresses an object owned
   by an account (incl. the batch variants CancelSpotOrders / CancelPerpetualOrders, ClosePositions,
   masterchef/estaking/commitment claims keyed by the signer) a non-owner is rejected with the state
   unchanged. Proved here for [owner_scoped]: every handler that contains an owner comparison at all,
   plus the hand-written list [owner_spec] (tradeshield update/cancel, leveragelp/perpetual close and
   position updates, tokenomics claim). The batch variants build a new inner message in a loop, which
   the skeleton extraction does not follow; they are covered by the correspondence run only. *)
Theorem C17_owner_guard_dominates_partial : forallb owner_guarded (filter owner_scoped handlers) = true.
Proof. exact owner_guard_dominates. Qed.
Print Assumptions C17_owner_guard_dominates_partial.

Theorem C17_owner_spec_present :
  forallb (fun n => existsb (fun h => String.eqb (h_name h) n) handlers) owner_spec = true.
Proof. exact owner_spec_present. Qed.
Print Assumptions C17_owner_spec_present.

Theorem C17_owner_rejects_partial : forall h, In h handlers -> owner_scoped h = true ->
  forall (state : Type) (owner : state -> option string) (msg : message) (auth : string) (s : state)
         (chs : list (choice state)),
    owner s <> Some (msg (h_signer h)) ->
    exists c, run_handler owner h msg auth s chs = (Err c, s).
Proof. exact owner_rejects. Qed.
Print Assumptions C17_owner_rejects_partial.

(* The guard does not lock the authority out: its execution continues behind the guard. *)
Theorem C17_authority_continues : forall h, strictly_guarded h = true ->
  forall (state : Type) (owner : state -> option string) (msg : message) (auth : string) (s : state)
         (chs : list (choice state)),
    msg (h_signer h) = auth ->
    exists pre r, h_skel h = (pre ++ SGuardAuthority (h_signer h) :: r)%list /\
                  run_handler owner h msg auth s chs = run_skel owner r msg auth s chs.
Proof. exact authority_continues. Qed.
Print Assumptions C17_authority_continues.

(* non-vacuity: the table is populated, a concrete handler rejects a stranger and lets the authority
   write; a skeleton whose check comes after a write is NOT accepted by [guarded]. *)
Example C17_nonvacuous :
  negb (Nat.leb (length (filter gov_only handlers)) 20) = true /\
  (exists h, find (fun h => String.eqb (h_name h) "amm.UpdateParams") handlers = Some h /\
     run_handler (fun _ : nat => None) h (fun _ => "elys1user") "elys1gov" 0 [ChWrite 1] = (Err Unauthorized, 0) /\
     run_handler (fun _ : nat => None) h (fun _ => "elys1gov") "elys1gov" 0 [ChWrite 1] = (Ok tt, 1)) /\
  guarded (mkH "m" "X" "MsgX" true "Authority" [SPure; SWrite "k.SetParams"; SGuardAuthority "Authority"; SReturn]) = false /\
  run_handler (fun _ : nat => None) (mkH "m" "X" "MsgX" true "Authority" [SPure; SWrite "k.SetParams"; SGuardAuthority "Authority"; SReturn])
     (fun _ => "elys1user") "elys1gov" 0 [ChWrite 1] = (Err Unauthorized, 1).
Proof.
  split; [vm_compute; reflexivity|]. split.
  - eexists. split; [vm_compute; reflexivity|]. split; vm_compute; reflexivity.
  - split; vm_compute; reflexivity.
Qed.
