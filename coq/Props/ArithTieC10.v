(* C10, arithmetic tie: the guard comparisons of the forced closes (leveragelp liquidation / stop loss, perpetual liquidation /
   stop loss / take profit by position side) and of the open-time health checks, translated from the current Go source on
   every run (Generated/ArithC10.v), are the guard functions of Models/CloseGuard.v the C10 theorems are about. *)
From Coq Require Import ZArith List Bool.
From Elys Require Import Base.Res Models.CloseGuard Generated.ArithC10 Proofs.ArithTieC10.
Import ListNotations.
Open Scope Z_scope.

Theorem C10_tie_LevLiq_isHealthy : forall h sfv, LevLiq_isHealthy h sfv = lev_is_healthy h sfv.
Proof. exact tie_LevLiq_isHealthy. Qed.
Print Assumptions C10_tie_LevLiq_isHealthy.

Theorem C10_tie_LevLiq_skip : forall h sfv liab, negb (LevLiq_skip h sfv liab) = lev_may_liquidate h sfv liab.
Proof. exact tie_LevLiq_skip. Qed.
Print Assumptions C10_tie_LevLiq_skip.

Theorem C10_tie_lev_liq_guard : forall sfv it,
  lev_liq_guard sfv it = match i_health it with Some h => negb (LevLiq_skip h sfv (i_liab it)) | None => false end.
Proof. exact tie_lev_liq_guard. Qed.
Print Assumptions C10_tie_lev_liq_guard.

Theorem C10_tie_LevStop_under : forall pr sl, LevStop_under (trig_val sl) (trig_nil sl) pr = lev_stop_hit pr sl.
Proof. exact tie_LevStop_under. Qed.
Print Assumptions C10_tie_LevStop_under.

Theorem C10_tie_LevStop_skip : forall pr sl, LevStop_skip (trig_val sl) (trig_nil sl) pr = negb (lev_stop_hit pr sl).
Proof. exact tie_LevStop_skip. Qed.
Print Assumptions C10_tie_LevStop_skip.

Theorem C10_tie_lev_stop_guard : forall t it,
  lev_stop_guard t it =
  match i_health2 it, i_price it with
  | Some _, Some pr => negb (LevStop_skip (trig_val (fst (fst t))) (trig_nil (fst (fst t))) pr)
  | _, _ => false
  end.
Proof. exact tie_lev_stop_guard. Qed.
Print Assumptions C10_tie_lev_stop_guard.

Theorem C10_tie_LevOpen_unhealthy : forall pool h sfv, negb (LevOpen_unhealthy pool h sfv) = open_ok h sfv.
Proof. exact tie_LevOpen_unhealthy. Qed.
Print Assumptions C10_tie_LevOpen_unhealthy.

Theorem C10_tie_PerpLiq_unhealthy : forall h sfv, PerpLiq_unhealthy h sfv = perp_may_liquidate h sfv.
Proof. exact tie_PerpLiq_unhealthy. Qed.
Print Assumptions C10_tie_PerpLiq_unhealthy.

Theorem C10_tie_PerpStop_under : forall pos pr sl,
  (PerpStop_underLong pos (trig_val sl) (trig_nil sl) pr || PerpStop_underShort pos (trig_val sl) (trig_nil sl) pr)
  = perp_stop_hit (pos =? 1) pr sl.
Proof. exact tie_PerpStop_under. Qed.
Print Assumptions C10_tie_PerpStop_under.

Theorem C10_tie_PerpTake_miss : forall pos pr tp,
  Some (negb (PerpTake_missLong pos tp pr || PerpTake_missShort pos tp pr)) = perp_take_hit (pos =? 1) pr (Some tp).
Proof. exact tie_PerpTake_miss. Qed.
Print Assumptions C10_tie_PerpTake_miss.

Theorem C10_tie_Perp_open_unhealthy : forall a b c id h sfv,
  negb (PerpOpen_unhealthy a b c h sfv) = open_ok h sfv /\
  negb (PerpConsolidate_unhealthy h sfv) = open_ok h sfv /\
  negb (PerpAfterOpen_unhealthy id h sfv) = open_ok h sfv.
Proof. exact tie_Perp_open_unhealthy. Qed.
Print Assumptions C10_tie_Perp_open_unhealthy.

Theorem C10_tie_guard_of_perp : forall sfv t it pos, (pos =? 1) = snd t ->
  guard_of KPerpLiq sfv t it =
    match i_settle it, i_health it with Some _, Some h => i_hook it && PerpLiq_unhealthy h sfv | _, _ => false end /\
  guard_of KPerpStop sfv t it =
    match i_price it with
    | Some pr => PerpStop_underLong pos (trig_val (fst (fst t))) (trig_nil (fst (fst t))) pr
                 || PerpStop_underShort pos (trig_val (fst (fst t))) (trig_nil (fst (fst t))) pr
    | None => false end /\
  guard_of KPerpTake sfv t it =
    match i_price it, snd (fst t) with
    | Some pr, Some tp => negb (PerpTake_missLong pos tp pr || PerpTake_missShort pos tp pr)
    | _, _ => false end.
Proof. exact tie_guard_of_perp. Qed.
Print Assumptions C10_tie_guard_of_perp.

Theorem C10_tie_guard_of_lev : forall sfv t it,
  guard_of KLevLiq sfv t it = match i_health it with Some h => negb (LevLiq_skip h sfv (i_liab it)) | None => false end /\
  guard_of KLevStop sfv t it =
    match i_health2 it, i_price it with
    | Some _, Some pr => negb (LevStop_skip (trig_val (fst (fst t))) (trig_nil (fst (fst t))) pr)
    | _, _ => false end.
Proof. exact tie_guard_of_lev. Qed.
Print Assumptions C10_tie_guard_of_lev.
