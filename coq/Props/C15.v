(* C15 - Users' assets are never minted or destroyed by the protocol.
   Only statements + [exact]; semantics in Models/Supply.v, proofs in Proofs/SupplyProofs.v and
   Proofs/SupplyTableProofs.v. The table [sites] (Generated/MintSites.v: every MintCoins / BurnCoins call site
   of x/ and app/ with the syntactic class of its denomination and its reachability class, plus maccPerms) is
   REGENERATED from the Go sources by `tools/gotrans mintsites` on every run of ./check, so the first three
   theorems are re-decided against the current tree; [table] = [sites ++ sdk_sites] (the three standard SDK
   burns by the gov and staking-pool accounts).  The dynamic statements hold for EVERY table that passes the
   check, every classification of denominations, every history of steps (no bound on length, accounts, amounts). *)
From Coq Require Import ZArith List Bool String.
From Elys Require Import Base.Fn Models.Supply Generated.MintSites Proofs.SupplyProofs Run.SupplyRun Proofs.SupplyTableProofs.
Import ListNotations.
Open Scope Z_scope.

(* Every entry-reachable bank mint/burn site of the current tree obeys the rule of the property: no site for
   an external denomination, native token minted only in commitment.ClaimVesting / VestNow and burned only by
   burner / gov / staking pools, pool shares only on the amm account, vault shares only on the stablestake
   account, Eden/EdenB only through the commitment wrapper (virtual), the burner only the zero address's
   balance; unclassifiable denominations (MatchAmmBalances: `asset.Token.Denom`) only if reachable from
   migration / test-helper code alone; unknown reachability is refused.
   Breaks when a new MintCoins/BurnCoins of any other denomination appears anywhere in x/ or app/, when an
   existing site's denomination expression changes class, or when MatchAmmBalances becomes referenced by
   any non-migration function. *)
Theorem C15_sites_ok : forallb (site_ok table) table = true.
Proof. exact table_sites_ok. Qed.
Print Assumptions C15_sites_ok.

(* Module-account permissions: Minter / Burner only on the expected accounts, and every entry-reachable bank
   site on an Elys module account has the permission it uses. *)
Theorem C15_perms_ok : forallb perm_ok macc_perms = true /\ forallb (site_has_perm macc_perms) sites = true.
Proof. exact (conj perms_ok_all sites_have_perms). Qed.
Print Assumptions C15_perms_ok.

(* The translator's resolution of forwarded coin parameters equals the model's (cross-check of the table). *)
Theorem C15_origins_agree : forallb (fun s => same_set (origin_of table s) (s_origin s)) table = true.
Proof. exact origins_agree. Qed.
Print Assumptions C15_origins_agree.

(* Bank accounting: supply moves only by mints and burns (sends never change it). *)
Theorem C15_accounting : forall h s d, run h s d = s d + minted d h - burned d h.
Proof. exact supply_accounting. Qed.
Print Assumptions C15_accounting.

(* EXTERNAL denominations (stablecoin, traded assets, IBC vouchers). For every table that passes the check,
   every history whose mints/burns are attributed to entry-reachable rows of that table: nothing is ever
   minted, the supply never grows, it falls exactly by what the burner destroyed, every such burn is the coin
   the burner collected from the zero (burn) address in the same step, and if no step collects the denomination
   from the zero address the supply is UNCHANGED. (The burner burns any denomination that has bank metadata and
   sits on the zero address; that is the code as it is, see the report.) *)
Theorem C15_supply : forall W tbl h s d,
  forallb (site_ok tbl) tbl = true -> hist_ok W tbl h -> w_dcl W d = RExternal ->
  minted d h = 0 /\ 0 <= burned d h /\ run h s d = s d - burned d h /\
  ((forall st, In st h -> collects_from_zero W d st = false) -> run h s d = s d).
Proof. intros W tbl h s d Ht. exact (external_supply W tbl h s d Ht). Qed.
Print Assumptions C15_supply.

(* ... instantiated with the regenerated table of the current tree. *)
Theorem C15_supply_current_tree : forall W h s d,
  hist_ok W table h -> w_dcl W d = RExternal ->
  (forall st, In st h -> collects_from_zero W d st = false) -> run h s d = s d.
Proof. intros W h s d Hh Hd Hz. exact (proj2 (proj2 (proj2 (external_supply W table h s d table_ok Hh Hd))) Hz). Qed.
Print Assumptions C15_supply_current_tree.

(* Eden / EdenB never exist in the bank. *)
Theorem C15_virtual : forall W tbl h s d,
  forallb (site_ok tbl) tbl = true -> hist_ok W tbl h -> w_dcl W d = RVirtual -> run h s d = s d.
Proof. intros W tbl h s d Ht. exact (virtual_supply W tbl h s d Ht). Qed.
Print Assumptions C15_virtual.

(* NATIVE token: every mint in a step is a commitment-module vesting release (ClaimVesting / VestNow) of a
   positive amount that the commitment account pays out in the same step; every burn is by the burner, gov or
   a staking pool account. *)
Theorem C15_native : forall W tbl st d,
  forallb (site_ok tbl) tbl = true -> step_ok W tbl st = true -> w_dcl W d = RNative ->
  (forall r m a, In (r, m, a) (mints_of d st) ->
     exists s, nth_error tbl r = Some s /\ s_module s = "commitment"%string /\ s_macc s = "commitment"%string /\
               mem (s_func s) vest_release_fns = true /\ 0 < a /\ has_release (w_commit W) d a st = true) /\
  (forall r m a, In (r, m, a) (burns_of d st) ->
     exists s, nth_error tbl r = Some s /\ mem (s_macc s) native_burners = true /\ 0 < a).
Proof. intros W tbl st d Ht. exact (native_step W tbl st d Ht). Qed.
Print Assumptions C15_native.

(* Monotonicity (any denomination): a step without a mint cannot raise the supply, a step without a burn
   cannot lower it. With C15_native: the native supply grows only in steps that contain a vesting release and
   falls only in steps that contain a burner / gov / staking-pool burn. *)
Theorem C15_monotone : forall W tbl st s d, step_ok W tbl st = true ->
  (mints_of d st = [] -> apply_step s st d <= s d) /\ (burns_of d st = [] -> s d <= apply_step s st d).
Proof. exact monotone_step. Qed.
Print Assumptions C15_monotone.

(* SHARE tokens: a mint of a pool's (vault's) share needs a positive transfer INTO that pool's (vault's) account
   in the same step; a burn needs a positive transfer OUT of it or - an exit whose pro-rata amounts all round to
   zero moves no tokens - at least the hand-over of exactly the burned shares by their holder in the same step
   (the harness checks on the implementation that a burn without a withdrawal is such a dust exit); the rows
   are amm / stablestake rows; the share supply changes only in steps that contain one of these transfers. *)
Theorem C15_shares : forall W tbl st d acct,
  forallb (site_ok tbl) tbl = true -> step_ok W tbl st = true ->
  (w_dcl W d = RPoolShare acct \/ w_dcl W d = RVaultShare acct) ->
  (mints_of d st <> [] -> has_send_to acct st = true) /\
  (forall r m a, In (r, m, a) (burns_of d st) -> has_send_from acct st || has_moved d a st = true) /\
  (forall r m a, In (r, m, a) (mints_of d st) \/ In (r, m, a) (burns_of d st) ->
     exists s, nth_error tbl r = Some s /\ (w_dcl W d = RPoolShare acct -> s_macc s = "amm"%string) /\
               (w_dcl W d = RVaultShare acct -> s_macc s = "stablestake"%string)).
Proof. intros W tbl st d acct Ht. exact (share_step W tbl st d acct Ht). Qed.
Print Assumptions C15_shares.

Theorem C15_share_supply_changes : forall W tbl st s d acct,
  forallb (site_ok tbl) tbl = true -> step_ok W tbl st = true ->
  (w_dcl W d = RPoolShare acct \/ w_dcl W d = RVaultShare acct) ->
  apply_step s st d <> s d ->
  has_send_to acct st = true \/ has_send_from acct st = true \/ exists a, 0 < a /\ has_moved d a st = true.
Proof. intros W tbl st s d acct Ht. exact (share_supply_changes W tbl st s d acct Ht). Qed.
Print Assumptions C15_share_supply_changes.

(* Non-vacuity: a concrete history accepted by the model over the regenerated table - a join (deposit + pool
   share mint), a vesting claim (native mint + release), a burner epoch (collection from the zero address +
   burn of the native token and of an external denomination with metadata), an exit; the external denomination 0
   keeps its supply until the burner step, where it falls by exactly the collected amount. Rows are looked up
   by (module account, kind), not by position or function name, so a reordering of the table does not break the example. *)
Definition row_of (macc : string) (k : mkind) : nat :=
  (fix go (l : list site) (i : nat) : nat :=
     match l with [] => i | s :: r => if String.eqb (s_macc s) macc && kind_eqb (s_kind s) k && is_bank s && is_entry s then i else go r (S i) end) table O.
Definition exW : world := mkW (dcl_of [(0, RExternal); (1, RNative); (2, RPoolShare 50); (3, RVaultShare 51)]%nat) 90 91 92.
Definition exH : list (list bop) := [
  [Send 7 50 0 1000; MintOp (row_of "amm" Mint) "amm" 2 500; Send 60 7 2 500];
  [MintOp (row_of "commitment" Mint) "commitment" 1 40; Send 92 7 1 40];
  [Send 90 91 1 5; BurnOp (row_of "burner" Burn) "burner" 1 5; Send 90 91 0 9; BurnOp (row_of "burner" Burn) "burner" 0 9];
  [Send 50 7 0 300; Send 7 60 2 100; BurnOp (row_of "amm" Burn) "amm" 2 100]
]%nat%string.
Example C15_nonvacuous :
  forallb (step_ok exW table) exH = true /\
  map (run exH (fun _ => 1000000)) [0; 1; 2; 3]%nat = [1000000 - 9; 1000000 + 40 - 5; 1000000 + 500 - 100; 1000000].
Proof. vm_compute. split; reflexivity. Qed.
