(* C03, arithmetic tie: solveConstantFunctionInvariant, CalculateTokenARate, CalcOutAmtGivenIn and
   CalcInAmtGivenOut, translated from the current Go source on every run (Generated/ArithC03.v, with the
   SDK's range and division-by-zero panics), are the model functions [solve], [token_a_rate], [calc_out],
   [calc_in] the C03 theorems are about (Pow = the model's [pow]; opaque readers = the model's pool record,
   [oracle_weights], [rate_in_out]). *)
From Coq Require Import ZArith.
From Elys Require Import Base.Res Base.Zdec Models.AmmSwap Generated.ArithC03 Proofs.ArithTieC03.
Open Scope Z_scope.

Theorem C03_tie_solveConstantFunctionInvariant : forall a b c d e : Z,
  solveConstantFunctionInvariant pow a b c d e = solve a b c d e.
Proof. exact tie_solve. Qed.
Print Assumptions C03_tie_solveConstantFunctionInvariant.

Theorem C03_tie_CalculateTokenARate : forall balA wA balB wB : Z,
  CalculateTokenARate balA wA balB wB = token_a_rate balA wA balB wB.
Proof. exact tie_CalculateTokenARate. Qed.
Print Assumptions C03_tie_CalculateTokenARate.

Theorem C03_tie_CalcOutAmtGivenIn : forall (p : pool) (a fee : Z),
  CalcOutAmtGivenIn pow (use_oracle p) fee (Ok (a, b_in p, w_in p, b_out p, w_out p)) (Ok tt)
    (acc_in p) (acc_out p) (oracle_weights p) (rate_in_out p)
  = calc_out p a fee.
Proof. exact tie_CalcOutAmtGivenIn. Qed.
Print Assumptions C03_tie_CalcOutAmtGivenIn.

Theorem C03_tie_CalcInAmtGivenOut : forall (p : pool) (o fee : Z),
  CalcInAmtGivenOut pow (use_oracle p) fee (Ok (o, b_out p, w_out p, b_in p, w_in p)) (Ok tt)
    (acc_out p) (acc_in p) (oracle_weights p) (rate_in_out p)
  = calc_in p o fee.
Proof. exact tie_CalcInAmtGivenOut. Qed.
Print Assumptions C03_tie_CalcInAmtGivenOut.

Theorem C03_tie_ApplyDiscount : forall fee discount : Z, ApplyDiscount fee discount = apply_discount fee discount.
Proof. exact tie_ApplyDiscount. Qed.
Print Assumptions C03_tie_ApplyDiscount.

Theorem C03_tie_CalcGivenInSlippage : forall resized p_in p_out balancer_out : Z,
  CalcGivenInSlippage (Ok balancer_out) (Ok resized) p_in p_out =
  if p_in =? 0 then Err E_other else if p_out =? 0 then Err E_other else
  given_in_slippage resized p_in p_out balancer_out.
Proof. exact tie_CalcGivenInSlippage. Qed.
Print Assumptions C03_tie_CalcGivenInSlippage.

Theorem C03_tie_CalcGivenOutSlippage : forall resized p_in p_out balancer_in : Z,
  CalcGivenOutSlippage (Ok balancer_in) (Ok resized) p_in p_out =
  if p_in =? 0 then Err E_other else if p_out =? 0 then Err E_other else
  given_out_slippage resized p_in p_out balancer_in.
Proof. exact tie_CalcGivenOutSlippage. Qed.
Print Assumptions C03_tie_CalcGivenOutSlippage.

Theorem C03_tie_oracle_swap_out_slippage : forall (p : pool) (r : Z),
  price_in p <> 0 -> price_out p <> 0 ->
  CalcGivenInSlippage
    (bind (CalcOutAmtGivenIn pow (use_oracle p) 0 (Ok (r, b_in p, w_in p, b_out p, w_out p)) (Ok tt)
             (acc_in p) (acc_out p) (oracle_weights p) (rate_in_out p)) (fun x => Ok (fst x)))
    (Ok r) (price_in p) (price_out p)
  = (do '(bo, _) <- calc_out p r 0; given_in_slippage r (price_in p) (price_out p) bo).
Proof. exact tie_oracle_swap_out_slippage. Qed.
Print Assumptions C03_tie_oracle_swap_out_slippage.
