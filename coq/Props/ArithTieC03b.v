(* C03 / C05, arithmetic tie of the WEIGHT-BREAKING FEE: the definitions translated from the current Go source on every run
   (Generated/ArithC03b.v) are the functions of Models/WeightFee.v the with-fee theorems of Props/C03.v / Props/C05.v are about.
   GetWeightBreakingFee: whole function with the SDK's range / division-by-zero panics, Pow = the model's [pow], equal as values
   of [res] for ALL arguments. The slices of SwapOutAmtGivenIn / SwapInAmtGivenOut / JoinPool / CalcExitPool /
   GetOraclePoolNormalizedWeights are pure-mode values: equal to what the checked model returns whenever it returns.
   Inputs of the slices: d0 / d1 = WeightDistanceFromTarget before / after, f0 = result of GetWeightBreakingFee. *)
From Coq Require Import ZArith Bool List.
From Elys Require Import Base.Res Base.Zdec Models.AmmSwap Models.WeightFee Generated.ArithC03b Proofs.ArithTieC03b.
From Elys Require Models.AmmJoinExit.
Import ListNotations.
Open Scope Z_scope.

Theorem C03_tie_GetWeightBreakingFee : forall prm fi fo ti to ii io dd,
  GetWeightBreakingFee pow fi fo ti to ii io dd (wp_exp prm) (wp_mult prm) = get_wbf prm fi fo ti to ii io dd.
Proof. exact tie_GetWeightBreakingFee. Qed.
Print Assumptions C03_tie_GetWeightBreakingFee.

Theorem C03_tie_SwapOut_distanceDiff : forall fee perp d0 d1 dd,
  csub d1 d0 = Ok dd -> dd = SwapOut_distanceDiff fee perp d0 d1.
Proof. exact tie_SwapOut_distanceDiff. Qed.
Print Assumptions C03_tie_SwapOut_distanceDiff.

Theorem C03_tie_SwapIn_distanceDiff : forall fee perp d0 d1 dd,
  csub d1 d0 = Ok dd -> dd = SwapIn_distanceDiff fee perp d0 d1.
Proof. exact tie_SwapIn_distanceDiff. Qed.
Print Assumptions C03_tie_SwapIn_distanceDiff.

(* the decision of the model = the weightBalanceBonus the Go function returns, and the fee the model applies is the one
   inside the Go amount formula *)
Theorem C03_tie_SwapOut_bonus : forall prm fee perp d0 d1 f0 wbf bonus,
  wb_decide_swap prm d0 (d1 - d0) f0 perp = Ok (wbf, bonus) ->
  bonus = SwapOut_bonus fee perp (wp_thr prm) (wp_portion prm) d0 d1 f0 /\
  wbf = (if d1 - d0 <? 0 then 0 else dmul f0 perp).
Proof. exact tie_SwapOut_bonus. Qed.
Print Assumptions C03_tie_SwapOut_bonus.

Theorem C03_tie_SwapIn_bonus : forall prm fee perp d0 d1 f0 wbf bonus,
  wb_decide_swap prm d0 (d1 - d0) f0 perp = Ok (wbf, bonus) ->
  bonus = SwapIn_bonus fee perp (wp_thr prm) (wp_portion prm) d0 d1 f0 /\
  wbf = (if d1 - d0 <? 0 then 0 else dmul f0 perp).
Proof. exact tie_SwapIn_bonus. Qed.
Print Assumptions C03_tie_SwapIn_bonus.

Theorem C03_tie_SwapOut_amount : forall a pin pout ratio s fee perp d0 d1 f0 out oo,
  oracle_out a pin pout ratio s (if d1 - d0 <? 0 then 0 else dmul f0 perp) fee = Ok (out, oo) ->
  out = SwapOut_amount fee perp a pin pout d0 d1 ratio s f0.
Proof. exact tie_SwapOut_amount. Qed.
Print Assumptions C03_tie_SwapOut_amount.

Theorem C03_tie_SwapIn_amount : forall o pin pout ratio s fee perp d0 d1 f0 inn oi,
  oracle_in o pin pout ratio s (if d1 - d0 <? 0 then 0 else dmul f0 perp) fee = Ok (inn, oi) ->
  inn = SwapIn_amount fee perp o pin pout d0 d1 ratio s f0.
Proof. exact tie_SwapIn_amount. Qed.
Print Assumptions C03_tie_SwapIn_amount.

Theorem C05_tie_JoinPool_bonus : forall prm d0 d1 f0 wbf bonus,
  wb_decide_join prm d0 (d1 - d0) f0 = Ok (wbf, bonus) ->
  bonus = JoinPool_bonus (wp_thr prm) (wp_portion prm) d0 d1 f0 /\
  wbf = (if (wp_thr prm <? d0) && (d1 - d0 <? 0) then 0 else f0).
Proof. exact tie_JoinPool_bonus. Qed.
Print Assumptions C05_tie_JoinPool_bonus.

Theorem C05_tie_JoinPool_feeApplied : forall thr d0 d1 f0 jv T S,
  AmmJoinExit.oracle_join_shares S jv T (if (thr <? d0) && (d1 - d0 <? 0) then 0 else f0) =
  round_int (JoinPool_feeApplied thr d0 d1 f0 jv T S).
Proof. exact tie_JoinPool_feeApplied. Qed.
Print Assumptions C05_tie_JoinPool_feeApplied.

Theorem C05_tie_CalcExitPool_bonus : forall sh f, CalcExitPool_bonus sh f = - f.
Proof. exact tie_CalcExitPool_bonus. Qed.
Print Assumptions C05_tie_CalcExitPool_bonus.

(* GetOraclePoolNormalizedWeights: one iteration of the first loop, and one quotient of the second loop *)
Theorem C03_tie_OracleWeights_step : forall id x r tot,
  oracle_raw (x :: r) tot =
  if OracleWeights_zeroPrice id (a_price x) then Err E_other else
  do w <- chk (OracleWeights_weight id (a_price x) (a_amt x));
  do t <- chk (OracleWeights_total id (a_price x) tot (a_amt x));
  do '(ws, t2) <- oracle_raw r t;
  Ok (w :: ws, t2).
Proof. exact tie_oracle_raw_step. Qed.
Print Assumptions C03_tie_OracleWeights_step.

Theorem C03_tie_OracleWeights_normalized : forall id t w,
  cquo w (if OracleWeights_zeroTotal id t then ONE else t) =
  if (if t =? 0 then ONE else t) =? 0 then Panic P_divzero else chk (OracleWeights_normalized id t w).
Proof. exact tie_oracle_norm_quotient. Qed.
Print Assumptions C03_tie_OracleWeights_normalized.
