(* C18 - No reachable state makes block processing fail.  PARTIAL (see the end of this header).
   Only statements + [exact]; model in Models/Blocks.v, proofs in Proofs/BlocksProofs.v. The table
   [Generated.BlockerSurface.blockers] is REGENERATED from the Go sources (app/modules.go order lists,
   app/keepers hook wiring, every x/<m>/module.go and x/<m>/modules/<n>/module.go, call-graph closure in x/)
   by tools/gotrans on every run of ./check, so the table theorems are re-decided against the current tree.

   Full statement wanted:
     forall histories of transactions, oracle outages, block-time gaps and parameter settings accepted by
     validation, FinalizeBlock and Commit of every block succeed.
   What is proved: the pipeline over the generated table never fails, for all states, all behaviours of the
   blockers and all firing choices of their failure points, PROVIDED every failure point is disciplined:
   syntactically (guard in the same function / recover frame on every path / error dropped on the way up), or by
   a reviewed guard that is modelled and proved to hold on reachable environments (classes RParam, RLocalGuard,
   RStructural), or by a named assumption (RNonNeg, RStoredAddr, RBankOwn, RGovState, RSdk).
   NOT modelled (the partiality): the SDK modules in the order lists (capability, staking, slashing, evidence,
   distribution proper, gov, bank, auth, IBC, CCV consumer, ...), panics inside the SDK (math overflow, store),
   Commit, and code deeper than the translator's call depth. The correspondence run drives the real
   FinalizeBlock + Commit for that part.
   The calls of the estaking end blocker into the SDK distribution keeper (WithdrawDelegationRewards and the staking
   hooks fired by estaking's commitment hooks) are listed in the table as KExtPanic points with the number of explicit
   panic sites they reach inside the SDK; they are reviewed under class RSdk, i.e. C18_blocks_never_fail_partial ASSUMES
   that distribution's sanity checks hold (recorded starting stake <= current stake for every real or virtual
   delegation). Only the staking histories of the correspondence run exercise that assumption. *)
From Coq Require Import String List Bool ZArith.
From Elys Require Import Base.Res Base.Zdec Models.Blocks Models.StakerRewards Generated.BlockerSurface Proofs.BlocksProofs Proofs.StakerRewardsProofs.
Import ListNotations.
Open Scope string_scope.

(* If every blocker of a table is safe by the syntactic discipline alone (its error is not returned to the module
   manager or no live error point exists; every panic point is guarded or inside a recover frame on every path),
   then for ALL states, ALL state transformers and ALL choices of firing points the block succeeds. *)
Theorem C18_pipeline_total : forall tbl, forallb blocker_safe tbl = true ->
  forall (S : Type) (step : blocker -> S -> S) (oc : blocker -> fpoint -> outcome) holds kn (s : S),
  exists s', run_block step oc holds kn tbl s = Ok s'.
Proof. exact pipeline_total. Qed.
Print Assumptions C18_pipeline_total.

(* Every failure point of every Elys blocker of the CURRENT tree is accounted for: safe by syntax, or in the
   reviewed list (with its class), or one of the known defects. A new unguarded panic / newly propagated error in
   any blocker or hook makes this false. *)
Theorem C18_sites_ok : forallb blocker_ok blockers = true.
Proof. exact sites_ok. Qed.
Print Assumptions C18_sites_ok.

(* The generated order lists are dense (positions 0,1,2,... per phase, in table order). *)
Theorem C18_order_wf : order_wf blockers = true.
Proof. exact order_ok. Qed.
Print Assumptions C18_order_wf.

(* Exactly these blockers / hooks rely on the reviewed list; all others are safe by syntax alone. *)
Theorem C18_unsafe_blockers : unsafe_names blockers =
  [("epochs", PBegin); ("distribution", PBegin); ("perpetual", PBegin); ("leveragelp", PBegin);
   ("amm", PEnd); ("masterchef", PEnd); ("estaking", PEnd);
   ("burner", PEpochAfter); ("oracle", PEpochBefore); ("estaking", PEpochBefore)].
Proof. exact unsafe_blockers. Qed.
Print Assumptions C18_unsafe_blockers.

(* The module methods that hand an error of their blocker to the module manager. *)
Theorem C18_propagating_blockers : propagating blockers = [("distribution", PBegin); ("masterchef", PEnd)].
Proof. exact propagating_blockers. Qed.
Print Assumptions C18_propagating_blockers.

(* The blockers the correspondence run drives at keeper level are in the table, non-trivial. *)
Theorem C18_expected_present :
  forallb (fun mp => has_blocker blockers (fst mp) (snd mp))
    [("epochs", PBegin); ("stablestake", PBegin); ("perpetual", PBegin); ("leveragelp", PBegin); ("tier", PBegin);
     ("oracle", PEnd); ("amm", PEnd); ("masterchef", PEnd); ("estaking", PEnd)] = true.
Proof. exact expected_present. Qed.
Print Assumptions C18_expected_present.

(* No stale entry: every reviewed / known entry still matches a point of the table. *)
Theorem C18_reviewed_all_used : forallb (entry_used blockers) (reviewed ++ known_unsafe) = true.
Proof. exact reviewed_all_used. Qed.
Print Assumptions C18_reviewed_all_used.

(* The modelled guards of the reviewed classes RParam / RLocalGuard hold on every reachable environment
   (parameters passed Validate, non-negative amounts, positive validator tokens, consistent interest store). *)
Theorem C18_reviewed_guards_hold : forall e, reach e -> guard_tbpy e = true /\ local_guards e = true.
Proof. exact reach_guards. Qed.
Print Assumptions C18_reviewed_guards_hold.

(* ... and the RParam guard is not vacuous: TotalBlocksPerYear = 0 (rejected by Validate) breaks it. *)
Theorem C18_guard_needed : forall e, e_tbpy e = 0%Z -> guard_tbpy e = false.
Proof. exact guard_tbpy_zero. Qed.
Print Assumptions C18_guard_needed.

(* Block processing of the REPAIRED pipeline (the known defects fixed) over the current table never fails:
   for every reachable environment, every state, every behaviour of the blockers and every firing choice,
   given the named assumptions about the classes that are not modelled. *)
Theorem C18_blocks_never_fail_partial : forall e assume, reach e ->
  (forall c, assumed_class c = true -> assume c = true) ->
  forall (S : Type) (step : blocker -> S -> S) (oc : blocker -> fpoint -> outcome) (s : S),
  exists s', run_block step oc (holds_in e assume) true blockers s = Ok s'.
Proof. exact (pipeline_total_reviewed blockers sites_ok). Qed.
Print Assumptions C18_blocks_never_fail_partial.

(* The RNonNeg assumption about the two reward amounts of the estaking end blocker that divide by int64(TotalBlocksPerYear)
   (UpdateStakersRewards: NewCoin(EdenB, stakersEdenBAmount), the APR cap of the Eden amount), exact LegacyDec arithmetic:
   it HOLDS for every non-negative stake and APR while TotalBlocksPerYear < 2^63 ... *)
Theorem C18_edenb_amount_nonneg : forall total apr tbpy, (0 <= total)%Z -> (0 <= apr)%Z -> tbpy_int64 tbpy ->
  (0 <= edenb_amount total apr tbpy)%Z.
Proof. exact edenb_amount_nonneg. Qed.
Print Assumptions C18_edenb_amount_nonneg.

Theorem C18_eden_cap_nonneg : forall total apr tbpy, (0 <= total)%Z -> (0 <= apr)%Z -> tbpy_int64 tbpy ->
  (0 <= eden_cap total apr tbpy)%Z.
Proof. exact eden_cap_nonneg. Qed.
Print Assumptions C18_eden_cap_nonneg.

(* Since fix: f62637f x/parameter refuses TotalBlocksPerYear above MaxInt64, so for EVERY accepted value the amounts
   minted in the estaking end blocker are non-negative (sdk.NewCoin cannot panic there). *)
Theorem C18_edenb_amount_nonneg_accepted : forall total apr tbpy, (0 <= total)%Z -> (0 <= apr)%Z -> tbpy_accepted tbpy ->
  (0 <= edenb_amount total apr tbpy)%Z.
Proof. exact edenb_amount_nonneg_accepted. Qed.
Print Assumptions C18_edenb_amount_nonneg_accepted.

Theorem C18_eden_cap_nonneg_accepted : forall total apr tbpy, (0 <= total)%Z -> (0 <= apr)%Z -> tbpy_accepted tbpy ->
  (0 <= eden_cap total apr tbpy)%Z.
Proof. exact eden_cap_nonneg_accepted. Qed.
Print Assumptions C18_eden_cap_nonneg_accepted.

(* BEFORE the fix it was REFUTED for the values x/parameter accepted (every non-zero uint64): with TotalBlocksPerYear = 2^63
   the EdenB amount is -1 for about 6*10^12 uelys staked at EdenBoostApr 10^6. GENUINE DEFECT, replayed on the real
   application through governance + staking messages only (first history of c18StakeCorpus, signature
   C18:block-failed:estaking.UpdateStakersRewards:total-blocks-per-year-above-int64); repaired by f62637f. *)
Theorem C18_edenb_amount_prefix_refuted : exists total apr tbpy,
  (0 <= total)%Z /\ (0 <= apr)%Z /\ tbpy_accepted_prefix tbpy /\ (edenb_amount total apr tbpy < 0)%Z.
Proof. exact edenb_amount_prefix_refuted. Qed.
Print Assumptions C18_edenb_amount_prefix_refuted.

(* Non-vacuity: a concrete environment satisfies [reach]. *)
Example C18_reach_nonvacuous : reach env0.
Proof. exact env0_reach. Qed.
