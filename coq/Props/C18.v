(* C18 - No reachable state makes block processing fail.  PARTIAL (see the end of this header).
   Only statements + [exact]; model in Models/Blocks.v, proofs in Proofs/BlocksProofs.v. The table
   [Generated.BlockerSurface.blockers] is REGENERATED from the Go sources (app/modules.go order lists,
   app/keepers hook wiring, every x/<m>/module.go and x/<m>/modules/<n>/module.go, call-graph closure in x/)
   by tools/gotrans on every run of ./check, so the table theorems are re-decided against the current tree.

   Full statement wanted:
     forall histories of transactions, oracle outages, block-time gaps and parameter settings accepted by
     validation, FinalizeBlock and Commit of every block succeed.
   What is proved: the pipeline over the generated table never fails, for all states, all behaviours of the
   blockers and all firing choices of their failure points, PROVIDED every failure point is disciplined:
   syntactically (guard in the same function / recover frame on every path / error dropped on the way up), or by
   a reviewed guard that is modelled and proved to hold on reachable environments (classes RParam, RLocalGuard,
   RStructural), or by a named assumption (RNonNeg, RStoredAddr, RBankOwn, RGovState, RSdk).
   NOT modelled (the partiality): the SDK modules in the order lists (capability, staking, slashing, evidence,
   distribution proper, gov, bank, auth, IBC, CCV consumer, ...), panics inside the SDK (math overflow, store),
   Commit, and code deeper than the translator's call depth. The correspondence run drives the real
   FinalizeBlock + Commit for that part. *)
From Coq Require Import String List Bool ZArith.
From Elys Require Import Base.Res Models.Blocks Generated.BlockerSurface Proofs.BlocksProofs.
Import ListNotations.
Open Scope string_scope.

(* If every blocker of a table is safe by the syntactic discipline alone (its error is not returned to the module
   manager or no live error point exists; every panic point is guarded or inside a recover frame on every path),
   then for ALL states, ALL state transformers and ALL choices of firing points the block succeeds. *)
Theorem C18_pipeline_total : forall tbl, forallb blocker_safe tbl = true ->
  forall (S : Type) (step : blocker -> S -> S) (oc : blocker -> fpoint -> outcome) holds kn (s : S),
  exists s', run_block step oc holds kn tbl s = Ok s'.
Proof. exact pipeline_total. Qed.
Print Assumptions C18_pipeline_total.

(* Every failure point of every Elys blocker of the CURRENT tree is accounted for: safe by syntax, or in the
   reviewed list (with its class), or one of the known defects. A new unguarded panic / newly propagated error in
   any blocker or hook makes this false. *)
Theorem C18_sites_ok : forallb blocker_ok blockers = true.
Proof. exact sites_ok. Qed.
Print Assumptions C18_sites_ok.

(* The generated order lists are dense (positions 0,1,2,... per phase, in table order). *)
Theorem C18_order_wf : order_wf blockers = true.
Proof. exact order_ok. Qed.
Print Assumptions C18_order_wf.

(* Exactly these blockers / hooks rely on the reviewed list; all others are safe by syntax alone. *)
Theorem C18_unsafe_blockers : unsafe_names blockers =
  [("epochs", PBegin); ("distribution", PBegin); ("perpetual", PBegin); ("leveragelp", PBegin);
   ("amm", PEnd); ("masterchef", PEnd); ("estaking", PEnd);
   ("burner", PEpochAfter); ("oracle", PEpochBefore); ("estaking", PEpochBefore)].
Proof. exact unsafe_blockers. Qed.
Print Assumptions C18_unsafe_blockers.

(* The module methods that hand an error of their blocker to the module manager. *)
Theorem C18_propagating_blockers : propagating blockers = [("distribution", PBegin); ("masterchef", PEnd)].
Proof. exact propagating_blockers. Qed.
Print Assumptions C18_propagating_blockers.

(* The blockers the correspondence run drives at keeper level are in the table, non-trivial. *)
Theorem C18_expected_present :
  forallb (fun mp => has_blocker blockers (fst mp) (snd mp))
    [("epochs", PBegin); ("stablestake", PBegin); ("perpetual", PBegin); ("leveragelp", PBegin); ("tier", PBegin);
     ("oracle", PEnd); ("amm", PEnd); ("masterchef", PEnd); ("estaking", PEnd)] = true.
Proof. exact expected_present. Qed.
Print Assumptions C18_expected_present.

(* No stale entry: every reviewed / known entry still matches a point of the table. *)
Theorem C18_reviewed_all_used : forallb (entry_used blockers) (reviewed ++ known_unsafe) = true.
Proof. exact reviewed_all_used. Qed.
Print Assumptions C18_reviewed_all_used.

(* The modelled guards of the reviewed classes RParam / RLocalGuard hold on every reachable environment
   (parameters passed Validate, non-negative amounts, positive validator tokens, consistent interest store). *)
Theorem C18_reviewed_guards_hold : forall e, reach e -> guard_tbpy e = true /\ local_guards e = true.
Proof. exact reach_guards. Qed.
Print Assumptions C18_reviewed_guards_hold.

(* ... and the RParam guard is not vacuous: TotalBlocksPerYear = 0 (rejected by Validate) breaks it. *)
Theorem C18_guard_needed : forall e, e_tbpy e = 0%Z -> guard_tbpy e = false.
Proof. exact guard_tbpy_zero. Qed.
Print Assumptions C18_guard_needed.

(* Block processing of the REPAIRED pipeline (the known defects fixed) over the current table never fails:
   for every reachable environment, every state, every behaviour of the blockers and every firing choice,
   given the named assumptions about the classes that are not modelled. *)
Theorem C18_blocks_never_fail_partial : forall e assume, reach e ->
  (forall c, assumed_class c = true -> assume c = true) ->
  forall (S : Type) (step : blocker -> S -> S) (oc : blocker -> fpoint -> outcome) (s : S),
  exists s', run_block step oc (holds_in e assume) true blockers s = Ok s'.
Proof. exact (pipeline_total_reviewed blockers sites_ok). Qed.
Print Assumptions C18_blocks_never_fail_partial.

(* Non-vacuity: a concrete environment satisfies [reach]. *)
Example C18_reach_nonvacuous : reach env0.
Proof. exact env0_reach. Qed.
