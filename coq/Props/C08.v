(* C08 - Leveraged-LP pool totals equal the sum of open positions. Statements only. *)
From Coq Require Import ZArith List Bool Arith.
From Elys Require Import Base.Res Base.Fn Models.SumLedger Proofs.SumLedgerProofs Models.LevLedger Proofs.LevLedgerProofs.
From Elys Require Import Models.LevLedgerMulti Proofs.LevLedgerMultiProofs.
Import ListNotations.
Open Scope Z_scope.

(* For EVERY history of opens, consolidating re-opens, partial and full closes, stop-loss closes and
   liquidations (each item atomic), by any owners, with any positive amounts, failing items included:
   pool total = sum over stored positions, counter = number of stored positions, every stored position's
   amount = the shares committed at its address, and nothing is left committed at the address of a
   position that is no longer stored (a full close removes it and leaves none of its shares behind). *)
Theorem C08_totals : forall h, Forall (fun o => 0 < pos_amt o) h ->
  let s := lrun lev_empty h in
  total (l_sl s) = sumf (parts (l_sl s)) (keys (l_sl s)) /\
  count (l_sl s) = Z.of_nat (length (keys (l_sl s))) /\
  (forall k, In k (keys (l_sl s)) -> l_comm s k = parts (l_sl s) k) /\
  (forall k, ~ In k (keys (l_sl s)) -> l_comm s k = 0).
Proof. exact lev_totals. Qed.
Print Assumptions C08_totals.

(* the same as an inductive invariant from any state satisfying it *)
Theorem C08_invariant : forall h s, LInv s -> Forall (fun o => 0 < pos_amt o) h -> LInv (lrun s h).
Proof. exact lrun_inv. Qed.
Print Assumptions C08_invariant.

(* The pinned commit: a liquidation failing after the pool exit, swallowed without a cache context,
   leaves a stored position whose amount differs from what is committed at its address. *)
Theorem C08_prefix_partial_close_refuted :
  let s := lrun lev_empty [LOpen 0 100] in
  LInv s /\ let s' := lclose_partial_failure s 0 100 in
  In 0%nat (keys (l_sl s')) /\ l_comm s' 0%nat <> parts (l_sl s') 0%nat.
Proof. exact prefix_partial_close_refuted. Qed.
Print Assumptions C08_prefix_partial_close_refuted.

(* SEVERAL leveraged-LP pools (Models/LevLedgerMulti.v: one machine per pool, ONE open counter for the module, every operation
   names the pool of its position). For every duplicate-free set of pools and EVERY history of opens / closes / liquidations on
   any of them, interleaved in any way: each pool's total = the sum over ITS stored positions, each stored position's amount =
   the shares committed at its address, nothing is left at the address of a position no longer stored, and the module's single
   counter = the number of stored positions of all pools together. *)
Theorem C08_totals_per_pool : forall pools h, NoDup pools ->
  Forall (fun po => In (fst po) pools /\ 0 < pos_amt (snd po)) h ->
  let s := mlrun mlev_empty h in
  (forall p, let t := ml_pool s p in
     total (l_sl t) = sumf (parts (l_sl t)) (keys (l_sl t)) /\
     (forall k, In k (keys (l_sl t)) -> l_comm t k = parts (l_sl t) k) /\
     (forall k, ~ In k (keys (l_sl t)) -> l_comm t k = 0)) /\
  ml_count s = sumf (fun p => Z.of_nat (length (keys (l_sl (ml_pool s p))))) pools.
Proof. exact mlev_totals. Qed.
Print Assumptions C08_totals_per_pool.

(* a pool that no operation of a history names keeps its state: opens and closes on one pool cannot move another pool's total *)
Theorem C08_other_pools_untouched : forall h s p, Forall (fun po => fst po <> p) h -> ml_pool (mlrun s h) p = ml_pool s p.
Proof. exact mlrun_untouched. Qed.
Print Assumptions C08_other_pools_untouched.

Example C08_two_pools_nonvacuous :
  let s := mlrun mlev_empty [(0%nat, LOpen 0 100); (2%nat, LOpen 1 50); (2%nat, LOpen 2 7); (0%nat, LClose 0 30); (2%nat, LClose 1 50); (2%nat, LClose 2 9)] in
  total (l_sl (ml_pool s 0%nat)) = 70 /\ total (l_sl (ml_pool s 2%nat)) = 7 /\ ml_count s = 2 /\ keys (l_sl (ml_pool s 2%nat)) = [2%nat].
Proof. vm_compute. repeat split. Qed.

Example C08_nonvacuous :
  let s := lrun lev_empty [LOpen 0 100; LOpen 1 50; LOpen 0 20; LClose 1 50; LClose 0 30; LClose 0 500] in
  total (l_sl s) = 90 /\ count (l_sl s) = 1 /\ keys (l_sl s) = [0%nat] /\ l_comm s 1%nat = 0 /\ l_comm s 0%nat = 90.
Proof. vm_compute. repeat split. Qed.
