(* C08 - Leveraged-LP pool totals equal the sum of open positions. Statements only. *)
From Coq Require Import ZArith List Bool Arith.
From Elys Require Import Base.Res Base.Fn Models.SumLedger Proofs.SumLedgerProofs Models.LevLedger Proofs.LevLedgerProofs Proofs.LevLedgerFrame.
From Elys Require Import Models.LevLedgerMulti Proofs.LevLedgerMultiProofs.
Import ListNotations.
Open Scope Z_scope.

(* For EVERY history of opens, consolidating re-opens, partial and full closes, stop-loss closes and
   liquidations (each item atomic), by any owners, with any positive amounts, failing items included:
   pool total = sum over stored positions, counter = number of stored positions, every stored position's
   amount = the shares committed at its address, and nothing is left committed at the address of a
   position that is no longer stored (a full close removes it and leaves none of its shares behind). *)
Theorem C08_totals : forall h, Forall (fun o => 0 < pos_amt o) h ->
  let s := lrun lev_empty h in
  total (l_sl s) = sumf (parts (l_sl s)) (keys (l_sl s)) /\
  count (l_sl s) = Z.of_nat (length (keys (l_sl s))) /\
  (forall k, In k (keys (l_sl s)) -> l_comm s k = parts (l_sl s) k) /\
  (forall k, ~ In k (keys (l_sl s)) -> l_comm s k = 0).
Proof. exact lev_totals. Qed.
Print Assumptions C08_totals.

(* the same as an inductive invariant from any state satisfying it *)
Theorem C08_invariant : forall h s, LInv s -> Forall (fun o => 0 < pos_amt o) h -> LInv (lrun s h).
Proof. exact lrun_inv. Qed.
Print Assumptions C08_invariant.

(* One item, exactly: the pool total and the shares committed at the acting position's address move by exactly the signed
   amount; NO other position's amount or committed shares move. *)
Theorem C08_step_exact_and_frame : forall s o s', lstep s o = Ok s' ->
  total (l_sl s') = total (l_sl s) + pos_delta o /\
  l_comm s' (pos_key o) = l_comm s (pos_key o) + pos_delta o /\
  (forall k, k <> pos_key o -> parts (l_sl s') k = parts (l_sl s) k /\ l_comm s' k = l_comm s k).
Proof. exact lstep_exact. Qed.
Print Assumptions C08_step_exact_and_frame.

(* Over EVERY history: a position no item names keeps its amount and its committed shares (nobody's close or liquidation
   takes shares of another position). *)
Theorem C08_other_positions_untouched : forall h s k, (forall o, In o h -> pos_key o <> k) ->
  parts (l_sl (lrun s h)) k = parts (l_sl s) k /\ l_comm (lrun s h) k = l_comm s k.
Proof. exact lrun_other_positions. Qed.
Print Assumptions C08_other_positions_untouched.

(* A close above what is committed at the position's address is refused and changes nothing. *)
Theorem C08_close_beyond_committed_no_effect : forall s k a, l_comm s k < a ->
  lstep s (LClose k a) = Err E_negative /\ lexec s (LClose k a) = s.
Proof. intros s k a H. split; [exact (lclose_beyond_committed_refused s k a H) | exact (lclose_beyond_committed_no_effect s k a H)]. Qed.
Print Assumptions C08_close_beyond_committed_no_effect.

(* A close of exactly the position's amount (full close, liquidation, stop-loss) on a consistent state removes the
   position: no longer stored, nothing left committed at its address, counter down by exactly one, total down by its amount. *)
Theorem C08_full_close_removes_position : forall s k, LInv s -> In k (keys (l_sl s)) ->
  let s' := lexec s (LClose k (parts (l_sl s) k)) in
  ~ In k (keys (l_sl s')) /\ l_comm s' k = 0 /\ count (l_sl s') = count (l_sl s) - 1 /\
  total (l_sl s') = total (l_sl s) - parts (l_sl s) k.
Proof. exact full_close_removes. Qed.
Print Assumptions C08_full_close_removes_position.

(* The pinned commit: a liquidation failing after the pool exit, swallowed without a cache context,
   leaves a stored position whose amount differs from what is committed at its address. *)
Theorem C08_prefix_partial_close_refuted :
  let s := lrun lev_empty [LOpen 0 100] in
  LInv s /\ let s' := lclose_partial_failure s 0 100 in
  In 0%nat (keys (l_sl s')) /\ l_comm s' 0%nat <> parts (l_sl s') 0%nat.
Proof. exact prefix_partial_close_refuted. Qed.
Print Assumptions C08_prefix_partial_close_refuted.

(* SEVERAL leveraged-LP pools (Models/LevLedgerMulti.v: one machine per pool, ONE open counter for the module, every operation
   names the pool of its position). For every duplicate-free set of pools and EVERY history of opens / closes / liquidations on
   any of them, interleaved in any way: each pool's total = the sum over ITS stored positions, each stored position's amount =
   the shares committed at its address, nothing is left at the address of a position no longer stored, and the module's single
   counter = the number of stored positions of all pools together. *)
Theorem C08_totals_per_pool : forall pools h, NoDup pools ->
  Forall (fun po => In (fst po) pools /\ 0 < pos_amt (snd po)) h ->
  let s := mlrun mlev_empty h in
  (forall p, let t := ml_pool s p in
     total (l_sl t) = sumf (parts (l_sl t)) (keys (l_sl t)) /\
     (forall k, In k (keys (l_sl t)) -> l_comm t k = parts (l_sl t) k) /\
     (forall k, ~ In k (keys (l_sl t)) -> l_comm t k = 0)) /\
  ml_count s = sumf (fun p => Z.of_nat (length (keys (l_sl (ml_pool s p))))) pools.
Proof. exact mlev_totals. Qed.
Print Assumptions C08_totals_per_pool.

(* a pool that no operation of a history names keeps its state: opens and closes on one pool cannot move another pool's total *)
Theorem C08_other_pools_untouched : forall h s p, Forall (fun po => fst po <> p) h -> ml_pool (mlrun s h) p = ml_pool s p.
Proof. exact mlrun_untouched. Qed.
Print Assumptions C08_other_pools_untouched.

Example C08_two_pools_nonvacuous :
  let s := mlrun mlev_empty [(0%nat, LOpen 0 100); (2%nat, LOpen 1 50); (2%nat, LOpen 2 7); (0%nat, LClose 0 30); (2%nat, LClose 1 50); (2%nat, LClose 2 9)] in
  total (l_sl (ml_pool s 0%nat)) = 70 /\ total (l_sl (ml_pool s 2%nat)) = 7 /\ ml_count s = 2 /\ keys (l_sl (ml_pool s 2%nat)) = [2%nat].
Proof. vm_compute. repeat split. Qed.

Example C08_nonvacuous :
  let s := lrun lev_empty [LOpen 0 100; LOpen 1 50; LOpen 0 20; LClose 1 50; LClose 0 30; LClose 0 500] in
  total (l_sl s) = 90 /\ count (l_sl s) = 1 /\ keys (l_sl s) = [0%nat] /\ l_comm s 1%nat = 0 /\ l_comm s 0%nat = 90.
Proof. vm_compute. repeat split. Qed.
