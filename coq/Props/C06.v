(* C06 - The lending vault's stated value always equals cash plus outstanding loans. Statements only;
   model in Models/VaultLedger.v (x/stablestake Bond / Unbond / Borrow / Repay / UpdateInterestStacked and the
   leveragelp callers as compositions of them, as the code is), proofs in Proofs/VaultLedgerProofs.v.
   A history is a list of transactions / blocks, each a list of primitive vault operations executed all or
   nothing; amounts, interest amounts and redemption amounts are arbitrary integers (the machine refuses
   what the code refuses). loans v = sum over the stored Debt records of Borrowed + InterestStacked - InterestPaid. *)
From Coq Require Import ZArith List Bool Arith.
From Elys Require Import Base.Res Base.Fn Models.SumLedger Models.VaultLedger Proofs.VaultLedgerProofs Proofs.VaultLedgerFrame.
Import ListNotations.
Open Scope Z_scope.

(* The property over its own quantifier: for EVERY history of deposits, withdrawals, borrowing, repayment
   (partial closes, full closes, liquidations that repay less than is owed, add-collateral), lazy interest
   accrual with any interest amounts, failing transactions included, of any length:
   TotalValue = cash + loans, exactly. *)
Theorem C06_vault_equation : forall h, no_donation h ->
  let v := vrun vstep vault_empty h in v_tv v = v_cash v + loans v.
Proof. exact vault_equation_no_donation. Qed.
Print Assumptions C06_vault_equation.

(* The code BEFORE fix: a75f29f ([vstep], which still accepts [VDonate]), EVERY history including third-party
   transfers into the module account (a swap whose recipient is the vault): the equation holds up to exactly the sum received that way, and never the other
   way round (cash + loans is never below TotalValue; loans are never negative). *)
Theorem C06_vault_equation_with_receipts : forall h,
  let v := vrun vstep vault_empty h in
  v_tv v + v_don v = v_cash v + loans v /\ 0 <= v_don v /\ 0 <= loans v.
Proof. exact vault_equation_with_ghost. Qed.
Print Assumptions C06_vault_equation_with_receipts.

(* the same as an inductive invariant from any state satisfying it *)
Theorem C06_invariant : forall h v, VInv v -> VInv (vrun vstep v h).
Proof. exact vrun_inv. Qed.
Print Assumptions C06_invariant.

(* REFUTED for the code BEFORE fix: a75f29f, when ALL histories reachable then are admitted: after a deposit of 100, a swap
   that pays 5 to the module account leaves TotalValue 100 against cash + loans 105
   (real app: harness corpus history "swap recipient = vault", signature C06:swap-recipient-vault-inflates-cash). *)
Theorem C06_donation_refuted :
  exists h, let v := vrun vstep vault_empty h in
    v_tv v <> v_cash v + loans v /\ v_cash v + loans v - v_tv v = 5.
Proof. exact donation_refuted. Qed.
Print Assumptions C06_donation_refuted.

(* ... and what it costs: the 90 % cap works on TotalValue - balance; after a donation the real loans can
   reach 100 % of TotalValue. *)
Theorem C06_donation_cap_bypass_refuted :
  exists h, let v := vrun vstep vault_empty h in
    10 * loans v > 9 * v_tv v /\ loans v = 1000 /\ v_tv v = 1000.
Proof. exact donation_cap_bypass_refuted. Qed.
Print Assumptions C06_donation_cap_bypass_refuted.

(* THE CODE AS IT IS since fix: a75f29f ([vstep_fixed]: a transfer whose recipient is the module account is
   refused - the amm swap handlers consult bank's blocked-address list; it differs from [vstep] at that one
   site): the full-strength statement for EVERY history, attempted donations included. This is the machine
   the correspondence run (Run/VaultLedgerRun.v) replays the real application against. *)
Theorem C06_vault_equation_fixed : forall h,
  let v := vrun vstep_fixed vault_empty h in v_tv v = v_cash v + loans v /\ VWf v.
Proof. exact vault_equation_fixed. Qed.
Print Assumptions C06_vault_equation_fixed.

Theorem C06_step_eq_fixed_off_sites : forall v o, is_donate o = false -> vstep_fixed v o = vstep v o.
Proof. exact step_eq_fixed_off_sites. Qed.
Print Assumptions C06_step_eq_fixed_off_sites.

Theorem C06_run_eq_fixed_without_donation : forall h, no_donation h -> forall v, vrun vstep_fixed v h = vrun vstep v h.
Proof. exact vrun_fixed_eq. Qed.
Print Assumptions C06_run_eq_fixed_without_donation.

(* Liquidation with a shortfall: a repayment smaller than principal + accrued interest writes nothing off.
   The record stays, it carries exactly the unpaid remainder, TotalValue moves only by the interest stacked
   in that call, cash by the amount paid: both sides of the equation move together. *)
Theorem C06_shortfall_keeps_the_debt : forall v k a i v', VInv v -> vstep v (VRepay k a i) = Ok v' -> a < liab v k + i ->
  In k (v_keys v') /\ liab v' k = liab v k + i - a /\ 0 < liab v' k /\
  v_tv v' = v_tv v + i /\ v_cash v' = v_cash v + a /\ loans v' = loans v + i - a.
Proof. exact repay_shortfall. Qed.
Print Assumptions C06_shortfall_keeps_the_debt.

(* A Debt record disappears only by a repayment of exactly everything that is owed. *)
Theorem C06_delete_only_when_settled : forall v k a i v', VInv v -> vstep v (VRepay k a i) = Ok v' ->
  ~ In k (v_keys v') -> In k (v_keys v) -> a = liab v k + i /\ liab v' k = 0.
Proof. exact repay_delete_only_when_settled. Qed.
Print Assumptions C06_delete_only_when_settled.

(* What rests on the equation: without third-party receipts the quantity the code derives as
   TotalValue - balance (borrow cap, borrow-ratio query, interest-rate controller, leveragelp's
   MaxLeverageRatio check) IS the sum of the liabilities, and right after every successful Borrow the real
   loans (less the interest stacked by that call) are within 90 % of TotalValue. *)
Theorem C06_cap_bounds_real_loans : forall v k a i v', VInv0 v -> vstep v (VBorrow k a i) = Ok v' ->
  v_tv v - v_cash v = loans v /\ 10 * (loans v' - i) <= 9 * v_tv v.
Proof. exact borrow_cap_real_loans. Qed.
Print Assumptions C06_cap_bounds_real_loans.

(* FRAME. A step on one borrower's debt record (borrow, repay, interest accrual) leaves every OTHER borrower's record
   (Borrowed, InterestStacked, InterestPaid) exactly as it was; bonds, unbonds and third-party receipts touch no record. *)
Theorem C06_other_borrowers_untouched_step : forall v o v', vstep v o = Ok v' ->
  forall k', borrower_of o <> Some k' -> same_record v v' k'.
Proof. exact vstep_other_borrowers. Qed.
Print Assumptions C06_other_borrowers_untouched_step.

(* ... over EVERY history of transactions (failing ones rolled back): a borrower no step names keeps its record
   (nobody's repayment or liquidation lowers, and nobody's borrowing raises, another position's debt). *)
Theorem C06_other_borrowers_untouched : forall h v k', (forall l o, In l h -> In o l -> borrower_of o <> Some k') ->
  same_record v (vrun vstep v h) k'.
Proof. exact vrun_other_borrowers. Qed.
Print Assumptions C06_other_borrowers_untouched.

(* The module account never pays out more than it holds: a redemption or a loan above the cash is refused. *)
Theorem C06_payout_beyond_cash_refused : forall v,
  (forall p, v_cash v < p -> exists c, vstep v (VUnbond p) = Err c) /\
  (forall k a i, v_cash v < a -> exists c, vstep v (VBorrow k a i) = Err c).
Proof. intros v. split; [exact (unbond_beyond_cash_refused v) | exact (borrow_beyond_cash_refused v)]. Qed.
Print Assumptions C06_payout_beyond_cash_refused.

Example C06_nonvacuous :
  let v := vrun vstep vault_empty
    [[VBond 1000000]; [VBorrow 0 400000 0; VAccrue 0 0]; [VAccrue 0 1234]; [VBond 7];
     [VAccrue 0 66; VRepay 0 100000 0; VAccrue 0 0];
     [VBorrow 1 300000 0]; [VUnbond 999999];
     [VUnbond 250000];
     [VRepay 1 200000 5000];
     [VRepay 0 301300 0]] in
  v_tv v = 756307 /\ v_cash v = 651307 /\ v_keys v = [1%nat] /\ liab v 1%nat = 105000 /\
  v_b v 0%nat = 0 /\ v_tv v = v_cash v + loans v.
Proof. exact nonvacuous_example. Qed.
