(* C20 - Funds escrowed for pending orders are safe and only the owner controls them.
   Only statements + [exact]; proofs in Proofs/ShieldProofs.v, model in Models/Shield.v.
   [step_gen false] / [exec_gen false] model x/tradeshield AS IT IS in /repo (ExecuteOrders logs and swallows
   the error of an order attempt without a cache context); [step_gen true] is the repaired handler (each
   attempt on a cache context written only on success).  The market price and the result + committed
   transfers of the inner amm.SwapByDenom / perpetual.Open call are universally quantified. *)
From Coq Require Import ZArith List Bool.
From Elys Require Import Base.Res Base.Zdec Models.Shield Proofs.ShieldProofs Models.ShieldPrice Proofs.ShieldPriceProofs.
Import ListNotations.
Open Scope Z_scope.

(* Only the owner can update or cancel: from any other sender the single cancel, a batch cancel naming
   the order anywhere in its list, and the update are refused (error; the transaction changes nothing).
   Any state, both versions of the handler. *)
Theorem C20_owner_only : forall fixed s sender p id x,
  find_ord p id (ords s) = Some x -> o_owner x <> sender ->
  refused fixed s (if p then OCancelPerp sender id else OCancelSpot sender id) /\
  (forall ids, In id ids -> refused fixed s (if p then OCancelPerps sender ids else OCancelSpots sender ids)) /\
  (forall base quote rate, p = false -> refused fixed s (OUpdateSpot sender id base quote rate)) /\
  (forall trig a b c, p = true -> refused fixed s (OUpdatePerp sender id trig a b c)).
Proof. exact owner_only. Qed.
Print Assumptions C20_owner_only.

(* An execute request from anyone, none of whose listed orders has its trigger condition met at the
   market price the keeper reads (or whose price cannot be read), leaves the whole state - every order,
   every escrow account, every wallet - as it was.  Any state, any inner results, both versions. *)
Theorem C20_untouched_unless_trigger : forall fixed s sender sids pids,
  (forall id r o, In (id, r) sids -> find_ord false id (ords s) = Some o -> untrig o r) ->
  (forall id r o, In (id, r) pids -> find_ord true id (ords s) = Some o -> untrig o r) ->
  exec_gen fixed s (OExecute sender sids pids) = s.
Proof. exact untouched_unless_trigger. Qed.
Print Assumptions C20_untouched_unless_trigger.

(* Cancelling returns the full escrow: the owner's cancel of a pending order whose escrow account holds
   the escrowed amount succeeds, removes the order, pays the owner exactly that amount, empties the
   escrow account and touches no other account. *)
Theorem C20_cancel_full : forall fixed s p id o,
  find_ord p id (ords s) = Some o -> id <> 0 -> exact_escrow (bk s) o ->
  exists s', step_gen fixed s (if p then OCancelPerp (o_owner o) id else OCancelSpot (o_owner o) id) = Ok s' /\
    ords s' = remove_ord p id (ords s) /\
    (forall d, bk s' (esc o) d = 0) /\
    (forall d, bk s' (AUser (o_owner o)) d = bk s (AUser (o_owner o)) d + (if d =? o_den o then o_amt o else 0)) /\
    (forall a d, a <> esc o -> a <> AUser (o_owner o) -> bk s' a d = bk s a d).
Proof. exact cancel_full. Qed.
Print Assumptions C20_cancel_full.

(* Wallet + escrow accounts of the pending orders, of EVERY user and denom, are conserved by every create
   (spot limit orders, perpetual open orders) and every update, successful or rejected, in any well-formed
   state (ids unique and below the counters, accounts of not yet issued ids empty), both versions.
   Kept from the first round; the full statement is C20_conserved / C20_conserved_history below. *)
Theorem C20_conserved_partial : forall fixed s o, WF s ->
  match o with
  | OCreateSpot _ typ _ _ _ _ _ _ => typ <> 3
  | OCreatePerp _ _ _ _ _ _ _ _ _ | OUpdateSpot _ _ _ _ _ | OUpdatePerp _ _ _ _ _ _ => True
  | _ => False
  end ->
  forall u d, total (exec_gen fixed s o) u d = total s u d.
Proof. exact conserved_partial. Qed.
Print Assumptions C20_conserved_partial.

(* ---------------------------------------------------------------------------------------------------
   History level, for the handler as it is since the fix (each order attempt on a cache context).
   [Inv s]: order keys unique and below the counters; the escrow account of EVERY pending order holds exactly
   its escrowed coin and nothing else; every escrow account that belongs to no pending order (cancelled,
   executed, not yet issued) is empty.
   [no_escrow_transfers h]: no plain bank transfer (OSend) of the history goes to an escrow account. That
   is the only excluded input: tokens a third party sends to an escrow account are not the owner's funds;
   a perpetual cancel returns exactly the collateral and leaves them behind, a spot cancel hands them to the
   owner. Everything else is covered: creates incl. market buys with any inner result, updates, single and
   batch cancels from anyone, execute requests from anyone with ANY resolved prices and inner results
   (ok / error / panic, any committed transfers between the owner and outside accounts), transfers between
   users, blocks (wallets rewritten arbitrarily by OEnv), and every rejected or panicking transaction. *)

(* Inv is an invariant: it holds after every such history started in any state satisfying it ... *)
Theorem C20_escrow_invariant : forall h s, Inv s -> no_escrow_transfers h -> Inv (run_gen true s h).
Proof. exact inv_run. Qed.
Print Assumptions C20_escrow_invariant.

(* ... in particular from the empty order book with arbitrary user wallets (the state the harness starts from) *)
Theorem C20_escrow_invariant_from_empty : forall l h, no_escrow_transfers h ->
  Inv (run_gen true (init_state (set_wallets (fun _ _ => 0) l)) h).
Proof. exact inv_run_from_wallets. Qed.
Print Assumptions C20_escrow_invariant_from_empty.

(* hence in every reachable state the owner's cancel of any pending order succeeds, pays the owner exactly
   the escrowed coin, empties the escrow account and touches no other account (C20_cancel_full without its
   hypothesis) *)
Theorem C20_cancel_full_history : forall h s, Inv s -> no_escrow_transfers h ->
  let t := run_gen true s h in
  forall p id o, find_ord p id (ords t) = Some o -> id <> 0 ->
  exists t', step_gen true t (if p then OCancelPerp (o_owner o) id else OCancelSpot (o_owner o) id) = Ok t' /\
    ords t' = remove_ord p id (ords t) /\
    (forall d, bk t' (esc o) d = 0) /\
    (forall d, bk t' (AUser (o_owner o)) d = bk t (AUser (o_owner o)) d + (if d =? o_den o then o_amt o else 0)) /\
    (forall a d, a <> esc o -> a <> AUser (o_owner o) -> bk t' a d = bk t a d).
Proof. exact cancel_full_history. Qed.
Print Assumptions C20_cancel_full_history.

(* Conservation, per step, for EVERY kind of step: wallet + escrow accounts of the pending orders of user u
   are unchanged by step o from any sender unless [quiet s o u] fails, i.e. unless o is
     - an execute request listing an order of u whose attempt can succeed (trigger met AND inner call ok)
       (orders of OTHER owners may execute in the same request),
     - a market-buy create of u (filled at once: the inner swap's transfers are u's own trade),
     - a plain transfer from u or to u's wallet, or a block that settles u's queued swaps (OEnv naming u).
   Creates, updates, the owner's single and batch cancels (the escrow moves to the wallet), non-owner /
   rejected / panicking transactions and execute requests for other owners all conserve it. *)
Theorem C20_conserved : forall s o u, Inv s -> op_ok o = true -> quiet s o u ->
  forall d, total (exec_gen true s o) u d = total s u d.
Proof. exact conserved. Qed.
Print Assumptions C20_conserved.

(* ... and over every history all of whose steps are quiet for u (quiet is evaluated in the state each step
   starts from) *)
Theorem C20_conserved_history : forall h s u, Inv s -> no_escrow_transfers h -> quiet_run s h u ->
  forall d, total (run_gen true s h) u d = total s u d.
Proof. exact conserved_history. Qed.
Print Assumptions C20_conserved_history.

(* non-vacuity of the two history theorems: user 0 creates a limit sell, user 1 a perpetual order, user 0
   updates and creates a second order, a third party executes user 1's order (successfully), user 0 batch
   cancels: the hypotheses hold for u = 0, user 0's funds are conserved, user 1's are not (its order executed) *)
Theorem C20_conserved_nonvacuous :
  Inv ex_s0 /\ no_escrow_transfers ex_h /\ quiet_run ex_s0 ex_h 0 /\
  length (ords (run_gen true ex_s0 (firstn 4 ex_h))) = 3%nat /\
  length (ords (run_gen true ex_s0 (firstn 5 ex_h))) = 2%nat /\
  bk (run_gen true ex_s0 (firstn 5 ex_h)) (AUser 0) 1 = 1000000000000 - 3000000 /\
  total (run_gen true ex_s0 (firstn 5 ex_h)) 0 1 = 1000000000000 /\
  ords (run_gen true ex_s0 ex_h) = [] /\
  total (run_gen true ex_s0 ex_h) 0 1 = total ex_s0 0 1 /\
  total (run_gen true ex_s0 ex_h) 1 0 = total ex_s0 1 0 - 10000000.
Proof. exact conserved_nonvacuous. Qed.
Print Assumptions C20_conserved_nonvacuous.

(* Repaired handler: an execute request in which no attempt succeeds (trigger not met, no price, or the
   inner swap / perpetual open fails or leaves partial writes) changes nothing: order, escrow and owner
   funds as before. *)
Theorem C20_failed_execute_unchanged_fixed : forall s sender sids pids,
  (forall id r o, In (id, r) sids -> find_ord false id (ords s) = Some o -> untrig o r \/ inner_fails r) ->
  (forall id r o, In (id, r) pids -> find_ord true id (ords s) = Some o -> untrig o r \/ inner_fails r) ->
  exec_gen true s (OExecute sender sids pids) = s.
Proof. exact failed_execute_unchanged_fixed. Qed.
Print Assumptions C20_failed_execute_unchanged_fixed.

(* The code BEFORE fix: 8bfd5d3 (fixed = false; the tree now runs each attempt on a cache context, fixed = true): a third party's execute request whose perpetual.Open fails AFTER the collateral
   reached the pool leaves the order pending, the escrow empty and the owner 14000000000 uusdc short
   (wallet + escrow not conserved); the repaired handler leaves the state untouched. *)
Theorem C20_failed_execute_refuted :
  let s' := exec_gen false w_s1 w_dirty in
  find_ord true 1 (ords w_s1) <> None /\ ords s' = ords w_s1 /\
  total w_s1 0 0 = 1000000000000 /\ total s' 0 0 = 1000000000000 - 14000000000 /\
  bk s' (APerp 1) 0 = 0 /\
  exec_gen true w_s1 w_dirty = w_s1.
Proof. exact failed_execute_refuted. Qed.
Print Assumptions C20_failed_execute_refuted.

(* The code BEFORE fix: 8bfd5d3 (fixed = false; the tree now runs each attempt on a cache context, fixed = true): even an attempt that fails before moving anything has already returned the escrow
   to the owner: the order stays pending with an empty escrow account and the owner's own cancel is
   refused (the repaired handler keeps the escrow, and the cancel returns it in full). *)
Theorem C20_failed_execute_strands_order_refuted :
  let s' := exec_gen false w_s1 w_clean in
  ords s' = ords w_s1 /\ total s' 0 0 = total w_s1 0 0 /\
  bk w_s1 (APerp 1) 0 = 14000000000 /\ bk s' (APerp 1) 0 = 0 /\
  step s' (OCancelPerp 0 1) = Err E_funds /\
  (exists s2, step_fixed (exec_gen true w_s1 w_clean) (OCancelPerp 0 1) = Ok s2 /\ ords s2 = [] /\ bk s2 (AUser 0) 0 = 1000000000000).
Proof. exact failed_execute_strands_order_refuted. Qed.
Print Assumptions C20_failed_execute_strands_order_refuted.

(* ---------------------------------------------------------------------------------------------------
   The market price a spot order's trigger is compared with (Models/ShieldPrice.v: Keeper.GetAssetPriceFromDenomInToDenomOut).
   [market_price] is the code BEFORE fix: 12bba76 (still the fallback when an oracle record is missing): USD value of ONE base unit of each denom = oracle price / 10^decimals in an 18-digit LegacyDec, then their
   quotient).  In the theorems above the market price is universally quantified; here it is a function of the two oracle
   price records (raw LegacyDec, per whole token) and the decimals of the two denoms, and the harness checks on every
   spot-order attempt that the keeper returned exactly [market_price] of the records it read from x/oracle. *)

(* the stated rounding: each of the three LegacyDec quotients is within (1/2 + 10^-18) units of its 18th digit of the exact
   quotient of its operands: a ~ pin / 10^din, b ~ pout / 10^dout, mp ~ a / b.  (The error of a and b RELATIVE to their size
   is what matters for mp: a has only 18 - din + log10(pin) significant digits.) *)
Theorem C20_market_price_rounding : forall pin din pout dout mp,
  0 <= pin -> 0 <= pout -> 0 <= din -> 0 <= dout ->
  market_price pin din pout dout = Some mp ->
  let a := usd_value_of_one pin din in
  let b := usd_value_of_one pout dout in
  0 < a /\ 0 < b /\ 0 <= mp /\
  Z.abs (a * pow10 din - pin) * PREC <= pow10 din * (HALF + 1) /\
  Z.abs (b * pow10 dout - pout) * PREC <= pow10 dout * (HALF + 1) /\
  Z.abs (mp * b - a * PREC) * PREC <= b * (HALF + 1).
Proof. exact market_price_rounding. Qed.
Print Assumptions C20_market_price_rounding.

(* no loss in the first stage for a price with at most 18 - decimals digits after the point *)
Theorem C20_market_price_unit_value_exact_on_grid : forall p dec, 0 <= p -> 0 <= dec -> Z.rem p (pow10 dec) = 0 ->
  usd_value_of_one p dec * pow10 dec = p.
Proof. exact usd_value_exact_on_grid. Qed.
Print Assumptions C20_market_price_unit_value_exact_on_grid.

(* the market price never falls when the base asset's oracle price rises or the quote asset's falls (it may become
   unavailable only because the quote's per-unit value rounds to zero) *)
Theorem C20_market_price_monotone : forall pin pin' din pout pout' dout m,
  0 <= pin <= pin' -> 0 <= pout' <= pout -> 0 <= din -> 0 <= dout ->
  market_price pin din pout dout = Some m ->
  market_price pin' din pout' dout = None \/
  exists m', market_price pin' din pout' dout = Some m' /\ m <= m'.
Proof. exact market_price_monotone. Qed.
Print Assumptions C20_market_price_monotone.

(* the trigger decision of ExecuteOrders is monotone in the market price: once met, the trigger of a LIMITSELL / perpetual
   SHORT stays met at every higher price, that of a STOPLOSS / LIMITBUY / perpetual LONG at every lower price ... *)
Theorem C20_trigger_monotone : forall o mp mp', triggered o mp = true ->
  (rising o = true -> mp <= mp' -> triggered o mp' = true) /\
  (falling o = true -> mp' <= mp -> triggered o mp' = true).
Proof. exact trigger_monotone. Qed.
Print Assumptions C20_trigger_monotone.

(* ... hence in the oracle price: a limit sell that is executable at base price pin is executable at every higher one *)
Theorem C20_trigger_monotone_in_oracle_price : forall o pin pin' din pout dout m,
  o_perp o = false -> o_type o = 1 ->
  0 <= pin <= pin' -> 0 <= pout -> 0 <= din -> 0 <= dout ->
  market_price pin din pout dout = Some m -> triggered o m = true ->
  exists m', market_price pin' din pout dout = Some m' /\ triggered o m' = true.
Proof. exact trigger_monotone_in_oracle_price. Qed.
Print Assumptions C20_trigger_monotone_in_oracle_price.

(* BEFORE fix: 12bba76 the code did NOT decide the trigger as the exact market price (pin / 10^din) / (pout / 10^dout) does:
   aweth (18 decimals) at 2000.6 USD is valued 2001e-18 USD per base unit; a LIMITSELL aweth -> uusdc at 2000.8 USD per WETH
   (rate 2.0008e-9) is executed by anybody's MsgExecuteOrders while the market is at 2000.6 (exact price 2.0006e-9 < rate).
   With 6 decimals the loss sits at the 13th digit: uatom at 5.0000000000004, STOPLOSS at 5.0000000000002 executed. *)
Theorem C20_trigger_by_exact_price_refuted :
  market_price w_weth 18 w_usdc 6 = Some 2001000000 /\
  triggered w_sell 2001000000 = true /\
  exact_triggered (o_type w_sell) w_weth 18 w_usdc 6 (o_rate w_sell) = false /\
  market_price w_atom 6 w_usdc 6 = Some 5000000000000000000 /\
  triggered w_stop 5000000000000000000 = true /\
  exact_triggered (o_type w_stop) w_atom 6 w_usdc 6 (o_rate w_stop) = false.
Proof. exact trigger_by_exact_price_refuted. Qed.
Print Assumptions C20_trigger_by_exact_price_refuted.

(* The code as it is since fix: 12bba76 (Models/ShieldPrice.v market_price_fixed; the harness checks on every spot-order
   attempt that the keeper returned exactly this value of the records it read from x/oracle): one division of
   the whole-token prices; its result is within (1/2 + 10^-18) units of its 18th digit of the exact market price, and it
   refuses the two orders above. *)
Theorem C20_market_price_fixed_rounding : forall pin din pout dout mp,
  0 <= din -> 0 <= dout -> market_price_fixed pin din pout dout = Some mp ->
  0 <= mp /\
  (din <= dout -> Z.abs (mp * pout - pin * pow10 (dout - din) * PREC) * PREC <= pout * (HALF + 1)) /\
  (dout < din -> Z.abs (mp * (pout * pow10 (din - dout)) - pin * PREC) * PREC <= pout * pow10 (din - dout) * (HALF + 1)).
Proof. exact market_price_fixed_rounding. Qed.
Print Assumptions C20_market_price_fixed_rounding.

Theorem C20_market_price_fixed_witnesses :
  market_price_fixed w_weth 18 w_usdc 6 = Some 2000600000 /\
  triggered w_sell 2000600000 = false /\
  market_price_fixed w_atom 6 w_usdc 6 = Some w_atom /\
  triggered w_stop w_atom = false.
Proof. exact market_price_fixed_witnesses. Qed.
Print Assumptions C20_market_price_fixed_witnesses.

(* non-vacuity: a concrete state the harness really builds (corpus 0 after the create) *)
Example C20_nonvacuous :
  (exists o, find_ord true 1 (ords w_s1) = Some o /\ exact_escrow (bk w_s1) o /\ o_owner o = 0) /\
  NoDup (map okey (ords w_s1)) /\ total w_s1 0 0 = 1000000000000 /\ bk w_s1 (AUser 0) 0 = 1000000000000 - 14000000000.
Proof.
  split; [|split; [|split; reflexivity]].
  - eexists; split; [vm_compute; reflexivity|]. split; [|reflexivity].
    split; [vm_compute; discriminate|]. split; [reflexivity|].
    intro d. vm_compute. destruct d; reflexivity.
  - vm_compute. constructor; [intros []|constructor].
Qed.
