(* C10 - Others can force-close a position only when allowed; new positions start healthy. Statements only.
   Model: Models/CloseGuard.v (the decision layer of x/leveragelp and x/perpetual exactly as coded; health,
   prices and pay-outs are inputs resolved from the implementation at the moment of each decision, the
   theorems quantify over ALL of them). *)
From Coq Require Import ZArith List Bool.
From Elys Require Import Base.Res Models.CloseGuard Proofs.CloseGuardProofs Run.CloseGuardRun.
Import ListNotations.
Open Scope Z_scope.

(* For EVERY state (any positions of any owners in both modules, any balances, any safety factors), EVERY
   list of third-party items (close-positions requests of either module in any order, begin-block sweep
   items; arbitrary (owner,id) pairs, repeated, non-existent) and ALL resolved healths / prices / pay-outs:
   if the size net of settled interest and funding, the collateral, the debt principal, the stop-loss /
   take-profit trigger or the side of a position differs afterwards, then one of the items named exactly
   that position, the position existed, and the item's guard (as the code evaluates it, on the health /
   price resolved for that item and the position's own triggers) held. *)
Theorem C10_forced_change_implies_guard : forall l s m o i,
  core_at (pm m (forced_run s l)) o i <> core_at (pm m s) o i \/
  trig_at (pm m (forced_run s l)) o i <> trig_at (pm m s) o i ->
  exists k it p, In (k, it) l /\ kmod k = m /\ i_owner it = o /\ i_id it = i /\
                 pm m s o i = Some p /\ guard_of k (sf m s) (trig p) it = true.
Proof. exact forced_change_implies_guard. Qed.
Print Assumptions C10_forced_change_implies_guard.

(* ... and if any balance of an owner differs afterwards, one of the items named a position of that owner
   that existed and whose guard held. *)
Theorem C10_forced_funds_implies_guard : forall l s o d,
  st_funds (forced_run s l) o d <> st_funds s o d ->
  exists k it p, In (k, it) l /\ i_owner it = o /\
                 pm (kmod k) s o (i_id it) = Some p /\ guard_of k (sf (kmod k) s) (trig p) it = true.
Proof. exact forced_funds_implies_guard. Qed.
Print Assumptions C10_forced_funds_implies_guard.

(* Contrapositive, per position: a position for which every item naming it evaluates to "guard false"
   survives any list of third-party requests with its size (net of accrual), collateral, principal and
   triggers as they were. *)
Theorem C10_healthy_untouched : forall (l : list (kind * item)) s m o i p,
  pm m s o i = Some p ->
  (forall k it, In (k, it) l -> kmod k = m -> i_owner it = o -> i_id it = i ->
                guard_of k (sf m s) (trig p) it = false) ->
  exists q, pm m (forced_run s l) o i = Some q /\ core q = core p /\ trig q = trig p.
Proof. exact healthy_untouched. Qed.
Print Assumptions C10_healthy_untouched.

(* The two close-positions messages, with the guards spelled out. *)
Theorem C10_lev_msg : forall s tx_ok liq stop o i,
  core_at (st_lev (lev_close_positions s tx_ok liq stop)) o i <> core_at (st_lev s) o i ->
  exists it p, i_owner it = o /\ i_id it = i /\ st_lev s o i = Some p /\
    ((In it liq /\ lev_liq_guard (st_sfl s) it = true) \/ (In it stop /\ lev_stop_guard (trig p) it = true)).
Proof. exact lev_msg_change_implies_guard. Qed.
Print Assumptions C10_lev_msg.

Theorem C10_perp_msg : forall s tx_ok liq stop take o i,
  core_at (st_perp (perp_close_positions s tx_ok liq stop take)) o i <> core_at (st_perp s) o i ->
  exists it p, i_owner it = o /\ i_id it = i /\ st_perp s o i = Some p /\
    ((In it liq /\ guard_of KPerpLiq (st_sfp s) (trig p) it = true) \/
     (In it stop /\ guard_of KPerpStop (st_sfp s) (trig p) it = true) \/
     (In it take /\ guard_of KPerpTake (st_sfp s) (trig p) it = true)).
Proof. exact perp_msg_change_implies_guard. Qed.
Print Assumptions C10_perp_msg.

(* What the guards mean: health AT OR BELOW the safety factor (so health = safety factor liquidates, one
   ulp above does not), price at or beyond the trigger, nil triggers never fire. *)
Theorem C10_lev_liq_guard_means : forall sfv it,
  lev_liq_guard sfv it = true -> exists h, i_health it = Some h /\ h <= sfv /\ i_liab it <> 0.
Proof. exact lev_liq_guard_spec. Qed.
Print Assumptions C10_lev_liq_guard_means.

Theorem C10_lev_stop_guard_means : forall t it,
  lev_stop_guard t it = true -> exists pr slp, i_price it = Some pr /\ fst (fst t) = Some slp /\ pr <= slp.
Proof. exact lev_stop_guard_spec. Qed.
Print Assumptions C10_lev_stop_guard_means.

Theorem C10_perp_liq_guard_means : forall sfv t it,
  guard_of KPerpLiq sfv t it = true -> exists h, i_health it = Some h /\ h <= sfv.
Proof. exact perp_liq_guard_spec. Qed.
Print Assumptions C10_perp_liq_guard_means.

Theorem C10_perp_stop_guard_means : forall sfv t it,
  guard_of KPerpStop sfv t it = true ->
  exists pr slp, i_price it = Some pr /\ fst (fst t) = Some slp /\ (if snd t then pr <= slp else slp <= pr).
Proof. exact perp_stop_guard_spec. Qed.
Print Assumptions C10_perp_stop_guard_means.

Theorem C10_perp_take_guard_means : forall sfv t it,
  guard_of KPerpTake sfv t it = true ->
  exists pr tpp, i_price it = Some pr /\ snd (fst t) = Some tpp /\ (if snd t then tpp <= pr else pr <= tpp).
Proof. exact perp_take_guard_spec. Qed.
Print Assumptions C10_perp_take_guard_means.

(* OPENS. FULL STATEMENT (what the property asks): every successful open / consolidating re-open leaves
   the stored position with health strictly above the safety factor, health being what GetPositionHealth /
   GetMTPHealth returns in the state the transaction leaves behind (op_health).
   The handlers compare the value they computed inside (op_hcheck, also written to the record's health field).
   For leveragelp that IS the final health (checked on every observed open by the harness). For perpetual it is
   computed before the after-open hooks refresh the accounted pool that the swap estimation inside GetMTPHealth
   reads; BEFORE fix: ba85cca that was the only comparison, so an open could pass while the health of the stored
   position was at or below the safety factor: C10_open_healthy_prefix_refuted (numbers observed on the real
   application, signature C10:open-unhealthy:perpetual). Since the fix perpetual Open / OpenConsolidate repeat the
   comparison on the final health (open_step): the full statement is proved for perpetual
   (C10_open_healthy_perpetual) and, for leveragelp, whenever the checked value is the final health
   (C10_open_healthy_partial). *)
Theorem C10_open_check_healthy : forall s o s',
  open_step s o = Ok s' ->
  sf (op_mod o) s < op_hcheck o /\
  (forall h, op_hnew o = Some h -> sf (op_mod o) s < h) /\
  pm (op_mod o) s' (op_owner o) (op_id o) = Some (op_pos o).
Proof. exact open_check_healthy. Qed.
Print Assumptions C10_open_check_healthy.

Theorem C10_open_healthy_perpetual : forall s o s',
  op_mod o = MPerp -> open_step s o = Ok s' -> sf MPerp s < op_health o.
Proof. exact open_healthy_perpetual. Qed.
Print Assumptions C10_open_healthy_perpetual.

Theorem C10_open_healthy_partial : forall s o s',
  op_hcheck o = op_health o -> open_step s o = Ok s' -> sf (op_mod o) s < op_health o.
Proof. exact open_healthy_when_check_is_final. Qed.
Print Assumptions C10_open_healthy_partial.

Theorem C10_open_boundary_rejected : forall s o, op_hcheck o <= sf (op_mod o) s -> is_ok (open_step s o) = false.
Proof. exact open_boundary_rejected. Qed.
Print Assumptions C10_open_boundary_rejected.

Theorem C10_open_perpetual_final_boundary_rejected : forall s o,
  op_mod o = MPerp -> op_health o <= sf MPerp s -> is_ok (open_step s o) = false.
Proof. exact open_perp_final_boundary_rejected. Qed.
Print Assumptions C10_open_perpetual_final_boundary_rejected.

Theorem C10_open_healthy_prefix_refuted :
  exists s o s', open_step_prefix s o = Ok s' /\ op_health o <= sf (op_mod o) s /\
                 pm (op_mod o) s' (op_owner o) (op_id o) = Some (op_pos o) /\
                 perp_may_liquidate (op_health o) (sf (op_mod o) s') = true.
Proof. exact open_healthy_refuted. Qed.
Print Assumptions C10_open_healthy_prefix_refuted.

(* the comparison repeated on the final health for both modules: full statement; it differs from the pre-fix step
   only where the checked value passes and the final health does not *)
Theorem C10_open_healthy_fixed : forall s o s',
  open_step_fixed s o = Ok s' ->
  sf (op_mod o) s < op_health o /\ pm (op_mod o) s' (op_owner o) (op_id o) = Some (op_pos o).
Proof. exact open_fixed_healthy. Qed.
Print Assumptions C10_open_healthy_fixed.

Theorem C10_open_eq_fixed_off_site : forall s o,
  (open_ok (op_hcheck o) (sf (op_mod o) s) = true -> open_ok (op_health o) (sf (op_mod o) s) = true) ->
  open_step_fixed s o = open_step_prefix s o.
Proof. exact open_eq_fixed_off_site. Qed.
Print Assumptions C10_open_eq_fixed_off_site.

(* A user close is keyed by the SENDER: it succeeds only on a position stored under the sender, and
   touches no other position of either module and no other owner's balances; a close naming somebody
   else's position id changes nothing. *)
Theorem C10_owner_keyed : forall s c s',
  owner_close s c = Ok s' ->
  (exists p, pm (oc_mod c) s (oc_sender c) (oc_id c) = Some p) /\
  (forall m o i, (m <> oc_mod c \/ o <> oc_sender c \/ i <> oc_id c) -> pm m s' o i = pm m s o i) /\
  (forall o d, o <> oc_sender c -> st_funds s' o d = st_funds s o d).
Proof. exact owner_keyed. Qed.
Print Assumptions C10_owner_keyed.

Theorem C10_owner_close_foreign_rejected : forall s c,
  pm (oc_mod c) s (oc_sender c) (oc_id c) = None -> run_tx (fun s => owner_close s c) s = s.
Proof. exact owner_close_foreign_rejected. Qed.
Print Assumptions C10_owner_close_foreign_rejected.

(* Over histories: after ANY history (opens, owner closes, governance changes of either safety factor,
   forced steps, arbitrary other state changes) a forced step changes a position only under its guard,
   and an accepted open passed its health comparison against the safety factor in force. *)
Theorem C10_history_forced_guard : forall s0 h l m o i,
  let s := run s0 h in
  core_at (pm m (run s0 (h ++ [OForced l]))) o i <> core_at (pm m s) o i ->
  exists k it p, In (k, it) l /\ kmod k = m /\ i_owner it = o /\ i_id it = i /\
                 pm m s o i = Some p /\ guard_of k (sf m s) (trig p) it = true.
Proof. exact history_forced_guard. Qed.
Print Assumptions C10_history_forced_guard.

Theorem C10_history_open_check_healthy : forall s0 h o,
  let s := run s0 h in
  is_ok (open_step s o) = true ->
  sf (op_mod o) s < op_hcheck o /\
  pm (op_mod o) (run s0 (h ++ [OOpen o])) (op_owner o) (op_id o) = Some (op_pos o).
Proof. exact history_open_check_healthy. Qed.
Print Assumptions C10_history_open_check_healthy.

Theorem C10_history_open_healthy_perpetual : forall s0 h o,
  let s := run s0 h in
  op_mod o = MPerp -> is_ok (open_step s o) = true -> sf MPerp s < op_health o.
Proof. exact history_open_healthy_perpetual. Qed.
Print Assumptions C10_history_open_healthy_perpetual.


(* Non-vacuity: safety factor 1.1; owner 7 has a leveraged-LP position (id 1) with a stop-loss at 0.9 and a
   perpetual long (id 1, stop-loss 4, take-profit 10) and a short (id 2, stop-loss 6.5). A third party sends
   liquidate requests at health exactly 1.1 (allowed), 1.1 + 1 ulp (refused), a stop-loss request at lp price
   exactly 0.9 (allowed on a second position), and perpetual requests around the triggers. *)
Example C10_nonvacuous :
  let u := 1000000000000000000 in
  let s := build (mkSD [(7, 1, P 500 100 400 (Some (9 * u / 10)) None true); (7, 3, P 300 60 240 (Some (9 * u / 10)) None true);
                        (8, 2, P 900 100 800 None None true)]
                       [(7, 1, P 200 50 150 (Some (4 * u)) (Some (10 * u)) true); (7, 2, P 700 70 60 (Some (13 * u / 2)) (Some u) false)]
                       [(7, 0, 1000); (8, 0, 50)] (11 * u / 10) (41 * u / 40)) in
  let s1 := lev_close_positions s true
              [It 8 2 None (Some (11 * u / 10 + 1)) 800 true None None (CloseOk [(0, 77)]);   (* one ulp above: refused *)
               It 7 1 None (Some (11 * u / 10)) 400 true None None (CloseOk [(0, 90)]);       (* exactly sf: liquidated *)
               It 9 9 None (Some 0) 1 true None None (CloseOk [(0, 5)])]                       (* no such position *)
              [It 7 3 None None 0 true (Some (2 * u)) (Some (9 * u / 10)) (CloseOk [(0, 55)]); (* lp price = stop loss *)
               It 8 2 None None 0 true (Some (2 * u)) (Some 1) (CloseOk [(0, 1)])] in          (* nil stop loss *)
  let s2 := perp_close_positions s1 true
              [It 7 1 (Some (-3)) (Some (41 * u / 40 + 1)) 0 true None None (CloseOk [(1, 9)])] (* healthy: only interest *)
              [It 7 2 None None 0 true None (Some (13 * u / 2 - 1)) (CloseOk [(0, 4)])]         (* short, price below sl *)
              [It 7 2 None None 0 true None (Some u) (CloseOk [(0, 33)])] in                     (* short, price = tp *)
  (st_lev s2 8 2 = st_lev s 8 2) /\ st_lev s2 7 1 = None /\ st_lev s2 7 3 = None /\
  option_map core (st_perp s2 7 1) = option_map core (st_perp s 7 1) /\
  option_map p_size (st_perp s2 7 1) = Some 197 /\ st_perp s2 7 2 = None /\
  st_funds s2 7 0 = 1000 + 90 + 55 + 33 /\ st_funds s2 7 1 = 0 /\ st_funds s2 8 0 = 50.
Proof. vm_compute. repeat split. Qed.
