(* C10 - Others can force-close a position only when allowed; new positions start healthy. Statements only.
   Model: Models/CloseGuard.v (the decision layer of x/leveragelp and x/perpetual exactly as coded; health,
   prices and pay-outs are inputs resolved from the implementation at the moment of each decision, the
   theorems quantify over ALL of them). *)
From Coq Require Import ZArith List Bool.
From Elys Require Import Base.Res Models.CloseGuard Proofs.CloseGuardProofs Run.CloseGuardRun.
From Elys Require Import Base.Zdec Models.Health Proofs.HealthProofs.
Import ListNotations.
Open Scope Z_scope.

(* For EVERY state (any positions of any owners in both modules, any balances, any safety factors), EVERY
   list of third-party items (close-positions requests of either module in any order, begin-block sweep
   items; arbitrary (owner,id) pairs, repeated, non-existent) and ALL resolved healths / prices / pay-outs:
   if the size net of settled interest and funding, the collateral, the debt principal, the stop-loss /
   take-profit trigger or the side of a position differs afterwards, then one of the items named exactly
   that position, the position existed, and the item's guard (as the code evaluates it, on the health /
   price resolved for that item and the position's own triggers) held. *)
Theorem C10_forced_change_implies_guard : forall l s m o i,
  core_at (pm m (forced_run s l)) o i <> core_at (pm m s) o i \/
  trig_at (pm m (forced_run s l)) o i <> trig_at (pm m s) o i ->
  exists k it p, In (k, it) l /\ kmod k = m /\ i_owner it = o /\ i_id it = i /\
                 pm m s o i = Some p /\ guard_of k (sf m s) (trig p) it = true.
Proof. exact forced_change_implies_guard. Qed.
Print Assumptions C10_forced_change_implies_guard.

(* ... and if any balance of an owner differs afterwards, one of the items named a position of that owner
   that existed and whose guard held. *)
Theorem C10_forced_funds_implies_guard : forall l s o d,
  st_funds (forced_run s l) o d <> st_funds s o d ->
  exists k it p, In (k, it) l /\ i_owner it = o /\
                 pm (kmod k) s o (i_id it) = Some p /\ guard_of k (sf (kmod k) s) (trig p) it = true.
Proof. exact forced_funds_implies_guard. Qed.
Print Assumptions C10_forced_funds_implies_guard.

(* Contrapositive, per position: a position for which every item naming it evaluates to "guard false"
   survives any list of third-party requests with its size (net of accrual), collateral, principal and
   triggers as they were. *)
Theorem C10_healthy_untouched : forall (l : list (kind * item)) s m o i p,
  pm m s o i = Some p ->
  (forall k it, In (k, it) l -> kmod k = m -> i_owner it = o -> i_id it = i ->
                guard_of k (sf m s) (trig p) it = false) ->
  exists q, pm m (forced_run s l) o i = Some q /\ core q = core p /\ trig q = trig p.
Proof. exact healthy_untouched. Qed.
Print Assumptions C10_healthy_untouched.

(* The two close-positions messages, with the guards spelled out. *)
Theorem C10_lev_msg : forall s tx_ok liq stop o i,
  core_at (st_lev (lev_close_positions s tx_ok liq stop)) o i <> core_at (st_lev s) o i ->
  exists it p, i_owner it = o /\ i_id it = i /\ st_lev s o i = Some p /\
    ((In it liq /\ lev_liq_guard (st_sfl s) it = true) \/ (In it stop /\ lev_stop_guard (trig p) it = true)).
Proof. exact lev_msg_change_implies_guard. Qed.
Print Assumptions C10_lev_msg.

Theorem C10_perp_msg : forall s tx_ok liq stop take o i,
  core_at (st_perp (perp_close_positions s tx_ok liq stop take)) o i <> core_at (st_perp s) o i ->
  exists it p, i_owner it = o /\ i_id it = i /\ st_perp s o i = Some p /\
    ((In it liq /\ guard_of KPerpLiq (st_sfp s) (trig p) it = true) \/
     (In it stop /\ guard_of KPerpStop (st_sfp s) (trig p) it = true) \/
     (In it take /\ guard_of KPerpTake (st_sfp s) (trig p) it = true)).
Proof. exact perp_msg_change_implies_guard. Qed.
Print Assumptions C10_perp_msg.

(* What the guards mean: health AT OR BELOW the safety factor (so health = safety factor liquidates, one
   ulp above does not), price at or beyond the trigger, nil triggers never fire. *)
Theorem C10_lev_liq_guard_means : forall sfv it,
  lev_liq_guard sfv it = true -> exists h, i_health it = Some h /\ h <= sfv /\ i_liab it <> 0.
Proof. exact lev_liq_guard_spec. Qed.
Print Assumptions C10_lev_liq_guard_means.

Theorem C10_lev_stop_guard_means : forall t it,
  lev_stop_guard t it = true -> exists pr slp, i_price it = Some pr /\ fst (fst t) = Some slp /\ pr <= slp.
Proof. exact lev_stop_guard_spec. Qed.
Print Assumptions C10_lev_stop_guard_means.

Theorem C10_perp_liq_guard_means : forall sfv t it,
  guard_of KPerpLiq sfv t it = true -> exists h, i_health it = Some h /\ h <= sfv.
Proof. exact perp_liq_guard_spec. Qed.
Print Assumptions C10_perp_liq_guard_means.

Theorem C10_perp_stop_guard_means : forall sfv t it,
  guard_of KPerpStop sfv t it = true ->
  exists pr slp, i_price it = Some pr /\ fst (fst t) = Some slp /\ (if snd t then pr <= slp else slp <= pr).
Proof. exact perp_stop_guard_spec. Qed.
Print Assumptions C10_perp_stop_guard_means.

Theorem C10_perp_take_guard_means : forall sfv t it,
  guard_of KPerpTake sfv t it = true ->
  exists pr tpp, i_price it = Some pr /\ snd (fst t) = Some tpp /\ (if snd t then tpp <= pr else pr <= tpp).
Proof. exact perp_take_guard_spec. Qed.
Print Assumptions C10_perp_take_guard_means.

(* OPENS. FULL STATEMENT (what the property asks): every successful open / consolidating re-open leaves
   the stored position with health strictly above the safety factor, health being what GetPositionHealth /
   GetMTPHealth returns in the state the transaction leaves behind (op_health).
   The handlers compare the value they computed inside (op_hcheck, also written to the record's health field).
   For leveragelp that IS the final health (checked on every observed open by the harness). For perpetual it is
   computed before the after-open hooks refresh the accounted pool that the swap estimation inside GetMTPHealth
   reads; BEFORE fix: ba85cca that was the only comparison, so an open could pass while the health of the stored
   position was at or below the safety factor: C10_open_healthy_prefix_refuted (numbers observed on the real
   application, signature C10:open-unhealthy:perpetual). Since the fix perpetual Open / OpenConsolidate repeat the
   comparison on the final health (open_step): the full statement is proved for perpetual
   (C10_open_healthy_perpetual) and, for leveragelp, whenever the checked value is the final health
   (C10_open_healthy_partial). *)
Theorem C10_open_check_healthy : forall s o s',
  open_step s o = Ok s' ->
  sf (op_mod o) s < op_hcheck o /\
  (forall h, op_hnew o = Some h -> sf (op_mod o) s < h) /\
  pm (op_mod o) s' (op_owner o) (op_id o) = Some (op_pos o).
Proof. exact open_check_healthy. Qed.
Print Assumptions C10_open_check_healthy.

Theorem C10_open_healthy_perpetual : forall s o s',
  op_mod o = MPerp -> open_step s o = Ok s' -> sf MPerp s < op_health o.
Proof. exact open_healthy_perpetual. Qed.
Print Assumptions C10_open_healthy_perpetual.

Theorem C10_open_healthy_partial : forall s o s',
  op_hcheck o = op_health o -> open_step s o = Ok s' -> sf (op_mod o) s < op_health o.
Proof. exact open_healthy_when_check_is_final. Qed.
Print Assumptions C10_open_healthy_partial.

Theorem C10_open_boundary_rejected : forall s o, op_hcheck o <= sf (op_mod o) s -> is_ok (open_step s o) = false.
Proof. exact open_boundary_rejected. Qed.
Print Assumptions C10_open_boundary_rejected.

Theorem C10_open_perpetual_final_boundary_rejected : forall s o,
  op_mod o = MPerp -> op_health o <= sf MPerp s -> is_ok (open_step s o) = false.
Proof. exact open_perp_final_boundary_rejected. Qed.
Print Assumptions C10_open_perpetual_final_boundary_rejected.

Theorem C10_open_healthy_prefix_refuted :
  exists s o s', open_step_prefix s o = Ok s' /\ op_health o <= sf (op_mod o) s /\
                 pm (op_mod o) s' (op_owner o) (op_id o) = Some (op_pos o) /\
                 perp_may_liquidate (op_health o) (sf (op_mod o) s') = true.
Proof. exact open_healthy_refuted. Qed.
Print Assumptions C10_open_healthy_prefix_refuted.

(* the comparison repeated on the final health for both modules: full statement; it differs from the pre-fix step
   only where the checked value passes and the final health does not *)
Theorem C10_open_healthy_fixed : forall s o s',
  open_step_fixed s o = Ok s' ->
  sf (op_mod o) s < op_health o /\ pm (op_mod o) s' (op_owner o) (op_id o) = Some (op_pos o).
Proof. exact open_fixed_healthy. Qed.
Print Assumptions C10_open_healthy_fixed.

Theorem C10_open_eq_fixed_off_site : forall s o,
  (open_ok (op_hcheck o) (sf (op_mod o) s) = true -> open_ok (op_health o) (sf (op_mod o) s) = true) ->
  open_step_fixed s o = open_step_prefix s o.
Proof. exact open_eq_fixed_off_site. Qed.
Print Assumptions C10_open_eq_fixed_off_site.

(* A user close is keyed by the SENDER: it succeeds only on a position stored under the sender, and
   touches no other position of either module and no other owner's balances; a close naming somebody
   else's position id changes nothing. *)
Theorem C10_owner_keyed : forall s c s',
  owner_close s c = Ok s' ->
  (exists p, pm (oc_mod c) s (oc_sender c) (oc_id c) = Some p) /\
  (forall m o i, (m <> oc_mod c \/ o <> oc_sender c \/ i <> oc_id c) -> pm m s' o i = pm m s o i) /\
  (forall o d, o <> oc_sender c -> st_funds s' o d = st_funds s o d).
Proof. exact owner_keyed. Qed.
Print Assumptions C10_owner_keyed.

Theorem C10_owner_close_foreign_rejected : forall s c,
  pm (oc_mod c) s (oc_sender c) (oc_id c) = None -> run_tx (fun s => owner_close s c) s = s.
Proof. exact owner_close_foreign_rejected. Qed.
Print Assumptions C10_owner_close_foreign_rejected.

(* Over histories: after ANY history (opens, owner closes, governance changes of either safety factor,
   forced steps, arbitrary other state changes) a forced step changes a position only under its guard,
   and an accepted open passed its health comparison against the safety factor in force. *)
Theorem C10_history_forced_guard : forall s0 h l m o i,
  let s := run s0 h in
  core_at (pm m (run s0 (h ++ [OForced l]))) o i <> core_at (pm m s) o i ->
  exists k it p, In (k, it) l /\ kmod k = m /\ i_owner it = o /\ i_id it = i /\
                 pm m s o i = Some p /\ guard_of k (sf m s) (trig p) it = true.
Proof. exact history_forced_guard. Qed.
Print Assumptions C10_history_forced_guard.

Theorem C10_history_open_check_healthy : forall s0 h o,
  let s := run s0 h in
  is_ok (open_step s o) = true ->
  sf (op_mod o) s < op_hcheck o /\
  pm (op_mod o) (run s0 (h ++ [OOpen o])) (op_owner o) (op_id o) = Some (op_pos o).
Proof. exact history_open_check_healthy. Qed.
Print Assumptions C10_history_open_check_healthy.

Theorem C10_history_open_healthy_perpetual : forall s0 h o,
  let s := run s0 h in
  op_mod o = MPerp -> is_ok (open_step s o) = true -> sf MPerp s < op_health o.
Proof. exact history_open_healthy_perpetual. Qed.
Print Assumptions C10_history_open_healthy_perpetual.


(* Non-vacuity: safety factor 1.1; owner 7 has a leveraged-LP position (id 1) with a stop-loss at 0.9 and a
   perpetual long (id 1, stop-loss 4, take-profit 10) and a short (id 2, stop-loss 6.5). A third party sends
   liquidate requests at health exactly 1.1 (allowed), 1.1 + 1 ulp (refused), a stop-loss request at lp price
   exactly 0.9 (allowed on a second position), and perpetual requests around the triggers. *)
Example C10_nonvacuous :
  let u := 1000000000000000000 in
  let s := build (mkSD [(7, 1, P 500 100 400 (Some (9 * u / 10)) None true); (7, 3, P 300 60 240 (Some (9 * u / 10)) None true);
                        (8, 2, P 900 100 800 None None true)]
                       [(7, 1, P 200 50 150 (Some (4 * u)) (Some (10 * u)) true); (7, 2, P 700 70 60 (Some (13 * u / 2)) (Some u) false)]
                       [(7, 0, 1000); (8, 0, 50)] (11 * u / 10) (41 * u / 40)) in
  let s1 := lev_close_positions s true
              [It 8 2 None (Some (11 * u / 10 + 1)) 800 true None None (CloseOk [(0, 77)]);   (* one ulp above: refused *)
               It 7 1 None (Some (11 * u / 10)) 400 true None None (CloseOk [(0, 90)]);       (* exactly sf: liquidated *)
               It 9 9 None (Some 0) 1 true None None (CloseOk [(0, 5)])]                       (* no such position *)
              [It 7 3 None None 0 true (Some (2 * u)) (Some (9 * u / 10)) (CloseOk [(0, 55)]); (* lp price = stop loss *)
               It 8 2 None None 0 true (Some (2 * u)) (Some 1) (CloseOk [(0, 1)])] in          (* nil stop loss *)
  let s2 := perp_close_positions s1 true
              [It 7 1 (Some (-3)) (Some (41 * u / 40 + 1)) 0 true None None (CloseOk [(1, 9)])] (* healthy: only interest *)
              [It 7 2 None None 0 true None (Some (13 * u / 2 - 1)) (CloseOk [(0, 4)])]         (* short, price below sl *)
              [It 7 2 None None 0 true None (Some u) (CloseOk [(0, 33)])] in                     (* short, price = tp *)
  (st_lev s2 8 2 = st_lev s 8 2) /\ st_lev s2 7 1 = None /\ st_lev s2 7 3 = None /\
  option_map core (st_perp s2 7 1) = option_map core (st_perp s 7 1) /\
  option_map p_size (st_perp s2 7 1) = Some 197 /\ st_perp s2 7 2 = None /\
  st_funds s2 7 0 = 1000 + 90 + 55 + 33 /\ st_funds s2 7 1 = 0 /\ st_funds s2 8 0 = 50.
Proof. vm_compute. repeat split. Qed.

(* ---------- the HEALTH values on the underlying quantities (Models/Health.v: leveragelp GetPositionHealth, perpetual
   GetMTPHealth as functions of the observed exit value / debt record / MTP fields / swap estimates; tied to the Go text by
   Props/ArithTieC10b.v and to the keepers' values by the HLev / HPerp cases of every run) ---------- *)

(* leveragelp: health = Quo(exit value, debt). More exit value (pool value of the committed shares) never lowers it, more debt
   (principal, or interest charged: InterestStacked) never raises it. *)
Theorem C10_lev_health_monotone : forall e1 e2 d1 d2,
  0 <= e1 <= e2 -> 0 < d1 <= d2 ->
  lev_health e1 d1 <= lev_health e2 d1 /\ lev_health e1 d2 <= lev_health e1 d1.
Proof. exact lev_health_monotone. Qed.
Print Assumptions C10_lev_health_monotone.

Theorem C10_lev_health_falls_with_interest : forall e b s1 s2 p,
  0 <= e -> 0 < total_debt b s1 p -> s1 <= s2 -> lev_health_of e b s2 p <= lev_health_of e b s1 p.
Proof. exact lev_health_anti_interest. Qed.
Print Assumptions C10_lev_health_falls_with_interest.

(* health <= sf / health > sf as cross-multiplied integer statements (PREC = 10^18, sf raw):
     health <= sf  ->  exit * 10^36 < (sf*10^18 + 1/2*10^18 + 1) * debt      (value below debt * (sf + half an ulp + 10^-36))
     exit * 10^18 <= sf * debt  ->  health <= sf ;      health > sf  ->  exit * 10^18 > sf * debt *)
Theorem C10_lev_health_vs_value : forall e d sfv, 0 <= e -> 0 < d ->
  (lev_health e d <= sfv -> e * (PREC * PREC) < (sfv * PREC + HALF + 1) * d) /\
  (e * PREC <= sfv * d -> lev_health e d <= sfv) /\
  (sfv < lev_health e d -> sfv * d < e * PREC).
Proof. exact lev_health_le_sf_cross. Qed.
Print Assumptions C10_lev_health_vs_value.

(* the liquidation guard of leveragelp (the guard C10_only_guarded_items_change is about), when the item's health is the
   modelled function of exit value and debt: it holds only if the debt is positive and the exit value is below
   debt * (sf + 0.5*10^-18 + 10^-36); it holds whenever exit value <= debt * sf *)
Theorem C10_lev_liq_guard_means_value_below_debt_times_sf : forall sfv it exit debt,
  0 <= exit -> 0 <= debt -> i_health it = Some (lev_health exit debt) -> i_liab it = debt ->
  lev_liq_guard sfv it = true ->
  0 < debt /\ exit * (PREC * PREC) < (sfv * PREC + HALF + 1) * debt.
Proof. exact lev_liq_guard_cross. Qed.
Print Assumptions C10_lev_liq_guard_means_value_below_debt_times_sf.

Theorem C10_lev_value_below_debt_times_sf_means_liq_guard : forall sfv it exit debt,
  0 <= exit -> 0 < debt -> i_health it = Some (lev_health exit debt) -> i_liab it = debt ->
  exit * PREC <= sfv * debt -> lev_liq_guard sfv it = true.
Proof. exact lev_liq_guard_from_cross. Qed.
Print Assumptions C10_lev_value_below_debt_times_sf_means_liq_guard.

(* an accepted leveragelp open: exit value strictly above debt * sf *)
Theorem C10_lev_open_means_value_above_debt_times_sf : forall e d sfv,
  0 <= e -> 0 < d -> open_ok (lev_health e d) sfv = true -> sfv * d < e * PREC.
Proof. exact lev_open_ok_cross. Qed.
Print Assumptions C10_lev_open_means_value_above_debt_times_sf.

(* perpetual, regular case (liabilities, custody and the amount owed positive): health = Quo(c, tl) with c the custody value in
   the base currency (LONG: swap estimate of the custody; SHORT: the custody) and tl the amount owed in the base currency
   (LONG: Liabilities + BorrowInterestUnpaidLiability; SHORT: swap estimate of that sum) *)
Theorem C10_perp_health_regular : forall (long : bool) liab unpaid custody el ec c tl,
  liab <> 0 -> 0 < custody -> 0 < tl ->
  (if long then tl = liab + unpaid /\ ec = Some c else el = Some tl /\ c = custody) ->
  perp_health long liab unpaid custody el ec = Ok (ratio c tl).
Proof. exact perp_health_regular. Qed.
Print Assumptions C10_perp_health_regular.

(* LONG: more unpaid interest, same custody value: the health does not rise *)
Theorem C10_perp_health_falls_with_unpaid_interest : forall liab u1 u2 custody el ec c h1 h2,
  0 < liab -> 0 <= u1 <= u2 -> 0 < custody -> 0 <= c -> ec = Some c ->
  perp_health true liab u1 custody el ec = Ok h1 -> perp_health true liab u2 custody el ec = Ok h2 -> h2 <= h1.
Proof. exact perp_health_long_anti_owed. Qed.
Print Assumptions C10_perp_health_falls_with_unpaid_interest.

(* SHORT: more custody (funding received / less interest taken out of it), same amount owed: the health does not fall *)
Theorem C10_perp_health_rises_with_custody : forall liab unpaid c1 c2 el ec tl h1 h2,
  liab <> 0 -> 0 < c1 <= c2 -> 0 < tl -> el = Some tl ->
  perp_health false liab unpaid c1 el ec = Ok h1 -> perp_health false liab unpaid c2 el ec = Ok h2 -> h1 <= h2.
Proof. exact perp_health_short_mono_custody. Qed.
Print Assumptions C10_perp_health_rises_with_custody.

(* a position without custody is always liquidatable (health 0), one without liabilities never (health = the maximum) *)
Theorem C10_perp_health_degenerate : forall long liab unpaid custody el ec h,
  (perp_health long 0 unpaid custody el ec = Ok MAXSORT) /\
  (custody <= 0 -> liab <> 0 -> perp_health long liab unpaid custody el ec = Ok h -> h = 0).
Proof. exact perp_health_degenerate. Qed.
Print Assumptions C10_perp_health_degenerate.

(* the perpetual liquidation guard `health <= sf` and the open check `health > sf` on custody value c and amount owed tl *)
Theorem C10_perp_liq_guard_means_custody_below_owed_times_sf : forall (long : bool) liab unpaid custody el ec c tl h sfv,
  liab <> 0 -> 0 < custody -> 0 < tl -> 0 <= c ->
  (if long then tl = liab + unpaid /\ ec = Some c else el = Some tl /\ c = custody) ->
  perp_health long liab unpaid custody el ec = Ok h ->
  (perp_may_liquidate h sfv = true -> c * (PREC * PREC) < (sfv * PREC + HALF + 1) * tl) /\
  (c * PREC <= sfv * tl -> perp_may_liquidate h sfv = true) /\
  (open_ok h sfv = true -> sfv * tl < c * PREC).
Proof. exact perp_liq_guard_cross. Qed.
Print Assumptions C10_perp_liq_guard_means_custody_below_owed_times_sf.
