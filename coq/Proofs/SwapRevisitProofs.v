(* C04, routes that revisit pools: proofs about the exact-in hop loop of Models/SwapQueue.v for EVERY hop list
   (no NoDup / distinct-pool premise anywhere: a route may use one pool on several hops, in a row or A-B-A).
   The hop loop decides "this is the last hop" by POSITION (is_nil rest), as route_exact_amount_in.go does
   (len(routes)-1 == i); a decision by pool id differs exactly on routes that revisit their last pool, see
   [last_hop_by_pool_id_differs] at the end. *)
From Coq Require Import ZArith List Bool Arith Lia.
From Elys Require Import Base.Res Base.Fn Models.SwapQueue Proofs.SwapQueueProofs.
Import ListNotations.
Open Scope Z_scope.

(* A recipient other than the sender is touched by the last hop only, and only in the denom leaving the last hop:
   induction over the hop list; every earlier hop pays the sender, whatever pool it uses, weight bonuses included. *)
Lemma in_loop_rcpt_final_only e s rc lim : rc <> s -> forall hops cs din ain b b',
  nonsys e (map fst hops) rc ->
  in_loop e s rc hops cs lim din ain b = Ok b' ->
  forall d, d <> fst (last_out hops cs din ain) -> b' rc d = b rc d.
Proof.
  intros Hs. induction hops as [|[p dout] rest IH]; intros cs din ain b b' NS H d Hd.
  - cbn in H. inversion H; reflexivity.
  - cbn [in_loop] in H. destruct cs as [|c cs']; [discriminate|].
    destruct (Nat.eqb din dout); [discriminate|]. destruct (h_fail_pre c); [discriminate|].
    destruct (h_amt c <=? 0); [discriminate|].
    destruct (h_amt c <? (if is_nil rest then lim else 1)); [discriminate|].
    apply bind_ok in H. destruct H as (b1 & H1 & H2).
    cbn [map fst] in NS. apply nonsys_cons in NS. destruct NS as (NS1 & NSr).
    apply (do_hop_eff _ _ _ _ _ _ _ _ _ _ _ rc NS1) in H1. destruct H1 as (_ & _ & _ & H1).
    cbn [last_out] in Hd.
    rewrite (IH _ _ _ _ _ NSr H2 d Hd), (H1 d).
    rewrite (eqb_neq_false rc s) by assumption. cbn [andb ind].
    destruct rest as [|h2 rest'].
    + cbn [is_nil last_out fst] in *. rewrite (eqb_neq_false d dout) by exact Hd.
      rewrite andb_false_r. cbn. lia.
    + cbn [is_nil]. rewrite (eqb_neq_false rc s) by assumption. cbn. lia.
Qed.

(* the hop loop never fails to consume its hop list: an executed route has a resolved amount for every hop *)
Lemma in_loop_len e s rc lim : forall hops cs din ain b b',
  in_loop e s rc hops cs lim din ain b = Ok b' -> (length hops <= length cs)%nat.
Proof.
  induction hops as [|[p dout] rest IH]; intros cs din ain b b' H; [cbn; lia|].
  cbn [in_loop] in H. destruct cs as [|c cs']; [discriminate|].
  destruct (Nat.eqb din dout); [discriminate|]. destruct (h_fail_pre c); [discriminate|].
  destruct (h_amt c <=? 0); [discriminate|]. destruct (h_amt c <? _); [discriminate|].
  apply bind_ok in H. destruct H as (b1 & _ & H2). apply IH in H2. cbn. lia.
Qed.

(* consecutive hops chain: hop i+1 takes as input exactly the denom and the amount hop i paid out, so the
   sender's holding of a denom the route only passes through is the same after the route as before *)
Theorem exact_in_intermediate_denoms_untouched : forall coded e b r c b',
  r_kind r = KIn -> settle_gen coded e b r c = Ok b' ->
  (* the sender: exactly the stated input leaves; nothing else leaves; what arrives is the final output (when the
     sender is the recipient) and weight bonuses *)
  (nonsys e (route_pools r) (r_sender r) ->
     b' (r_sender r) (r_denom r) =
       b (r_sender r) (r_denom r) - r_amt r
       + ind (Nat.eqb (r_sender r) (r_rcpt r) && Nat.eqb (r_denom r) (in_out_denom r c)) (in_out_amt r c)
       + req_bonus r c (r_sender r) (r_denom r) /\
     (forall d, d <> r_denom r -> (r_sender r <> r_rcpt r \/ d <> in_out_denom r c) ->
        b' (r_sender r) d = b (r_sender r) d + req_bonus r c (r_sender r) d) /\
     (forall d, d <> r_denom r -> b (r_sender r) d <= b' (r_sender r) d)) /\
  (* a recipient other than the sender: only the final denom moves (bonuses included), by at least the minimum *)
  (r_rcpt r <> r_sender r -> nonsys e (route_pools r) (r_rcpt r) ->
     (forall d, d <> in_out_denom r c -> b' (r_rcpt r) d = b (r_rcpt r) d) /\
     b (r_rcpt r) (in_out_denom r c) + in_out_amt r c <= b' (r_rcpt r) (in_out_denom r c) /\
     r_limit r <= in_out_amt r c) /\
  (* no weight bonus paid on the route: every denom other than the paid and the received one - in particular every
     denom the route only passes through - is untouched for sender and recipient alike *)
  (Forall (fun h => h_bonus h <= 0) (c_hops c) ->
     forall a, a = r_sender r \/ a = r_rcpt r -> nonsys e (route_pools r) a ->
     forall d, d <> r_denom r -> d <> in_out_denom r c -> b' a d = b a d).
Proof.
  intros coded e b r c b' K H.
  destruct (exact_in_debit_credit coded e b r c b' K H) as (G1 & G2 & G3 & G4 & EQ & BN & BT & B0).
  split; [|split].
  - intros NS. split; [|split].
    + rewrite (EQ _ NS). rewrite !Nat.eqb_refl. cbn [andb ind]. lia.
    + intros d Hd Hor. rewrite (EQ _ NS d). rewrite (eqb_neq_false d (r_denom r)) by exact Hd.
      rewrite andb_false_r. cbn [ind].
      assert (E : Nat.eqb (r_sender r) (r_rcpt r) && Nat.eqb d (in_out_denom r c) = false).
      { destruct Hor as [Hn | Hn]; [rewrite (eqb_neq_false _ _ Hn); reflexivity|].
        rewrite (eqb_neq_false _ _ Hn). apply andb_false_r. }
      rewrite E. cbn [ind]. lia.
    + intros d Hd. rewrite (EQ _ NS d). rewrite (eqb_neq_false d (r_denom r)) by exact Hd.
      rewrite andb_false_r. cbn [ind]. pose proof (BN (r_sender r) d).
      assert (0 <= ind (Nat.eqb (r_sender r) (r_rcpt r) && Nat.eqb d (in_out_denom r c)) (in_out_amt r c))
        by (apply ind_nonneg; lia). lia.
  - intros Hn NS.
    assert (L : r_hops r <> [] /\
                in_loop e (r_sender r) (r_rcpt r) (r_hops r) (c_hops c) (r_limit r) (r_denom r) (r_amt r) b = Ok b').
    { unfold settle_gen in H. rewrite K in H. unfold apply_in in H.
      destruct (c_fail c); [discriminate|]. destruct (r_hops r); [discriminate|]. split; [discriminate|exact H]. }
    destruct L as (_ & L). split; [|split].
    + intros d Hd. exact (in_loop_rcpt_final_only _ _ _ _ Hn _ _ _ _ _ _ NS L d Hd).
    + rewrite (EQ _ NS). rewrite !Nat.eqb_refl. cbn [andb ind].
      rewrite (eqb_neq_false _ _ Hn). cbn [andb ind]. pose proof (BN (r_rcpt r) (in_out_denom r c)). lia.
    + exact G1.
  - intros F a Ha NS d Hd1 Hd2. rewrite (EQ _ NS d), (B0 F).
    rewrite (eqb_neq_false d (r_denom r)) by exact Hd1. rewrite (eqb_neq_false d (in_out_denom r c)) by exact Hd2.
    rewrite !andb_false_r. cbn [ind]. lia.
Qed.

(* ------------------------------------------------------------------ what "last hop" must mean
   [in_loop_by_pool] is NOT the code: it is in_loop with one site changed - the last hop is recognised by its pool id
   (p = pool of the last route entry) instead of by its position. On the route pool 1 (denom 0 -> 1), pool 1
   (denom 1 -> 0), sender 1, recipient 2, it treats the first hop as final: the recipient keeps the intermediate
   denom 1 and the sender pays the second hop from its own holdings of denom 1 - the statement above fails for it,
   while the coded loop on the same inputs leaves denom 1 of both untouched. *)
Fixpoint in_loop_by_pool (lastp : nat) (e : env) (s rc : nat) (hops : list (nat * nat)) (cs : list hopc) (lim : Z)
         (din : nat) (ain : Z) (b : bank) : res bank :=
  match hops with
  | [] => Ok b
  | (p, dout) :: rest =>
      match cs with
      | [] => Err 9
      | c :: cs' =>
          let last := Nat.eqb p lastp in
          let to := if last then rc else s in
          let minout := if last then lim else 1 in
          if Nat.eqb din dout then Err 2 else
          if h_fail_pre c then Err 1 else
          if h_amt c <=? 0 then Err 3 else
          if h_amt c <? minout then Err 4 else
          do b1 <- do_hop e b s to p din ain dout (h_amt c) c;
          in_loop_by_pool lastp e s rc rest cs' lim dout (h_amt c) b1
      end
  end.

Definition rv_bank : bank := fun a d =>
  if Nat.eqb a 1 then 1000000 else if Nat.eqb a 101 then 100000000 else 0.
Definition rv_req : req := mkReq 1 KIn 1 2 [(1, 1); (1, 0)]%nat 0 1000 1 [] [].
Definition rv_choice : choice := mkCh false [] [mkHop false 199 [] 0 false; mkHop false 990 [] 0 false].

Lemma last_hop_by_pool_id_differs :
  (* the coded loop: sender -1000 of denom 0, recipient +990 of denom 0, denom 1 of both untouched *)
  (exists b', settle wit_env rv_bank rv_req rv_choice = Ok b' /\
     b' 1%nat 0%nat = rv_bank 1%nat 0%nat - 1000 /\ b' 1%nat 1%nat = rv_bank 1%nat 1%nat /\
     b' 2%nat 0%nat = rv_bank 2%nat 0%nat + 990 /\ b' 2%nat 1%nat = rv_bank 2%nat 1%nat) /\
  (* last hop recognised by pool id: the recipient keeps 199 of denom 1, the sender pays them from its own wallet *)
  (exists b', in_loop_by_pool 1 wit_env 1 2 (r_hops rv_req) (c_hops rv_choice) 1 0 1000 rv_bank = Ok b' /\
     b' 1%nat 1%nat = rv_bank 1%nat 1%nat - 199 /\ b' 2%nat 1%nat = rv_bank 2%nat 1%nat + 199).
Proof.
  split.
  - destruct (settle wit_env rv_bank rv_req rv_choice) as [b'| |] eqn:E; try (vm_compute in E; discriminate).
    exists b'. split; [reflexivity|].
    assert (V : forall a d, b' a d = match settle wit_env rv_bank rv_req rv_choice with Ok x => x a d | _ => 0 end)
      by (intros; rewrite E; reflexivity).
    repeat split; rewrite V; vm_compute; reflexivity.
  - destruct (in_loop_by_pool 1 wit_env 1 2 (r_hops rv_req) (c_hops rv_choice) 1 0 1000 rv_bank) as [b'| |] eqn:E;
      try (vm_compute in E; discriminate).
    exists b'. split; [reflexivity|].
    assert (V : forall a d, b' a d = match in_loop_by_pool 1 wit_env 1 2 (r_hops rv_req) (c_hops rv_choice) 1 0 1000 rv_bank
                                     with Ok x => x a d | _ => 0 end) by (intros; rewrite E; reflexivity).
    split; rewrite V; vm_compute; reflexivity.
Qed.
