(* C18 - proofs about the block pipeline of Models/Blocks.v over the generated table. *)
From Coq Require Import String List Bool ZArith Lia.
From Elys Require Import Base.Res Models.Blocks Generated.BlockerSurface.
Import ListNotations.
Open Scope string_scope.

(* ------------------------------------------------------------------ totality of a safe pipeline *)

Lemma point_res_safe : forall holds kn b p o,
  point_safe (b_propagates b) p = true -> point_res holds kn b p o = Ok tt.
Proof.
  intros holds kn b p o Hs. unfold point_res. destruct o; [reflexivity|]. rewrite Hs. reflexivity.
Qed.

Lemma run_points_safe : forall holds kn b oc ps,
  forallb (point_safe (b_propagates b)) ps = true -> run_points holds kn b oc ps = Ok tt.
Proof.
  intros holds kn b oc ps. induction ps as [|p r IH]; intros H; [reflexivity|].
  cbn [forallb] in H. apply andb_true_iff in H. destruct H as [Hp Hr].
  cbn [run_points]. rewrite (point_res_safe holds kn b p (oc p) Hp). apply IH. exact Hr.
Qed.

Section Total.
  Context {S : Type}.
  Variable step : blocker -> S -> S.
  Variable oc : blocker -> fpoint -> outcome.
  Variable holds : rclass -> bool.
  Variable kn : bool.

  (* [good b]: every point of b is mapped to Ok whatever fires *)
  Definition good (b : blocker) : Prop :=
    negb (b_elys b) || b_trivial b = true \/ run_points holds kn b (oc b) (b_points b) = Ok tt.

  Lemma run_blocker_good : forall b s, good b -> run_blocker step oc holds kn b s = Ok (step b s).
  Proof.
    intros b s [H|H]; unfold run_blocker.
    - rewrite H. reflexivity.
    - destruct (negb (b_elys b) || b_trivial b); [reflexivity|]. rewrite H. reflexivity.
  Qed.

  Lemma run_list_good : forall l s, Forall good l -> exists s', run_list step oc holds kn l s = Ok s'.
  Proof.
    induction l as [|b r IH]; intros s H.
    - exists s. reflexivity.
    - inversion H as [|? ? Hb Hr]; subst. cbn [run_list]. rewrite (run_blocker_good b s Hb). apply IH. exact Hr.
  Qed.

  Lemma Forall_filter : forall (P : blocker -> Prop) f l, Forall P l -> Forall P (filter f l).
  Proof.
    intros P f l H. induction H as [|x l Hx Hl IH]; cbn [filter]; [constructor|].
    destruct (f x); [constructor; assumption|assumption].
  Qed.

  Lemma run_begin_good : forall tbl l s, Forall good tbl -> Forall good l -> exists s', run_begin step oc holds kn tbl l s = Ok s'.
  Proof.
    intros tbl l. induction l as [|b r IH]; intros s Ht H.
    - exists s. reflexivity.
    - inversion H as [|? ? Hb Hr]; subst. cbn [run_begin]. unfold run_begin_one.
      destruct (is_epochs_begin b).
      + assert (Hh : Forall good (hooks_of tbl)).
        { unfold hooks_of. apply Forall_app. split; apply Forall_filter; exact Ht. }
        destruct (run_list_good (hooks_of tbl) s Hh) as [s1 E1]. rewrite E1. cbn [hook_wrap].
        rewrite (run_blocker_good b s1 Hb). apply IH; assumption.
      + rewrite (run_blocker_good b s Hb). apply IH; assumption.
  Qed.

  Lemma run_block_good : forall tbl s, Forall good tbl -> exists s', run_block step oc holds kn tbl s = Ok s'.
  Proof.
    intros tbl s Ht. unfold run_block.
    destruct (run_begin_good tbl (filter (is_phase PBegin) tbl) s Ht (Forall_filter good _ tbl Ht)) as [s1 E1].
    rewrite E1. apply run_list_good. apply Forall_filter. exact Ht.
  Qed.
End Total.

Lemma safe_good : forall {S} (step : blocker -> S -> S) oc holds kn b, blocker_safe b = true -> good oc holds kn b.
Proof.
  intros S step oc holds kn b H. unfold blocker_safe in H. unfold good.
  destruct (negb (b_elys b) || b_trivial b) eqn:E; [left; reflexivity|right].
  cbn [orb] in H. apply run_points_safe. exact H.
Qed.

(* If every blocker of a table is safe by the syntactic discipline, block processing succeeds for every state,
   every state transformer of the blockers and every choice of firing points. *)
Theorem pipeline_total : forall tbl, forallb blocker_safe tbl = true ->
  forall (S : Type) (step : blocker -> S -> S) (oc : blocker -> fpoint -> outcome) holds kn (s : S),
  exists s', run_block step oc holds kn tbl s = Ok s'.
Proof.
  intros tbl H S step oc holds kn s. apply run_block_good.
  rewrite forallb_forall in H. apply Forall_forall. intros b Hb. apply (safe_good step). apply H. exact Hb.
Qed.

(* ------------------------------------------------------------------ reviewed points *)

Lemma find_some_class : forall l b p, in_list l b p = true -> exists c, review_class l b p = Some c.
Proof.
  intros l b p H. unfold in_list in H. unfold review_class.
  destruct (find (review_matches b p) l) eqn:E; [eexists; reflexivity|].
  apply existsb_exists in H. destruct H as [r [Hin Hm]].
  pose proof (find_none _ _ E r Hin) as Hn. rewrite Hm in Hn. discriminate.
Qed.

Lemma point_res_ok : forall holds b p o,
  (forall c, holds c = true) -> point_ok b p = true -> point_res holds true b p o = Ok tt.
Proof.
  intros holds b p o Hh H. unfold point_res. destruct o; [reflexivity|].
  destruct (point_safe (b_propagates b) p) eqn:Es; [reflexivity|].
  unfold point_ok in H. rewrite Es in H. cbn [orb] in H.
  destruct (review_class reviewed b p) eqn:Ec.
  - rewrite Hh. reflexivity.
  - destruct (in_list reviewed b p) eqn:Er.
    + destruct (find_some_class _ _ _ Er) as [c Hc]. rewrite Hc in Ec. discriminate.
    + cbn [orb] in H. rewrite H. reflexivity.
Qed.

Lemma run_points_ok : forall holds b oc ps,
  (forall c, holds c = true) -> forallb (point_ok b) ps = true -> run_points holds true b oc ps = Ok tt.
Proof.
  intros holds b oc ps Hh. induction ps as [|p r IH]; intros H; [reflexivity|].
  cbn [forallb] in H. apply andb_true_iff in H. destruct H as [Hp Hr].
  cbn [run_points]. rewrite (point_res_ok holds b p (oc p) Hh Hp). apply IH. exact Hr.
Qed.

Lemma ok_good : forall {S} (step : blocker -> S -> S) oc holds b,
  (forall c, holds c = true) -> blocker_ok b = true -> good oc holds true b.
Proof.
  intros S step oc holds b Hh H. unfold blocker_ok in H. unfold good.
  destruct (negb (b_elys b) || b_trivial b) eqn:E; [left; reflexivity|right].
  cbn [orb] in H. apply run_points_ok; assumption.
Qed.

(* ------------------------------------------------------------------ the modelled guards hold on reachable environments *)

Lemma to_int64_nonzero : forall z, (0 < z < 2 ^ 64)%Z -> to_int64 z <> 0%Z.
Proof.
  intros z [H0 H1]. unfold to_int64. destruct (z <? 2 ^ 63)%Z eqn:E.
  - lia.
  - apply Z.ltb_ge in E. lia.
Qed.

Lemma guard_tbpy_holds : forall e, param_validate e = true -> guard_tbpy e = true.
Proof.
  intros e H. unfold param_validate in H. apply andb_true_iff in H. destruct H as [H0 H1].
  apply Z.ltb_lt in H0. apply Z.ltb_lt in H1. unfold guard_tbpy.
  apply negb_true_iff. apply Z.eqb_neq. apply to_int64_nonzero. lia.
Qed.

Lemma zsum_pos_ge : forall l, forallb (fun v => (0 <? v)%Z) l = true -> forall v, In v l -> (v <= zsum_pos l)%Z /\ (0 <= zsum_pos l)%Z.
Proof.
  induction l as [|x r IH]; intros H v Hin; [destruct Hin|].
  cbn [forallb] in H. apply andb_true_iff in H. destruct H as [Hx Hr]. apply Z.ltb_lt in Hx.
  cbn [zsum_pos]. destruct r as [|y r'].
  - cbn [zsum_pos]. destruct Hin as [->|[]]. lia.
  - destruct Hin as [->|Hin].
    + destruct (IH Hr y (or_introl eq_refl)) as [_ H0]. lia.
    + destruct (IH Hr v Hin) as [H1 H0]. lia.
Qed.

Lemma guard_valsum_holds : forall e, forallb (fun v => (0 <? v)%Z) (e_vals e) = true -> guard_valsum e = true.
Proof.
  intros e H. unfold guard_valsum. apply forallb_forall. intros v Hin.
  destruct (zsum_pos_ge _ H v Hin) as [H1 _].
  rewrite forallb_forall in H. specialize (H v Hin). apply Z.ltb_lt in H.
  apply negb_true_iff. apply Z.eqb_neq. lia.
Qed.

Lemma guard_funding_holds : forall e, (0 <= e_long_oi e)%Z -> (0 <= e_short_oi e)%Z -> guard_funding e = true.
Proof.
  intros e Hl Hs. unfold guard_funding, funding_divisor.
  destruct (e_long_oi e =? 0)%Z eqn:E1; [reflexivity|]. destruct (e_short_oi e =? 0)%Z eqn:E2; [reflexivity|].
  cbn [orb]. apply Z.eqb_neq in E1. apply Z.eqb_neq in E2. apply negb_true_iff. apply Z.eqb_neq. lia.
Qed.

Lemma guard_interest_holds : forall e, (e_first_stored e <= e_height e)%Z -> guard_interest_blocks e = true.
Proof.
  intros e H. unfold guard_interest_blocks, interest_blocks. cbn [forallb].
  destruct (e_start_block e =? e_height e)%Z eqn:E1.
  - cbn [andb]. destruct (e_start_block e <? e_first_stored e)%Z eqn:E2; [|reflexivity].
    apply Z.ltb_lt in E2. rewrite andb_true_r. apply negb_true_iff. apply Z.eqb_neq. lia.
  - apply Z.eqb_neq in E1. apply andb_true_iff. split.
    + apply negb_true_iff. apply Z.eqb_neq. lia.
    + destruct (e_start_block e <? e_first_stored e)%Z eqn:E2; [|reflexivity].
      apply Z.ltb_lt in E2. rewrite andb_true_r. apply negb_true_iff. apply Z.eqb_neq. lia.
Qed.

Lemma guard_stacked_holds : forall e, (0 <= e_reserve e)%Z -> guard_stacked e = true.
Proof.
  intros e H. unfold guard_stacked, stacked_divisor. destruct (e_reserve e =? 0)%Z eqn:E; [reflexivity|].
  rewrite E. reflexivity.
Qed.

Lemma guard_duration_holds : forall e, guard_duration e = true.
Proof.
  intros e. unfold guard_duration, apr_duration. destruct (e_ts_first e =? e_ts_last e)%Z eqn:E; [reflexivity|].
  apply Z.eqb_neq in E. apply negb_true_iff. apply Z.eqb_neq. lia.
Qed.

Lemma guard_product_holds : forall e, guard_product e = true.
Proof.
  intros e. unfold guard_product. destruct (e_tvl e * e_multiplier e =? 0)%Z eqn:E; [reflexivity|].
  apply Z.eqb_neq in E. apply negb_true_iff. apply Z.eqb_neq. intro H0. apply E. rewrite H0. reflexivity.
Qed.

Lemma reach_guards : forall e, reach e -> guard_tbpy e = true /\ local_guards e = true.
Proof.
  intros e (Hp & Hv & Hl & Hs & Hf & Hr). split; [apply guard_tbpy_holds; exact Hp|].
  unfold local_guards.
  rewrite (guard_valsum_holds e Hv), (guard_funding_holds e Hl Hs), (guard_interest_holds e Hf),
          (guard_stacked_holds e Hr), (guard_duration_holds e), (guard_product_holds e). reflexivity.
Qed.

Lemma holds_in_all : forall e assume, reach e -> (forall c, assumed_class c = true -> assume c = true) ->
  forall c, holds_in e assume c = true.
Proof.
  intros e assume Hr Ha c. destruct (reach_guards e Hr) as [Hp Hl].
  destruct c; cbn [holds_in]; try assumption; try reflexivity; apply Ha; reflexivity.
Qed.

(* the guard is necessary: with TotalBlocksPerYear = 0 (which Validate rejects) the RParam guard is false *)
Lemma guard_tbpy_zero : forall e, e_tbpy e = 0%Z -> guard_tbpy e = false.
Proof. intros e H. unfold guard_tbpy. rewrite H. reflexivity. Qed.

(* Repaired pipeline (known defects fixed), reviewed points under their guards: never fails. *)
Theorem pipeline_total_reviewed : forall tbl, forallb blocker_ok tbl = true ->
  forall e assume, reach e -> (forall c, assumed_class c = true -> assume c = true) ->
  forall (S : Type) (step : blocker -> S -> S) (oc : blocker -> fpoint -> outcome) (s : S),
  exists s', run_block step oc (holds_in e assume) true tbl s = Ok s'.
Proof.
  intros tbl H e assume Hr Ha S step oc s. apply run_block_good.
  rewrite forallb_forall in H. apply Forall_forall. intros b Hb.
  apply (ok_good step). apply holds_in_all; assumption. apply H. exact Hb.
Qed.

(* ------------------------------------------------------------------ the generated table *)

Lemma sites_ok : forallb blocker_ok blockers = true.
Proof. vm_compute. reflexivity. Qed.

Lemma order_ok : order_wf blockers = true.
Proof. vm_compute. reflexivity. Qed.

(* exactly these blockers are not safe by syntax alone (they rely on the reviewed list) *)
Definition unsafe_names (tbl : list blocker) : list (string * phase) :=
  map (fun b => (b_module b, b_phase b)) (filter (fun b => negb (blocker_safe b)) tbl).

Lemma unsafe_blockers : unsafe_names blockers =
  [("epochs", PBegin); ("distribution", PBegin); ("perpetual", PBegin); ("leveragelp", PBegin);
   ("amm", PEnd); ("masterchef", PEnd); ("estaking", PEnd);
   ("burner", PEpochAfter); ("oracle", PEpochBefore); ("estaking", PEpochBefore)].
Proof. vm_compute. reflexivity. Qed.

(* the only Elys blocker (hooks aside) whose error reaches the module manager is masterchef's end blocker, plus
   the distribution wrapper's final SDK call *)
Definition propagating (tbl : list blocker) : list (string * phase) :=
  map (fun b => (b_module b, b_phase b))
      (filter (fun b => b_elys b && negb (b_trivial b) && b_propagates b && (phase_eqb (b_phase b) PBegin || phase_eqb (b_phase b) PEnd)) tbl).

Lemma propagating_blockers : propagating blockers = [("distribution", PBegin); ("masterchef", PEnd)].
Proof. vm_compute. reflexivity. Qed.

Lemma expected_present :
  forallb (fun mp => has_blocker blockers (fst mp) (snd mp))
    [("epochs", PBegin); ("stablestake", PBegin); ("perpetual", PBegin); ("leveragelp", PBegin); ("tier", PBegin);
     ("oracle", PEnd); ("amm", PEnd); ("masterchef", PEnd); ("estaking", PEnd)] = true.
Proof. vm_compute. reflexivity. Qed.

(* every reviewed / known entry still matches a point of the table (no stale entries) *)
Definition entry_used (tbl : list blocker) (r : review) : bool :=
  existsb (fun b => existsb (fun p => review_matches b p r) (b_points b)) tbl.

Lemma reviewed_all_used : forallb (entry_used blockers) (reviewed ++ known_unsafe) = true.
Proof. vm_compute. reflexivity. Qed.

(* non-vacuity: a concrete reachable environment *)
Definition env0 : env := mkEnv 6307200%Z 250000000000000000%Z [1000000%Z; 5%Z] 10%Z 3%Z 100%Z 90%Z 95%Z 0%Z 10%Z 20%Z 5%Z 1%Z.
Lemma env0_reach : reach env0.
Proof. unfold reach, env0; cbn. repeat split; try reflexivity; lia. Qed.
