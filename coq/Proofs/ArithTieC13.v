(* Tie between the Go source and the C13 model Models/Chef.v: the per-coin amount computed inside the loop of
   x/amm/keeper/fee.go PortionCoins (the second argument of the sdk.NewCoin it appends), translated from the
   current source on every run (Generated/ArithC13.v), equals [portion_coin] for ALL arguments.
   The loop itself (one coin per input coin, same denomination) is structure, not arithmetic: the
   correspondence run covers it. *)
From Coq Require Import ZArith Bool Arith Lia.
From Elys Require Import Base.Res Base.Zdec Models.Chef Generated.ArithC13.
Open Scope Z_scope.

Lemma tie_PortionCoins_amount : forall a portion : Z,
  PortionCoins_amount portion a = portion_coin a portion.
Proof. intros. reflexivity. Qed.

(* the provider's share of the protocol revenue in CollectDEXRevenue / CollectPerpRevenue is this amount *)
Lemma tie_provider_portion : forall (P : params) (a : Z),
  portion_coin (pr_coin P a) (p_prov P) = PortionCoins_amount (p_prov P) (pr_coin P a).
Proof. intros. reflexivity. Qed.

(* ---------- the reward ledger's accumulators (x/masterchef/keeper/hooks_masterchef.go) ----------
   Slices of UpdateAccPerShare / UpdateUserRewardPending / UpdateUserRewardDebt: the value of the field written
   by SetPoolRewardInfo / SetUserRewardInfo. Inputs: the stored records (with their `found` flags: a missing
   record is replaced by a literal with zero accumulators), GetPoolTotalCommit, GetPoolBalance.
   ammtypes.OneShare is read as its initialiser 10^18 = [ONE]. *)

Lemma tie_UpdateAccPerShare_acc : forall (pid c a : Z) (found : bool) (tot : Z),
  UpdateAccPerShare_acc pid c a found tot = (if found then a else 0) + dquo_int (dec_of_int (c * ONE)) tot.
Proof. intros. destruct found; reflexivity. Qed.

Lemma tie_UpdateUserRewardPending_pending : forall (pid : Z) (is_deposit : bool) (amt acc : Z) (foundP : bool)
    (debt pend : Z) (foundU : bool) (bal : Z),
  UpdateUserRewardPending_pending pid is_deposit amt acc foundP debt pend foundU bal =
  (if foundU then pend else 0) +
  dquo_int (dmul_int (if foundP then acc else 0) (if is_deposit then bal - amt else bal + amt) - (if foundU then debt else 0)) ONE.
Proof. intros. destruct foundU, foundP, is_deposit; reflexivity. Qed.

Lemma tie_UpdateUserRewardDebt_debt : forall (pid acc : Z) (foundP foundU : bool) (bal : Z),
  UpdateUserRewardDebt_debt pid acc foundP foundU bal = dmul (if foundP then acc else 0) (dec_of_int bal).
Proof. intros. destruct foundP; reflexivity. Qed.

(* the model's [credit] and [checkpoint] store exactly these values (absent records = zero accumulators) *)
Lemma tie_credit_uses_generated : forall (s : state) (p d : nat) (c pid : Z),
  tot s p <> 0 ->
  acc (credit s p d c) p d = UpdateAccPerShare_acc pid c (acc s p d) true (tot s p).
Proof.
  intros s p d c pid H. rewrite tie_UpdateAccPerShare_acc. unfold credit.
  destruct (tot s p =? 0) eqn:E; [apply Z.eqb_eq in E; contradiction|].
  unfold set_acc; cbn. rewrite !Nat.eqb_refl. reflexivity.
Qed.

Lemma tie_checkpoint_uses_generated : forall (s : state) (u p d : nat) (bold pid : Z),
  is_rden s p d = true ->
  pend (checkpoint s u p bold) u p d =
    UpdateUserRewardPending_pending pid true 0 (acc s p d) true (debt s u p d) (pend s u p d) true bold /\
  debt (checkpoint s u p bold) u p d =
    UpdateUserRewardDebt_debt pid (acc s p d) true true (bal s u p).
Proof.
  intros s u p d bold pid H. rewrite tie_UpdateUserRewardPending_pending, tie_UpdateUserRewardDebt_debt.
  unfold checkpoint; cbn. rewrite !Nat.eqb_refl, H. cbn. rewrite Z.sub_0_r. split; reflexivity.
Qed.
