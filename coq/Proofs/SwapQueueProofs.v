(* Proofs about Models/SwapQueue.v (C04). *)
From Coq Require Import ZArith List Bool Arith Lia.
From Elys Require Import Base.Res Base.Fn Models.SwapQueue.
Import ListNotations.
Open Scope Z_scope.

Definition ind (c : bool) (x : Z) : Z := if c then x else 0.

Definition nonsys1 (e : env) (p a : nat) : Prop := a <> e_pool e p /\ a <> e_treas e p /\ a <> e_rev e p.
(* a is none of the addresses owned by the pools of the route *)
Definition nonsys (e : env) (ps : list nat) (a : nat) : Prop := forall p, In p ps -> nonsys1 e p a.

Lemma bind_ok {A B} (r : res A) (f : A -> res B) y : bind r f = Ok y -> exists x, r = Ok x /\ f x = Ok y.
Proof. destruct r; cbn; intros H; try discriminate. eauto. Qed.

Lemma send_eff b f t d x b' : send b f t d x = Ok b' ->
  0 < x /\ x <= b f d /\
  forall a d', b' a d' = b a d' + ind (Nat.eqb a t && Nat.eqb d' d) x - ind (Nat.eqb a f && Nat.eqb d' d) x.
Proof.
  unfold send. destruct (x <=? 0) eqn:E1; [discriminate|]. destruct (b f d <? x) eqn:E2; [discriminate|].
  intros H; inversion H; subst; clear H. apply Z.leb_gt in E1. apply Z.ltb_ge in E2.
  split; [lia|]. split; [lia|]. intros a d'. unfold upd2, ind.
  destruct (Nat.eqb_spec a t), (Nat.eqb_spec d' d), (Nat.eqb_spec a f); subst; cbn;
    rewrite ?Nat.eqb_refl; cbn;
    repeat match goal with |- context[Nat.eqb ?x ?y] => destruct (Nat.eqb_spec x y); subst; cbn end;
    try lia; try congruence.
Qed.

Lemma eqb_neq_false a b : a <> b -> Nat.eqb a b = false.
Proof. intros H. destruct (Nat.eqb_spec a b); [contradiction|reflexivity]. Qed.

Lemma role_nonsys e p a r : nonsys1 e p a -> a <> role_addr e p r.
Proof. intros (H1 & H2 & H3). destruct r; cbn; assumption. Qed.

Lemma sys_sends_eff e p a : nonsys1 e p a -> forall l b b', sys_sends e p b l = Ok b' -> forall d, b' a d = b a d.
Proof.
  intros NS. induction l as [|[[[rf rt] dd] x] l IH]; intros b b' H d; cbn in H.
  - inversion H; reflexivity.
  - apply bind_ok in H. destruct H as (b1 & H1 & H2). apply send_eff in H1. destruct H1 as (_ & _ & H1).
    rewrite (IH _ _ H2 d), H1.
    rewrite (eqb_neq_false a (role_addr e p rt)) by (apply role_nonsys; exact NS).
    rewrite (eqb_neq_false a (role_addr e p rf)) by (apply role_nonsys; exact NS). cbn. lia.
Qed.

Lemma do_hop_eff e b s to p din ain dout aout c b' a : nonsys1 e p a ->
  do_hop e b s to p din ain dout aout c = Ok b' ->
  0 < ain /\ 0 < aout /\ ain <= b s din /\
  forall d, b' a d = b a d - ind (Nat.eqb a s && Nat.eqb d din) ain
                       + ind (Nat.eqb a to && Nat.eqb d dout) (aout + Z.max 0 (h_bonus c)).
Proof.
  intros NS H. unfold do_hop in H.
  apply bind_ok in H. destruct H as (b1 & H1 & H).
  apply bind_ok in H. destruct H as (b2 & H2 & H).
  apply bind_ok in H. destruct H as (b3 & H3 & H).
  apply bind_ok in H. destruct H as (b4 & H4 & H).
  destruct (h_fail_post c); [discriminate|]. inversion H; subst b4; clear H.
  apply send_eff in H1. destruct H1 as (P1 & Q1 & H1).
  apply send_eff in H2. destruct H2 as (P2 & _ & H2).
  pose proof (sys_sends_eff e p a NS _ _ _ H3) as H3'.
  destruct NS as (N1 & N2 & N3).
  split; [exact P1|]. split; [exact P2|]. split; [exact Q1|]. intros d.
  assert (E4 : b' a d = b3 a d + ind (Nat.eqb a to && Nat.eqb d dout) (Z.max 0 (h_bonus c))).
  { destruct (0 <? h_bonus c) eqn:Eb.
    - apply Z.ltb_lt in Eb. apply send_eff in H4. destruct H4 as (_ & _ & H4). rewrite H4.
      rewrite (eqb_neq_false a (e_treas e p)) by exact N2. cbn. rewrite Z.max_r by lia. lia.
    - apply Z.ltb_ge in Eb. inversion H4; subst. rewrite Z.max_l by lia. unfold ind. destruct (_ && _); lia. }
  rewrite E4, H3', H2, H1. rewrite !(eqb_neq_false a (e_pool e p)) by exact N1. cbn.
  unfold ind. destruct (Nat.eqb a to && Nat.eqb d dout); destruct (Nat.eqb a s && Nat.eqb d din); lia.
Qed.

Lemma nonsys_cons e p ps a : nonsys e (p :: ps) a -> nonsys1 e p a /\ nonsys e ps a.
Proof. intros H. split; [apply H; left; reflexivity|]. intros q Hq. apply H. right. exact Hq. Qed.

(* ------------------------------------------------------------------ exact-in *)

Fixpoint in_bonus (s rc : nat) (hops : list (nat * nat)) (cs : list hopc) (a d : nat) : Z :=
  match hops, cs with
  | (p, dout) :: rest, c :: cs' =>
      let to := if is_nil rest then rc else s in
      ind (Nat.eqb a to && Nat.eqb d dout) (Z.max 0 (h_bonus c)) + in_bonus s rc rest cs' a d
  | _, _ => 0
  end.

(* denom and amount leaving the last hop *)
Fixpoint last_out (hops : list (nat * nat)) (cs : list hopc) (d0 : nat) (a0 : Z) : nat * Z :=
  match hops, cs with
  | (p, dout) :: rest, c :: cs' => last_out rest cs' dout (h_amt c)
  | _, _ => (d0, a0)
  end.

Definition in_credit (s rc : nat) (hops : list (nat * nat)) (cs : list hopc) (din : nat) (ain : Z) (a d : nat) : Z :=
  match hops with
  | [] => ind (Nat.eqb a s && Nat.eqb d din) ain
  | _ => ind (Nat.eqb a rc && Nat.eqb d (fst (last_out hops cs din ain))) (snd (last_out hops cs din ain))
  end.

Lemma in_loop_eff e s rc lim a : forall hops cs din ain b b',
  nonsys e (map fst hops) a ->
  in_loop e s rc hops cs lim din ain b = Ok b' ->
  forall d, b' a d = b a d - ind (Nat.eqb a s && Nat.eqb d din) ain
                    + in_credit s rc hops cs din ain a d + in_bonus s rc hops cs a d.
Proof.
  induction hops as [|[p dout] rest IH]; intros cs din ain b b' NS H d.
  - cbn in H. inversion H; subst. cbn. lia.
  - cbn [in_loop] in H. destruct cs as [|c cs']; [discriminate|].
    destruct (Nat.eqb din dout); [discriminate|]. destruct (h_fail_pre c); [discriminate|].
    destruct (h_amt c <=? 0); [discriminate|].
    destruct (h_amt c <? (if is_nil rest then lim else 1)); [discriminate|].
    apply bind_ok in H. destruct H as (b1 & H1 & H2).
    cbn [map fst] in NS. apply nonsys_cons in NS. destruct NS as (NS1 & NSr).
    apply (do_hop_eff _ _ _ _ _ _ _ _ _ _ _ a NS1) in H1. destruct H1 as (_ & _ & _ & H1).
    rewrite (IH _ _ _ _ _ NSr H2 d), (H1 d). cbn [in_bonus].
    destruct rest as [|h2 rest'].
    + cbn. unfold ind. destruct (Nat.eqb a rc && Nat.eqb d dout); destruct (Nat.eqb a s && Nat.eqb d din);
        destruct (Nat.eqb a s && Nat.eqb d dout); lia.
    + cbn [is_nil]. unfold in_credit at 2. unfold in_credit. cbn [last_out].
      destruct h2 as [p2 d2]. cbn [last_out].
      unfold ind. destruct (Nat.eqb a s && Nat.eqb d dout); destruct (Nat.eqb a s && Nat.eqb d din); lia.
Qed.

Lemma in_loop_out_ge e s rc lim : forall hops cs din ain b b',
  hops <> [] -> in_loop e s rc hops cs lim din ain b = Ok b' ->
  lim <= snd (last_out hops cs din ain) /\ 0 < snd (last_out hops cs din ain).
Proof.
  induction hops as [|[p dout] rest IH]; intros cs din ain b b' NE H; [congruence|].
  cbn [in_loop] in H. destruct cs as [|c cs']; [discriminate|].
  destruct (Nat.eqb din dout); [discriminate|]. destruct (h_fail_pre c); [discriminate|].
  destruct (h_amt c <=? 0) eqn:E0; [discriminate|].
  destruct (h_amt c <? (if is_nil rest then lim else 1)) eqn:E1; [discriminate|].
  apply bind_ok in H. destruct H as (b1 & H1 & H2). cbn [last_out].
  destruct rest as [|h2 rest'].
  - cbn. cbn in E1. apply Z.leb_gt in E0. apply Z.ltb_ge in E1. lia.
  - apply (IH _ _ _ _ _ ltac:(discriminate) H2).
Qed.

Lemma in_loop_funds e s rc lim : forall hops cs din ain b b',
  hops <> [] -> in_loop e s rc hops cs lim din ain b = Ok b' -> 0 < ain /\ ain <= b s din.
Proof.
  intros [|[p dout] rest] cs din ain b b' NE H; [congruence|].
  cbn [in_loop] in H. destruct cs as [|c cs']; [discriminate|].
  destruct (Nat.eqb din dout); [discriminate|]. destruct (h_fail_pre c); [discriminate|].
  destruct (h_amt c <=? 0); [discriminate|]. destruct (h_amt c <? _); [discriminate|].
  apply bind_ok in H. destruct H as (b1 & H1 & _). unfold do_hop in H1.
  apply bind_ok in H1. destruct H1 as (b2 & H1 & _). apply send_eff in H1. lia.
Qed.

Lemma ind_nonneg c x : 0 <= x -> 0 <= ind c x.
Proof. unfold ind. destruct c; lia. Qed.

Lemma in_bonus_nonneg s rc : forall hops cs a d, 0 <= in_bonus s rc hops cs a d.
Proof.
  induction hops as [|[p dout] rest IH]; intros [|c cs'] a d; cbn; try lia.
  pose proof (IH cs' a d). pose proof (ind_nonneg (Nat.eqb a (if is_nil rest then rc else s) && Nat.eqb d dout) (Z.max 0 (h_bonus c))). lia.
Qed.

Lemma in_bonus_third s rc : forall hops cs a d, a <> s -> a <> rc -> in_bonus s rc hops cs a d = 0.
Proof.
  induction hops as [|[p dout] rest IH]; intros [|c cs'] a d Hs Hr; cbn; try reflexivity.
  rewrite IH by assumption. destruct (is_nil rest); rewrite eqb_neq_false by assumption; reflexivity.
Qed.

Lemma in_bonus_none s rc : forall hops cs a d, Forall (fun c => h_bonus c <= 0) cs -> in_bonus s rc hops cs a d = 0.
Proof.
  induction hops as [|[p dout] rest IH]; intros [|c cs'] a d F; cbn; try reflexivity.
  inversion F; subst. rewrite IH by assumption. rewrite Z.max_l by lia. unfold ind. destruct (_ && _); reflexivity.
Qed.

Definition in_out_denom (r : req) (c : choice) : nat := fst (last_out (r_hops r) (c_hops c) (r_denom r) (r_amt r)).
Definition in_out_amt (r : req) (c : choice) : Z := snd (last_out (r_hops r) (c_hops c) (r_denom r) (r_amt r)).
Definition req_bonus (r : req) (c : choice) : nat -> nat -> Z := in_bonus (r_sender r) (r_rcpt r) (r_hops r) (c_hops c).
Definition route_pools (r : req) : list nat := map fst (r_hops r).

Theorem exact_in_debit_credit : forall coded e b r c b',
  r_kind r = KIn -> settle_gen coded e b r c = Ok b' ->
  r_limit r <= in_out_amt r c /\ 0 < in_out_amt r c /\ 0 < r_amt r /\ r_amt r <= b (r_sender r) (r_denom r) /\
  (forall a, nonsys e (route_pools r) a -> forall d,
     b' a d = b a d - ind (Nat.eqb a (r_sender r) && Nat.eqb d (r_denom r)) (r_amt r)
                    + ind (Nat.eqb a (r_rcpt r) && Nat.eqb d (in_out_denom r c)) (in_out_amt r c)
                    + req_bonus r c a d) /\
  (forall a d, 0 <= req_bonus r c a d) /\
  (forall a d, a <> r_sender r -> a <> r_rcpt r -> req_bonus r c a d = 0) /\
  (Forall (fun h => h_bonus h <= 0) (c_hops c) -> forall a d, req_bonus r c a d = 0).
Proof.
  intros coded e b r c b' K H. unfold settle_gen in H. rewrite K in H. unfold apply_in in H.
  destruct (c_fail c); [discriminate|]. destruct (r_hops r) as [|h hs] eqn:EH; [discriminate|]. cbn [is_nil] in H.
  assert (NE : h :: hs <> []) by discriminate.
  unfold in_out_amt, in_out_denom, req_bonus, route_pools. rewrite EH.
  destruct (in_loop_out_ge _ _ _ _ _ _ _ _ _ _ NE H) as (G1 & G2).
  destruct (in_loop_funds _ _ _ _ _ _ _ _ _ _ NE H) as (F1 & F2).
  repeat (split; [assumption|]).
  split.
  - intros a NS d. rewrite (in_loop_eff _ _ _ _ a _ _ _ _ _ _ NS H d). unfold in_credit. lia.
  - split; [intros; apply in_bonus_nonneg|]. split; [intros; apply in_bonus_third; assumption|].
    intros; apply in_bonus_none; assumption.
Qed.

(* ------------------------------------------------------------------ exact-out *)

Lemma out_loop_third e coded s rc a : a <> s -> a <> rc -> forall hops cs lim ins dfin afin b b',
  nonsys e (map fst hops) a ->
  out_loop e coded s rc hops cs lim ins dfin afin b = Ok b' -> forall d, b' a d = b a d.
Proof.
  intros Hs Hr. induction hops as [|[p din] rest IH]; intros cs lim ins dfin afin b b' NS H d.
  - cbn in H. inversion H; reflexivity.
  - cbn [out_loop] in H. destruct cs as [|c cs']; [discriminate|].
    match type of H with match ?n with _ => _ end = _ => destruct n as [[[dout aout] ins']|]; [|discriminate] end.
    destruct (Nat.eqb din dout); [discriminate|]. destruct (h_fail_pre c); [discriminate|].
    destruct (h_amt c <=? 0); [discriminate|]. destruct (lim <? h_amt c); [discriminate|].
    apply bind_ok in H. destruct H as (b1 & H1 & H2).
    cbn [map fst] in NS. apply nonsys_cons in NS. destruct NS as (NS1 & NSr).
    apply (do_hop_eff _ _ _ _ _ _ _ _ _ _ _ a NS1) in H1. destruct H1 as (_ & _ & _ & H1).
    rewrite (IH _ _ _ _ _ _ _ NSr H2 d), (H1 d).
    rewrite (eqb_neq_false a s) by assumption.
    assert (Et : Nat.eqb a (out_to coded (is_nil rest) s rc) = false).
    { apply eqb_neq_false. unfold out_to. destruct (is_nil rest); [assumption|]. destruct coded; assumption. }
    rewrite Et. cbn. lia.
Qed.

(* the recipient (not the sender) is credited at least the stated output and never debited *)
Lemma out_loop_rcpt e coded s rc : rc <> s -> forall hops cs lim ins dfin afin b b',
  hops <> [] -> nonsys e (map fst hops) rc ->
  out_loop e coded s rc hops cs lim ins dfin afin b = Ok b' ->
  forall d, b rc d + ind (Nat.eqb d dfin) afin <= b' rc d.
Proof.
  intros Hs. induction hops as [|[p din] rest IH]; intros cs lim ins dfin afin b b' NE NS H d; [congruence|].
  cbn [out_loop] in H. destruct cs as [|c cs']; [discriminate|].
  destruct rest as [|[p2 din2] rest'].
  - cbn [is_nil] in H.
    destruct (Nat.eqb din dfin); [discriminate|]. destruct (h_fail_pre c); [discriminate|].
    destruct (h_amt c <=? 0); [discriminate|]. destruct (lim <? h_amt c); [discriminate|].
    apply bind_ok in H. destruct H as (b1 & H1 & H2). cbn in H2. inversion H2; subst b1; clear H2.
    cbn [map fst] in NS. apply nonsys_cons in NS. destruct NS as (NS1 & _).
    apply (do_hop_eff _ _ _ _ _ _ _ _ _ _ _ rc NS1) in H1. destruct H1 as (_ & P & _ & H1).
    rewrite (H1 d). unfold out_to. rewrite (eqb_neq_false rc s) by assumption. rewrite Nat.eqb_refl. cbn.
    unfold ind. destruct (Nat.eqb d dfin); lia.
  - destruct ins as [|x ins']; [discriminate|]. cbn [is_nil] in H.
    destruct (Nat.eqb din din2); [discriminate|]. destruct (h_fail_pre c); [discriminate|].
    destruct (h_amt c <=? 0); [discriminate|]. destruct (lim <? h_amt c); [discriminate|].
    apply bind_ok in H. destruct H as (b1 & H1 & H2).
    cbn [map fst] in NS. apply nonsys_cons in NS. destruct NS as (NS1 & NSr).
    apply (do_hop_eff _ _ _ _ _ _ _ _ _ _ _ rc NS1) in H1. destruct H1 as (_ & P & _ & H1).
    pose proof (IH _ _ _ _ _ _ _ ltac:(discriminate) NSr H2 d) as G. rewrite (H1 d) in G.
    rewrite (eqb_neq_false rc s) in G by assumption. cbn [andb] in G. unfold ind at 1 in G.
    assert (0 <= ind (Nat.eqb rc (out_to coded false s rc) && Nat.eqb d din2) (x + Z.max 0 (h_bonus c))) by (apply ind_nonneg; lia).
    lia.
Qed.

(* the sender, when intermediate hops pay the sender (repaired routing, or sender = recipient) *)
Lemma out_loop_sender e coded s rc : (coded = false \/ s = rc) -> forall hops cs lim ins dfin afin b b',
  nonsys e (map fst hops) s ->
  out_loop e coded s rc hops cs lim ins dfin afin b = Ok b' ->
  match hops with
  | [] => True
  | (_, din) :: _ => forall d, b s d - ind (Nat.eqb d din) lim + ind (Nat.eqb s rc && Nat.eqb d dfin) afin <= b' s d
  end.
Proof.
  intros Pol. induction hops as [|[p din] rest IH]; intros cs lim ins dfin afin b b' NS H; [exact I|].
  cbn [out_loop] in H. destruct cs as [|c cs']; [discriminate|].
  cbn [map fst] in NS. apply nonsys_cons in NS. destruct NS as (NS1 & NSr).
  destruct rest as [|[p2 din2] rest'].
  - cbn [is_nil] in H.
    destruct (Nat.eqb din dfin); [discriminate|]. destruct (h_fail_pre c); [discriminate|].
    destruct (h_amt c <=? 0) eqn:E0; [discriminate|]. destruct (lim <? h_amt c) eqn:E1; [discriminate|].
    apply bind_ok in H. destruct H as (b1 & H1 & H2). cbn in H2. inversion H2; subst b1; clear H2.
    apply (do_hop_eff _ _ _ _ _ _ _ _ _ _ _ s NS1) in H1. destruct H1 as (_ & P & _ & H1).
    intros d. rewrite (H1 d). rewrite Nat.eqb_refl. cbn [andb]. unfold out_to.
    apply Z.leb_gt in E0. apply Z.ltb_ge in E1.
    unfold ind. destruct (Nat.eqb d din); destruct (Nat.eqb s rc && Nat.eqb d dfin); lia.
  - destruct ins as [|x ins']; [discriminate|]. cbn [is_nil] in H.
    destruct (Nat.eqb din din2); [discriminate|]. destruct (h_fail_pre c); [discriminate|].
    destruct (h_amt c <=? 0) eqn:E0; [discriminate|]. destruct (lim <? h_amt c) eqn:E1; [discriminate|].
    apply bind_ok in H. destruct H as (b1 & H1 & H2).
    apply (do_hop_eff _ _ _ _ _ _ _ _ _ _ _ s NS1) in H1. destruct H1 as (_ & P & _ & H1).
    pose proof (IH _ _ _ _ _ _ _ NSr H2) as G. cbn beta iota in G.
    intros d. specialize (G d). rewrite (H1 d) in G. rewrite Nat.eqb_refl in G. cbn [andb] in G.
    assert (Et : Nat.eqb s (out_to coded false s rc) = true).
    { unfold out_to. destruct Pol as [-> | <-]; [|destruct coded]; apply Nat.eqb_refl. }
    rewrite Et in G. cbn [andb] in G.
    apply Z.leb_gt in E0. apply Z.ltb_ge in E1.
    unfold ind in *. destruct (Nat.eqb d din); destruct (Nat.eqb d din2); destruct (Nat.eqb s rc && Nat.eqb d dfin); lia.
Qed.

(* a single hop: the only hop is the last one, whatever the routing of intermediate hops *)
Lemma out_loop_sender_single e coded s rc p din cs lim ins dfin afin b b' :
  nonsys1 e p s ->
  out_loop e coded s rc [(p, din)] cs lim ins dfin afin b = Ok b' ->
  forall d, b s d - ind (Nat.eqb d din) lim + ind (Nat.eqb s rc && Nat.eqb d dfin) afin <= b' s d.
Proof.
  intros NS1 H. cbn [out_loop] in H. destruct cs as [|c cs']; [discriminate|]. cbn [is_nil] in H.
  destruct (Nat.eqb din dfin); [discriminate|]. destruct (h_fail_pre c); [discriminate|].
  destruct (h_amt c <=? 0) eqn:E0; [discriminate|]. destruct (lim <? h_amt c) eqn:E1; [discriminate|].
  apply bind_ok in H. destruct H as (b1 & H1 & H2). cbn in H2. inversion H2; subst b1; clear H2.
  apply (do_hop_eff _ _ _ _ _ _ _ _ _ _ _ s NS1) in H1. destruct H1 as (_ & P & _ & H1).
  intros d. rewrite (H1 d). rewrite Nat.eqb_refl. cbn [andb]. unfold out_to.
  apply Z.leb_gt in E0. apply Z.ltb_ge in E1.
  unfold ind. destruct (Nat.eqb d din); destruct (Nat.eqb s rc && Nat.eqb d dfin); lia.
Qed.

Definition out_in_denom (r : req) : nat := match r_hops r with (_, din) :: _ => din | [] => 0%nat end.

Lemma apply_out_inv coded e b r c b' : r_kind r = KOut -> settle_gen coded e b r c = Ok b' ->
  r_hops r <> [] /\
  out_loop e coded (r_sender r) (r_rcpt r) (r_hops r) (c_hops c) (r_limit r) (tl (c_ins c)) (r_denom r) (r_amt r) b = Ok b'.
Proof.
  intros K H. unfold settle_gen in H. rewrite K in H. unfold apply_out_gen in H.
  destruct (c_fail c); [discriminate|]. destruct (r_hops r) eqn:EH; [discriminate|]. cbn [is_nil] in H.
  destruct (negb _); [discriminate|]. split; [discriminate|exact H].
Qed.

(* exact-out, part that holds for the code as it is and for the repaired routing alike *)
Theorem exact_out_credit_and_third : forall coded e b r c b',
  r_kind r = KOut -> settle_gen coded e b r c = Ok b' ->
  (r_rcpt r <> r_sender r -> nonsys e (route_pools r) (r_rcpt r) ->
     forall d, b (r_rcpt r) d + ind (Nat.eqb d (r_denom r)) (r_amt r) <= b' (r_rcpt r) d) /\
  (forall a, a <> r_sender r -> a <> r_rcpt r -> nonsys e (route_pools r) a -> forall d, b' a d = b a d).
Proof.
  intros coded e b r c b' K H. destruct (apply_out_inv _ _ _ _ _ _ K H) as (NE & L). split.
  - intros Hn NS d. exact (out_loop_rcpt _ _ _ _ Hn _ _ _ _ _ _ _ _ NE NS L d).
  - intros a Hs Hr NS d. exact (out_loop_third _ _ _ _ a Hs Hr _ _ _ _ _ _ _ _ NS L d).
Qed.

Definition out_sender_bound (b b' : bank) (r : req) : Prop :=
  forall d, b (r_sender r) d - ind (Nat.eqb d (out_in_denom r)) (r_limit r)
            + ind (Nat.eqb (r_sender r) (r_rcpt r) && Nat.eqb d (r_denom r)) (r_amt r) <= b' (r_sender r) d.

(* the code as it is: the sender's bound holds for single-hop routes and when sender = recipient *)
Theorem exact_out_debit_coded : forall e b r c b',
  r_kind r = KOut -> settle_gen true e b r c = Ok b' -> nonsys e (route_pools r) (r_sender r) ->
  (length (r_hops r) = 1%nat \/ r_sender r = r_rcpt r) ->
  out_sender_bound b b' r.
Proof.
  intros e b r c b' K H NS Hyp. destruct (apply_out_inv _ _ _ _ _ _ K H) as (NE & L).
  unfold out_sender_bound, out_in_denom. unfold route_pools in NS.
  destruct Hyp as [L1 | Eq].
  - destruct (r_hops r) as [|[p din] [|h2 t]] eqn:EH; try discriminate.
    cbn [map fst] in NS. apply nonsys_cons in NS. destruct NS as (NS1 & _).
    exact (out_loop_sender_single _ _ _ _ _ _ _ _ _ _ _ _ _ NS1 L).
  - pose proof (out_loop_sender _ true _ _ (or_intror Eq) _ _ _ _ _ _ _ _ NS L) as G.
    destruct (r_hops r) as [|[p din] t]; [congruence|]. exact G.
Qed.

(* the repaired routing: for every route and every recipient *)
Theorem exact_out_debit_fixed : forall e b r c b',
  r_kind r = KOut -> settle_fixed e b r c = Ok b' -> nonsys e (route_pools r) (r_sender r) ->
  out_sender_bound b b' r.
Proof.
  intros e b r c b' K H NS. destruct (apply_out_inv _ _ _ _ _ _ K H) as (NE & L).
  unfold out_sender_bound, out_in_denom. unfold route_pools in NS.
  pose proof (out_loop_sender _ false _ _ (or_introl eq_refl) _ _ _ _ _ _ _ _ NS L) as G.
  destruct (r_hops r) as [|[p din] t]; [congruence|]. exact G.
Qed.

(* ------------------------------------------------------------------ refutation witness (suspicion j)
   The numbers are those of the real application (harness corpus entry 0): exact-out uatom -> uusdc -> uelys,
   sender 1, recipient 2: the sender pays 1806607 uatom (<= max) AND 9013258 uusdc from its own wallet. *)
Definition wit_env : env := mkEnv (fun p => 100 + p)%nat (fun p => 200 + p)%nat (fun p => 300 + p)%nat (fun _ => false).
Definition wit_bank : bank := fun a d =>
  if Nat.eqb a 1 then 1000000000000 else if Nat.eqb a 101 then 100000000000 else if Nat.eqb a 102 then 30000000000 else 0.
Definition wit_req : req := mkReq 1 KOut 1 2 [(1, 0); (2, 1)]%nat 2 1000000 10000000 [] [].
Definition wit_choice : choice := mkCh false [1806607; 9017320]
  [mkHop false 1806607 [] 0 false; mkHop false 9013258 [] 0 false].

Lemma exact_out_multihop_third_party_refuted :
  exists b', settle_gen true wit_env wit_bank wit_req wit_choice = Ok b' /\
    r_sender wit_req <> r_rcpt wit_req /\ nonsys wit_env (route_pools wit_req) (r_sender wit_req) /\
    out_in_denom wit_req = 0%nat /\
    b' 1%nat 0%nat = wit_bank 1%nat 0%nat - 1806607 /\
    b' 1%nat 1%nat = wit_bank 1%nat 1%nat - 9013258 /\      (* debited in a denom that is not the stated input *)
    b' 2%nat 1%nat = wit_bank 2%nat 1%nat + 9017320 /\      (* the recipient keeps the intermediate tokens *)
    b' 2%nat 2%nat = wit_bank 2%nat 2%nat + 1000000 /\
    ~ out_sender_bound wit_bank b' wit_req.
Proof.
  destruct (settle_gen true wit_env wit_bank wit_req wit_choice) as [b'| |] eqn:E; try (vm_compute in E; discriminate).
  exists b'. split; [reflexivity|].
  assert (V : forall a d, b' a d = match settle_gen true wit_env wit_bank wit_req wit_choice with Ok x => x a d | _ => 0 end)
    by (intros; rewrite E; reflexivity).
  split; [cbn; discriminate|]. split.
  { intros p Hp. cbn in Hp. unfold nonsys1. cbn. destruct Hp as [<-|[<-|[]]]; cbn; repeat split; discriminate. }
  split; [reflexivity|].
  split; [rewrite V; vm_compute; reflexivity|]. split; [rewrite V; vm_compute; reflexivity|].
  split; [rewrite V; vm_compute; reflexivity|]. split; [rewrite V; vm_compute; reflexivity|].
  intros B. specialize (B 1%nat). rewrite V in B. vm_compute in B. apply B. reflexivity.
Qed.

(* MsgSwapByDenom on its exact-out branch: the stored request's recipient is the sender *)
Lemma by_denom_exact_out_recipient_refuted :
  exists r, r_kind r = KOut /\ r_rcpt r <> r_sender r /\ r_rcpt (msg_req_gen false (MByDenom r)) = r_sender r /\
            r_rcpt (msg_req_gen false (MOut r)) = r_rcpt r.
Proof. exists wit_req. cbn. repeat split; discriminate. Qed.

Lemma by_denom_recipient_forwarded r : msg_req_gen true (MByDenom r) = r.
Proof. cbn. destruct (r_kind r); reflexivity. Qed.

Lemma by_denom_exact_in_recipient fwd r : r_kind r = KIn -> msg_req_gen fwd (MByDenom r) = r.
Proof. intros K. cbn. rewrite K. reflexivity. Qed.
