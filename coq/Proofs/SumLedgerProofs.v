From Coq Require Import ZArith List Bool Arith Lia.
From Elys Require Import Base.Res Base.Fn Models.SumLedger.
Import ListNotations.
Open Scope Z_scope.

Definition SInv (s : sl) : Prop :=
  NoDup (keys s) /\ total s = sumf (parts s) (keys s) /\ count s = Z.of_nat (length (keys s)) /\
  (forall k, In k (keys s) -> 0 <= parts s k).

Lemma mem_key_In k l : mem_key k l = true <-> In k l.
Proof.
  unfold mem_key. rewrite existsb_exists. split.
  - intros (x & Hx & E). apply Nat.eqb_eq in E. subst. exact Hx.
  - intros H. exists k. split; [exact H|apply Nat.eqb_refl].
Qed.

Lemma remove_key_spec k l : NoDup l -> In k l ->
  NoDup (remove_key k l) /\ (forall x, In x (remove_key k l) <-> In x l /\ x <> k) /\
  length l = S (length (remove_key k l)) /\
  forall f, sumf f l = f k + sumf f (remove_key k l).
Proof.
  induction l as [|y r IH]; intros ND Hin; [destruct Hin|].
  inversion ND as [|? ? Hy NDr]; subst. cbn [remove_key].
  destruct (Nat.eqb_spec k y) as [->|Ne].
  - split; [exact NDr|]. split; [|split; [reflexivity|intros f; reflexivity]].
    intros x. split.
    + intros Hx. split; [right; exact Hx|]. intros ->. contradiction.
    + intros [[E|Hx] Hn]; [congruence|exact Hx].
  - destruct Hin as [E|Hin]; [congruence|]. destruct (IH NDr Hin) as (A & B & C & D).
    split; [|split; [|split]].
    + constructor; [|exact A]. intros Hx. apply B in Hx. destruct Hx. contradiction.
    + intros x. split.
      * intros [E|Hx]; [subst; split; [left; reflexivity|congruence]|]. apply B in Hx. destruct Hx. split; [right|]; assumption.
      * intros [[E|Hx] Hn]; [left; exact E|right; apply B; split; assumption].
    + cbn [length]. rewrite C. reflexivity.
    + intros f. cbn [sumf]. rewrite (D f). lia.
Qed.

Lemma sstep_inv s o s' : SInv s -> sstep s o = Ok s' -> SInv s'.
Proof.
  intros (ND & HT & HC & HP) H. destruct o as [k a|k a|k a|k]; cbn [sstep] in H.
  - destruct (mem_key k (keys s)) eqn:M; [discriminate|].
    destruct (a <? 0) eqn:A; [discriminate|]. apply Z.ltb_ge in A.
    inversion H; subst; clear H. unfold SInv. cbn [parts keys total count length sumf].
    assert (Hn : ~ In k (keys s)) by (intros Hin; apply mem_key_In in Hin; congruence).
    repeat split.
    + constructor; assumption.
    + rewrite upd_same, sumf_upd_notin by exact Hn. lia.
    + rewrite HC. lia.
    + intros x [->|Hx]; [rewrite upd_same; lia|].
      rewrite upd_other by (intros ->; contradiction). apply HP. exact Hx.
  - destruct (mem_key k (keys s)) eqn:M; cbn in H; [|discriminate].
    destruct (a <? 0) eqn:A; [discriminate|]. apply Z.ltb_ge in A. apply mem_key_In in M.
    inversion H; subst; clear H. unfold SInv. cbn [parts keys total count length sumf]. repeat split; auto.
    + rewrite sumf_upd_in by assumption. lia.
    + intros x Hx. destruct (Nat.eq_dec x k) as [->|Ne]; [rewrite upd_same; specialize (HP k M); lia|].
      rewrite upd_other by exact Ne. apply HP. exact Hx.
  - destruct (mem_key k (keys s)) eqn:M; cbn in H; [|discriminate].
    destruct ((a <? 0) || (parts s k <? a)) eqn:A; [discriminate|].
    apply orb_false_elim in A. destruct A as [A1 A2]. apply Z.ltb_ge in A1, A2. apply mem_key_In in M.
    inversion H; subst; clear H. unfold SInv. cbn [parts keys total count length sumf]. repeat split; auto.
    + rewrite sumf_upd_in by assumption. lia.
    + intros x Hx. destruct (Nat.eq_dec x k) as [->|Ne]; [rewrite upd_same; lia|].
      rewrite upd_other by exact Ne. apply HP. exact Hx.
  - destruct (mem_key k (keys s)) eqn:M; cbn in H; [|discriminate].
    destruct (parts s k =? 0) eqn:Z0; cbn in H; [|discriminate]. apply Z.eqb_eq in Z0. apply mem_key_In in M.
    inversion H; subst; clear H. unfold SInv. cbn [parts keys total count length sumf].
    destruct (remove_key_spec k (keys s) ND M) as (A & B & C & D). repeat split; auto.
    + rewrite HT, (D (parts s)). lia.
    + rewrite HC, C. lia.
    + intros x Hx. apply B in Hx. destruct Hx. apply HP. assumption.
Qed.

Lemma ssteps_inv l : forall s s', SInv s -> ssteps s l = Ok s' -> SInv s'.
Proof.
  induction l as [|o r IH]; intros s s' HI H; cbn in H; [inversion H; subst; exact HI|].
  destruct (sstep s o) as [s1| |] eqn:E; cbn in H; try discriminate.
  eapply IH; [eapply sstep_inv; eauto|exact H].
Qed.

Lemma stx_inv s l : SInv s -> SInv (stx s l).
Proof.
  intros HI. unfold stx, run_tx. destruct (ssteps s l) as [s'| |] eqn:E; auto. eapply ssteps_inv; eauto.
Qed.

Theorem srun_inv h : forall s, SInv s -> SInv (srun s h).
Proof. induction h as [|l r IH]; intros s HI; cbn; [exact HI|]. apply IH. apply stx_inv. exact HI. Qed.

Lemma sl_empty_inv : SInv sl_empty.
Proof. unfold SInv, sl_empty; cbn. split; [constructor|]. split; [reflexivity|]. split; [reflexivity|]. intros k []. Qed.

(* removing a part leaves nothing of it behind *)
Lemma sdel_gone s k s' : SInv s -> sstep s (SDel k) = Ok s' -> ~ In k (keys s') /\ parts s' k = 0.
Proof.
  intros (ND & _) H. cbn in H.
  destruct (mem_key k (keys s)) eqn:M; cbn in H; [|discriminate].
  destruct (parts s k =? 0) eqn:Z0; cbn in H; [|discriminate]. apply Z.eqb_eq in Z0. apply mem_key_In in M.
  inversion H; subst; clear H. cbn. split; [|exact Z0].
  intros Hin. apply (remove_key_spec k (keys s) ND M) in Hin. destruct Hin. congruence.
Qed.
