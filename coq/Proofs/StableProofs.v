(* Proofs about Models/Stable.v (C07). Arithmetic lemmas first (exact bounds of the LegacyDec
   operations the vault uses), then the share-issue / redemption inequalities, the cap decision and
   the state-machine level statements. *)
From Coq Require Import ZArith List Bool Lia.
From Elys Require Import Base.Res Base.Zdec Models.Stable.
Import ListNotations.
Open Scope Z_scope.

(* ------------------------------------------------------------------ rounding kernels *)

Lemma chop_round_exact k : chop_round (k * PREC) = k.
Proof.
  assert (N : forall j, 0 <= j -> chop_round_nonneg (j * PREC) = j).
  { intros j Hj. unfold chop_round_nonneg.
    rewrite Z.quot_mul by (unfold PREC; lia). rewrite Z.rem_mul by (unfold PREC; lia).
    reflexivity. }
  unfold chop_round. destruct (k * PREC <? 0) eqn:E.
  - apply Z.ltb_lt in E. assert (k < 0) by (unfold PREC in E; lia).
    replace (- (k * PREC)) with ((- k) * PREC) by ring. rewrite N by lia. lia.
  - apply Z.ltb_ge in E. apply N. unfold PREC in E; lia.
Qed.

(* sh.ToLegacyDec().Mul(r) is exact: no rounding happens in Unbond before the final RoundInt *)
Lemma dmul_dec_of_int sh r : dmul (dec_of_int sh) r = sh * r.
Proof. unfold dmul, dec_of_int. replace (sh * PREC * r) with (sh * r * PREC) by ring. apply chop_round_exact. Qed.

Lemma round_int_dec_of_int k : round_int (dec_of_int k) = k.
Proof. apply chop_round_exact. Qed.

(* x = A.Quo(B) for raw A >= 0, B > 0:  A*P^2 - B - B*P/2 < x*P*B <= A*P^2 + B*P/2 *)
Lemma dquo_bounds A B : 0 <= A -> 0 < B ->
  A * PREC * PREC - B - HALF * B < dquo A B * PREC * B <= A * PREC * PREC + HALF * B /\ 0 <= dquo A B.
Proof.
  intros HA HB. unfold dquo.
  assert (HP : 0 <= A * PREC * PREC) by (unfold PREC; lia).
  rewrite Z.quot_div_nonneg by lia.
  set (n := A * PREC * PREC) in *.
  pose proof (Z.div_mod n B ltac:(lia)) as E.
  pose proof (Z.mod_pos_bound n B HB) as M.
  assert (Q : 0 <= n / B) by (apply Z.div_pos; lia).
  destruct (chop_round_bounds (n / B) Q) as [[C1 C2] C3].
  set (x := chop_round (n / B)) in *. set (q := n / B) in *.
  split; [|exact C3]. unfold HALF in *. nia.
Qed.

(* Quo is monotone in the exact ratio A/B (floor, then banker's rounding: both monotone) *)
Lemma dquo_mono_ratio A1 B1 A2 B2 : 0 <= A1 -> 0 < B1 -> 0 <= A2 -> 0 < B2 ->
  A1 * B2 <= A2 * B1 -> dquo A1 B1 <= dquo A2 B2.
Proof.
  intros H1 H2 H3 H4 H. unfold dquo.
  assert (0 <= A1 * PREC * PREC) by (unfold PREC; lia).
  assert (0 <= A2 * PREC * PREC) by (unfold PREC; lia).
  rewrite !Z.quot_div_nonneg by lia.
  apply chop_round_mono. split; [apply Z.div_pos; lia|].
  apply Z.div_le_lower_bound; [lia|].
  set (n1 := A1 * PREC * PREC) in *. set (n2 := A2 * PREC * PREC) in *.
  pose proof (Z.mul_div_le n1 B1 H2) as L.
  assert (n1 * B2 <= n2 * B1) by (unfold n1, n2, PREC; nia).
  assert (Q : 0 <= n1 / B1) by (apply Z.div_pos; lia).
  (* B2 * (n1/B1) <= n2, cancelling B1 *)
  apply Z.mul_le_mono_pos_l with (p := B1); [lia|]. nia.
Qed.

(* ------------------------------------------------------------------ the redemption rate *)

Lemma rate_bounds tv sup : 0 <= tv -> 0 < sup ->
  let r := rate_of tv sup in
  2 * tv * PREC * PREC - 2 * sup - PREC * sup < 2 * r * sup * PREC /\
  2 * r * sup <= 2 * tv * PREC + sup /\ 0 <= r.
Proof.
  intros Ht Hs. unfold rate_of. destruct (sup =? 0) eqn:E; [apply Z.eqb_eq in E; lia|].
  destruct (dquo_bounds (dec_of_int tv) (dec_of_int sup)) as [[B1 B2] B3];
    [unfold dec_of_int, PREC; lia | unfold dec_of_int, PREC; lia |].
  cbv zeta. set (r := dquo (dec_of_int tv) (dec_of_int sup)) in *.
  unfold dec_of_int, HALF, PREC in *. nia.
Qed.

Lemma rate_ge_one tv sup : 0 < sup -> sup <= tv -> PREC <= rate_of tv sup.
Proof.
  intros Hs Ht. unfold rate_of. destruct (sup =? 0) eqn:E; [apply Z.eqb_eq in E; lia|].
  apply Z.le_trans with (dquo (dec_of_int 1) (dec_of_int 1)); [vm_compute; discriminate|].
  apply dquo_mono_ratio; unfold dec_of_int, PREC; lia.
Qed.

Lemma rate_mono tv1 s1 tv2 s2 : 0 <= tv1 -> 0 < s1 -> 0 <= tv2 -> 0 < s2 ->
  tv1 * s2 <= tv2 * s1 -> rate_of tv1 s1 <= rate_of tv2 s2.
Proof.
  intros. unfold rate_of.
  destruct (s1 =? 0) eqn:E1; [apply Z.eqb_eq in E1; lia|].
  destruct (s2 =? 0) eqn:E2; [apply Z.eqb_eq in E2; lia|].
  apply dquo_mono_ratio; unfold dec_of_int, PREC; try lia; nia.
Qed.

(* ------------------------------------------------------------------ shares minted / amount redeemed *)

(* sh = RoundInt(Quo(a, r)) for r > 0 *)
Lemma shares_bounds a r : 0 <= a -> 0 < r ->
  let sh := round_int (dquo (dec_of_int a) r) in
  2 * sh * PREC * PREC * r <= 2 * a * PREC * PREC * PREC + PREC * r + PREC * PREC * r /\
  2 * a * PREC * PREC * PREC - 2 * r - PREC * r - PREC * PREC * r < 2 * sh * PREC * PREC * r /\
  0 <= sh.
Proof.
  intros Ha Hr. cbv zeta.
  destruct (dquo_bounds (dec_of_int a) r) as [[B1 B2] B3]; [unfold dec_of_int, PREC; lia|lia|].
  set (q := dquo (dec_of_int a) r) in *.
  destruct (chop_round_bounds q B3) as [[C1 C2] C3]. unfold round_int.
  set (sh := chop_round q) in *.
  unfold dec_of_int, HALF, PREC in *. nia.
Qed.

(* p = RoundInt(sh * r) *)
Lemma payout_bounds sh r : 0 <= sh -> 0 <= r ->
  let p := round_int (dmul (dec_of_int sh) r) in
  2 * sh * r - PREC <= 2 * p * PREC <= 2 * sh * r + PREC /\ 0 <= p.
Proof.
  intros Hs Hr. cbv zeta. rewrite dmul_dec_of_int. unfold round_int.
  destruct (chop_round_bounds (sh * r) ltac:(nia)) as [[C1 C2] C3].
  unfold HALF, PREC in *. lia.
Qed.

(* ------------------------------------------------------------------ (2) the shares that existed before are not diluted *)

(* Bond of [a] at (tv, sup), code rate r > 0, minting sh shares. The sup pre-existing shares were worth
   tv; afterwards they are worth sup*(tv+a)/(sup+sh) (exact rational). Their loss is
   (tv*sh - sup*a)/(sup+sh) <= [sup/(sup+sh)] * bond_slack r sh / (2 P^2)
                             ~ [sup/(sup+sh)] * (rate/2 + sh/(2*10^18)). *)
Lemma bond_others_value tv sup a : 0 <= tv -> 0 < sup -> 0 < rate_of tv sup -> 0 <= a ->
  let r := rate_of tv sup in
  let sh := bond_shares tv sup a in
  0 <= sh /\
  2 * PREC * PREC * (tv * sh - sup * a) <= sup * bond_slack r sh.
Proof.
  intros Ht Hs Hr Ha. cbv zeta. unfold bond_shares, bond_rate.
  destruct (rate_of tv sup =? 0) eqn:E; [apply Z.eqb_eq in E; lia|].
  destruct (rate_bounds tv sup Ht Hs) as [R1 [R2 R3]]. cbv zeta in *.
  destruct (shares_bounds a (rate_of tv sup) Ha Hr) as [S1 [S2 S3]]. cbv zeta in *.
  set (r := rate_of tv sup) in *. set (sh := round_int (dquo (dec_of_int a) r)) in *.
  split; [exact S3|]. unfold bond_slack.
  (* R1 * sh and S1 * sup *)
  assert (M1 : 2 * tv * PREC * PREC * sh <= (2 * r * sup * PREC + 2 * sup + PREC * sup) * sh) by nia.
  assert (M2 : 2 * sh * PREC * PREC * r * sup <= (2 * a * PREC * PREC * PREC + PREC * r + PREC * PREC * r) * sup) by nia.
  assert (PP : 0 < PREC) by reflexivity.
  (* multiply M1 by PREC, add M2, divide by PREC *)
  apply Z.mul_le_mono_pos_l with (p := PREC); [exact PP|]. nia.
Qed.

(* Unbond of sh shares at (tv, sup): the payout exceeds the exact pro-rata value sh*tv/sup by at most
   unbond_slack sh / (2 P) = 1/2 + sh/(2*10^18); this is exactly what the remaining shares lose. *)
Lemma unbond_others_value tv sup sh : 0 <= tv -> 0 < sup -> 0 <= sh ->
  let p := unbond_payout tv sup sh in
  0 <= p /\
  2 * PREC * (p * sup - sh * tv) <= sup * unbond_slack sh /\
  (* and the redeemer is not short-changed by more than the same amount *)
  2 * PREC * PREC * (sh * tv - p * sup) <= sup * (PREC * PREC + (PREC + 2) * sh).
Proof.
  intros Ht Hs Hsh. cbv zeta. unfold unbond_payout.
  destruct (rate_bounds tv sup Ht Hs) as [R1 [R2 R3]]. cbv zeta in *.
  destruct (payout_bounds sh (rate_of tv sup) Hsh R3) as [[P1 P2] P3]. cbv zeta in *.
  set (r := rate_of tv sup) in *. set (p := round_int (dmul (dec_of_int sh) r)) in *.
  unfold unbond_slack. split; [exact P3|]. split.
  - assert (M : 2 * r * sup * sh <= (2 * tv * PREC + sup) * sh) by nia. nia.
  - assert (M : (2 * tv * PREC * PREC) * sh <= (2 * r * sup * PREC + 2 * sup + PREC * sup) * sh) by nia.
    assert (PP : 0 < PREC) by reflexivity.
    nia.
Qed.

(* ------------------------------------------------------------------ (1) deposit, then withdraw at once *)

Lemma roundtrip_arith P TV S a sh r r' p :
  0 < P -> 0 < S -> 0 <= TV -> 0 <= a -> 0 <= sh -> 0 < r -> 0 <= r' ->
  2 * sh * P * P * r <= 2 * a * P * P * P + P * r + P * P * r ->
  2 * a * P * P * P - 2 * r - P * r - P * P * r < 2 * sh * P * P * r ->
  2 * r' * (S + sh) <= 2 * (TV + a) * P + (S + sh) ->
  ((TV + a) * S <= TV * (S + sh) -> r' <= r) ->
  2 * p * P <= 2 * sh * r' + P ->
  2 * P * P * P * (p - a) <= r * (P * P + P + 2) + P * P * P.
Proof.
  intros HP HS HTV Ha Hsh Hr Hr' Sup Slo Rup Mono Pay.
  destruct (Z_le_gt_dec r' r) as [Le|Gt].
  - assert (A : sh * r' <= sh * r) by nia.
    assert (B : 2 * p * P * (P * P) <= (2 * sh * r + P) * (P * P)) by nia.
    nia.
  - assert (NM : TV * (S + sh) < (TV + a) * S) by (destruct (Z_le_gt_dec ((TV + a) * S) (TV * (S + sh))); [specialize (Mono l); lia|lia]).
    assert (A1 : (TV + a) * sh < a * (S + sh)) by lia.
    assert (A2 : 2 * r' * (S + sh) * sh <= (2 * (TV + a) * P + (S + sh)) * sh) by nia.
    assert (A3 : 2 * r' * sh * (S + sh) < (2 * a * P + sh) * (S + sh)) by nia.
    assert (A4 : 2 * r' * sh < 2 * a * P + sh).
    { apply Z.mul_lt_mono_pos_r with (p := S + sh); lia. }
    assert (A5 : 2 * p * P < 2 * a * P + sh + P) by lia.
    assert (A6 : 2 * r * sh + sh < 2 * a * P) by nia.
    assert (A7 : (2 * r * sh + sh) * (P * P) < 2 * a * P * (P * P)) by nia.
    assert (A8 : sh * (P * P) < 2 * r + P * r + P * P * r) by nia.
    assert (A9 : 2 * P * (p - a) <= sh + P - 1) by lia.
    assert (A10 : 2 * P * (p - a) * (P * P) <= (sh + P - 1) * (P * P)) by nia.
    nia.
Qed.

(* Deposit a, then immediately redeem the shares just minted. NO bound on the size of the vault,
   of the deposit or of the rate is needed:
      payout - a  <=  (rate/2) * (1 + 10^-18 + 2*10^-36) + 1/2. *)
Lemma roundtrip_explicit tv sup a : 0 <= tv -> 0 < sup -> 0 < rate_of tv sup -> 0 <= a ->
  let r := rate_of tv sup in
  let sh := bond_shares tv sup a in
  let p := unbond_payout (tv + a) (sup + sh) sh in
  2 * PREC * PREC * PREC * (p - a) <= r * (PREC * PREC + PREC + 2) + PREC * PREC * PREC.
Proof.
  intros Ht Hs Hr Ha. cbv zeta. unfold bond_shares, bond_rate, unbond_payout.
  destruct (rate_of tv sup =? 0) eqn:E; [apply Z.eqb_eq in E; lia|].
  destruct (shares_bounds a (rate_of tv sup) Ha Hr) as [S1 [S2 S3]]. cbv zeta in *.
  set (r := rate_of tv sup) in *. set (sh := round_int (dquo (dec_of_int a) r)) in *.
  assert (Hs' : 0 < sup + sh) by lia.
  destruct (rate_bounds (tv + a) (sup + sh) ltac:(lia) Hs') as [R1 [R2 R3]]. cbv zeta in *.
  destruct (payout_bounds sh (rate_of (tv + a) (sup + sh)) S3 R3) as [[P1 P2] P3]. cbv zeta in *.
  set (r' := rate_of (tv + a) (sup + sh)) in *.
  apply (roundtrip_arith PREC tv sup a sh r r'); try assumption; try reflexivity; try lia.
  intros M. apply rate_mono; lia.
Qed.

(* ... which is at most one share's worth (the code's own rate) whenever the rate is at least 1 *)
Lemma roundtrip_one_share tv sup a : 0 < sup -> sup <= tv -> 0 <= a ->
  let r := rate_of tv sup in
  let sh := bond_shares tv sup a in
  let p := unbond_payout (tv + a) (sup + sh) sh in
  (p - a) * PREC <= r.
Proof.
  intros Hs Ht Ha. cbv zeta.
  pose proof (rate_ge_one tv sup Hs Ht) as R.
  pose proof (roundtrip_explicit tv sup a ltac:(lia) Hs ltac:(unfold PREC in *; lia) Ha) as B. cbv zeta in B.
  set (g := unbond_payout (tv + a) (sup + bond_shares tv sup a) (bond_shares tv sup a) - a) in *.
  set (r := rate_of tv sup) in *. unfold PREC in *. lia.
Qed.

(* first deposit into an empty vault: exact *)
Lemma first_deposit_exact a : 0 <= a ->
  bond_shares 0 0 a = a /\ unbond_payout (0 + a) (0 + a) a = a.
Proof.
  intros Ha. assert (B : bond_shares 0 0 a = a).
  { unfold bond_shares, bond_rate, rate_of. cbn [Z.eqb].
    assert (Q : dquo (dec_of_int a) PREC = dec_of_int a).
    { unfold dquo, dec_of_int. rewrite Z.quot_mul by (unfold PREC; lia). apply chop_round_exact. }
    rewrite Q. apply round_int_dec_of_int. }
  split; [exact B|]. unfold unbond_payout, rate_of. cbn [Z.add].
  destruct (a =? 0) eqn:E.
  - apply Z.eqb_eq in E. subst. reflexivity.
  - apply Z.eqb_neq in E. rewrite dmul_dec_of_int.
    assert (Q : dquo (dec_of_int a) (dec_of_int a) = PREC).
    { unfold dquo, dec_of_int.
      replace (a * PREC * PREC * PREC) with (PREC * PREC * (a * PREC)) by ring.
      rewrite Z.quot_mul by (unfold PREC; lia). apply (chop_round_exact PREC). }
    rewrite Q. apply (chop_round_exact a).
Qed.

(* the depositor is not short-changed either: the shares minted are worth (exact rational, at the
   pre-deposit value per share) at least  a - sh/(2*10^18) - (rate + 1/2)/2 * (1 + 10^-18 + 2*10^-36) *)
Lemma bond_depositor_value tv sup a : 0 <= tv -> 0 < sup -> 0 < rate_of tv sup -> 0 <= a ->
  let sh := bond_shares tv sup a in
  4 * PREC * PREC * PREC * (a * sup - tv * sh)
    < 2 * sh * PREC * PREC * sup + (2 * tv * PREC + sup) * (PREC * PREC + PREC + 2).
Proof.
  intros Ht Hs Hr Ha. cbv zeta. unfold bond_shares, bond_rate.
  destruct (rate_of tv sup =? 0) eqn:E; [apply Z.eqb_eq in E; lia|].
  destruct (rate_bounds tv sup Ht Hs) as [R1 [R2 R3]]. cbv zeta in *.
  destruct (shares_bounds a (rate_of tv sup) Ha Hr) as [S1 [S2 S3]]. cbv zeta in *.
  set (r := rate_of tv sup) in *. set (sh := round_int (dquo (dec_of_int a) r)) in *.
  assert (PP : 0 < PREC) by reflexivity.
  assert (M1 : (2 * a * PREC * PREC * PREC - 2 * r - PREC * r - PREC * PREC * r) * sup < 2 * sh * PREC * PREC * r * sup) by nia.
  assert (M2 : sh * PREC * PREC * (2 * r * sup) <= sh * PREC * PREC * (2 * tv * PREC + sup)) by nia.
  assert (M3 : (2 * r * sup) * (PREC * PREC + PREC + 2) <= (2 * tv * PREC + sup) * (PREC * PREC + PREC + 2)) by nia.
  nia.
Qed.

(* effect of a value-per-share bound on the code's own rate (raw 10^-18 units):
   if 2P^2 (tv*S' - tv'*S) <= S*E then  2 P S' (r - r' - 1) < E + 2 S'  *)
Lemma code_rate_drop tv sup tv' sup' E : 0 <= tv -> 0 < sup -> 0 <= tv' -> 0 < sup' ->
  2 * PREC * PREC * (tv * sup' - tv' * sup) <= sup * E ->
  2 * PREC * sup' * (rate_of tv sup - rate_of tv' sup' - 1) < E + 2 * sup'.
Proof.
  intros Ht Hs Ht' Hs' V.
  destruct (rate_bounds tv sup Ht Hs) as [_ [R2 _]].
  destruct (rate_bounds tv' sup' Ht' Hs') as [R1' [_ _]]. cbv zeta in *.
  set (r := rate_of tv sup) in *. set (r' := rate_of tv' sup') in *.
  assert (PP : 0 < PREC) by reflexivity.
  assert (M1 : 2 * r * sup * (sup' * PREC) <= (2 * tv * PREC + sup) * (sup' * PREC)) by nia.
  assert (M2 : (2 * tv' * PREC * PREC - 2 * sup' - PREC * sup') * sup < 2 * r' * sup' * PREC * sup) by nia.
  apply Z.mul_lt_mono_pos_l with (p := sup); [lia|]. nia.
Qed.

(* ------------------------------------------------------------------ (3) the 90 % cap *)

Lemma cap_max_exact tv : cap_max tv = 9 * tv * 100000000000000000.
Proof.
  unfold cap_max. unfold dmul at 1. unfold dec_of_int.
  replace (tv * PREC * (9 * PREC)) with (9 * tv * PREC * PREC) by ring.
  rewrite chop_round_exact. unfold dquo.
  replace (9 * tv * PREC * PREC * PREC) with (9 * tv * PREC * 100000000000000000 * (10 * PREC)) by (unfold PREC; ring).
  rewrite Z.quot_mul by (unfold PREC; lia).
  replace (9 * tv * PREC * 100000000000000000) with (9 * tv * 100000000000000000 * PREC) by ring.
  apply chop_round_exact.
Qed.

Lemma cap_decision tv cash amt :
  (cap_max tv <? cap_borrowed tv cash amt) = (9 * tv <? 10 * (tv - cash + amt)).
Proof.
  rewrite cap_max_exact. unfold cap_borrowed, dec_of_int, PREC.
  destruct (9 * tv <? 10 * (tv - cash + amt)) eqn:E.
  - apply Z.ltb_lt in E. apply Z.ltb_lt. lia.
  - apply Z.ltb_ge in E. apply Z.ltb_ge. lia.
Qed.

(* a Borrow that returns Ok passed the cap exactly as written: (TV - cash) + amount <= 0.9 TV on the
   state it was evaluated on; the post-state satisfies it up to a tenth of the interest that the call
   itself added to TotalValue *)
Lemma borrow_cap u amt i s s' : borrow u amt i s = Ok s' ->
  0 < amt /\ 0 <= i /\
  10 * (s_tv s - s_cash s + amt) <= 9 * s_tv s /\
  s_tv s' = s_tv s + i /\ s_cash s' = s_cash s - amt /\ s_supply s' = s_supply s /\
  10 * (s_tv s' - s_cash s') <= 9 * s_tv s' + i /\
  a_borrowed (get_acct s' u) - a_borrowed (get_acct s u) = (if (u <? length (s_accts s))%nat then amt else 0).
Proof.
  unfold borrow, guard. intros H.
  destruct (0 <=? amt) eqn:A; [|discriminate]. destruct (0 <=? i) eqn:I; [|discriminate].
  rewrite cap_decision in H.
  destruct (9 * s_tv s <? 10 * (s_tv s - s_cash s + amt)) eqn:C; [discriminate|]. cbn [negb] in H.
  destruct (0 <? amt) eqn:A0; [|discriminate].
  destruct (amt <=? s_cash s) eqn:D; [|discriminate].
  injection H as <-. cbn [s_tv s_cash s_supply].
  apply Z.leb_le in A, I. apply Z.ltb_ge in C. apply Z.ltb_lt in A0.
  repeat (split; [lia|]).
  unfold get_acct. cbn [s_accts].
  destruct (u <? length (s_accts s))%nat eqn:L.
  - apply Nat.ltb_lt in L. clear -L.
    generalize dependent u. induction (s_accts s) as [|x l IH]; intros u L; [cbn in L; lia|].
    destruct u; cbn; [lia|]. apply IH. cbn in L. lia.
  - apply Nat.ltb_ge in L. clear -L.
    generalize dependent u. induction (s_accts s) as [|x l IH]; intros u L; [destruct u; cbn; lia|].
    destruct u; cbn in *; [lia|]. apply IH. lia.
Qed.

(* ... and a Borrow above the cap is refused, whoever asks and whatever the interest *)
Lemma borrow_refused u amt i s : 0 <= amt -> 0 <= i ->
  9 * s_tv s < 10 * (s_tv s - s_cash s + amt) -> borrow u amt i s = Err E_cap.
Proof.
  intros A I C. unfold borrow, guard.
  destruct (0 <=? amt) eqn:A'; [|apply Z.leb_gt in A'; lia].
  destruct (0 <=? i) eqn:I'; [|apply Z.leb_gt in I'; lia].
  rewrite cap_decision. apply Z.ltb_lt in C. rewrite C. reflexivity.
Qed.

(* ... and one within the cap is granted (the module account can always pay it when TV >= 0) *)
Lemma borrow_granted u amt i s : 0 < amt -> 0 <= i -> 0 <= s_tv s ->
  10 * (s_tv s - s_cash s + amt) <= 9 * s_tv s -> exists s', borrow u amt i s = Ok s'.
Proof.
  intros A I T C. unfold borrow, guard.
  destruct (0 <=? amt) eqn:A'; [|apply Z.leb_gt in A'; lia].
  destruct (0 <=? i) eqn:I'; [|apply Z.leb_gt in I'; lia].
  rewrite cap_decision.
  destruct (9 * s_tv s <? 10 * (s_tv s - s_cash s + amt)) eqn:C'; [apply Z.ltb_lt in C'; lia|]. cbn [negb].
  destruct (0 <? amt) eqn:A0; [|apply Z.ltb_ge in A0; lia].
  destruct (amt <=? s_cash s) eqn:D; [eauto|apply Z.leb_gt in D; lia].
Qed.

(* ------------------------------------------------------------------ state machine *)

Lemma nth_upd_nth_same {A} (l : list A) u x d : (u < length l)%nat -> nth u (upd_nth u x l) d = x.
Proof. revert u. induction l as [|y l IH]; intros u L; [cbn in L; lia|]. destruct u; cbn; [reflexivity|]. apply IH. cbn in L. lia. Qed.

Lemma upd_nth_oob {A} (l : list A) u x : (length l <= u)%nat -> upd_nth u x l = l.
Proof. revert u. induction l as [|y l IH]; intros u L; [destruct u; reflexivity|]. destruct u; cbn in *; [lia|]. f_equal. apply IH. lia. Qed.

Lemma length_upd_nth {A} (l : list A) u x : length (upd_nth u x l) = length l.
Proof. revert u. induction l as [|y l IH]; intros u; [destruct u; reflexivity|]. destruct u; cbn; [reflexivity|]. f_equal. apply IH. Qed.

Lemma get_upd tv sup cash l u x : (u < length l)%nat -> get_acct (mkS tv sup cash (upd_nth u x l)) u = x.
Proof. intros L. unfold get_acct. cbn [s_accts]. apply nth_upd_nth_same. exact L. Qed.

Lemma nth_oob_dflt (l : list acct) u : (length l <= u)%nat -> nth u l dflt_acct = dflt_acct.
Proof. intros. apply nth_overflow. lia. Qed.

(* slack of one step, numerator over 2 P^2 *)
Definition step_slack (s : state) (o : op) : Z :=
  match o with
  | OBond _ amt => bond_slack (rate_of (s_tv s) (s_supply s)) (bond_shares (s_tv s) (s_supply s) amt)
  | OUnbond _ sh => PREC * unbond_slack sh
  | _ => 0
  end.

Lemma no_drop tv S i : 0 < S -> 0 <= i -> 2 * PREC * PREC * (tv * S - (tv + i) * S) <= S * 0.
Proof.
  intros HS Hi. replace (2 * PREC * PREC * (tv * S - (tv + i) * S)) with (- (2 * PREC * PREC * (i * S))) by ring.
  assert (0 <= i * S) by nia. unfold PREC. lia.
Qed.

(* EVERY successful step by ANY account keeps the exact value per share, up to the slack of that step:
      tv'/S'  >=  tv/S - step_slack / (2 P^2 S')
   (borrowing, repaying, interest accrual and transfers elsewhere never lower it at all). *)
Lemma step_share_value s o s' :
  0 <= s_tv s -> 0 < s_supply s -> 0 < rate_of (s_tv s) (s_supply s) ->
  step s o = Ok s' ->
  2 * PREC * PREC * (s_tv s * s_supply s' - s_tv s' * s_supply s) <= s_supply s * step_slack s o.
Proof.
  intros Ht Hs Hr H. destruct o as [u amt|u sh|u amt i|u amt i|u i|u d]; cbn [step step_slack] in *.
  - unfold bond, guard in H.
    destruct (0 <? amt) eqn:A; [|discriminate]. apply Z.ltb_lt in A.
    destruct (amt <=? a_wallet (get_acct s u)); [|discriminate].
    destruct (bond_shares (s_tv s) (s_supply s) amt <? 0); [discriminate|].
    injection H as <-. cbn [s_tv s_supply].
    destruct (bond_others_value (s_tv s) (s_supply s) amt Ht Hs Hr ltac:(lia)) as [B1 B2]. cbv zeta in *.
    set (sh := bond_shares (s_tv s) (s_supply s) amt) in *. nia.
  - unfold unbond, guard in H.
    destruct (0 <? sh) eqn:A; [|discriminate]. apply Z.ltb_lt in A.
    destruct (sh <=? a_shares (get_acct s u)); [|discriminate].
    destruct (unbond_payout (s_tv s) (s_supply s) sh <? 0); [discriminate|].
    destruct (0 <? unbond_payout (s_tv s) (s_supply s) sh); [|discriminate].
    destruct (unbond_payout (s_tv s) (s_supply s) sh <=? s_cash s); [|discriminate].
    injection H as <-. cbn [s_tv s_supply].
    destruct (unbond_others_value (s_tv s) (s_supply s) sh Ht Hs ltac:(lia)) as [B1 [B2 _]]. cbv zeta in *.
    set (p := unbond_payout (s_tv s) (s_supply s) sh) in *.
    assert (PP : 0 < PREC) by reflexivity. nia.
  - apply borrow_cap in H. destruct H as (A & I & _ & T & _ & S & _). rewrite T, S. apply no_drop; lia.
  - unfold repay, guard in H.
    destruct (0 <=? amt); [|discriminate]. destruct (0 <=? i) eqn:I; [|discriminate]. apply Z.leb_le in I.
    destruct (0 <? amt); [|discriminate].
    destruct (amt <=? a_wallet (get_acct s u)); [|discriminate].
    match type of H with (if negb ?c then _ else _) = _ => destruct c; [discriminate|] end. cbn [negb] in H.
    injection H as <-. cbn [s_tv s_supply]. apply no_drop; lia.
  - unfold accrue, guard in H. destruct (0 <=? i) eqn:I; [|discriminate]. apply Z.leb_le in I.
    injection H as <-. cbn [s_tv s_supply]. apply no_drop; lia.
  - unfold ext, guard in H. destruct (0 <=? a_wallet (get_acct s u) + d); [|discriminate].
    injection H as <-. cbn [set_acct s_tv s_supply]. replace (s_tv s) with (s_tv s + 0) at 2 by ring. apply no_drop; lia.
Qed.

(* the same on the code's own redemption rate r (what a share redeems for, raw 10^-18 units):
   after any successful step   2 P S' (r - r' - 1) < step_slack + 2 S',  i.e.
   r' > r - 1 - 10^-18 - step_slack/(2 P S');  and r' >= r for every step that is not a bond/unbond. *)
Lemma step_code_rate s o s' :
  0 <= s_tv s -> 0 < s_supply s -> 0 < rate_of (s_tv s) (s_supply s) ->
  0 <= s_tv s' -> 0 < s_supply s' ->
  step s o = Ok s' ->
  2 * PREC * s_supply s' * (rate_of (s_tv s) (s_supply s) - rate_of (s_tv s') (s_supply s') - 1)
     < step_slack s o + 2 * s_supply s'.
Proof.
  intros Ht Hs Hr Ht' Hs' H. apply code_rate_drop; try assumption.
  apply step_share_value; assumption.
Qed.

Definition share_op (o : op) : bool := match o with OBond _ _ | OUnbond _ _ => true | _ => false end.

Lemma other_ops_rate_nondecreasing s o s' :
  0 <= s_tv s -> 0 < s_supply s -> share_op o = false -> step s o = Ok s' ->
  s_supply s' = s_supply s /\ s_tv s <= s_tv s' /\
  rate_of (s_tv s) (s_supply s) <= rate_of (s_tv s') (s_supply s').
Proof.
  intros Ht Hs Ho H.
  assert (E : s_supply s' = s_supply s /\ s_tv s <= s_tv s').
  { destruct o as [u amt|u sh|u amt i|u amt i|u i|u d]; cbn in Ho; try discriminate; cbn [step] in H.
    - apply borrow_cap in H. destruct H as (A & I & _ & T & _ & S & _). lia.
    - unfold repay, guard in H.
      destruct (0 <=? amt); [|discriminate]. destruct (0 <=? i) eqn:I; [|discriminate]. apply Z.leb_le in I.
      destruct (0 <? amt); [|discriminate].
      destruct (amt <=? a_wallet (get_acct s u)); [|discriminate].
      match type of H with (if negb ?c then _ else _) = _ => destruct c; [discriminate|] end. cbn [negb] in H.
      injection H as <-. cbn [s_tv s_supply]. lia.
    - unfold accrue, guard in H. destruct (0 <=? i) eqn:I; [|discriminate]. apply Z.leb_le in I.
      injection H as <-. cbn [s_tv s_supply]. lia.
    - unfold ext, guard in H. destruct (0 <=? a_wallet (get_acct s u) + d); [|discriminate].
      injection H as <-. cbn [set_acct s_tv s_supply]. lia. }
  destruct E as [E1 E2]. repeat split; try assumption.
  apply rate_mono; try lia. rewrite E1. nia.
Qed.

(* (1) on the state machine: account u bonds amt and at once unbonds exactly the shares it was given;
   its wallet ends at most one share's worth (the code's rate before the deposit) above where it started *)
Lemma roundtrip_state s u amt s1 s2 :
  0 < s_supply s -> s_supply s <= s_tv s ->
  bond u amt s = Ok s1 ->
  unbond u (a_shares (get_acct s1 u) - a_shares (get_acct s u)) s1 = Ok s2 ->
  (a_wallet (get_acct s2 u) - a_wallet (get_acct s u)) * PREC <= rate_of (s_tv s) (s_supply s) /\
  a_shares (get_acct s2 u) = a_shares (get_acct s u).
Proof.
  intros Hs Ht B U.
  unfold bond, guard in B.
  destruct (0 <? amt) eqn:A; [|discriminate]. apply Z.ltb_lt in A.
  destruct (amt <=? a_wallet (get_acct s u)) eqn:W; [|discriminate]. apply Z.leb_le in W.
  destruct (bond_shares (s_tv s) (s_supply s) amt <? 0); [discriminate|].
  injection B as <-.
  destruct (Nat.lt_ge_cases u (length (s_accts s))) as [L|L].
  2:{ unfold get_acct in W. rewrite nth_oob_dflt in W by lia. cbn in W. lia. }
  set (sh := bond_shares (s_tv s) (s_supply s) amt) in *.
  rewrite get_upd in U by exact L. cbn [a_shares] in U.
  replace (a_shares (get_acct s u) + sh - a_shares (get_acct s u)) with sh in U by ring.
  unfold unbond, guard in U. cbv zeta in U. cbn [s_tv s_supply s_cash s_accts] in U.
  rewrite !get_upd in U by exact L. cbn [a_shares a_wallet a_borrowed a_stacked a_paid] in U.
  destruct (0 <? sh); [|discriminate].
  destruct (sh <=? a_shares (get_acct s u) + sh); [|discriminate].
  destruct (unbond_payout (s_tv s + amt) (s_supply s + sh) sh <? 0); [discriminate|].
  destruct (0 <? unbond_payout (s_tv s + amt) (s_supply s + sh) sh); [|discriminate].
  destruct (unbond_payout (s_tv s + amt) (s_supply s + sh) sh <=? s_cash s + amt); [|discriminate].
  injection U as <-.
  rewrite get_upd by (rewrite length_upd_nth; exact L).
  cbn [a_wallet a_shares]. split; [|ring].
  pose proof (roundtrip_one_share (s_tv s) (s_supply s) amt Hs Ht ltac:(lia)) as R. cbv zeta in R. fold sh in R.
  replace (a_wallet (get_acct s u) - amt + unbond_payout (s_tv s + amt) (s_supply s + sh) sh - a_wallet (get_acct s u))
    with (unbond_payout (s_tv s + amt) (s_supply s + sh) sh - amt) by ring.
  exact R.
Qed.

(* ------------------------------------------------------------------ the hypothesis "rate >= 1" is stable *)

(* a deposit at rate >= 1 never mints more shares than base units deposited: supply <= TotalValue is kept
   by every bond, at any size *)
Lemma bond_keeps_rate_ge_one tv sup a : 0 < sup -> sup <= tv -> 0 <= a ->
  let sh := bond_shares tv sup a in 0 <= sh <= a /\ sup + sh <= tv + a.
Proof.
  intros Hs Ht Ha. cbv zeta.
  pose proof (rate_ge_one tv sup Hs Ht) as R.
  unfold bond_shares, bond_rate.
  destruct (rate_of tv sup =? 0) eqn:E; [apply Z.eqb_eq in E; unfold PREC in *; lia|].
  destruct (shares_bounds a (rate_of tv sup) Ha ltac:(unfold PREC in *; lia)) as [S1 [_ S3]]. cbv zeta in *.
  set (r := rate_of tv sup) in *. set (sh := round_int (dquo (dec_of_int a) r)) in *.
  assert (PP : 1 < PREC) by reflexivity.
  assert (sh <= a).
  { destruct (Z_le_gt_dec sh a) as [L|G]; [exact L|exfalso].
    assert (G1 : a + 1 <= sh) by lia.
    assert (M1 : 2 * (a + 1) * PREC * PREC * r <= 2 * sh * PREC * PREC * r) by nia.
    assert (M2 : 2 * a * PREC * PREC * PREC <= 2 * a * PREC * PREC * r) by nia.
    assert (M3 : PREC * r < PREC * PREC * r) by nia.
    nia. }
  lia.
Qed.

(* a withdrawal of fewer than 10^18 shares (and no more than exist) keeps supply <= TotalValue *)
Lemma unbond_keeps_rate_ge_one tv sup sh : 0 < sup -> sup <= tv -> 0 <= sh -> sh <= sup -> sh < PREC ->
  let p := unbond_payout tv sup sh in sup - sh <= tv - p.
Proof.
  intros Hs Ht H0 Hle Hlt. cbv zeta. unfold unbond_payout.
  destruct (rate_bounds tv sup ltac:(lia) Hs) as [_ [R2 R3]]. cbv zeta in *.
  destruct (payout_bounds sh (rate_of tv sup) H0 R3) as [[_ P2] P3]. cbv zeta in *.
  set (r := rate_of tv sup) in *. set (p := round_int (dmul (dec_of_int sh) r)) in *.
  assert (PP : 0 < PREC) by reflexivity.
  (* 2 p P S <= sh (2 tv P + S) + P S *)
  assert (M1 : 2 * p * PREC * sup <= (2 * sh * r + PREC) * sup) by nia.
  assert (M2 : sh * (2 * r * sup) <= sh * (2 * tv * PREC + sup)) by nia.
  destruct (Z_le_gt_dec (sup - sh) (tv - p)) as [L|G]; [exact L|exfalso].
  assert (G1 : sh + (tv - sup) + 1 <= p) by lia.
  assert (M3 : 2 * (sh + (tv - sup) + 1) * PREC * sup <= 2 * p * PREC * sup) by nia.
  assert (M4 : sh * (tv - sup) <= sup * (tv - sup)) by nia.
  nia.
Qed.

(* ------------------------------------------------------------------ "one share's worth" for the other lenders *)

(* A deposit that mints at most 5*10^17 shares takes at most one share's worth (the code's rate r, in
   base units r/10^18) from the lenders that were there before, at any vault size, if the rate is >= 1. *)
Lemma bond_others_one_share tv sup a : 0 < sup -> sup <= tv -> 0 <= a ->
  let r := rate_of tv sup in
  let sh := bond_shares tv sup a in
  2 * sh <= PREC ->
  (tv * sh - sup * a) * PREC <= r * (sup + sh).
Proof.
  intros Hs Ht Ha. cbv zeta. intros Hsh.
  pose proof (rate_ge_one tv sup Hs Ht) as R.
  destruct (bond_others_value tv sup a ltac:(lia) Hs ltac:(unfold PREC in *; lia) Ha) as [B1 B2]. cbv zeta in *.
  set (r := rate_of tv sup) in *. set (sh := bond_shares tv sup a) in *. unfold bond_slack in B2.
  (* slack <= 2 P r *)
  assert (SL : (PREC + 1) * r + (PREC + 2) * sh <= 2 * PREC * r) by (unfold PREC in *; lia).
  assert (M : sup * ((PREC + 1) * r + (PREC + 2) * sh) <= sup * (2 * PREC * r)) by nia.
  assert (N : 2 * PREC * PREC * (tv * sh - sup * a) <= 2 * PREC * (r * sup)) by lia.
  assert (PP : 0 < PREC) by reflexivity.
  assert (N' : PREC * (tv * sh - sup * a) <= r * sup) by nia.
  nia.
Qed.

(* A withdrawal of at most 10^18 shares takes at most one share's worth from the remaining lenders. *)
Lemma unbond_others_one_share tv sup sh : 0 < sup -> sup <= tv -> 0 <= sh -> sh <= PREC ->
  let r := rate_of tv sup in
  let p := unbond_payout tv sup sh in
  (p * sup - sh * tv) * PREC <= r * sup.
Proof.
  intros Hs Ht Hsh Hle. cbv zeta.
  pose proof (rate_ge_one tv sup Hs Ht) as R.
  destruct (unbond_others_value tv sup sh ltac:(lia) Hs Hsh) as [B1 [B2 _]]. cbv zeta in *.
  set (r := rate_of tv sup) in *. set (p := unbond_payout tv sup sh) in *. unfold unbond_slack in B2.
  assert (M : sup * (sh + PREC) <= sup * (2 * r)) by nia.
  lia.
Qed.

(* Above those sizes the stated allowance does NOT hold: the stored rate has 18 digits, and half a unit
   of its last digit times 10^21 shares is hundreds of base units. States taken from the real
   application (harness corpus history "witness of C07_others_one_share_refuted"). *)
Definition refute_tv_u := 2006164383761643835616.
Definition refute_sup_u := 2000000000200000000000.
Definition refute_sh_u := 1000000000000000000000.
Definition refute_tv_b := 1003082191981130136616.
Definition refute_sup_b := 1000000000200000000000.
Definition refute_a_b := 1000000000000000000000.

Lemma others_one_share_refuted :
  (0 < refute_sup_u <= refute_tv_u /\ 0 < refute_sh_u <= refute_sup_u /\
   let p := unbond_payout refute_tv_u refute_sup_u refute_sh_u in
   (* the remaining lenders lose more than 369 base units; one share is worth 1.003 *)
   (p * refute_sup_u - refute_sh_u * refute_tv_u) * PREC > 369 * PREC * refute_sup_u /\
   rate_of refute_tv_u refute_sup_u < 2 * PREC) /\
  (0 < refute_sup_b <= refute_tv_b /\
   let sh := bond_shares refute_tv_b refute_sup_b refute_a_b in
   (* the previous lenders lose more than 129 base units *)
   (refute_tv_b * sh - refute_sup_b * refute_a_b) * PREC > 129 * PREC * (refute_sup_b + sh) /\
   rate_of refute_tv_b refute_sup_b < 2 * PREC).
Proof. vm_compute. repeat split; intros; discriminate. Qed.

(* The post-state of a successful Borrow can exceed 90 % by a tenth of the interest the call itself stacked
   (the cap is evaluated before UpdateInterestStacked raises TotalValue): sharpness of borrow_cap. *)
Lemma cap_after_own_interest_sharp :
  let s := mkS 1000 1000 200 [mkA 0 0 800 0 0] in
  exists s', borrow 0 100 10 s = Ok s' /\ 10 * (s_tv s' - s_cash s') = 9 * s_tv s' + 10.
Proof. eexists. split; [vm_compute; reflexivity|vm_compute; reflexivity]. Qed.

(* non-vacuity: a concrete history of the model at a non-integral rate (dust deposits, a refused and a
   granted borrow at the cap boundary); the harness corpus runs the same kind of history on the real code *)
Lemma nonvacuous_example :
  let s0 := mkS 200000000000 200000000000 200000000000
               [mkA 1000000000000 0 0 0 0; mkA 800000000000 200000000000 0 0 0; mkA 1000000000000 0 0 0 0] in
  let s := run s0 [OBorrow 2 100000000000 0; OAccrue 2 1232876712; OBond 0 1; OBond 0 3; OUnbond 0 3; OUnbond 1 2;
                   OBorrow 2 79876712328 0; OBorrow 2 79876712327 0] in
  s_tv s = 201232876711 /\ s_supply s = 199999999999 /\ s_cash s = 20123287672 /\
  rate_of (s_tv s) (s_supply s) = 1006164383560030822 /\
  a_wallet (get_acct s 0) = 999999999999 /\ a_shares (get_acct s 0) = 1 /\
  a_borrowed (get_acct s 2) = 179876712327 /\
  0 < s_supply s <= s_tv s /\
  step s (OBorrow 2 1 0) = Err E_cap.
Proof. vm_compute. repeat split; intros; discriminate. Qed.

(* sharpness of "sh < 10^18" in unbond_keeps_rate_ge_one: redeeming 9*10^18 of 10^19 shares at rate 1 + 6*10^-19
   leaves 10^18 shares backed by 10^18 - 3 base units (rate < 1) *)
Lemma rate_ge_one_unbond_sharp :
  let tv := 10000000000000000006 in let sup := 10000000000000000000 in let sh := 9000000000000000000 in
  0 < sup <= tv /\ 0 <= sh <= sup /\ tv - unbond_payout tv sup sh < sup - sh.
Proof. vm_compute. repeat split; intros; discriminate. Qed.
