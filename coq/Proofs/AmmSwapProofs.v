(* Proofs about Models/AmmSwap.v (C03). All statements over unbounded Z. *)
From Coq Require Import ZArith List Bool Lia.
From Elys Require Import Base.Res Base.Zdec Models.AmmSwap.
Import ListNotations.
Open Scope Z_scope.

(* ---------- basic facts about the checked operations ---------- *)

Lemma chk_ok x v : chk x = Ok v -> v = x.
Proof. unfold chk. destruct (in_range x); congruence. Qed.

Lemma cadd_ok a b v : cadd a b = Ok v -> v = a + b.
Proof. apply chk_ok. Qed.
Lemma csub_ok a b v : csub a b = Ok v -> v = a - b.
Proof. apply chk_ok. Qed.
Lemma cmul_ok a b v : cmul a b = Ok v -> v = dmul a b.
Proof. apply chk_ok. Qed.
Lemma cquo_ok a b v : cquo a b = Ok v -> b <> 0 /\ v = dquo a b.
Proof.
  unfold cquo. destruct (b =? 0) eqn:E; [discriminate|].
  apply Z.eqb_neq in E. intros H. split; [exact E|]. now apply chk_ok.
Qed.
Lemma cceil_ok a v : cceil a = Ok v -> v = dceil a.
Proof. apply chk_ok. Qed.

Lemma bind_ok {A B} (r : res A) (f : A -> res B) v :
  bind r f = Ok v -> exists a, r = Ok a /\ f a = Ok v.
Proof. destruct r; simpl; intros H; try discriminate. eauto. Qed.

Lemma PREC_eq : PREC = 1000000000000000000. Proof. reflexivity. Qed.
Lemma HALF_eq : HALF = 500000000000000000. Proof. reflexivity. Qed.
Lemma HALF_PREC : 2 * HALF = PREC. Proof. reflexivity. Qed.

(* chop_round is exact on multiples of 10^18, of either sign *)
Lemma chop_round_nonneg_mult k : 0 <= k -> chop_round_nonneg (k * PREC) = k.
Proof.
  intros Hk. unfold chop_round_nonneg.
  rewrite Z.quot_mul by (rewrite PREC_eq; lia).
  rewrite Z.rem_mul by (rewrite PREC_eq; lia). reflexivity.
Qed.

Lemma chop_round_mult k : chop_round (k * PREC) = k.
Proof.
  unfold chop_round. pose proof PREC_pos as HP.
  destruct (k * PREC <? 0) eqn:E.
  - apply Z.ltb_lt in E. assert (k < 0) by nia.
    replace (- (k * PREC)) with ((- k) * PREC) by ring.
    rewrite chop_round_nonneg_mult by lia. lia.
  - apply Z.ltb_ge in E. assert (0 <= k) by nia.
    now apply chop_round_nonneg_mult.
Qed.

Lemma dmul_int_l i x : dmul (i * PREC) x = i * x.
Proof. unfold dmul. replace (i * PREC * x) with (i * x * PREC) by ring. apply chop_round_mult. Qed.

Lemma dmul_one_r x : dmul x PREC = x.
Proof. unfold dmul. apply chop_round_mult. Qed.

(* Quo of non-negative by positive: nearest-rounding bounds, cleared of divisions *)
Lemma dquo_bounds a b : 0 <= a -> 0 < b ->
  let q := dquo a b in
  0 <= q /\
  a * PREC * PREC - b - HALF * b < q * PREC * b /\
  q * PREC * b <= a * PREC * PREC + HALF * b.
Proof.
  intros Ha Hb. cbv zeta. unfold dquo.
  set (n := a * PREC * PREC).
  assert (Hn : 0 <= n) by (unfold n; pose proof PREC_pos; nia).
  pose proof (Z.quot_rem' n b) as E.
  assert (Hr : 0 <= Z.rem n b < b) by (apply Z.rem_bound_pos; lia).
  assert (Hq : 0 <= Z.quot n b) by (apply Z.quot_pos; lia).
  destruct (chop_round_bounds (Z.quot n b) Hq) as [[B1 B2] B3].
  set (Q := Z.quot n b) in *. set (c := chop_round Q) in *.
  split; [exact B3|]. split; nia.
Qed.

Lemma dquo_self x : 0 < x -> dquo x x = PREC.
Proof.
  intros Hx. unfold dquo.
  replace (x * PREC * PREC) with (PREC * PREC * x) by ring.
  rewrite Z.quot_mul by lia. apply chop_round_mult.
Qed.

Lemma trunc_int_bounds d : 0 <= d -> 0 <= trunc_int d /\ d - PREC < trunc_int d * PREC <= d.
Proof. intros H. unfold trunc_int. destruct (chop_trunc_bounds d H) as [A B]. lia. Qed.

(* ---------- Pow with exponent exactly 1 (equal weights) is the identity ---------- *)
Lemma pow_one y v : pow y ONE = Ok v -> v = y /\ 0 < y.
Proof.
  unfold pow. destruct (y <=? 0) eqn:E; [discriminate|]. apply Z.leb_gt in E.
  change (ONE <? 0) with false. cbv iota.
  change (trunc_dec ONE) with ONE. change (ONE - ONE) with 0.
  change (trunc_int ONE) with 1. change (0 =? 0) with true.
  unfold power, power_loop. intros H.
  apply bind_ok in H. destruct H as [ip [H1 H2]].
  apply cmul_ok in H1. unfold ONE in H1. rewrite dmul_one_r in H1.
  simpl in H2. inversion H2. subst. auto.
Qed.

(* ---------- solve with equal weights ---------- *)
Lemma solve_equal w bb ba bu v : 0 < w ->
  solve bb ba (w * PREC) bu (w * PREC) = Ok v ->
  0 < ba /\ exists y, y = dquo bb ba /\ 0 < y /\ v = dmul bu (ONE - y).
Proof.
  intros Hw. unfold solve. pose proof PREC_pos as HP.
  destruct (w * PREC =? 0) eqn:E0; [apply Z.eqb_eq in E0; nia|].
  intros H. apply bind_ok in H. destruct H as [ratio [Hr H]].
  apply cquo_ok in Hr. destruct Hr as [_ Hr]. rewrite dquo_self in Hr by nia. subst ratio.
  destruct (ba <=? 0) eqn:E1; [discriminate|]. apply Z.leb_gt in E1.
  apply bind_ok in H. destruct H as [y [Hy H]].
  apply cquo_ok in Hy. destruct Hy as [_ Hy].
  apply bind_ok in H. destruct H as [yw [Hyw H]].
  apply pow_one in Hyw. destruct Hyw as [-> Hpos].
  apply bind_ok in H. destruct H as [par [Hpar H]].
  apply csub_ok in Hpar. apply cmul_ok in H. subst.
  split; [exact E1|]. eexists; split; [reflexivity|]. split; [exact Hpos|reflexivity].
Qed.

(* effective balance (accounted-pool override), as an Int *)
Definition ebal (bal acc : Z) : Z := if 0 <? acc then acc else bal.
Lemma eff_ebal bal acc : eff bal acc = ebal bal acc * PREC.
Proof. unfold eff, ebal. destruct (0 <? acc); reflexivity. Qed.

(* ---------- CalcOutAmtGivenIn, constant product, equal weights ---------- *)
Section EqualWeightOut.
  Variable p : pool.
  Variables a fee out slip : Z.
  Hypothesis Hno : use_oracle p = false.
  Hypothesis Hw : w_in p = w_out p.
  Hypothesis Hwpos : 0 < w_in p.
  Hypothesis Ha : 0 <= a.
  Hypothesis Hfee : 0 <= fee < PREC.
  Let Bi := ebal (b_in p) (acc_in p).
  Let Bo := ebal (b_out p) (acc_out p).
  Hypothesis HBi : 0 <= Bi.
  Hypothesis HBo : 0 <= Bo.
  Hypothesis Hcalc : calc_out p a fee = Ok (out, slip).
  Let a' := a * (PREC - fee).
  Let N := Bi * PREC + a'.

  Lemma calc_out_equal_shape :
    0 < N /\ exists y, y = dquo (Bi * PREC) N /\ 0 < y /\ out = trunc_int (Bo * (PREC - y)) /\ 0 < out.
  Proof.
    pose proof PREC_pos as HP.
    unfold calc_out in Hcalc.
    apply bind_ok in Hcalc. destruct Hcalc as [omf [H1 H]]. apply csub_ok in H1.
    apply bind_ok in H. destruct H as [afee [H2 H]]. apply cmul_ok in H2.
    rewrite dmul_int_l in H2.
    apply bind_ok in H. destruct H as [post [H3 H]]. apply cadd_ok in H3.
    unfold weights in H. rewrite Hno in H. simpl in H.
    rewrite <- Hw in H.
    apply bind_ok in H. destruct H as [o [H4 H]].
    rewrite !eff_ebal in *. fold Bi Bo in H3, H4.
    apply solve_equal in H4; [|exact Hwpos].
    destruct H4 as [Hpost [y [Hy [Hypos Ho]]]].
    destruct (o =? 0) eqn:Eo; [discriminate|].
    apply bind_ok in H. destruct H as [rate [_ H]].
    apply bind_ok in H. destruct H as [awo [_ H]].
    destruct (awo =? 0); [discriminate|].
    apply bind_ok in H. destruct H as [q [_ H]].
    apply bind_ok in H. destruct H as [sl [_ H]].
    destruct (trunc_int o <=? 0) eqn:Eoi; [discriminate|]. apply Z.leb_gt in Eoi.
    inversion H; subst out slip.
    assert (EN : post = N) by (unfold N, a'; subst; unfold ONE; ring).
    rewrite EN in *.
    split; [exact Hpost|]. exists y. split; [exact Hy|]. split; [exact Hypos|].
    rewrite Ho in *. unfold ONE in *. rewrite dmul_int_l in *. split; [reflexivity|exact Eoi].
  Qed.

  (* upper bound: the pool never pays more than the exact constant-product amount plus the rounding of
     y = B_in/(B_in + a') to the nearest 10^-18, multiplied by the out reserve *)
  Lemma calc_out_equal_upper :
    out * (PREC * PREC) * N <= Bo * (PREC * PREC) * a' + Bo * N * (HALF + 1).
  Proof.
    pose proof PREC_pos as HP.
    destruct calc_out_equal_shape as [HN [y [Hy [Hypos [Ho Hopos]]]]].
    assert (Ha' : 0 <= a') by (unfold a'; nia).
    assert (HBP : 0 <= Bi * PREC) by nia.
    destruct (dquo_bounds (Bi * PREC) N HBP HN) as [Q0 [Q1 Q2]]. rewrite <- Hy in *.
    (* y <= 1: y*P*N <= Bi*P^3 + HALF*N and N >= Bi*P *)
    assert (Hyle : y <= PREC).
    { destruct (Z.le_gt_cases y PREC) as [L|G]; [exact L|exfalso].
      assert (y >= PREC + 1) by lia.
      assert (HALF * N < PREC * N) by (rewrite HALF_eq, PREC_eq; nia).
      assert (Bi * PREC * PREC * PREC <= N * PREC * PREC) by (unfold N; nia).
      assert ((PREC + 1) * PREC * N <= y * PREC * N) by nia.
      nia. }
    assert (Hd : 0 <= Bo * (PREC - y)) by nia.
    destruct (trunc_int_bounds _ Hd) as [T0 [T1 T2]]. rewrite <- Ho in *.
    (* out*P <= Bo*(P-y) ; y*P*N > Bi*P^3 - N - HALF*N *)
    assert (S1 : out * PREC * (PREC * N) <= Bo * (PREC - y) * (PREC * N)) by (apply Z.mul_le_mono_nonneg_r; nia).
    assert (S2 : Bo * (y * PREC * N) >= Bo * (Bi * PREC * PREC * PREC - N - HALF * N)) by nia.
    unfold N in *. nia.
  Qed.

  (* lower bound (used for the split-trade corollary) *)
  Lemma calc_out_equal_lower :
    Bo * (PREC * PREC) * a' < out * (PREC * PREC) * N + Bo * N * HALF + PREC * PREC * N.
  Proof.
    pose proof PREC_pos as HP.
    destruct calc_out_equal_shape as [HN [y [Hy [Hypos [Ho Hopos]]]]].
    assert (Ha' : 0 <= a') by (unfold a'; nia).
    assert (HBP : 0 <= Bi * PREC) by nia.
    destruct (dquo_bounds (Bi * PREC) N HBP HN) as [Q0 [Q1 Q2]]. rewrite <- Hy in *.
    assert (Hyle : y <= PREC).
    { destruct (Z.le_gt_cases y PREC) as [L|G]; [exact L|exfalso].
      assert (y >= PREC + 1) by lia.
      assert (HALF * N < PREC * N) by (rewrite HALF_eq, PREC_eq; nia).
      assert (Bi * PREC * PREC * PREC <= N * PREC * PREC) by (unfold N; nia).
      assert ((PREC + 1) * PREC * N <= y * PREC * N) by nia.
      nia. }
    assert (Hd : 0 <= Bo * (PREC - y)) by nia.
    destruct (trunc_int_bounds _ Hd) as [T0 [T1 T2]]. rewrite <- Ho in *.
    assert (S1 : (Bo * (PREC - y) - PREC) * (PREC * N) < out * PREC * (PREC * N)) by (apply Z.mul_lt_mono_pos_r; nia).
    assert (S2 : Bo * (y * PREC * N) <= Bo * (Bi * PREC * PREC * PREC + HALF * N)) by nia.
    unfold N in *. nia.
  Qed.

  (* the same with explicit floors: out <= floor(B_out*a'/(B_in+a')) + floor(B_out/(2*10^18)) + floor(B_out/10^36) + 2 *)
  Lemma calc_out_equal_floor :
    out <= Z.div (Bo * a') N + Z.div Bo (2 * PREC) + Z.div Bo (PREC * PREC) + 2.
  Proof.
    pose proof PREC_pos as HP.
    destruct calc_out_equal_shape as [HN _].
    pose proof calc_out_equal_upper as U.
    set (e := Z.div (Bo * a') N). set (s1 := Z.div Bo (2 * PREC)). set (s2 := Z.div Bo (PREC * PREC)).
    assert (E1 : Bo * a' < (e + 1) * N).
    { unfold e. pose proof (Z.div_mod (Bo * a') N ltac:(lia)) as D.
      pose proof (Z.mod_pos_bound (Bo * a') N HN). nia. }
    assert (E2 : Bo < (s1 + 1) * (2 * PREC)).
    { unfold s1. pose proof (Z.div_mod Bo (2 * PREC) ltac:(lia)) as D.
      pose proof (Z.mod_pos_bound Bo (2 * PREC) ltac:(lia)). nia. }
    assert (E3 : Bo < (s2 + 1) * (PREC * PREC)).
    { unfold s2. pose proof (Z.div_mod Bo (PREC * PREC) ltac:(nia)) as D.
      pose proof (Z.mod_pos_bound Bo (PREC * PREC) ltac:(nia)). nia. }
    assert (PP : 0 < PREC * PREC) by nia.
    (* RHS of U < N*P^2*(e+1 + s1+1 + s2+1) *)
    assert (R1 : Bo * (PREC * PREC) * a' < (e + 1) * N * (PREC * PREC)) by nia.
    assert (R2 : Bo * HALF < (s1 + 1) * (PREC * PREC)).
    { assert (Bo * HALF * 2 < (s1 + 1) * (2 * PREC) * PREC) by (rewrite <- HALF_PREC in *; nia). nia. }
    assert (R3 : Bo * N * (HALF + 1) < ((s1 + 1) + (s2 + 1)) * (PREC * PREC) * N).
    { replace (Bo * N * (HALF + 1)) with ((Bo * HALF + Bo) * N) by ring.
      apply Z.mul_lt_mono_pos_r; [exact HN|]. nia. }
    assert (F : out * ((PREC * PREC) * N) < (e + s1 + s2 + 3) * ((PREC * PREC) * N)) by nia.
    assert (0 < PREC * PREC * N) by nia.
    assert (out < e + s1 + s2 + 3) by (eapply Z.mul_lt_mono_pos_r; eauto).
    lia.
  Qed.

  (* the product of the reserves does not decrease by more than the same rounding *)
  Lemma calc_out_equal_product :
    (Bi + a) * (Bo - out) * (PREC * PREC) >= Bi * Bo * (PREC * PREC) - Bo * (Bi + a) * (HALF + 1).
  Proof.
    pose proof PREC_pos as HP.
    destruct calc_out_equal_shape as [HN _].
    pose proof calc_out_equal_upper as U.
    assert (Ha' : 0 <= a') by (unfold a'; nia).
    assert (HNle : N <= (Bi + a) * PREC) by (unfold N, a'; nia).
    assert (PP : 0 < PREC * PREC) by nia.
    (* (Bi+a)*P * [out*P^2*N] <= (Bi+a)*P*[...]; work with N directly *)
    (* out*P^2*N <= Bo*P^2*a' + Bo*N*(H+1)  and  N = Bi*P + a' *)
    (* (Bo-out)*P^2*N >= Bo*P^2*Bi*P - Bo*N*(H+1) *)
    assert (K : (Bo - out) * (PREC * PREC) * N >= Bo * (PREC * PREC) * (Bi * PREC) - Bo * N * (HALF + 1)) by (unfold N in *; nia).
    set (X := (Bo - out) * (PREC * PREC)) in *.
    set (W := X + Bo * (HALF + 1)).
    set (T := (Bi + a) * PREC) in *.
    assert (K1 : Bo * Bi * (PREC * PREC * PREC) <= N * W) by (unfold W; nia).
    assert (K0 : 0 <= Bo * Bi * (PREC * PREC * PREC)) by nia.
    assert (HW : 0 <= W).
    { destruct (Z.le_gt_cases 0 W) as [L|G]; [exact L|exfalso]. assert (N * W < 0) by nia. lia. }
    assert (K2 : N * W <= T * W) by (apply Z.mul_le_mono_nonneg_r; assumption).
    assert (K3 : ((Bi + a) * (Bo - out) * (PREC * PREC)) * PREC >=
                 (Bi * Bo * (PREC * PREC) - Bo * (Bi + a) * (HALF + 1)) * PREC).
    { replace ((Bi + a) * (Bo - out) * (PREC * PREC) * PREC) with (T * X) by (unfold T, X; ring).
      replace ((Bi * Bo * (PREC * PREC) - Bo * (Bi + a) * (HALF + 1)) * PREC)
        with (Bo * Bi * (PREC * PREC * PREC) - T * (Bo * (HALF + 1))) by (unfold T; ring).
      unfold W in K2, K1. lia. }
    apply Z.le_ge. apply Z.ge_le in K3. apply (Zmult_le_reg_r _ _ PREC); [lia|exact K3].
  Qed.
End EqualWeightOut.

