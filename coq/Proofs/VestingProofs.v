(* Proofs about Models/Vesting.v (C14): several vesting denoms in one list. *)
From Coq Require Import ZArith List Bool Lia.
From Elys Require Import Base.Res Models.Vesting.
Import ListNotations.
Open Scope Z_scope.

(* split conjunctions only (never introduces the hypothesis of an implication) *)
Ltac splits := repeat match goal with |- _ /\ _ => split end.

(* ---------- arithmetic of the schedule ---------- *)

Lemma quot_le_total t e n : 0 <= t -> 0 < n -> e <= n -> Z.quot (t * e) n <= t.
Proof.
  intros Ht Hn He.
  destruct (Z_lt_le_dec (t * e) 0) as [Hneg|Hpos].
  - assert (Z.quot (t * e) n <= 0).
    { replace (t * e) with (- (- (t * e))) by lia. rewrite Z.quot_opp_l by lia.
      assert (0 <= Z.quot (- (t * e)) n) by (apply Z.quot_pos; lia). lia. }
    lia.
  - rewrite Z.quot_div_nonneg by lia.
    apply Z.div_le_upper_bound; nia.
Qed.

Lemma quot_full t n : 0 < n -> Z.quot (t * n) n = t.
Proof. intros Hn. apply Z.quot_mul; lia. Qed.

Lemma quot_mono t e1 e2 n : 0 <= t -> 0 < n -> 0 <= e1 <= e2 ->
  Z.quot (t * e1) n <= Z.quot (t * e2) n.
Proof.
  intros Ht Hn He. rewrite !Z.quot_div_nonneg by nia.
  apply Z.div_le_mono; nia.
Qed.

(* ---------- well-formed entries ---------- *)

Definition wf_entry (v : ventry) : Prop := 0 <= v_claimed v < v_total v /\ 0 <= v_num v.
Definition live_entry (v : ventry) : Prop := wf_entry v /\ 0 < v_num v.

Lemma vested_ok v h : 0 < v_num v -> exists x, vested_so_far v h = Ok x.
Proof.
  intros Hn. unfold vested_so_far.
  destruct (v_num v <=? 0) eqn:E; eauto.
Qed.

Lemma vested_le_total v h x : wf_entry v -> vested_so_far v h = Ok x -> x <= v_total v.
Proof.
  intros [[Hc Ht] Hn] H. unfold vested_so_far in H.
  destruct (v_num v <=? 0) eqn:E; [inversion H; lia|]. apply Z.leb_gt in E.
  inversion H; subst; clear H.
  destruct (v_num v <? h - v_start v) eqn:L.
  - rewrite quot_full by lia. lia.
  - apply Z.ltb_ge in L. apply quot_le_total; lia.
Qed.

(* a zero-block schedule (governance may set NumBlocks = 0) is released in full by the first claim *)
Lemma claim_entry_zero h v : wf_entry v -> v_num v = 0 ->
  claim_entry true h v = Ok (v_total v - v_claimed v, mkV (v_total v) (v_total v) (v_start v) (v_num v) (v_den v)).
Proof.
  intros [[Hc Ht] _] Hz. unfold claim_entry, vested_so_far. rewrite Hz. cbn [Z.leb Z.compare bind].
  destruct (v_total v <? v_claimed v) eqn:L; [apply Z.ltb_lt in L; lia|]. reflexivity.
Qed.

(* since fix: 3c63217 VestedSoFar cannot fail, so the clamped claim of ANY entry succeeds *)
Lemma claim_entry_total h v : exists r, claim_entry true h v = Ok r.
Proof.
  unfold claim_entry, vested_so_far. destruct (v_num v <=? 0); cbn [bind].
  - destruct (v_total v <? v_claimed v); eauto.
  - match goal with |- context [if ?b then _ else _] => destruct b end; eauto.
Qed.

Lemma claim_loop_total h vs : exists r, claim_loop true h vs = Ok r.
Proof.
  induction vs as [|v r IH]; cbn [claim_loop]; [eauto|].
  destruct (claim_entry_total h v) as [[c v'] ->]. cbn [bind]. destruct IH as [[[c0 c1] r'] ->]. cbn [bind]. eauto.
Qed.

Lemma claim_total h a : exists a', claim h a = Ok a'.
Proof. unfold claim, claim_gen. destruct (claim_loop_total h (a_vs a)) as [[[c0 c1] vs'] ->]. cbn [bind]. eauto. Qed.

(* the clamped claim of one entry: never fails on a live entry, never decreases claimed, never
   exceeds total, follows the linear schedule, complete at the end; the denom tag is kept *)
Lemma claim_entry_spec h v :
  live_entry v ->
  exists c v', claim_entry true h v = Ok (c, v') /\
    0 <= c /\
    v_claimed v' = v_claimed v + c /\
    v_claimed v <= v_claimed v' <= v_total v /\
    v_total v' = v_total v /\ v_start v' = v_start v /\ v_num v' = v_num v /\ v_den v' = v_den v /\
    (* linear block schedule *)
    v_claimed v' = Z.max (v_claimed v)
        (Z.quot (v_total v * Z.min (h - v_start v) (v_num v)) (v_num v)) /\
    (* schedule elapsed => everything released *)
    (v_num v <= h - v_start v -> v_claimed v' = v_total v).
Proof.
  intros [Hwf Hn]. pose proof Hwf as [[Hc Ht] _].
  unfold claim_entry.
  destruct (vested_ok v h Hn) as [x Hx]. rewrite Hx. cbn [bind].
  pose proof (vested_le_total v h x Hwf Hx) as Hle.
  assert (Hxe : x = Z.quot (v_total v * Z.min (h - v_start v) (v_num v)) (v_num v)).
  { unfold vested_so_far in Hx. destruct (v_num v <=? 0) eqn:E0; [apply Z.leb_le in E0; lia|].
    inversion Hx. destruct (v_num v <? h - v_start v) eqn:L.
    - apply Z.ltb_lt in L. rewrite Z.min_r by lia. reflexivity.
    - apply Z.ltb_ge in L. rewrite Z.min_l by lia. reflexivity. }
  destruct (x <? v_claimed v) eqn:L.
  - apply Z.ltb_lt in L. exists 0, v. splits; try lia; try reflexivity.
    intros Hend. exfalso. rewrite Z.min_r in Hxe by lia. rewrite quot_full in Hxe by lia. lia.
  - apply Z.ltb_ge in L. eexists _, _. split; [reflexivity|]. cbn.
    splits; try lia.
    intros Hend. rewrite Z.min_r in Hxe by lia. rewrite quot_full in Hxe by lia. lia.
Qed.

(* the same for ANY well-formed entry, zero-block schedules included (without the linear formula, which divides) *)
Lemma claim_entry_wf h v :
  wf_entry v ->
  exists c v', claim_entry true h v = Ok (c, v') /\
    0 <= c /\ v_claimed v' = v_claimed v + c /\ v_claimed v' <= v_total v /\
    v_total v' = v_total v /\ v_start v' = v_start v /\ v_num v' = v_num v /\ v_den v' = v_den v /\
    (v_num v <= h - v_start v -> v_claimed v' = v_total v).
Proof.
  intros Hwf. destruct (Z.eq_dec (v_num v) 0) as [Hz|Hnz].
  - rewrite (claim_entry_zero h v Hwf Hz). destruct Hwf as [[? ?] ?].
    eexists _, _. split; [reflexivity|]. cbn. splits; try lia; try (intros _; reflexivity).
  - assert (Hn : 0 < v_num v) by (destruct Hwf as [_ ?]; lia).
    destruct (claim_entry_spec h v (conj Hwf Hn)) as (c & v' & H1 & H2 & H3 & H4 & H5 & H6 & H7 & H8 & _ & H10).
    exists c, v'. splits; try assumption; lia.
Qed.

(* what a claim pays for one entry, as a closed formula: the newly vested amount *)
Definition vested_z (v : ventry) (h : Z) : Z :=
  if v_num v <=? 0 then v_total v
  else Z.quot (v_total v * Z.min (h - v_start v) (v_num v)) (v_num v).
Definition newly (h : Z) (v : ventry) : Z := Z.max 0 (vested_z v h - v_claimed v).

Lemma vested_so_far_z v h : vested_so_far v h = Ok (vested_z v h).
Proof.
  unfold vested_so_far, vested_z. destruct (v_num v <=? 0); [reflexivity|].
  destruct (v_num v <? h - v_start v) eqn:L.
  - apply Z.ltb_lt in L. rewrite Z.min_r by lia. reflexivity.
  - apply Z.ltb_ge in L. rewrite Z.min_l by lia. reflexivity.
Qed.

Lemma claim_entry_newly h v : exists v', claim_entry true h v = Ok (newly h v, v').
Proof.
  unfold claim_entry, newly. rewrite vested_so_far_z. cbn [bind].
  destruct (vested_z v h <? v_claimed v) eqn:L.
  - apply Z.ltb_lt in L. exists v. rewrite Z.max_l by lia. reflexivity.
  - apply Z.ltb_ge in L. eexists. rewrite Z.max_r by lia. reflexivity.
Qed.

(* ---------- per-denom outstanding ---------- *)

Definition non0 (v : ventry) : bool := negb (is0 v).

Lemma out_d_cons b v r :
  out_d b (v :: r) = (if Bool.eqb (is0 v) b then v_total v - v_claimed v else 0) + out_d b r.
Proof. reflexivity. Qed.

Lemma out_d_nil b : out_d b [] = 0.
Proof. reflexivity. Qed.

Lemma out_d_app b x y : out_d b (x ++ y) = out_d b x + out_d b y.
Proof. induction x as [|v r IH]; cbn [app]; rewrite ?out_d_cons, ?out_d_nil; lia. Qed.

Lemma out_d_single b v : out_d b [v] = if Bool.eqb (is0 v) b then v_total v - v_claimed v else 0.
Proof. rewrite out_d_cons, out_d_nil. lia. Qed.

Lemma out_d_rev b x : out_d b (rev x) = out_d b x.
Proof. induction x as [|v r IH]; cbn [rev]; [reflexivity|]. rewrite out_d_app, IH, out_d_single, out_d_cons. lia. Qed.

Lemma out_d_nonneg b vs : Forall wf_entry vs -> 0 <= out_d b vs.
Proof.
  induction 1 as [|v r [[? ?] ?] _ IH]; [rewrite out_d_nil; lia|]. rewrite out_d_cons.
  destruct (Bool.eqb (is0 v) b); lia.
Qed.

(* ---------- the claim loop ---------- *)

Lemma claim_loop_spec h vs :
  Forall wf_entry vs ->
  exists c0 c1 vs', claim_loop true h vs = Ok (c0, c1, vs') /\
    0 <= c0 /\ 0 <= c1 /\ Forall wf_entry vs' /\
    out_d true vs = out_d true vs' + c0 /\ out_d false vs = out_d false vs' + c1 /\
    (length vs' <= length vs)%nat /\
    (Forall (fun v => 0 < v_num v) vs -> Forall (fun v => 0 < v_num v) vs') /\
    (* after the end of every schedule nothing is left *)
    (Forall (fun v => v_num v <= h - v_start v) vs ->
       vs' = [] /\ c0 = out_d true vs /\ c1 = out_d false vs).
Proof.
  induction vs as [|v r IH]; intros Hall.
  - exists 0, 0, []. cbn [claim_loop]. rewrite !out_d_nil. splits; auto; try lia.
  - inversion Hall as [|? ? Hv Hr]; subst.
    destruct (claim_entry_wf h v Hv) as (c & v' & Hce & Hc0 & Hcl & Hle & Ht & Hs & Hn & Hd & Hend).
    destruct (IH Hr) as (c0 & c1 & r' & Hlr & Hc00 & Hc10 & Hr' & Hout0 & Hout1 & Hlen & Hlive & Hendr).
    cbn [claim_loop]. rewrite Hce. cbn [bind]. rewrite Hlr. cbn [bind].
    eexists _, _, _. split; [reflexivity|].
    assert (Hi : is0 v' = is0 v) by (unfold is0; rewrite Hd; reflexivity).
    pose proof Hv as [[Hvc Hvt] Hvn].
    rewrite !(out_d_cons _ v).
    destruct (v_claimed v' =? v_total v') eqn:E.
    + apply Z.eqb_eq in E.
      destruct (is0 v) eqn:D; cbn [Bool.eqb].
      * splits; try lia; auto.
        -- cbn [length]. lia.
        -- intros Hf. inversion Hf; subst. auto.
        -- intros Hf. inversion Hf as [|? ? Hfv Hfr]; subst. destruct (Hendr Hfr) as (-> & -> & ->).
           rewrite !out_d_nil in *. splits; try reflexivity; lia.
      * splits; try lia; auto.
        -- cbn [length]. lia.
        -- intros Hf. inversion Hf; subst. auto.
        -- intros Hf. inversion Hf as [|? ? Hfv Hfr]; subst. destruct (Hendr Hfr) as (-> & -> & ->).
           rewrite !out_d_nil in *. splits; try reflexivity; lia.
    + apply Z.eqb_neq in E.
      assert (Hwf' : wf_entry v') by (unfold wf_entry; lia).
      rewrite !(out_d_cons _ v'), Hi.
      destruct (is0 v) eqn:D; cbn [Bool.eqb].
      * splits; try lia; auto.
        -- cbn [length]. lia.
        -- intros Hf. inversion Hf; subst. constructor; auto. lia.
        -- intros Hf. inversion Hf as [|? ? Hfv Hfr]; subst. exfalso. apply E. rewrite Ht. apply Hend. assumption.
      * splits; try lia; auto.
        -- cbn [length]. lia.
        -- intros Hf. inversion Hf; subst. constructor; auto. lia.
        -- intros Hf. inversion Hf as [|? ? Hfv Hfr]; subst. exfalso. apply E. rewrite Ht. apply Hend. assumption.
Qed.

(* a claim pays, per denom, exactly the newly vested amounts of the entries of that denom - for ANY list *)
Lemma claim_loop_pays h vs : forall c0 c1 vs',
  claim_loop true h vs = Ok (c0, c1, vs') ->
  c0 = zsum (map (newly h) (filter is0 vs)) /\ c1 = zsum (map (newly h) (filter non0 vs)).
Proof.
  induction vs as [|v r IH]; intros c0 c1 vs' H; cbn [claim_loop] in H.
  - inversion H; subst. split; reflexivity.
  - destruct (claim_entry_newly h v) as [v' Hce]. rewrite Hce in H. cbn [bind] in H.
    destruct (claim_loop true h r) as [[[d0 d1] r']| |] eqn:L; cbn [bind] in H; try discriminate.
    destruct (IH _ _ _ eq_refl) as [-> ->].
    cbn [filter]. unfold non0 at 1. destruct (is0 v); cbn [negb map zsum]; inversion H; subst; split; reflexivity.
Qed.

(* ---------- the cancel loop ---------- *)

Definition weak_entry (v : ventry) : Prop := 0 <= v_claimed v <= v_total v /\ 0 <= v_num v.

(* what the cancel loop may do to the entry at one position: entries of another denom are not touched at all *)
Definition cancel_rel (v v' : ventry) : Prop :=
  v_claimed v' = v_claimed v /\ v_start v' = v_start v /\ v_num v' = v_num v /\ v_den v' = v_den v /\
  v_total v' <= v_total v /\ (is0 v = false -> v' = v).

Lemma cancel_loop_spec l : forall rem,
  0 <= rem -> Forall wf_entry l ->
  let '(rem', l') := cancel_loop rem l in
  0 <= rem' <= rem /\ Forall weak_entry l' /\
  out_d true l = out_d true l' + (rem - rem') /\ out_d false l = out_d false l' /\
  length l' = length l /\ Forall2 cancel_rel l l'.
Proof.
  induction l as [|v r IH]; intros rem Hrem Hall; cbn [cancel_loop].
  - splits; auto; lia.
  - inversion Hall as [|? ? Hv Hr]; subst. destruct Hv as [[Hc Ht] Hn].
    destruct (negb (is0 v) || (v_num v =? 0) || (v_total v =? 0)) eqn:Skip.
    + specialize (IH rem Hrem Hr). destruct (cancel_loop rem r) as [rem' r'].
      destruct IH as (A & B & C & C1 & D & F). rewrite !(out_d_cons _ v). cbn [length].
      splits; auto; try lia.
      * constructor; auto. unfold weak_entry; lia.
      * constructor; auto. unfold cancel_rel. splits; auto; lia.
    + apply orb_false_iff in Skip. destruct Skip as [Skip _]. apply orb_false_iff in Skip. destruct Skip as [Hd _].
      apply negb_false_iff in Hd.
      set (c := Z.min rem (v_total v - v_claimed v)).
      assert (0 <= c <= rem) by (unfold c; lia).
      assert (c <= v_total v - v_claimed v) by (unfold c; lia).
      specialize (IH (rem - c) ltac:(lia) Hr). destruct (cancel_loop (rem - c) r) as [rem' r'].
      destruct IH as (A & B & C & C1 & D & F).
      set (v1 := mkV (v_total v - c) (v_claimed v) (v_start v) (v_num v) (v_den v)).
      assert (Hi : is0 v1 = true) by exact Hd.
      rewrite !(out_d_cons _ v), !(out_d_cons _ v1), Hi, Hd. cbn [Bool.eqb].
      subst v1. cbn [v_total v_claimed length].
      splits; auto; try lia.
      * constructor; auto. unfold weak_entry; cbn; lia.
      * constructor; auto. unfold cancel_rel. cbn [v_total v_claimed v_start v_num v_den]. splits; auto; try lia. intros Hx. change (is0 v = false) in Hx. congruence.
Qed.

Lemma filter_weak b vs :
  Forall weak_entry vs ->
  Forall wf_entry (filter cancel_keep vs) /\ out_d b (filter cancel_keep vs) = out_d b vs.
Proof.
  induction vs as [|v r IH]; intros Hall; cbn [filter].
  - split; [constructor|reflexivity].
  - inversion Hall as [|? ? Hv Hr]; subst. destruct (IH Hr) as [A B]. destruct Hv as [[Hc Ht] Hn].
    assert (K : cancel_keep v = negb (v_total v <=? v_claimed v)) by reflexivity. rewrite K.
    destruct (v_total v <=? v_claimed v) eqn:E; cbn [negb].
    + apply Z.leb_le in E. split; auto. rewrite out_d_cons, B. destruct (Bool.eqb (is0 v) b); lia.
    + apply Z.leb_gt in E. split.
      * constructor; auto. unfold wf_entry; lia.
      * rewrite !out_d_cons, B. reflexivity.
Qed.

Lemma Forall_rev' {A} (P : A -> Prop) l : Forall P l -> Forall P (rev l).
Proof. intros H. apply Forall_forall. intros x Hx. apply in_rev in Hx. rewrite Forall_forall in H. auto. Qed.

Lemma Forall2_rev' {A B} (R : A -> B -> Prop) l l' : Forall2 R l l' -> Forall2 R (rev l) (rev l').
Proof. induction 1; cbn [rev]; [constructor|]. apply Forall2_app; auto. Qed.

Lemma Forall2_impl' {A B} (R R' : A -> B -> Prop) l l' :
  (forall a b, R a b -> R' a b) -> Forall2 R l l' -> Forall2 R' l l'.
Proof. intros H. induction 1; constructor; auto. Qed.

(* entries of the other denoms survive the final drop-filter of a cancel, in their order *)
Lemma other_denoms_kept l l' :
  Forall wf_entry l -> Forall2 cancel_rel l l' ->
  filter non0 (filter cancel_keep l') = filter non0 l /\
  Forall (fun v => is0 v = false -> cancel_keep v = true) l'.
Proof.
  intros Hwf H. induction H as [|v v' l l' Hr _ IH]; [split; [reflexivity|constructor]|].
  inversion Hwf as [|? ? Hv Hl]; subst. destruct (IH Hl) as [IH1 IH2].
  destruct Hr as (_ & _ & _ & Hd & _ & Hsame).
  assert (Hi : is0 v' = is0 v) by (unfold is0; rewrite Hd; reflexivity).
  destruct (is0 v) eqn:D.
  - assert (N : non0 v = false) by (unfold non0; rewrite D; reflexivity).
    assert (N' : non0 v' = false) by (unfold non0; rewrite Hi; reflexivity).
    split.
    + cbn [filter]. rewrite N.
      destruct (cancel_keep v'); [cbn [filter]; rewrite N'|]; exact IH1.
    + constructor; auto. intros C. congruence.
  - pose proof (Hsame eq_refl) as ->.
    assert (N : non0 v = true) by (unfold non0; rewrite D; reflexivity).
    assert (K : cancel_keep v = true).
    { unfold cancel_keep. destruct Hv as [[? ?] ?]. destruct (v_total v <=? v_claimed v) eqn:E; [apply Z.leb_le in E; lia|reflexivity]. }
    split.
    + cbn [filter]. rewrite K. cbn [filter]. rewrite N. f_equal. exact IH1.
    + constructor; auto.
Qed.

(* ---------- account invariant ---------- *)

Definition wf_acct (a : acct) : Prop :=
  Forall wf_entry (a_vs a) /\ 0 <= a_eden a /\ 0 <= a_usdc a /\
  g_in a = g_released a + g_returned a + outstanding a /\
  g_in1 a = g_released1 a + outstanding1 a /\
  a_usdc a + outstanding1 a = g_usdc0 a /\
  0 <= g_released a /\ 0 <= g_returned a /\ 0 <= g_released1 a.

Definition live_acct (a : acct) : Prop := Forall (fun v => 0 < v_num v) (a_vs a).

Lemma vest_inv h amt p a a' :
  wf_acct a -> 0 <= p_num p -> vest h amt p a = Ok a' ->
  wf_acct a' /\ (0 < p_num p -> live_acct a -> live_acct a') /\
  a_eden a' = a_eden a - amt /\ a_elys a' = a_elys a /\ a_usdc a' = a_usdc a /\ g_in a' = g_in a + amt /\
  outstanding a' = outstanding a + amt /\ outstanding1 a' = outstanding1 a /\ g_usdc0 a' = g_usdc0 a.
Proof.
  intros (Hvs & He & Hu & Hcons & Hcons1 & Hw & Hr & Hret & Hr1) Hp H. unfold vest, guard in H.
  destruct (0 <? amt) eqn:A; [|discriminate]. apply Z.ltb_lt in A.
  destruct (negb _); [|discriminate].
  destruct (amt <=? a_eden a) eqn:B; [|discriminate]. apply Z.leb_le in B.
  inversion H; subst; clear H.
  unfold wf_acct, live_acct, outstanding, outstanding1 in *.
  cbn [a_vs a_eden a_elys a_usdc g_in g_released g_returned g_in1 g_released1 g_usdc0].
  rewrite !out_d_app, !out_d_single. unfold is0. cbn [v_den v_total v_claimed Z.eqb Bool.eqb].
  splits; try lia.
  - apply Forall_app. split; auto. constructor; [|constructor]. unfold wf_entry; cbn; lia.
  - intros Hn L. apply Forall_app. split; auto.
Qed.

Lemma vest_liquid_inv h amt li a a' :
  wf_acct a -> (match li with Some x => 0 <= l_num x | None => True end) -> vest_liquid h amt li a = Ok a' ->
  wf_acct a' /\ 0 < amt /\
  a_eden a' = a_eden a /\ a_elys a' = a_elys a /\ a_usdc a' = a_usdc a - amt /\ g_in1 a' = g_in1 a + amt /\
  outstanding a' = outstanding a /\ outstanding1 a' = outstanding1 a + amt /\ g_usdc0 a' = g_usdc0 a /\
  exists x, li = Some x /\ a_vs a' = a_vs a ++ [mkV amt 0 h (l_num x) 1].
Proof.
  intros (Hvs & He & Hu & Hcons & Hcons1 & Hw & Hr & Hret & Hr1) Hp H. unfold vest_liquid, guard in H.
  destruct (0 <? amt) eqn:A; [|discriminate]. apply Z.ltb_lt in A.
  destruct (amt <=? a_usdc a) eqn:B; [|discriminate]. apply Z.leb_le in B.
  destruct li as [x|]; [|discriminate].
  destruct (negb _); [|discriminate].
  inversion H; subst; clear H.
  unfold wf_acct, outstanding, outstanding1 in *.
  cbn [a_vs a_eden a_elys a_usdc g_in g_released g_returned g_in1 g_released1 g_usdc0].
  rewrite !out_d_app, !out_d_single. unfold is0. cbn [v_den v_total v_claimed Z.eqb Bool.eqb].
  splits; try lia.
  - apply Forall_app. split; auto. constructor; [|constructor]. unfold wf_entry; cbn; lia.
  - exists x. split; reflexivity.
Qed.

(* claim: no assumption on the schedule lengths (zero-block entries included) *)
Lemma claim_inv h a :
  wf_acct a ->
  exists a', claim h a = Ok a' /\ wf_acct a' /\ (live_acct a -> live_acct a') /\
    a_eden a' = a_eden a /\
    0 <= a_elys a' - a_elys a /\
    a_elys a' - a_elys a = g_released a' - g_released a /\
    a_elys a' - a_elys a = outstanding a - outstanding a' /\
    0 <= a_usdc a' - a_usdc a /\
    a_usdc a' - a_usdc a = g_released1 a' - g_released1 a /\
    a_usdc a' - a_usdc a = outstanding1 a - outstanding1 a' /\
    g_usdc0 a' = g_usdc0 a /\
    (Forall (fun v => v_num v <= h - v_start v) (a_vs a) ->
       a_vs a' = [] /\ a_elys a' = a_elys a + outstanding a /\ a_usdc a' = a_usdc a + outstanding1 a).
Proof.
  intros (Hvs & He & Hu & Hcons & Hcons1 & Hw & Hr & Hret & Hr1).
  destruct (claim_loop_spec h (a_vs a) Hvs) as (c0 & c1 & vs' & Hc & Hc0 & Hc1 & Hwf' & Hout0 & Hout1 & Hlen & Hlive & Hend).
  unfold claim, claim_gen. rewrite Hc. cbn [bind].
  eexists. split; [reflexivity|]. unfold wf_acct, live_acct, outstanding, outstanding1 in *.
  cbn [a_vs a_eden a_elys a_usdc g_in g_released g_returned g_in1 g_released1 g_usdc0].
  splits; try lia; auto.
  intros Hf. apply Hend in Hf. destruct Hf as (-> & -> & ->). splits; [reflexivity|lia|lia].
Qed.

Lemma cancel_inv d amt a a' :
  wf_acct a -> cancel d amt a = Ok a' ->
  wf_acct a' /\ (live_acct a -> live_acct a') /\
  a_eden a' = a_eden a + amt /\ a_elys a' = a_elys a /\ a_usdc a' = a_usdc a /\
  outstanding a' = outstanding a - amt /\ outstanding1 a' = outstanding1 a /\
  g_returned a' = g_returned a + amt /\
  g_released a' = g_released a /\ g_usdc0 a' = g_usdc0 a /\ d = 0 /\ 0 < amt.
Proof.
  intros (Hvs & He & Hu & Hcons & Hcons1 & Hw & Hr & Hret & Hr1) H. unfold cancel, guard in H.
  destruct (d =? 0) eqn:D0; [|discriminate]. apply Z.eqb_eq in D0.
  destruct (0 <? amt) eqn:A; [|discriminate]. apply Z.ltb_lt in A.
  pose proof (cancel_loop_spec (rev (a_vs a)) amt ltac:(lia) (Forall_rev' _ _ Hvs)) as S.
  destruct (cancel_loop amt (rev (a_vs a))) as [rem rvs].
  destruct S as (Hrem & Hweak & Hout & Hout1 & Hlen & Hf2).
  destruct (rem =? 0) eqn:R; [|discriminate]. apply Z.eqb_eq in R. subst rem.
  inversion H; subst; clear H.
  destruct (filter_weak true (rev rvs) (Forall_rev' _ _ Hweak)) as [Fw Fo].
  destruct (filter_weak false (rev rvs) (Forall_rev' _ _ Hweak)) as [_ Fo1].
  rewrite out_d_rev in Hout, Hout1. unfold wf_acct, live_acct, outstanding, outstanding1 in *.
  cbn [a_vs a_eden a_elys a_usdc g_in g_released g_returned g_in1 g_released1 g_usdc0].
  rewrite Fo, Fo1, !out_d_rev.
  splits; try lia; auto.
  intros L. apply Forall_forall. intros v Hv. apply filter_In in Hv. destruct Hv as [Hv _].
  apply in_rev in Hv.
  assert (Hn : Forall (fun v => 0 < v_num v) rvs).
  { clear - Hf2 L. apply Forall_rev' in L. revert Hf2 L. generalize (rev (a_vs a)) as l.
    intros l Hf2. induction Hf2 as [|x y l l' Hxy _ IH]; intros L; [constructor|].
    inversion L; subst. constructor; auto. destruct Hxy as (_ & _ & Hn & _). lia. }
  rewrite Forall_forall in Hn. auto.
Qed.

(* a cancel leaves the entries of the other denoms alone: same value at the same position of the list before the
   drop-filter, none of them dropped by the filter, so the sub-list of the other denoms is the same list *)
Lemma cancel_other_denoms d amt a a' :
  wf_acct a -> cancel d amt a = Ok a' ->
  exists mid,
    Forall2 (fun v v' => (is0 v = false -> v' = v) /\ is0 v' = is0 v) (a_vs a) mid /\
    a_vs a' = filter cancel_keep mid /\
    Forall (fun v => is0 v = false -> cancel_keep v = true) mid /\
    filter non0 (a_vs a') = filter non0 (a_vs a) /\
    a_usdc a' = a_usdc a /\ outstanding1 a' = outstanding1 a.
Proof.
  intros Hwf H. destruct (cancel_inv _ _ _ _ Hwf H) as (_ & _ & _ & _ & Hu & _ & Ho1 & _).
  destruct Hwf as (Hvs & _). unfold cancel, guard in H.
  destruct (d =? 0); [|discriminate]. destruct (0 <? amt) eqn:A; [|discriminate]. apply Z.ltb_lt in A.
  pose proof (cancel_loop_spec (rev (a_vs a)) amt ltac:(lia) (Forall_rev' _ _ Hvs)) as S.
  destruct (cancel_loop amt (rev (a_vs a))) as [rem rvs].
  destruct S as (_ & _ & _ & _ & _ & Hf2).
  destruct (rem =? 0); [|discriminate]. inversion H; subst; clear H.
  apply Forall2_rev' in Hf2. rewrite rev_involutive in Hf2.
  destruct (other_denoms_kept _ _ Hvs Hf2) as [K1 K2].
  exists (rev rvs). cbn [a_vs a_usdc] in *. splits; auto.
  eapply Forall2_impl'; [|exact Hf2]. intros v v' (_ & _ & _ & Hd & _ & Hs). split; [exact Hs|].
  unfold is0. rewrite Hd. reflexivity.
Qed.

Lemma vest_now_inv amt p a a' :
  wf_acct a -> 0 < p_factor p -> vest_now amt p a = Ok a' ->
  wf_acct a' /\ a_vs a' = a_vs a /\
  a_eden a' = a_eden a - amt /\ a_elys a' = a_elys a + Z.quot amt (p_factor p) /\
  0 <= Z.quot amt (p_factor p) <= amt /\ a_usdc a' = a_usdc a /\ g_usdc0 a' = g_usdc0 a.
Proof.
  intros (Hvs & He & Hu & Hcons & Hcons1 & Hw & Hr & Hret & Hr1) Hf H. unfold vest_now, guard in H.
  destruct (0 <? amt) eqn:A; [|discriminate]. apply Z.ltb_lt in A.
  destruct (p_now p); [|discriminate].
  destruct (amt <=? a_eden a) eqn:B; [|discriminate]. apply Z.leb_le in B.
  destruct (negb (p_factor p =? 0)); [|discriminate].
  inversion H; subst; clear H. unfold wf_acct, outstanding, outstanding1 in *.
  cbn [a_vs a_eden a_elys a_usdc g_in g_released g_returned g_in1 g_released1 g_usdc0].
  splits; try lia; auto.
  - apply Z.quot_pos; lia.
  - rewrite Z.quot_div_nonneg by lia. apply Z.div_le_upper_bound; nia.
Qed.

(* ---------- state invariant over all histories ---------- *)

Definition wf_params (p : params) : Prop := 0 <= p_num p /\ 0 <= p_max p /\ 0 < p_factor p.
Definition wf_linfo (l : option linfo) : Prop :=
  match l with Some x => 0 <= l_num x /\ 0 <= l_max x | None => True end.

(* the module's custody of the liquid denom is exactly what the liquid schedules of all accounts still hold *)
Definition custody (s : state) : Z := zsum (map outstanding1 (s_accts s)).

Definition Inv (s : state) : Prop :=
  wf_params (s_p s) /\ wf_linfo (s_l s) /\ Forall wf_acct (s_accts s) /\ s_mod s = custody s.
(* governance never configured a zero-length ELYS schedule and no entry has zero blocks *)
Definition Live (s : state) : Prop := 0 < p_num (s_p s) /\ Forall live_acct (s_accts s).

Lemma nth_Forall {A} (P : A -> Prop) l i d : Forall P l -> (i < length l)%nat -> P (nth i l d).
Proof. intros H Hi. rewrite Forall_forall in H. apply H. apply nth_In. assumption. Qed.

Lemma upd_nth_Forall {A} (P : A -> Prop) l i x : Forall P l -> P x -> Forall P (upd_nth i x l).
Proof.
  revert i. induction l as [|y r IH]; intros i H Hx; [destruct i; cbn; constructor|].
  inversion H; subst. destruct i; cbn; constructor; auto.
Qed.

Lemma upd_nth_length {A} l i (x : A) : length (upd_nth i x l) = length l.
Proof. revert i; induction l; intros [|i]; cbn; auto. Qed.

Lemma nth_upd_nth {A} l i (x d : A) : (i < length l)%nat -> nth i (upd_nth i x l) d = x.
Proof. revert i. induction l as [|y r IH]; intros [|i] Hi; cbn in *; try lia; auto. apply IH. lia. Qed.

Lemma zsum_upd {A} (f : A -> Z) l i x d : (i < length l)%nat ->
  zsum (map f (upd_nth i x l)) = zsum (map f l) - f (nth i l d) + f x.
Proof.
  revert i. induction l as [|y r IH]; intros [|i] Hi; cbn [length] in Hi; try lia; cbn [upd_nth map zsum nth].
  - lia.
  - rewrite (IH i) by lia. lia.
Qed.

Lemma map_upd_same {A B} (f : A -> B) l i x d : (i < length l)%nat -> f x = f (nth i l d) ->
  map f (upd_nth i x l) = map f l.
Proof.
  revert i. induction l as [|y r IH]; intros [|i] Hi E; cbn [length] in Hi; try lia; cbn [upd_nth map nth] in *.
  - rewrite E. reflexivity.
  - f_equal. apply IH; [lia|exact E].
Qed.

Lemma zsum_ge_nth {A} (f : A -> Z) l i d : Forall (fun x => 0 <= f x) l -> (i < length l)%nat ->
  f (nth i l d) <= zsum (map f l).
Proof.
  intros H. revert i. induction H as [|y r Hy Hr IH]; intros [|i] Hi; cbn [length] in Hi; try lia; cbn [map zsum nth].
  - assert (0 <= zsum (map f r)) by (clear - Hr; induction Hr; cbn; lia). lia.
  - specialize (IH i ltac:(lia)). lia.
Qed.

Lemma on_acct_ok s i f s' : on_acct s i f = Ok s' ->
  (i < length (s_accts s))%nat /\ exists a', f (get_acct s i) = Ok a' /\ s' = set_acct s i a'.
Proof.
  unfold on_acct. destruct (Nat.ltb i (length (s_accts s))) eqn:Hi; [apply Nat.ltb_lt in Hi|discriminate].
  destruct (f (get_acct s i)) as [a'| |]; cbn [bind]; try discriminate. intros H. inversion H. eauto.
Qed.

(* writing one account back (and the module balance accordingly) keeps the invariant *)
Lemma inv_set s i a' m :
  Inv s -> (i < length (s_accts s))%nat -> wf_acct a' ->
  m = s_mod s - outstanding1 (get_acct s i) + outstanding1 a' ->
  Inv (mkS (s_p s) (s_l s) m (upd_nth i a' (s_accts s))).
Proof.
  intros (Hp & Hl & Ha & Hm) Hi Hw ->. unfold Inv, custody in *. cbn [s_p s_l s_mod s_accts].
  splits; auto.
  - apply upd_nth_Forall; auto.
  - rewrite (zsum_upd outstanding1 _ _ _ dflt_acct Hi). unfold get_acct. lia.
Qed.

(* the ghost "initial wallet" of every account, and the number of accounts, never change *)
Definition same_ghost (s s' : state) : Prop := map g_usdc0 (s_accts s') = map g_usdc0 (s_accts s).

Lemma same_ghost_set s i a' m p l :
  (i < length (s_accts s))%nat -> g_usdc0 a' = g_usdc0 (get_acct s i) ->
  same_ghost s (mkS p l m (upd_nth i a' (s_accts s))).
Proof. intros Hi E. unfold same_ghost. cbn [s_accts]. apply (map_upd_same _ _ _ _ dflt_acct Hi E). Qed.

Lemma step_inv s o s' : Inv s -> step s o = Ok s' -> Inv s' /\ same_ghost s s'.
Proof.
  intros HI H. pose proof HI as (Hp & Hl & Ha & Hm).
  destruct o as [i h amt|i h|i d amt|i amt|n mx f|b|i h amt|n mx f]; cbn [step step_gen] in H.
  - (* vest *)
    apply on_acct_ok in H. destruct H as (Hi & a' & V & ->).
    pose proof (nth_Forall _ _ i dflt_acct Ha Hi) as Hwa. fold (get_acct s i) in Hwa.
    destruct Hp as (Hn & Hmx & Hf).
    destruct (vest_inv _ _ _ _ _ Hwa Hn V) as (W & _ & _ & _ & _ & _ & _ & O1 & G).
    split; [apply inv_set; auto; lia | apply same_ghost_set; auto].
  - (* claim *)
    destruct (on_acct s i (claim_gen true h)) as [s1| |] eqn:OA; cbn [bind] in H; try discriminate.
    apply on_acct_ok in OA. destruct OA as (Hi & a' & V & ->).
    pose proof (nth_Forall _ _ i dflt_acct Ha Hi) as Hwa. fold (get_acct s i) in Hwa.
    destruct (claim_inv h _ Hwa) as (a'' & Hc & W & _ & _ & _ & _ & _ & _ & _ & O1 & G & _).
    unfold claim in Hc. rewrite Hc in V. inversion V; subst a''; clear V.
    unfold guard in H. destruct (_ <=? s_mod s); [|discriminate]. inversion H; subst; clear H.
    assert (GS : get_acct (set_acct s i a') i = a') by (unfold get_acct, set_acct; cbn [s_accts]; apply nth_upd_nth; exact Hi).
    rewrite GS. unfold set_mod, set_acct. cbn [s_p s_l s_mod s_accts].
    split; [apply inv_set; auto; lia | apply same_ghost_set; auto].
  - (* cancel *)
    apply on_acct_ok in H. destruct H as (Hi & a' & V & ->).
    pose proof (nth_Forall _ _ i dflt_acct Ha Hi) as Hwa. fold (get_acct s i) in Hwa.
    destruct (cancel_inv _ _ _ _ Hwa V) as (W & _ & _ & _ & _ & _ & O1 & _ & _ & G & _).
    split; [apply inv_set; auto; lia | apply same_ghost_set; auto].
  - (* vest-now *)
    apply on_acct_ok in H. destruct H as (Hi & a' & V & ->).
    pose proof (nth_Forall _ _ i dflt_acct Ha Hi) as Hwa. fold (get_acct s i) in Hwa.
    destruct Hp as (Hn & Hmx & Hf).
    destruct (vest_now_inv _ _ _ _ Hwa Hf V) as (W & Evs & _ & _ & _ & _ & G).
    split; [apply inv_set; auto; unfold outstanding1; rewrite Evs; lia | apply same_ghost_set; auto].
  - (* governance: the ueden info *)
    unfold gov_update, guard in H.
    destruct ((0 <=? n) && (0 <=? mx) && (0 <? f)) eqn:G; cbn [bind] in H; [|discriminate].
    inversion H; subst; clear H.
    apply andb_prop in G. destruct G as [G Gf]. apply andb_prop in G. destruct G as [Gn Gm].
    apply Z.leb_le in Gn, Gm. apply Z.ltb_lt in Gf.
    split; [|reflexivity]. unfold Inv, wf_params, custody. cbn. splits; auto.
  - inversion H; subst; clear H. destruct Hp as (?&?&?).
    split; [|reflexivity]. unfold Inv, wf_params, custody. cbn. splits; auto.
  - (* vest-liquid *)
    destruct (on_acct s i (vest_liquid h amt (s_l s))) as [s1| |] eqn:OA; cbn [bind] in H; try discriminate.
    apply on_acct_ok in OA. destruct OA as (Hi & a' & V & ->). inversion H; subst; clear H.
    pose proof (nth_Forall _ _ i dflt_acct Ha Hi) as Hwa. fold (get_acct s i) in Hwa.
    assert (Hl' : match s_l s with Some x => 0 <= l_num x | None => True end).
    { unfold wf_linfo in Hl. destruct (s_l s); [tauto|exact I]. }
    destruct (vest_liquid_inv _ _ _ _ _ Hwa Hl' V) as (W & _ & _ & _ & _ & _ & _ & O1 & G & _).
    unfold set_mod, set_acct. cbn [s_p s_l s_mod s_accts].
    split; [apply inv_set; auto; lia | apply same_ghost_set; auto].
  - (* governance: the liquid info *)
    unfold gov_update_l, guard in H.
    destruct ((0 <=? n) && (0 <=? mx) && (0 <? f)) eqn:G; cbn [bind] in H; [|discriminate].
    inversion H; subst; clear H.
    apply andb_prop in G. destruct G as [G Gf]. apply andb_prop in G. destruct G as [Gn Gm].
    apply Z.leb_le in Gn, Gm.
    split; [|reflexivity]. unfold Inv, wf_linfo, custody. cbn. splits; auto.
Qed.

Lemma exec_inv s o : Inv s -> Inv (exec s o) /\ same_ghost s (exec s o).
Proof.
  intros H. unfold exec, run_tx. destruct (step s o) as [s'| |] eqn:E; try (split; [assumption|reflexivity]).
  apply (step_inv _ _ _ H E).
Qed.

Theorem run_inv ops : forall s, Inv s -> Inv (run s ops) /\ same_ghost s (run s ops).
Proof.
  induction ops as [|o r IH]; intros s H; cbn [run fold_left]; [split; [exact H|reflexivity]|].
  destruct (exec_inv s o H) as [H1 G1]. destruct (IH _ H1) as [H2 G2]. split; [exact H2|].
  unfold same_ghost in *. unfold run in G2. congruence.
Qed.

(* ---------- the property-level statements ---------- *)

(* initial states used by the harness: every account has some claimable Eden and wallet, no vesting *)
Definition init_ok (x : Z * Z * Z) : Prop := let '(e, _, u) := x in 0 <= e /\ 0 <= u.

Lemma init_inv p l : wf_params p -> Forall init_ok l -> Inv (init_state p l).
Proof.
  intros Hp Hl. unfold Inv, custody. cbn [init_state s_p s_l s_mod s_accts wf_linfo]. splits; auto.
  - induction Hl as [|[[e y] u] r [He Hu] _ IH]; cbn [map]; constructor; auto.
    unfold wf_acct, init_acct, outstanding, outstanding1; cbn. splits; auto; lia.
  - clear. induction l as [|[[e y] u] r IH]; cbn [map zsum]; [reflexivity|]. rewrite <- IH. reflexivity.
Qed.

Lemma init_ghost p l : map g_usdc0 (s_accts (init_state p l)) = map (fun '(_, _, u) => u) l.
Proof. cbn [init_state s_accts]. induction l as [|[[e y] u] r IH]; cbn [map]; [reflexivity|]. f_equal. exact IH. Qed.

(* conservation per denom, for every account after every history:
   Eden put into vesting = ELYS released + Eden returned + still outstanding (ELYS schedules);
   liquid coins put into vesting = released + still outstanding (liquid schedules);
   wallet + still outstanding = the initial wallet; the module holds exactly what all liquid schedules still owe *)
Theorem conservation p l ops i :
  wf_params p -> Forall init_ok l ->
  let s := run (init_state p l) ops in
  (i < length (s_accts s))%nat ->
  let a := get_acct s i in
  g_in a = g_released a + g_returned a + outstanding a /\
  g_in1 a = g_released1 a + outstanding1 a /\
  a_usdc a + outstanding1 a = nth i (map (fun '(_, _, u) => u) l) 0 /\ 0 <= a_usdc a /\
  Forall (fun v => 0 <= v_claimed v < v_total v) (a_vs a) /\
  s_mod s = zsum (map outstanding1 (s_accts s)) /\
  length (s_accts s) = length l.
Proof.
  intros Hp Hl s Hi a.
  destruct (run_inv ops _ (init_inv p l Hp Hl)) as [(_ & _ & Ha & Hm) G]. fold s in Ha, Hm, G.
  pose proof (nth_Forall _ _ i dflt_acct Ha Hi) as (Hvs & _ & Hu & Hc & Hc1 & Hw & _). fold (get_acct s i) in Hvs, Hu, Hc, Hc1, Hw.
  unfold same_ghost in G. rewrite init_ghost in G.
  splits; auto.
  - fold a in Hw. rewrite Hw. rewrite <- G. unfold a, get_acct.
    change 0 with (g_usdc0 dflt_acct). rewrite map_nth. reflexivity.
  - eapply Forall_impl; [|exact Hvs]. intros v [H _]. exact H.
  - rewrite <- (map_length g_usdc0), G, map_length. reflexivity.
Qed.

(* claiming always succeeds in every reachable state, whatever governance configured (zero-block schedules
   included): the module always holds the liquid coins the claim pays; each wallet receives exactly the drop of
   what is outstanding in the schedules of ITS denom *)
Theorem claim_succeeds p l ops i h :
  wf_params p -> Forall init_ok l ->
  let s := run (init_state p l) ops in
  (i < length (s_accts s))%nat ->
  exists s', step s (OClaim i h) = Ok s' /\
    0 <= a_elys (get_acct s' i) - a_elys (get_acct s i) /\
    a_elys (get_acct s' i) - a_elys (get_acct s i) = outstanding (get_acct s i) - outstanding (get_acct s' i) /\
    0 <= a_usdc (get_acct s' i) - a_usdc (get_acct s i) /\
    a_usdc (get_acct s' i) - a_usdc (get_acct s i) = outstanding1 (get_acct s i) - outstanding1 (get_acct s' i) /\
    s_mod s' = s_mod s - (a_usdc (get_acct s' i) - a_usdc (get_acct s i)).
Proof.
  intros Hp Hl s Hi.
  destruct (run_inv ops _ (init_inv p l Hp Hl)) as [(_ & _ & Ha & Hm) _]. fold s in Ha, Hm.
  pose proof (nth_Forall _ _ i dflt_acct Ha Hi) as Hwa. fold (get_acct s i) in Hwa.
  destruct (claim_inv h _ Hwa) as (a' & Hc & W & _ & _ & Hpos & _ & Hout & Hpos1 & _ & Hout1 & _).
  cbn [step step_gen]. unfold on_acct. pose proof Hi as Hi'. apply Nat.ltb_lt in Hi'. rewrite Hi'.
  unfold claim in Hc. rewrite Hc. cbn [bind].
  assert (G : get_acct (set_acct s i a') i = a') by (unfold get_acct, set_acct; cbn [s_accts]; apply nth_upd_nth; exact Hi).
  rewrite G.
  (* the module holds at least what this account's liquid schedules still owe *)
  assert (Hge : outstanding1 (get_acct s i) <= s_mod s).
  { rewrite Hm. unfold custody, get_acct. apply zsum_ge_nth; [|exact Hi].
    eapply Forall_impl; [|exact Ha]. intros x (Hx & _). apply out_d_nonneg. exact Hx. }
  assert (0 <= outstanding1 a') by (destruct W as (Hx & _); apply out_d_nonneg; exact Hx).
  unfold guard. destruct (a_usdc a' - a_usdc (get_acct s i) <=? s_mod s) eqn:E; [|apply Z.leb_gt in E; lia].
  eexists. split; [reflexivity|].
  assert (G' : get_acct (set_mod (set_acct s i a') (s_mod s - (a_usdc a' - a_usdc (get_acct s i)))) i = a') by exact G.
  rewrite G'. cbn [set_mod s_mod]. splits; auto.
Qed.

(* once every schedule of the account has elapsed, one claim releases everything outstanding, each denom to its wallet *)
Theorem complete_at_end a h :
  wf_acct a -> Forall (fun v => v_num v <= h - v_start v) (a_vs a) ->
  exists a', claim h a = Ok a' /\ a_vs a' = [] /\
    a_elys a' = a_elys a + outstanding a /\ a_usdc a' = a_usdc a + outstanding1 a.
Proof.
  intros W F. destruct (claim_inv h a W) as (a' & Hc & _ & _ & _ & _ & _ & _ & _ & _ & _ & _ & Hend).
  exists a'. split; auto.
Qed.

(* a claim pays each denom its own: ELYS wallet += newly vested of the ELYS entries, liquid wallet += newly
   vested of the liquid entries; nothing of one denom is ever paid in the other. For ANY account state. *)
Theorem claim_pays_each_denom h a a' :
  claim h a = Ok a' ->
  a_elys a' - a_elys a = zsum (map (newly h) (filter is0 (a_vs a))) /\
  a_usdc a' - a_usdc a = zsum (map (newly h) (filter non0 (a_vs a))) /\
  a_eden a' = a_eden a.
Proof.
  unfold claim, claim_gen. intros H.
  destruct (claim_loop true h (a_vs a)) as [[[c0 c1] vs']| |] eqn:L; cbn [bind] in H; try discriminate.
  destruct (claim_loop_pays _ _ _ _ _ L) as [-> ->]. inversion H; subst; clear H.
  cbn [a_elys a_usdc a_eden]. splits; lia.
Qed.

(* the pre-fix code: claim - cancel - claim panics (the defect repaired by the fix: commit); a liquid schedule
   of another denom sits in front of the ELYS schedule *)
Definition refute_ops : list op :=
  [OGovL 50 10 1; OVestLiquid 0 9 300; OVest 0 10 900; OClaim 0 60; OCancel 0 0 400; OClaim 0 61].
Definition refute_init : state := init_state (mkP 100 10 90 false) [(1000, 0, 500)].

Lemma prefix_refuted :
  let s := fold_left exec_prefix (firstn 5 refute_ops) refute_init in
  Inv s /\ Live s /\ step_prefix s (OClaim 0 61) = Panic P_negcoin.
Proof.
  vm_compute. splits; try lia; repeat constructor; cbn; try lia; try discriminate.
Qed.
