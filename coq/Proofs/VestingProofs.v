(* Proofs about Models/Vesting.v (C14). *)
From Coq Require Import ZArith List Bool Lia.
From Elys Require Import Base.Res Models.Vesting.
Import ListNotations.
Open Scope Z_scope.

(* ---------- arithmetic of the schedule ---------- *)

Lemma quot_le_total t e n : 0 <= t -> 0 < n -> e <= n -> Z.quot (t * e) n <= t.
Proof.
  intros Ht Hn He.
  destruct (Z_lt_le_dec (t * e) 0) as [Hneg|Hpos].
  - assert (Z.quot (t * e) n <= 0).
    { replace (t * e) with (- (- (t * e))) by lia. rewrite Z.quot_opp_l by lia.
      assert (0 <= Z.quot (- (t * e)) n) by (apply Z.quot_pos; lia). lia. }
    lia.
  - rewrite Z.quot_div_nonneg by lia.
    apply Z.div_le_upper_bound; nia.
Qed.

Lemma quot_full t n : 0 < n -> Z.quot (t * n) n = t.
Proof. intros Hn. apply Z.quot_mul; lia. Qed.

Lemma quot_mono t e1 e2 n : 0 <= t -> 0 < n -> 0 <= e1 <= e2 ->
  Z.quot (t * e1) n <= Z.quot (t * e2) n.
Proof.
  intros Ht Hn He. rewrite !Z.quot_div_nonneg by nia.
  apply Z.div_le_mono; nia.
Qed.

(* ---------- well-formed entries ---------- *)

Definition wf_entry (v : ventry) : Prop := 0 <= v_claimed v < v_total v /\ 0 <= v_num v.
Definition live_entry (v : ventry) : Prop := wf_entry v /\ 0 < v_num v.

Lemma vested_ok v h : 0 < v_num v -> exists x, vested_so_far v h = Ok x.
Proof.
  intros Hn. unfold vested_so_far.
  destruct (v_num v <=? 0) eqn:E; eauto.
Qed.

Lemma vested_le_total v h x : wf_entry v -> vested_so_far v h = Ok x -> x <= v_total v.
Proof.
  intros [[Hc Ht] Hn] H. unfold vested_so_far in H.
  destruct (v_num v <=? 0) eqn:E; [inversion H; lia|]. apply Z.leb_gt in E.
  inversion H; subst; clear H.
  destruct (v_num v <? h - v_start v) eqn:L.
  - rewrite quot_full by lia. lia.
  - apply Z.ltb_ge in L. apply quot_le_total; lia.
Qed.

(* a zero-block schedule (governance may set NumBlocks = 0) is released in full by the first claim *)
Lemma claim_entry_zero h v : wf_entry v -> v_num v = 0 ->
  claim_entry true h v = Ok (v_total v - v_claimed v, mkV (v_total v) (v_total v) (v_start v) (v_num v)).
Proof.
  intros [[Hc Ht] _] Hz. unfold claim_entry, vested_so_far. rewrite Hz. cbn [Z.leb Z.compare bind].
  destruct (v_total v <? v_claimed v) eqn:L; [apply Z.ltb_lt in L; lia|]. reflexivity.
Qed.

(* since fix: 3c63217 VestedSoFar cannot fail, so the clamped claim of ANY entry succeeds *)
Lemma claim_entry_total h v : exists r, claim_entry true h v = Ok r.
Proof.
  unfold claim_entry, vested_so_far. destruct (v_num v <=? 0); cbn [bind].
  - destruct (v_total v <? v_claimed v); eauto.
  - match goal with |- context [if ?b then _ else _] => destruct b end; eauto.
Qed.

Lemma claim_loop_total h vs : exists r, claim_loop true h vs = Ok r.
Proof.
  induction vs as [|v r IH]; cbn [claim_loop]; [eauto|].
  destruct (claim_entry_total h v) as [[c v'] ->]. cbn [bind]. destruct IH as [[cr r'] ->]. cbn [bind]. eauto.
Qed.

Lemma claim_total h a : exists a', claim h a = Ok a'.
Proof. unfold claim, claim_gen. destruct (claim_loop_total h (a_vs a)) as [[c vs'] ->]. cbn [bind]. eauto. Qed.

(* the clamped claim of one entry: never fails on a live entry, never decreases claimed, never
   exceeds total, follows the linear schedule, complete at the end *)
Lemma claim_entry_spec h v :
  live_entry v ->
  exists c v', claim_entry true h v = Ok (c, v') /\
    0 <= c /\
    v_claimed v' = v_claimed v + c /\
    v_claimed v <= v_claimed v' <= v_total v /\
    v_total v' = v_total v /\ v_start v' = v_start v /\ v_num v' = v_num v /\
    (* linear block schedule *)
    v_claimed v' = Z.max (v_claimed v)
        (Z.quot (v_total v * Z.min (h - v_start v) (v_num v)) (v_num v)) /\
    (* schedule elapsed => everything released *)
    (v_num v <= h - v_start v -> v_claimed v' = v_total v).
Proof.
  intros [Hwf Hn]. pose proof Hwf as [[Hc Ht] _].
  unfold claim_entry.
  destruct (vested_ok v h Hn) as [x Hx]. rewrite Hx. cbn [bind].
  pose proof (vested_le_total v h x Hwf Hx) as Hle.
  assert (Hxe : x = Z.quot (v_total v * Z.min (h - v_start v) (v_num v)) (v_num v)).
  { unfold vested_so_far in Hx. destruct (v_num v <=? 0) eqn:E0; [apply Z.leb_le in E0; lia|].
    inversion Hx. destruct (v_num v <? h - v_start v) eqn:L.
    - apply Z.ltb_lt in L. rewrite Z.min_r by lia. reflexivity.
    - apply Z.ltb_ge in L. rewrite Z.min_l by lia. reflexivity. }
  destruct (x <? v_claimed v) eqn:L.
  - apply Z.ltb_lt in L. exists 0, v. repeat split; try lia.
    intros Hend. exfalso. rewrite Z.min_r in Hxe by lia. rewrite quot_full in Hxe by lia. lia.
  - apply Z.ltb_ge in L. eexists _, _. split; [reflexivity|]. cbn.
    repeat split; try lia.
    intros Hend. rewrite Z.min_r in Hxe by lia. rewrite quot_full in Hxe by lia. lia.
Qed.

(* ---------- the claim loop ---------- *)

Definition out_of (vs : list ventry) : Z := zsum (map (fun v => v_total v - v_claimed v) vs).

Lemma claim_loop_spec h vs :
  Forall live_entry vs ->
  exists c vs', claim_loop true h vs = Ok (c, vs') /\
    0 <= c /\ Forall live_entry vs' /\ out_of vs = out_of vs' + c /\
    (length vs' <= length vs)%nat /\
    (* after the end of every schedule nothing is left *)
    (Forall (fun v => v_num v <= h - v_start v) vs -> vs' = [] /\ c = out_of vs).
Proof.
  induction vs as [|v r IH]; intros Hall.
  - exists 0, []. cbn. repeat split; auto; lia.
  - inversion Hall as [|? ? Hv Hr]; subst.
    destruct (claim_entry_spec h v Hv) as (c & v' & Hce & Hc0 & Hcl & Hrange & Ht & Hs & Hn & _ & Hend).
    destruct (IH Hr) as (cr & r' & Hlr & Hcr0 & Hr' & Hout & Hlen & Hendr).
    cbn [claim_loop]. rewrite Hce. cbn [bind]. rewrite Hlr. cbn [bind].
    eexists _, _. split; [reflexivity|].
    unfold out_of in *. cbn [map zsum].
    destruct (v_claimed v' =? v_total v') eqn:E.
    + apply Z.eqb_eq in E.
      split; [lia|]. split; [assumption|]. split; [lia|]. split; [cbn [length]; lia|].
      intros Hf. inversion Hf as [|? ? Hfv Hfr]; subst. destruct (Hendr Hfr) as [-> ->].
      split; [reflexivity|]. cbn. lia.
    + apply Z.eqb_neq in E.
      split; [lia|]. split.
      { constructor; auto. destruct Hv as [[[? ?] ?] ?]. repeat split; lia. }
      split; [cbn [map zsum]; lia|]. split; [cbn [length]; lia|].
      intros Hf. inversion Hf as [|? ? Hfv Hfr]; subst. exfalso. apply E. rewrite Ht. apply Hend. assumption.
Qed.

(* ---------- the cancel loop ---------- *)

Definition weak_entry (v : ventry) : Prop := 0 <= v_claimed v <= v_total v /\ 0 <= v_num v.

Lemma cancel_loop_spec l : forall rem,
  0 <= rem -> Forall wf_entry l ->
  let '(rem', l') := cancel_loop rem l in
  0 <= rem' <= rem /\ Forall weak_entry l' /\ out_of l = out_of l' + (rem - rem') /\
  length l' = length l /\
  Forall2 (fun v v' => v_claimed v' = v_claimed v /\ v_start v' = v_start v /\ v_num v' = v_num v
                       /\ v_total v' <= v_total v) l l'.
Proof.
  induction l as [|v r IH]; intros rem Hrem Hall; cbn [cancel_loop].
  - repeat split; auto; lia.
  - inversion Hall as [|? ? Hv Hr]; subst. destruct Hv as [[Hc Ht] Hn].
    destruct ((v_num v =? 0) || (v_total v =? 0)) eqn:Skip.
    + specialize (IH rem Hrem Hr). destruct (cancel_loop rem r) as [rem' r'].
      destruct IH as (A & B & C & D & F). unfold out_of in *. cbn [map zsum length].
      repeat split; auto; try lia.
      * constructor; auto. unfold weak_entry; lia.
      * constructor; auto. repeat split; lia.
    + set (c := Z.min rem (v_total v - v_claimed v)).
      assert (0 <= c <= rem) by (unfold c; lia).
      assert (c <= v_total v - v_claimed v) by (unfold c; lia).
      specialize (IH (rem - c) ltac:(lia) Hr). destruct (cancel_loop (rem - c) r) as [rem' r'].
      destruct IH as (A & B & C & D & F). unfold out_of in *. cbn [map zsum length].
      repeat split; auto; try lia.
      * constructor; auto. unfold weak_entry; cbn; lia.
      * cbn. lia.
      * constructor; auto. cbn. repeat split; lia.
Qed.

Lemma out_of_app a b : out_of (a ++ b) = out_of a + out_of b.
Proof. unfold out_of. induction a; cbn [app map zsum]; lia. Qed.

Lemma out_of_single v : out_of [v] = v_total v - v_claimed v.
Proof. unfold out_of. cbn. lia. Qed.

Lemma out_of_rev a : out_of (rev a) = out_of a.
Proof. induction a; cbn [rev]; [reflexivity|]. rewrite out_of_app, IHa. unfold out_of. cbn. lia. Qed.

Lemma filter_weak vs :
  Forall weak_entry vs ->
  let vs' := filter (fun v => negb (v_total v <=? v_claimed v)) vs in
  Forall wf_entry vs' /\ out_of vs' = out_of vs.
Proof.
  induction vs as [|v r IH]; intros Hall; cbn [filter].
  - split; [constructor|reflexivity].
  - inversion Hall as [|? ? Hv Hr]; subst. destruct (IH Hr) as [A B]. destruct Hv as [[Hc Ht] Hn].
    destruct (v_total v <=? v_claimed v) eqn:E; cbn [negb].
    + apply Z.leb_le in E. split; auto. unfold out_of in *. cbn [map zsum]. cbn in B. lia.
    + apply Z.leb_gt in E. split.
      * constructor; auto. unfold wf_entry; lia.
      * unfold out_of in *. cbn [map zsum]. cbn in B. lia.
Qed.

Lemma Forall_rev' {A} (P : A -> Prop) l : Forall P l -> Forall P (rev l).
Proof. intros H. apply Forall_forall. intros x Hx. apply in_rev in Hx. rewrite Forall_forall in H. auto. Qed.

(* ---------- account invariant ---------- *)

Definition wf_acct (a : acct) : Prop :=
  Forall wf_entry (a_vs a) /\ 0 <= a_eden a /\
  g_in a = g_released a + g_returned a + outstanding a /\
  0 <= g_released a /\ 0 <= g_returned a.

Definition live_acct (a : acct) : Prop := Forall (fun v => 0 < v_num v) (a_vs a).

Lemma outstanding_out a : outstanding a = out_of (a_vs a).
Proof. reflexivity. Qed.

Lemma live_entries a : wf_acct a -> live_acct a -> Forall live_entry (a_vs a).
Proof.
  intros (H & _) L. unfold live_acct in L. apply Forall_forall. intros v Hv.
  rewrite Forall_forall in H, L. split; auto.
Qed.

Lemma live_wf vs : Forall live_entry vs -> Forall wf_entry vs.
Proof. apply Forall_impl. intros v [H _]. exact H. Qed.

Lemma live_num vs : Forall live_entry vs -> Forall (fun v => 0 < v_num v) vs.
Proof. apply Forall_impl. intros v [_ H]. exact H. Qed.

Lemma vest_inv h amt p a a' :
  wf_acct a -> 0 <= p_num p -> vest h amt p a = Ok a' ->
  wf_acct a' /\ (0 < p_num p -> live_acct a -> live_acct a') /\
  a_eden a' = a_eden a - amt /\ a_elys a' = a_elys a /\ g_in a' = g_in a + amt.
Proof.
  intros (Hvs & He & Hcons & Hr & Hret) Hp H. unfold vest, guard in H.
  destruct (0 <? amt) eqn:A; [|discriminate]. apply Z.ltb_lt in A.
  destruct (negb _); [|discriminate].
  destruct (amt <=? a_eden a) eqn:B; [|discriminate]. apply Z.leb_le in B.
  inversion H; subst; clear H.
  unfold wf_acct, live_acct. rewrite !outstanding_out in *.
  cbn [a_vs a_eden a_elys g_in g_released g_returned].
  rewrite out_of_app, out_of_single. cbn [v_total v_claimed].
  split; [|split; [|lia]].
  - split; [|lia].
    apply Forall_app. split; auto. constructor; [|constructor]. unfold wf_entry; cbn; lia.
  - intros Hn L. apply Forall_app. split; auto.
Qed.

Lemma claim_inv h a :
  wf_acct a -> live_acct a ->
  exists a', claim h a = Ok a' /\ wf_acct a' /\ live_acct a' /\
    a_eden a' = a_eden a /\
    0 <= a_elys a' - a_elys a /\
    a_elys a' - a_elys a = g_released a' - g_released a /\
    a_elys a' - a_elys a = outstanding a - outstanding a' /\
    (Forall (fun v => v_num v <= h - v_start v) (a_vs a) ->
       a_vs a' = [] /\ a_elys a' = a_elys a + outstanding a).
Proof.
  intros Hwf L. pose proof (live_entries a Hwf L) as Hl.
  destruct Hwf as (Hvs & He & Hcons & Hr & Hret).
  destruct (claim_loop_spec h (a_vs a) Hl) as (c & vs' & Hc & Hc0 & Hl' & Hout & Hlen & Hend).
  unfold claim, claim_gen. rewrite Hc. cbn [bind].
  eexists. split; [reflexivity|]. unfold wf_acct, live_acct. rewrite !outstanding_out in *.
  cbn [a_vs a_eden a_elys g_in g_released g_returned].
  split; [|split; [|split; [|split; [|split; [|split]]]]]; try lia.
  - split; [apply live_wf; assumption|]. lia.
  - apply live_num; assumption.
  - intros Hf. apply Hend in Hf. destruct Hf as [-> ->]. split; [reflexivity|lia].
Qed.

Lemma cancel_inv amt a a' :
  wf_acct a -> cancel amt a = Ok a' ->
  wf_acct a' /\ (live_acct a -> live_acct a') /\
  a_eden a' = a_eden a + amt /\ a_elys a' = a_elys a /\
  outstanding a' = outstanding a - amt /\ g_returned a' = g_returned a + amt /\
  g_released a' = g_released a.
Proof.
  intros (Hvs & He & Hcons & Hr & Hret) H. unfold cancel, guard in H.
  destruct (0 <? amt) eqn:A; [|discriminate]. apply Z.ltb_lt in A.
  pose proof (cancel_loop_spec (rev (a_vs a)) amt ltac:(lia) (Forall_rev' _ _ Hvs)) as S.
  destruct (cancel_loop amt (rev (a_vs a))) as [rem rvs].
  destruct S as (Hrem & Hweak & Hout & Hlen & Hf2).
  destruct (rem =? 0) eqn:R; [|discriminate]. apply Z.eqb_eq in R. subst rem.
  inversion H; subst; clear H.
  destruct (filter_weak (rev rvs) (Forall_rev' _ _ Hweak)) as [Fw Fo].
  rewrite out_of_rev in Hout. unfold wf_acct, live_acct, outstanding in *. cbn.
  fold (out_of (a_vs a)) in *.
  match goal with |- context [filter ?f ?l] => fold (out_of (filter f l)) end.
  rewrite Fo, out_of_rev.
  repeat split; try lia; auto.
  intros L. apply Forall_forall. intros v Hv. apply filter_In in Hv. destruct Hv as [Hv _].
  apply in_rev in Hv.
  assert (Hn : Forall (fun v => 0 < v_num v) rvs).
  { clear - Hf2 L. apply Forall_rev' in L. revert Hf2 L. generalize (rev (a_vs a)) as l.
    intros l Hf2. induction Hf2 as [|x y l l' Hxy _ IH]; intros L; [constructor|].
    inversion L; subst. constructor; auto. destruct Hxy as (_ & _ & Hn & _). lia. }
  rewrite Forall_forall in Hn. auto.
Qed.

Lemma vest_now_inv amt p a a' :
  wf_acct a -> 0 < p_factor p -> vest_now amt p a = Ok a' ->
  wf_acct a' /\ a_vs a' = a_vs a /\
  a_eden a' = a_eden a - amt /\ a_elys a' = a_elys a + Z.quot amt (p_factor p) /\
  0 <= Z.quot amt (p_factor p) <= amt.
Proof.
  intros (Hvs & He & Hcons & Hr & Hret) Hf H. unfold vest_now, guard in H.
  destruct (0 <? amt) eqn:A; [|discriminate]. apply Z.ltb_lt in A.
  destruct (p_now p); [|discriminate].
  destruct (amt <=? a_eden a) eqn:B; [|discriminate]. apply Z.leb_le in B.
  destruct (negb (p_factor p =? 0)); [|discriminate].
  inversion H; subst; clear H. unfold wf_acct, outstanding in *. cbn.
  repeat split; try lia; auto.
  - apply Z.quot_pos; lia.
  - rewrite Z.quot_div_nonneg by lia. apply Z.div_le_upper_bound; nia.
Qed.

(* ---------- state invariant over all histories ---------- *)

Definition wf_params (p : params) : Prop := 0 <= p_num p /\ 0 <= p_max p /\ 0 < p_factor p.

Definition Inv (s : state) : Prop := wf_params (s_p s) /\ Forall wf_acct (s_accts s).
(* governance never configured a zero-length schedule: then every entry is live *)
Definition Live (s : state) : Prop := 0 < p_num (s_p s) /\ Forall live_acct (s_accts s).

Lemma nth_Forall {A} (P : A -> Prop) l i d : Forall P l -> (i < length l)%nat -> P (nth i l d).
Proof. intros H Hi. rewrite Forall_forall in H. apply H. apply nth_In. assumption. Qed.

Lemma upd_nth_Forall {A} (P : A -> Prop) l i x : Forall P l -> P x -> Forall P (upd_nth i x l).
Proof.
  revert i. induction l as [|y r IH]; intros i H Hx; [destruct i; cbn; constructor|].
  inversion H; subst. destruct i; cbn; constructor; auto.
Qed.

Lemma upd_nth_length {A} l i (x : A) : length (upd_nth i x l) = length l.
Proof. revert i; induction l; intros [|i]; cbn; auto. Qed.

Definition gov_ok (o : op) : Prop := match o with OGov n _ _ => 0 < n | _ => True end.

Lemma step_inv s o s' : Inv s -> step s o = Ok s' -> Inv s' /\ (gov_ok o -> Live s -> Live s').
Proof.
  intros [Hp Ha] H. destruct o as [i h amt|i h|i amt|i amt|n mx f|b]; cbn in H.
  all: try (unfold on_acct in H;
    destruct (Nat.ltb i (length (s_accts s))) eqn:Hi; [apply Nat.ltb_lt in Hi|discriminate];
    pose proof (nth_Forall _ _ i dflt_acct Ha Hi) as Hwa; fold (get_acct s i) in Hwa).
  - destruct (vest h amt (s_p s) (get_acct s i)) as [a'| |] eqn:V; cbn in H; try discriminate.
    inversion H; subst; clear H. destruct Hp as (Hn & Hm & Hf).
    destruct (vest_inv _ _ _ _ _ Hwa Hn V) as (W & Lv & _).
    split; [split; [cbn; unfold wf_params; auto | cbn; apply upd_nth_Forall; auto]|].
    intros _ [Ln La]. split; [exact Ln|]. cbn. apply upd_nth_Forall; auto.
    apply Lv; auto. apply (nth_Forall _ _ i dflt_acct La Hi).
  - destruct (claim_gen true h (get_acct s i)) as [a'| |] eqn:V; cbn in H; try discriminate.
    inversion H; subst; clear H.
    (* without liveness we still need wf preserved: go through the loop lemma only when live;
       in general use the weaker direct argument below *)
    split.
    + split; [exact Hp|]. cbn. apply upd_nth_Forall; auto.
      (* wf preservation of claim without assuming live entries *)
      clear - Hwa V. unfold claim_gen in V.
      destruct (claim_loop true h (a_vs (get_acct s i))) as [[c vs']| |] eqn:L; cbn in V; try discriminate.
      inversion V; subst; clear V.
      destruct Hwa as (Hvs & He & Hcons & Hr & Hret).
      assert (G : forall vs c vs', Forall wf_entry vs -> claim_loop true h vs = Ok (c, vs') ->
                  0 <= c /\ Forall wf_entry vs' /\ out_of vs = out_of vs' + c).
      { clear. induction vs as [|v r IH]; intros c vs' Hall Hl; cbn in Hl.
        - inversion Hl; subst. repeat split; auto; lia.
        - inversion Hall as [|? ? Hv Hr]; subst.
          destruct (claim_entry true h v) as [[c1 v1]| |] eqn:CE; cbn in Hl; try discriminate.
          destruct (claim_loop true h r) as [[c2 r2]| |] eqn:CL; cbn in Hl; try discriminate.
          inversion Hl; subst; clear Hl.
          destruct (IH _ _ Hr eq_refl) as (A & B & C).
          destruct (Z.eq_dec (v_num v) 0) as [Hz|Hnz].
          { (* zero-block schedule: released in full, the entry is dropped *)
            rewrite (claim_entry_zero h v Hv Hz) in CE. inversion CE; subst; clear CE.
            unfold out_of in *. cbn [map zsum v_claimed v_total]. rewrite Z.eqb_refl.
            destruct Hv as [[? ?] ?]. repeat split; auto; lia. }
          assert (Hn : 0 < v_num v) by (destruct Hv as [_ ?]; lia).
          destruct (claim_entry_spec h v (conj Hv Hn)) as (c & v' & Hce & Hc0 & Hcl & Hrange & Ht & Hs & Hnn & _).
          rewrite Hce in CE. inversion CE; subst; clear CE.
          unfold out_of in *. cbn [map zsum].
          destruct (v_claimed v1 =? v_total v1) eqn:E.
          + apply Z.eqb_eq in E. repeat split; auto; lia.
          + apply Z.eqb_neq in E. repeat split; auto; try lia.
            * constructor; auto. destruct Hv as [[? ?] ?]. unfold wf_entry. lia.
            * cbn [map zsum]. lia. }
      destruct (G _ _ _ Hvs L) as (A & B & C).
      unfold wf_acct, outstanding in *. cbn. fold (out_of vs'). fold (out_of (a_vs (get_acct s i))) in Hcons.
      repeat split; auto; lia.
    + intros _ [Ln La]. split; [exact Ln|]. cbn. apply upd_nth_Forall; auto.
      pose proof (nth_Forall _ _ i dflt_acct La Hi) as Hla. fold (get_acct s i) in Hla.
      destruct (claim_inv h _ Hwa Hla) as (a'' & Hc & _ & Hl'' & _).
      unfold claim in Hc. rewrite Hc in V. inversion V; subst. assumption.
  - destruct (cancel amt (get_acct s i)) as [a'| |] eqn:V; cbn in H; try discriminate.
    inversion H; subst; clear H.
    destruct (cancel_inv _ _ _ Hwa V) as (W & Lv & _).
    split; [split; [exact Hp | cbn; apply upd_nth_Forall; auto]|].
    intros _ [Ln La]. split; [exact Ln|]. cbn. apply upd_nth_Forall; auto.
    apply Lv. apply (nth_Forall _ _ i dflt_acct La Hi).
  - destruct (vest_now amt (s_p s) (get_acct s i)) as [a'| |] eqn:V; cbn in H; try discriminate.
    inversion H; subst; clear H. destruct Hp as (Hn & Hm & Hf).
    destruct (vest_now_inv _ _ _ _ Hwa Hf V) as (W & Evs & _).
    split; [split; [cbn; unfold wf_params; auto | cbn; apply upd_nth_Forall; auto]|].
    intros _ [Ln La]. split; [exact Ln|]. cbn. apply upd_nth_Forall; auto.
    unfold live_acct. rewrite Evs. apply (nth_Forall _ _ i dflt_acct La Hi).
  - unfold gov_update, guard in H.
    destruct ((0 <=? n) && (0 <=? mx) && (0 <? f)) eqn:G; cbn in H; [|discriminate].
    inversion H; subst; clear H.
    apply andb_prop in G. destruct G as [G Gf]. apply andb_prop in G. destruct G as [Gn Gm].
    apply Z.leb_le in Gn, Gm. apply Z.ltb_lt in Gf.
    split; [split; [cbn; unfold wf_params; cbn; auto | exact Ha]|].
    intros Hg [_ La]. split; [cbn; exact Hg | exact La].
  - inversion H; subst; clear H.
    split; [split; [destruct Hp as (?&?&?); cbn; unfold wf_params; cbn; auto | exact Ha]|].
    intros _ [Ln La]. split; [cbn; exact Ln | exact La].
Qed.

Lemma exec_inv s o : Inv s -> Inv (exec s o) /\ (gov_ok o -> Live s -> Live (exec s o)).
Proof.
  intros H. unfold exec, run_tx. destruct (step s o) as [s'| |] eqn:E; auto.
  apply (step_inv _ _ _ H E).
Qed.

Theorem run_inv ops : forall s, Inv s -> Inv (run s ops).
Proof.
  induction ops as [|o r IH]; intros s H; cbn; [exact H|].
  apply IH. apply exec_inv; assumption.
Qed.

Theorem run_live ops : forall s, Inv s -> Live s -> Forall gov_ok ops -> Live (run s ops).
Proof.
  induction ops as [|o r IH]; intros s H L G; cbn; [exact L|].
  inversion G; subst. apply IH; auto.
  - apply exec_inv; assumption.
  - apply exec_inv; assumption.
Qed.

(* ---------- the property-level statements ---------- *)

(* initial states used by the harness: every account has some claimable Eden, no vesting *)

Lemma init_inv p l : wf_params p -> Forall (fun '(e, _) => 0 <= e) l -> Inv (init_state p l).
Proof.
  intros Hp Hl. split; [exact Hp|]. cbn. induction Hl as [|[e y] r He _ IH]; cbn; constructor; auto.
  unfold wf_acct, init_acct, outstanding; cbn. repeat split; auto; lia.
Qed.

Lemma init_live p l : 0 < p_num p -> Live (init_state p l).
Proof.
  intros Hp. split; [exact Hp|]. cbn. induction l as [|[e y] r IH]; cbn; constructor; auto.
  constructor.
Qed.

(* conservation: Eden put into vesting = ELYS released + Eden returned + still outstanding,
   for every account after every history *)
Theorem conservation p l ops i :
  wf_params p -> Forall (fun '(e, _) => 0 <= e) l ->
  let s := run (init_state p l) ops in
  (i < length (s_accts s))%nat ->
  let a := get_acct s i in
  g_in a = g_released a + g_returned a + outstanding a /\
  Forall (fun v => 0 <= v_claimed v < v_total v) (a_vs a).
Proof.
  intros Hp Hl s Hi a.
  destruct (run_inv ops _ (init_inv p l Hp Hl)) as [_ Ha].
  pose proof (nth_Forall _ _ i dflt_acct Ha Hi) as (Hvs & _ & Hc & _). fold s in Hvs, Hc.
  split; [exact Hc|]. eapply Forall_impl; [|exact Hvs]. intros v [H _]. exact H.
Qed.

(* claiming always succeeds in every reachable state (as long as governance never configured a
   zero-length schedule), releases a non-negative amount and keeps the books *)
Theorem claim_succeeds p l ops i h :
  wf_params p -> 0 < p_num p -> Forall (fun '(e, _) => 0 <= e) l -> Forall gov_ok ops ->
  let s := run (init_state p l) ops in
  (i < length (s_accts s))%nat ->
  exists s', step s (OClaim i h) = Ok s' /\
    0 <= a_elys (get_acct s' i) - a_elys (get_acct s i) /\
    a_elys (get_acct s' i) - a_elys (get_acct s i) = outstanding (get_acct s i) - outstanding (get_acct s' i).
Proof.
  intros Hp Hn Hl Hg s Hi.
  pose proof (run_inv ops _ (init_inv p l Hp Hl)) as [Hp' Ha].
  pose proof (run_live ops _ (init_inv p l Hp Hl) (init_live p l Hn) Hg) as [_ La].
  fold s in Ha, La.
  pose proof (nth_Forall _ _ i dflt_acct Ha Hi) as Hwa.
  pose proof (nth_Forall _ _ i dflt_acct La Hi) as Hla.
  destruct (claim_inv h _ Hwa Hla) as (a' & Hc & _ & _ & _ & Hpos & _ & Hout & _).
  cbn [step step_gen]. unfold on_acct. apply Nat.ltb_lt in Hi. rewrite Hi.
  unfold claim in Hc. change (get_acct s i) with (nth i (s_accts s) dflt_acct). rewrite Hc. cbn [bind].
  eexists. split; [reflexivity|].
  assert (G : get_acct (set_acct s i a') i = a').
  { unfold get_acct, set_acct. cbn. apply Nat.ltb_lt in Hi. clear - Hi.
    revert i Hi. induction (s_accts s) as [|x r IH]; intros [|i] Hi; cbn in *; try lia; auto.
    apply IH. lia. }
  rewrite G. split; assumption.
Qed.

(* once every schedule of the account has elapsed, one claim releases everything outstanding *)
Theorem complete_at_end a h :
  wf_acct a -> live_acct a -> Forall (fun v => v_num v <= h - v_start v) (a_vs a) ->
  exists a', claim h a = Ok a' /\ a_vs a' = [] /\ a_elys a' = a_elys a + outstanding a.
Proof.
  intros W L F. destruct (claim_inv h a W L) as (a' & Hc & _ & _ & _ & _ & _ & _ & Hend).
  exists a'. split; auto.
Qed.

(* the pre-fix code: claim - cancel - claim panics (the defect repaired by the fix: commit) *)
Definition refute_ops : list op :=
  [OVest 0 10 900; OClaim 0 60; OCancel 0 400; OClaim 0 61].
Definition refute_init : state := init_state (mkP 100 10 90 false) [(1000, 0)].

Lemma prefix_refuted :
  let s := fold_left exec_prefix (firstn 3 refute_ops) refute_init in
  Inv s /\ Live s /\ step_prefix s (OClaim 0 61) = Panic P_negcoin.
Proof.
  cbn. repeat split; try lia; repeat constructor; cbn; try lia.
Qed.
