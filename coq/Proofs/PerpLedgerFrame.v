(* C09, exactness and frame of the perpetual aggregates: a step moves the acting MTP's field and the pool's aggregate of
   THAT field by the same amount and nothing else; no other MTP's amounts move; over every history an MTP no step names
   keeps every field. Model: Models/PerpLedger.v. *)
From Coq Require Import ZArith List Bool Arith Lia.
From Elys Require Import Base.Res Base.Fn Models.SumLedger Models.PerpLedger.
Import ListNotations.
Open Scope Z_scope.

Definition mtp_of (o : pop) : nat := match o with PNew k | PDelta k _ _ | PDel k => k end.

Lemma pstep_exact fields s o s' : pstep fields s o = Ok s' ->
  match o with
  | PDelta k f d =>
      pp s' f k = pp s f k + d /\ agg s' f = agg s f + d /\ 0 <= pp s' f k /\
      (forall f', f' <> f -> agg s' f' = agg s f') /\
      (forall f' k', (f' <> f \/ k' <> k) -> pp s' f' k' = pp s f' k') /\ cnt s' = cnt s /\ live s' = live s
  | PNew k => (forall f, agg s' f = agg s f) /\ (forall f k', pp s' f k' = pp s f k') /\ cnt s' = cnt s + 1
  | PDel k => (forall f, agg s' f = agg s f) /\ (forall f k', pp s' f k' = pp s f k') /\ cnt s' = cnt s - 1 /\
              (forall f, In f fields -> pp s f k = 0)
  end.
Proof.
  destruct o as [k|k f d|k]; cbn [pstep]; intros E.
  - destruct (mem_key k (live s)); [discriminate|]. inversion E; subst. cbn. repeat split.
  - destruct (negb (mem_key k (live s)) || negb (mem_key f fields)); [discriminate|].
    destruct (pp s f k + d <? 0) eqn:N; [discriminate|]. apply Z.ltb_ge in N. inversion E; subst. cbn.
    rewrite upd2_same, upd_same. repeat split; try lia.
    + intros f' Hf. apply upd_other. exact Hf.
    + intros f' k' H. apply upd2_other. exact H.
  - destruct (negb (mem_key k (live s))); [discriminate|].
    destruct (forallb (fun f => pp s f k =? 0) fields) eqn:F; cbn [negb] in E; [|discriminate].
    inversion E; subst. cbn. repeat split.
    intros f Hf. rewrite forallb_forall in F. apply Z.eqb_eq. exact (F f Hf).
Qed.

Lemma pstep_other_mtps fields s o s' : pstep fields s o = Ok s' ->
  forall k', k' <> mtp_of o -> forall f, pp s' f k' = pp s f k'.
Proof.
  intros E k' Hk f. pose proof (pstep_exact fields s o s' E) as X. destruct o as [k|k f0 d|k]; cbn [mtp_of] in Hk.
  - destruct X as (_ & X & _). apply X.
  - destruct X as (_ & _ & _ & _ & X & _). apply X. right. exact Hk.
  - destruct X as (_ & X & _). apply X.
Qed.

Lemma psteps_other_mtps fields l : forall s s', psteps fields s l = Ok s' ->
  forall k', (forall o, In o l -> mtp_of o <> k') -> forall f, pp s' f k' = pp s f k'.
Proof.
  induction l as [|o r IH]; intros s s' E k' Hk f.
  - cbn in E. inversion E; subst. reflexivity.
  - cbn [psteps] in E. destruct (pstep fields s o) as [s1| |] eqn:E1; cbn [bind] in E; try discriminate.
    rewrite (IH _ _ E k' (fun o' Ho' => Hk o' (or_intror Ho')) f).
    apply (pstep_other_mtps _ _ _ _ E1). intros ->. exact (Hk o (or_introl eq_refl) eq_refl).
Qed.

Lemma prun_other_mtps fields h : forall s k', (forall l o, In l h -> In o l -> mtp_of o <> k') ->
  forall f, pp (prun fields s h) f k' = pp s f k'.
Proof.
  induction h as [|l r IH]; intros s k' Hk f; [reflexivity|].
  unfold prun. cbn [fold_left]. fold (prun fields (ptx fields s l) r).
  rewrite (IH (ptx fields s l) k' (fun l' o Hl Ho => Hk l' o (or_intror Hl) Ho) f).
  unfold ptx, run_tx. destruct (psteps fields s l) as [s1| |] eqn:E; try reflexivity.
  exact (psteps_other_mtps _ _ _ _ E k' (fun o Ho => Hk l o (or_introl eq_refl) Ho) f).
Qed.

(* a transaction one of whose steps fails leaves aggregates, positions and counter as they were *)
Lemma ptx_failed_unchanged fields s l : (forall s', psteps fields s l <> Ok s') -> ptx fields s l = s.
Proof.
  intros H. unfold ptx, run_tx. destruct (psteps fields s l) as [s'| |] eqn:E; [exfalso; exact (H s' eq_refl)|reflexivity|reflexivity].
Qed.

(* an MTP's field cannot be taken below zero: the step is refused *)
Lemma pdelta_below_zero_refused fields s k f d : pp s f k + d < 0 -> pstep fields s (PDelta k f d) = Err E_p.
Proof.
  intros H. cbn [pstep]. destruct (negb (mem_key k (live s)) || negb (mem_key f fields)); [reflexivity|].
  assert (L : (pp s f k + d <? 0) = true) by (apply Z.ltb_lt; exact H). rewrite L. reflexivity.
Qed.
