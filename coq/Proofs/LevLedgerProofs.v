From Coq Require Import ZArith List Bool Arith Lia.
From Elys Require Import Base.Res Base.Fn Models.SumLedger Proofs.SumLedgerProofs Models.LevLedger.
Import ListNotations.
Open Scope Z_scope.

Definition LInv (s : lev) : Prop :=
  SInv (l_sl s) /\
  (forall k, In k (keys (l_sl s)) -> l_comm s k = parts (l_sl s) k /\ 0 < parts (l_sl s) k) /\
  (forall k, ~ In k (keys (l_sl s)) -> l_comm s k = 0 /\ parts (l_sl s) k = 0).

Lemma lstep_inv s o s' : LInv s -> 0 < (match o with LOpen _ a | LClose _ a => a end) -> lstep s o = Ok s' -> LInv s'.
Proof.
  intros (HS & HK & HN) Hpos H. destruct o as [k a|k a]; cbn [lstep] in H.
  - destruct (mem_key k (keys (l_sl s))) eqn:M.
    + destruct (sstep (l_sl s) (SAdd k a)) as [t| |] eqn:E; cbn [bind] in H; try discriminate.
      inversion H; subst; clear H. pose proof (sstep_inv _ _ _ HS E) as HS'.
      cbn [sstep] in E. rewrite M in E. cbn in E. destruct (a <? 0); [discriminate|]. inversion E; subst; clear E.
      apply mem_key_In in M. split; [exact HS'|]. cbn [l_sl l_comm keys parts]. split.
      * intros x Hx. destruct (Nat.eq_dec x k) as [->|Ne].
        -- rewrite !upd_same. destruct (HK k M). lia.
        -- rewrite !upd_other by exact Ne. apply HK. exact Hx.
      * intros x Hx. assert (x <> k) by (intros ->; contradiction).
        rewrite !upd_other by assumption. apply HN. exact Hx.
    + destruct (sstep (l_sl s) (SNew k a)) as [t| |] eqn:E; cbn [bind] in H; try discriminate.
      inversion H; subst; clear H. pose proof (sstep_inv _ _ _ HS E) as HS'.
      cbn [sstep] in E. rewrite M in E. destruct (a <? 0); [discriminate|]. inversion E; subst; clear E.
      assert (Hn : ~ In k (keys (l_sl s))) by (intros Hin; apply mem_key_In in Hin; congruence).
      split; [exact HS'|]. cbn [l_sl l_comm keys parts]. split.
      * intros x [Ex|Hx].
        -- subst x. rewrite !upd_same. destruct (HN k Hn) as [-> _]. lia.
        -- assert (x <> k) by (intros ->; contradiction). rewrite !upd_other by assumption. apply HK. exact Hx.
      * intros x Hx. assert (x <> k) by (intros ->; apply Hx; left; reflexivity).
        rewrite !upd_other by assumption. apply HN. intros Hin. apply Hx. right. exact Hin.
  - destruct (l_comm s k <? a) eqn:C; [discriminate|]. apply Z.ltb_ge in C.
    destruct (sstep (l_sl s) (SSub k a)) as [t| |] eqn:E; cbn [bind] in H; try discriminate.
    pose proof (sstep_inv _ _ _ HS E) as HSt.
    cbn [sstep] in E. destruct (mem_key k (keys (l_sl s))) eqn:M; cbn in E; [|discriminate].
    destruct ((a <? 0) || (parts (l_sl s) k <? a)) eqn:A; [discriminate|].
    apply orb_false_elim in A. destruct A as [A1 A2]. apply Z.ltb_ge in A1, A2. apply mem_key_In in M.
    inversion E; subst; clear E. cbn [parts keys] in *. rewrite upd_same in H.
    destruct (parts (l_sl s) k - a =? 0) eqn:Z0.
    + apply Z.eqb_eq in Z0.
      match type of H with (do t' <- ?X; _) = _ => destruct X as [t'| |] eqn:E' end; cbn [bind] in H; try discriminate.
      inversion H; subst; clear H. pose proof (sstep_inv _ _ _ HSt E') as HS'.
      destruct (sdel_gone _ _ _ HSt E') as [Gone _].
      cbn [sstep] in E'. cbn [keys parts] in E'.
      destruct (mem_key k (keys (l_sl s))) eqn:M'; cbn in E'; [|discriminate].
      rewrite upd_same in E'. destruct (parts (l_sl s) k - a =? 0); cbn in E'; [|discriminate].
      inversion E'; subst; clear E'. cbn [keys] in Gone.
      destruct HS as (ND & _). destruct (remove_key_spec k (keys (l_sl s)) ND M) as (_ & B & _ & _).
      split; [exact HS'|]. cbn [l_sl l_comm keys parts]. split.
      * intros x Hx. apply B in Hx. destruct Hx as [Hx Ne]. rewrite !upd_other by exact Ne. apply HK. exact Hx.
      * intros x Hx. destruct (Nat.eq_dec x k) as [->|Ne].
        -- rewrite !upd_same. destruct (HK k M). lia.
        -- rewrite !upd_other by exact Ne. apply HN. intros Hin. apply Hx. apply B. split; assumption.
    + apply Z.eqb_neq in Z0. cbn [bind] in H. inversion H; subst; clear H.
      split; [exact HSt|]. cbn [l_sl l_comm keys parts]. split.
      * intros x Hx. destruct (Nat.eq_dec x k) as [->|Ne].
        -- rewrite !upd_same. destruct (HK k M). lia.
        -- rewrite !upd_other by exact Ne. apply HK. exact Hx.
      * intros x Hx. assert (x <> k) by (intros ->; contradiction).
        rewrite !upd_other by assumption. apply HN. exact Hx.
Qed.

Definition pos_amt (o : lop) : Z := match o with LOpen _ a | LClose _ a => a end.

Theorem lrun_inv h : forall s, LInv s -> Forall (fun o => 0 < pos_amt o) h -> LInv (lrun s h).
Proof.
  induction h as [|o r IH]; intros s HI Hf; cbn; [exact HI|]. inversion Hf; subst.
  apply IH; [|assumption]. unfold lexec, run_tx. destruct (lstep s o) as [s'| |] eqn:E; auto.
  eapply lstep_inv; eauto.
Qed.

Lemma lev_empty_inv : LInv lev_empty.
Proof.
  split; [apply sl_empty_inv|]. split; cbn.
  - intros k [].
  - intros k _. split; reflexivity.
Qed.

(* the property-level reading of LInv *)
Theorem lev_totals h : Forall (fun o => 0 < pos_amt o) h ->
  let s := lrun lev_empty h in
  total (l_sl s) = sumf (parts (l_sl s)) (keys (l_sl s)) /\
  count (l_sl s) = Z.of_nat (length (keys (l_sl s))) /\
  (forall k, In k (keys (l_sl s)) -> l_comm s k = parts (l_sl s) k) /\
  (forall k, ~ In k (keys (l_sl s)) -> l_comm s k = 0).
Proof.
  intros Hf s. destruct (lrun_inv h lev_empty lev_empty_inv Hf) as ((_ & HT & HC & _) & HK & HN).
  repeat split; auto.
  - intros k Hk. apply (HK k Hk).
  - intros k Hk. apply (HN k Hk).
Qed.

(* pre-fix: the failed liquidation that kept the exit's effects breaks position = committed *)
Lemma prefix_partial_close_refuted :
  let s := lrun lev_empty [LOpen 0 100] in
  LInv s /\ let s' := lclose_partial_failure s 0 100 in
  In 0%nat (keys (l_sl s')) /\ l_comm s' 0%nat <> parts (l_sl s') 0%nat.
Proof.
  split.
  - apply lrun_inv; [apply lev_empty_inv|]. repeat constructor.
  - cbn. split; [left; reflexivity|discriminate].
Qed.
