(* Proofs for Models/PerpBacking.v: reserve >= total custody per asset at every transaction / block boundary. *)
From Coq Require Import ZArith List Bool Arith Lia.
From Elys Require Import Base.Res Base.Fn Base.Zdec Models.PerpBacking.
Import ListNotations.
Open Scope Z_scope.

(* GetFundingDistributionValue with start block = current block returns zero on every branch *)
Lemma fdv_now fs cur : fdv fs cur cur = (0, 0).
Proof.
  unfold fdv. rewrite Z.eqb_refl. cbn [negb]. rewrite andb_false_r.
  destruct (fs_has fs cur); reflexivity.
Qed.

(* so the funding distribution adds nothing to any custody *)
Lemma fund_dist_zero sd fs cur share price : fund_dist sd fs cur share price = 0.
Proof.
  unfold fund_dist. rewrite fdv_now. destruct sd; cbn [Z.eqb]; rewrite orb_true_r; reflexivity.
Qed.

Section B.
Variable assets : list nat.

Definition Inv (s : bst) : Prop := forall d, In d assets -> tcu s d <= rsv s d.

(* the slack (reserve - total custody) of no asset went down *)
Definition le_slack (s s' : bst) : Prop := forall d, rsv s d - tcu s d <= rsv s' d - tcu s' d.

Lemma le_slack_refl s : le_slack s s.
Proof. intros d. lia. Qed.
Lemma le_slack_trans a b c : le_slack a b -> le_slack b c -> le_slack a c.
Proof. intros H1 H2 d. specialize (H1 d). specialize (H2 d). lia. Qed.
Lemma le_slack_inv s s' : Inv s -> le_slack s s' -> Inv s'.
Proof. intros HI HS d Hd. specialize (HI d Hd). specialize (HS d). lia. Qed.

Lemma backed_b_inv s : backed_b assets s = true -> Inv s.
Proof.
  unfold backed_b, Inv. intros H d Hd. rewrite forallb_forall in H. specialize (H d Hd). apply Z.leb_le in H. exact H.
Qed.
Lemma inv_backed_b s : Inv s -> backed_b assets s = true.
Proof.
  unfold backed_b, Inv. intros H. apply forallb_forall. intros d Hd. apply Z.leb_le. auto.
Qed.

Lemma mrun_app s a b : mrun assets s (a ++ b) = (do s1 <- mrun assets s a; mrun assets s1 b).
Proof.
  revert s. induction a as [|m r IH]; intros s; cbn; [reflexivity|].
  destruct (mstep assets s m); cbn; auto.
Qed.

Lemma mstep_check s hl s' : mstep assets s (MCheck hl) = Ok s' -> s' = s /\ Inv s.
Proof.
  cbn. destruct hl; [discriminate|]. destruct (backed_b assets s) eqn:E; [|discriminate].
  intros H. inversion H; subst. split; [reflexivity|apply backed_b_inv; exact E].
Qed.

(* whatever happened before: a unit that ends with the check and succeeds leaves a backed state *)
Lemma mrun_check_end l s hl s' : mrun assets s (l ++ [MCheck hl]) = Ok s' -> Inv s'.
Proof.
  rewrite mrun_app. destruct (mrun assets s l) as [s1| |]; cbn [bind mrun]; try discriminate.
  destruct (mstep assets s1 (MCheck hl)) as [s2| |] eqn:E; cbn [bind]; try discriminate.
  intros H. inversion H; subst. apply mstep_check in E. destruct E as [-> HI]. exact HI.
Qed.

(* pointwise reading of the state after single moves *)
Ltac slack_tac :=
  let d0 := fresh "d0" in
  intros d0; unfold tcu, set_cu, cu, upd in *; cbn [rsv lcu scu lco sli] in *;
  repeat match goal with
  | |- context [Nat.eqb ?a ?b] => destruct (Nat.eqb_spec a b); subst
  | s : side |- _ => destruct s; cbn [rsv lcu scu lco sli] in *
  | |- context [match ?x with Long => _ | Short => _ end] => destruct x; cbn [rsv lcu scu lco sli] in *
  end; lia.

Lemma mstep_in s d a s' : mstep assets s (MIn d a) = Ok s' -> le_slack s s'.
Proof.
  cbn. destruct (a <? 0) eqn:E; [discriminate|]. apply Z.ltb_ge in E. intros H. inversion H; subst. slack_tac.
Qed.
Lemma mstep_cust_down s sd d a s' : a <= 0 -> mstep assets s (MCust sd d a) = Ok s' -> le_slack s s'.
Proof. intros Ha. cbn. intros H. inversion H; subst. slack_tac. Qed.
Lemma mstep_coll s d a s' : mstep assets s (MColl d a) = Ok s' -> le_slack s s'.
Proof. cbn. intros H. inversion H; subst. slack_tac. Qed.
Lemma mstep_sliab s d a s' : mstep assets s (MSLiab d a) = Ok s' -> le_slack s s'.
Proof. cbn. intros H. inversion H; subst. slack_tac. Qed.
Lemma mstep_guard s b s' : mstep assets s (MGuard b) = Ok s' -> s' = s /\ b = true.
Proof. cbn. destruct b; [|discriminate]. intros H. inversion H. auto. Qed.
Lemma mstep_funddist s sd d fs cur share price s' :
  mstep assets s (MFundDist sd d fs cur share price) = Ok s' -> le_slack s s'.
Proof.
  cbn. destruct (side_oi assets s sd =? 0); [discriminate|]. rewrite fund_dist_zero.
  intros H. inversion H; subst. slack_tac.
Qed.

(* a transfer out of the pool of at most what the custody of the same asset is reduced by *)
Lemma out_then_down s d a sd c s1 s2 :
  a <= c -> mstep assets s (MOut d a) = Ok s1 -> mstep assets s1 (MCust sd d (- c)) = Ok s2 -> le_slack s s2.
Proof.
  intros Hac. cbn. destruct (a <? 0); [discriminate|]. destruct (rsv s d - a <? 0); [discriminate|].
  intros H1 H2. inversion H1; subst. inversion H2; subst. slack_tac.
Qed.

(* interest + funding settlement of one position: the two transfers and the custody reduction cancel *)
Lemma settle_slack it s s' :
  mrun assets s (int_out it ++ fund_moves it) = Ok s' -> le_slack s s'.
Proof.
  unfold int_out, fund_moves. cbn [app mrun].
  destruct (mstep assets s (MOut (si_d it) (si_take it))) as [s1| |] eqn:E1; cbn [bind]; try discriminate.
  destruct (mstep assets s1 (MOut (si_d it) (si_rev it))) as [s2| |] eqn:E2; cbn [bind]; try discriminate.
  destruct (mstep assets s2 (MCust (si_side it) (si_d it) (- (si_take it + si_rev it)))) as [s3| |] eqn:E3; cbn [bind]; try discriminate.
  assert (H03 : le_slack s s3).
  { revert E1 E2 E3. cbn. destruct (si_take it <? 0); [discriminate|]. destruct (rsv s (si_d it) - si_take it <? 0); [discriminate|].
    intros E1. inversion E1; subst. cbn. destruct (si_rev it <? 0); [discriminate|].
    destruct (upd (rsv s) (si_d it) (rsv s (si_d it) - si_take it) (si_d it) - si_rev it <? 0); [discriminate|].
    intros E2. inversion E2; subst. intros E3. inversion E3; subst. slack_tac. }
  destruct (si_ftake it >? 0) eqn:EF; cbn [app mrun].
  - destruct (mstep assets s3 (MCust (si_side it) (si_d it) (- si_ftake it))) as [s4| |] eqn:E4; cbn [bind]; try discriminate.
    destruct (mstep assets s4 (MFundDist (si_side it) (si_d it) (si_fs it) (si_cur it) (si_share it) (si_price it))) as [s5| |] eqn:E5; cbn [bind]; try discriminate.
    intros H. inversion H; subst.
    apply Z.gtb_lt in EF.
    eapply le_slack_trans; [exact H03|]. eapply le_slack_trans; [eapply mstep_cust_down; [|exact E4]; lia|].
    eapply mstep_funddist; exact E5.
  - destruct (mstep assets s3 (MFundDist (si_side it) (si_d it) (si_fs it) (si_cur it) (si_share it) (si_price it))) as [s5| |] eqn:E5; cbn [bind]; try discriminate.
    intros H. inversion H; subst. eapply le_slack_trans; [exact H03|]. eapply mstep_funddist; exact E5.
Qed.

(* Repay: what leaves the pool is closing custody - repay amount, never more than the closing custody *)
Lemma repay_slack it s s' : mrun assets s (repay_moves it) = Ok s' -> le_slack s s'.
Proof.
  unfold repay_moves. destruct (si_close it) as [[cc rp]|]; [|cbn; intros H; inversion H; apply le_slack_refl].
  cbn [app mrun].
  destruct (mstep assets s (MGuard (negb ((cc <? 0) || (rp <? 0))))) as [s0| |] eqn:EG; cbn [bind]; try discriminate.
  apply mstep_guard in EG. destruct EG as [-> EG]. apply negb_true_iff in EG. apply orb_false_iff in EG.
  destruct EG as [Hcc Hrp]. apply Z.ltb_ge in Hcc. apply Z.ltb_ge in Hrp.
  set (ret := if cc <? rp then 0 else cc - rp).
  assert (Hret : ret <= cc) by (unfold ret; destruct (cc <? rp) eqn:E; [|apply Z.ltb_ge in E]; lia).
  assert (Htail : forall x x', mrun assets x
      (match si_side it with Long => [MColl (si_dcoll it) (- si_coll it)] | Short => [MSLiab (si_dliab it) (- si_liab it)] end) = Ok x' ->
      le_slack x x').
  { intros x x'. destruct (si_side it); cbn [mrun].
    - destruct (mstep assets x (MColl (si_dcoll it) (- si_coll it))) eqn:E; cbn [bind]; try discriminate.
      intros H; inversion H; subst. eapply mstep_coll; exact E.
    - destruct (mstep assets x (MSLiab (si_dliab it) (- si_liab it))) eqn:E; cbn [bind]; try discriminate.
      intros H; inversion H; subst. eapply mstep_sliab; exact E. }
  destruct (ret >? 0) eqn:ER; cbn [app mrun].
  - destruct (mstep assets s (MOut (si_d it) ret)) as [s1| |] eqn:E1; cbn [bind]; try discriminate.
    destruct (mstep assets s1 (MCust (si_side it) (si_d it) (- cc))) as [s2| |] eqn:E2; cbn [bind]; try discriminate.
    intros H. eapply le_slack_trans; [eapply out_then_down; [exact Hret|exact E1|exact E2]|]. apply Htail. exact H.
  - destruct (mstep assets s (MCust (si_side it) (si_d it) (- cc))) as [s2| |] eqn:E2; cbn [bind]; try discriminate.
    intros H. eapply le_slack_trans; [eapply mstep_cust_down; [|exact E2]; lia|]. apply Htail. exact H.
Qed.

Lemma item_moves_slack it s s' : mrun assets s (item_moves it) = Ok s' -> le_slack s s'.
Proof.
  unfold item_moves. rewrite mrun_app. destruct (si_settle it).
  - destruct (mrun assets s (int_out it ++ fund_moves it)) as [s1| |] eqn:E; cbn [bind]; try discriminate.
    intros H. eapply le_slack_trans; [eapply settle_slack; exact E|eapply repay_slack; exact H].
  - cbn [mrun bind]. apply repay_slack.
Qed.

(* every handler-level operation that succeeds keeps the pool backed *)
Lemma hstep_inv s h s' : Inv s -> hstep assets s h = Ok s' -> Inv s'.
Proof.
  intros HI. destruct h as [ds inner hl|sd dcoll coll dcust cust dliab liab cns hl0 hl1|it]; cbn [hstep hmoves].
  - destruct (mrun assets s (map amm_mv ds)) as [s1| |]; cbn [bind]; try discriminate.
    intros H. apply mstep_check in H. destruct H as [-> H]. exact H.
  - intros H.
    replace ([MCheck hl0; MIn dcoll coll; MCust sd dcust cust] ++
       match sd with Long => [MColl dcoll coll] | Short => [MSLiab dliab liab] end ++
       match cns with
       | Some (ftake, fs, cur, share, price) =>
           (if ftake >? 0 then [MCust sd dcust (- ftake)] else []) ++ [MFundDist sd dcust fs cur share price]
       | None => []
       end ++ [MCheck hl1])
      with (([MCheck hl0; MIn dcoll coll; MCust sd dcust cust] ++
       match sd with Long => [MColl dcoll coll] | Short => [MSLiab dliab liab] end ++
       match cns with
       | Some (ftake, fs, cur, share, price) =>
           (if ftake >? 0 then [MCust sd dcust (- ftake)] else []) ++ [MFundDist sd dcust fs cur share price]
       | None => []
       end) ++ [MCheck hl1]) in H by (rewrite <- !app_assoc; reflexivity).
    eapply mrun_check_end; exact H.
  - intros H. eapply le_slack_inv; [exact HI|]. eapply item_moves_slack; exact H.
Qed.

Lemma hrun_inv l : forall s s', Inv s -> hrun assets s l = Ok s' -> Inv s'.
Proof.
  induction l as [|h r IH]; intros s s' HI; cbn.
  - intros H; inversion H; subst; exact HI.
  - destruct (hstep assets s h) as [s1| |] eqn:E; cbn [bind]; try discriminate.
    intros H. eapply IH; [eapply hstep_inv; [exact HI|exact E]|exact H].
Qed.

Lemma utx_inv s l : Inv s -> Inv (run_tx (fun x => hrun assets x l) s).
Proof.
  intros HI. unfold run_tx. destruct (hrun assets s l) as [s1| |] eqn:E; auto. eapply hrun_inv; eauto.
Qed.

(* an all-or-nothing ClosePositions item keeps the pool backed *)
Lemma item_atomic_inv s it : Inv s -> Inv (item_atomic assets s it).
Proof.
  intros HI. unfold item_atomic, run_tx. destruct (mrun assets s (item_moves it)) as [s1| |] eqn:E; auto.
  eapply le_slack_inv; [exact HI|eapply item_moves_slack; exact E].
Qed.

Lemma mout_zero s d s' : mstep assets s (MOut d 0) = Ok s' -> le_slack s s'.
Proof.
  cbn. destruct (rsv s d - 0 <? 0); [discriminate|]. intros H. inversion H; subst. slack_tac.
Qed.

Lemma mout_nonneg s d a s' : mstep assets s (MOut d a) = Ok s' -> 0 <= a.
Proof. cbn. destruct (a <? 0) eqn:E; [discriminate|]. apply Z.ltb_ge in E. auto. Qed.

(* the item as coded keeps the pool backed unless it leaves a transfer behind *)
Lemma item_asis_inv s it : Inv s -> item_aborts assets s it = false -> Inv (item_asis assets s it).
Proof.
  intros HI. unfold item_aborts, item_asis. destruct (si_settle it); cbn [andb].
  - destruct (mstep assets s (MOut (si_d it) (si_take it))) as [s1| |] eqn:E1; auto.
    destruct (mstep assets s1 (MOut (si_d it) (si_rev it))) as [s2| |] eqn:E2.
    + destruct (mrun assets s2 (fund_moves it)) as [s3| |] eqn:E3; cbn [is_ok negb andb].
      * intros _.
        assert (H3 : le_slack s s3).
        { apply settle_slack with (it := it). unfold int_out. cbn [app mrun]. rewrite E1. cbn [bind]. rewrite E2. cbn [bind]. exact E3. }
        destruct (mrun assets s3 (repay_moves it)) as [s4| |] eqn:E4.
        -- eapply le_slack_inv; [exact HI|]. eapply le_slack_trans; [exact H3|eapply repay_slack; exact E4].
        -- eapply le_slack_inv; eauto.
        -- eapply le_slack_inv; eauto.
      * intros HA. pose proof (mout_nonneg _ _ _ _ E1). pose proof (mout_nonneg _ _ _ _ E2).
        assert (si_take it = 0 /\ si_rev it = 0) as [Hz0 Hz1].
        { destruct (si_take it + si_rev it >? 0) eqn:EP; [discriminate|]. rewrite Z.gtb_ltb in EP. apply Z.ltb_ge in EP. lia. }
        rewrite Hz0 in E1. rewrite Hz1 in E2. eapply le_slack_inv; [exact HI|].
        eapply le_slack_trans; eapply mout_zero; eauto.
      * intros HA. pose proof (mout_nonneg _ _ _ _ E1). pose proof (mout_nonneg _ _ _ _ E2).
        assert (si_take it = 0 /\ si_rev it = 0) as [Hz0 Hz1].
        { destruct (si_take it + si_rev it >? 0) eqn:EP; [discriminate|]. rewrite Z.gtb_ltb in EP. apply Z.ltb_ge in EP. lia. }
        rewrite Hz0 in E1. rewrite Hz1 in E2. eapply le_slack_inv; [exact HI|].
        eapply le_slack_trans; eapply mout_zero; eauto.
    + intros HA. pose proof (mout_nonneg _ _ _ _ E1). rewrite Z.gtb_ltb in HA. apply Z.ltb_ge in HA.
      assert (si_take it = 0) as Hz0 by lia. rewrite Hz0 in E1. eapply le_slack_inv; [exact HI|eapply mout_zero; eauto].
    + intros HA. pose proof (mout_nonneg _ _ _ _ E1). rewrite Z.gtb_ltb in HA. apply Z.ltb_ge in HA.
      assert (si_take it = 0) as Hz0 by lia. rewrite Hz0 in E1. eapply le_slack_inv; [exact HI|eapply mout_zero; eauto].
  - intros _. destruct (mrun assets s (repay_moves it)) as [s1| |] eqn:E; auto.
    eapply le_slack_inv; [exact HI|eapply repay_slack; exact E].
Qed.

Lemma items_atomic_inv l : forall s, Inv s -> Inv (fold_left (item_atomic assets) l s).
Proof. induction l as [|it r IH]; intros s HI; cbn; auto. apply IH. apply item_atomic_inv. exact HI. Qed.

Lemma items_asis_inv l : forall s, Inv s -> abort_free_items assets s l = true -> Inv (fold_left (item_asis assets) l s).
Proof.
  induction l as [|it r IH]; intros s HI; cbn; auto.
  intros H. apply andb_true_iff in H. destruct H as [H1 H2]. apply negb_true_iff in H1.
  apply IH; [apply item_asis_inv; assumption|exact H2].
Qed.

(* FULL THEOREM for the discipline in which every ClosePositions item is all-or-nothing *)
Theorem brun_atomic_inv h : forall s, Inv s -> Inv (brun item_atomic assets s h).
Proof.
  induction h as [|u r IH]; intros s HI; cbn; auto. apply IH.
  destruct u as [l|l]; cbn [ustep]; [apply utx_inv; exact HI|apply items_atomic_inv; exact HI].
Qed.

(* the code as it is: every history in which no ClosePositions item leaves a transfer behind *)
Theorem brun_asis_inv h : forall s, Inv s -> abort_free assets s h = true -> Inv (brun item_asis assets s h).
Proof.
  induction h as [|u r IH]; intros s HI; cbn; auto.
  intros H. apply andb_true_iff in H. destruct H as [H1 H2]. apply IH; [|exact H2].
  destruct u as [l|l]; cbn [ustep]; [apply utx_inv; exact HI|apply items_asis_inv; assumption].
Qed.

(* at every boundary of the history, not only at the end *)
Theorem brun_atomic_prefix h1 h2 s : Inv s -> Inv (brun item_atomic assets s h1) /\ Inv (brun item_atomic assets s (h1 ++ h2)).
Proof. intros HI. split; apply brun_atomic_inv; exact HI. Qed.

(* the second interest transfer cannot fail after the first in a backed state when the payment is at most the custody it is
   taken from (mtp_borrow_interest.go:56 clamps it to the MTP's custody, which is part of the side's aggregate) *)
Lemma second_transfer_cannot_fail s it s1 :
  Inv s -> In (si_d it) assets -> 0 <= scu s (si_d it) -> 0 <= lcu s (si_d it) ->
  si_take it + si_rev it <= cu s (si_side it) (si_d it) -> 0 <= si_rev it ->
  mstep assets s (MOut (si_d it) (si_take it)) = Ok s1 ->
  exists s2, mstep assets s1 (MOut (si_d it) (si_rev it)) = Ok s2.
Proof.
  intros HI Hd Hs Hl Hp Hr. cbn. destruct (si_take it <? 0); [discriminate|].
  destruct (rsv s (si_d it) - si_take it <? 0); [discriminate|]. intros H. inversion H; subst. cbn.
  destruct (si_rev it <? 0) eqn:E; [apply Z.ltb_lt in E; lia|]. rewrite upd_same.
  specialize (HI _ Hd). unfold tcu, cu in *.
  destruct (rsv s (si_d it) - si_take it - si_rev it <? 0) eqn:E2; [|eauto].
  apply Z.ltb_lt in E2. destruct (si_side it); lia.
Qed.

End B.

Lemma b_empty_inv assets : Inv assets b_empty.
Proof. intros d _. cbn. lia. Qed.

(* REFUTATION for the code as it is: join 7000 of asset 1; long with collateral 5000 and custody 6000 of asset 1; exit 6000
   (reserve = custody = 6000, accepted by the hook check); then one MsgClosePositions liquidation item whose interest (4 + 37)
   and funding take (959) bring the long custody down to the collateral: open interest 0, FundingFeeDistribution fails,
   the 41 stay transferred and the custody stays 6000 > reserve 5959. *)
Definition fs_none : fstore := mkFS (fun _ => false) (fun _ => 0) (fun _ => 0) 0.
Definition refute_item : sitem :=
  mkSI true Long 1%nat 4 37 959 fs_none 10 1000000000000000000 5000000000000000000 None 1%nat 0 0%nat 0.
Definition refute_history : list bunit :=
  [UTx [HAmm [(1%nat, 7000)] None false];
   UTx [HOpen Long 1%nat 5000 1%nat 6000 0%nat 0 None false false];
   UTx [HAmm [(1%nat, -6000)] None false];
   UClosePositions [refute_item]].

Lemma refuted_asis :
  let s := brun item_asis [0%nat; 1%nat] b_empty refute_history in
  tcu s 1%nat = 6000 /\ rsv s 1%nat = 5959.
Proof. vm_compute. split; reflexivity. Qed.

Lemma refuted_prefix_backed :
  backed_b [0%nat; 1%nat] (brun item_asis [0%nat; 1%nat] b_empty (firstn 3 refute_history)) = true.
Proof. vm_compute. reflexivity. Qed.

(* the same history with all-or-nothing items stays backed *)
Lemma refute_history_atomic_backed :
  backed_b [0%nat; 1%nat] (brun item_atomic [0%nat; 1%nat] b_empty refute_history) = true.
Proof. vm_compute. reflexivity. Qed.
