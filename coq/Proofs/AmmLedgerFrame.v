(* C01, what a step changes EXACTLY and what it must NOT change (frame), the empty chain, failed transactions.
   Model: Models/AmmLedger.v (level A). Proofs only; statements are restated in Props/C01.v. *)
From Coq Require Import ZArith List Bool Arith Lia.
From Elys Require Import Base.Res Base.Fn Models.AmmLedger Proofs.AmmLedgerProofs.
Import ListNotations.
Open Scope Z_scope.

Definition denom_of (o : aop) : nat := match o with AIn _ d _ | AOut _ d _ | ADonate _ d _ => d end.
Definition amt_of (o : aop) : Z := match o with AIn _ _ a | AOut _ _ a | ADonate _ _ a => a end.

(* the signed change of (book reserve, bank balance, liquidity record, donation ghost) a primitive step makes at its
   own (pool, denom) *)
Definition d_reserve (o : aop) : Z := match o with AIn _ _ a => a | AOut _ _ a => - a | ADonate _ _ _ => 0 end.
Definition d_bank (o : aop) : Z := match o with AIn _ _ a => a | AOut _ _ a => - a | ADonate _ _ a => a end.
Definition d_donated (o : aop) : Z := match o with ADonate _ _ a => a | _ => 0 end.

Definition amm_empty : amm := mkAmm (fun _ _ => 0) (fun _ _ => 0) (fun _ => 0) (fun _ _ => 0).

Lemma sumf_zero ks : sumf (fun _ => 0) ks = 0.
Proof. induction ks as [|k r IH]; cbn; [reflexivity|]. rewrite IH. reflexivity. Qed.

(* a chain without pools and without balances satisfies the invariant for every pool list *)
Lemma inv_empty ps : Inv ps amm_empty.
Proof.
  split.
  - intros p d. cbn. lia.
  - intros d. cbn. rewrite sumf_zero. reflexivity.
Qed.

Lemma astep_ok_amount s o s' : astep s o = Ok s' -> 0 <= amt_of o.
Proof.
  destruct o as [p d a|p d a|p d a]; cbn [astep amt_of]; unfold guard;
    destruct (0 <=? a) eqn:E; try discriminate; intros _; apply Z.leb_le; exact E.
Qed.

(* EXACT effect at the step's own (pool, denom) *)
Lemma astep_exact s o s' : astep s o = Ok s' ->
  reserve s' (pool_of o) (denom_of o) = reserve s (pool_of o) (denom_of o) + d_reserve o /\
  pbank s' (pool_of o) (denom_of o) = pbank s (pool_of o) (denom_of o) + d_bank o /\
  liq s' (denom_of o) = liq s (denom_of o) + d_reserve o /\
  donated s' (pool_of o) (denom_of o) = donated s (pool_of o) (denom_of o) + d_donated o.
Proof.
  destruct o as [p d a|p d a|p d a]; cbn [astep pool_of denom_of d_reserve d_bank d_donated]; unfold guard;
    destruct (0 <=? a); try discriminate.
  - cbn. intros H. inversion H; subst; clear H. cbn. rewrite !upd2_same, upd_same. lia.
  - unfold bank_out. destruct (pbank s p d <? a); [discriminate|]. cbn [bind].
    unfold remove_book. cbn [reserve pbank liq donated].
    destruct (reserve s p d - a <? 0); [discriminate|]. destruct (liq s d <? a); [discriminate|].
    intros H. inversion H; subst; clear H. cbn. rewrite !upd2_same, upd_same. lia.
  - cbn. intros H. inversion H; subst; clear H. cbn. rewrite !upd2_same. lia.
Qed.

(* FRAME: nothing else moves - no other pool, no other denom of the same pool, no other liquidity record *)
Lemma astep_frame s o s' : astep s o = Ok s' ->
  (forall p d, (p <> pool_of o \/ d <> denom_of o) ->
     reserve s' p d = reserve s p d /\ pbank s' p d = pbank s p d /\ donated s' p d = donated s p d) /\
  (forall d, d <> denom_of o -> liq s' d = liq s d).
Proof.
  destruct o as [p0 d0 a|p0 d0 a|p0 d0 a]; cbn [astep pool_of denom_of]; unfold guard;
    destruct (0 <=? a); try discriminate.
  - cbn. intros H. inversion H; subst; clear H. cbn. split.
    + intros p d Hne. rewrite !upd2_other by exact Hne. repeat split.
    + intros d Hne. rewrite upd_other by exact Hne. reflexivity.
  - unfold bank_out. destruct (pbank s p0 d0 <? a); [discriminate|]. cbn [bind].
    unfold remove_book. cbn [reserve pbank liq donated].
    destruct (reserve s p0 d0 - a <? 0); [discriminate|]. destruct (liq s d0 <? a); [discriminate|].
    intros H. inversion H; subst; clear H. cbn. split.
    + intros p d Hne. rewrite !upd2_other by exact Hne. repeat split.
    + intros d Hne. rewrite upd_other by exact Hne. reflexivity.
  - cbn. intros H. inversion H; subst; clear H. cbn. split.
    + intros p d Hne. rewrite !upd2_other by exact Hne. repeat split.
    + intros d Hne. reflexivity.
Qed.

(* a payout can take neither the book reserve nor the bank balance nor the liquidity record below zero: it is refused *)
Lemma aout_refused s p d a :
  (reserve s p d < a \/ pbank s p d < a \/ liq s d < a) -> exists c, astep s (AOut p d a) = Err c.
Proof.
  intros H. cbn [astep]. unfold guard. destruct (0 <=? a); [|eexists; reflexivity].
  unfold bank_out. destruct (pbank s p d <? a) eqn:E1; [eexists; reflexivity|]. cbn [bind].
  unfold remove_book. cbn [reserve pbank liq donated].
  destruct (reserve s p d - a <? 0) eqn:E2; [eexists; reflexivity|].
  destruct (liq s d <? a) eqn:E3; [eexists; reflexivity|].
  apply Z.ltb_ge in E1, E2, E3. lia.
Qed.

(* a transaction whose steps do not all succeed leaves the whole ledger as it was (all or nothing) *)
Lemma atx_failed_unchanged s l : (forall s', asteps s l <> Ok s') -> atx s l = s.
Proof.
  intros H. unfold atx, run_tx. destruct (asteps s l) as [s'| |] eqn:E; [exfalso; exact (H s' eq_refl)|reflexivity|reflexivity].
Qed.

(* a transaction that touches only pools of [qs] leaves every pool outside [qs] exactly as it was *)
Lemma asteps_other_pools l : forall s s', asteps s l = Ok s' ->
  forall p, (forall o, In o l -> pool_of o <> p) ->
  forall d, reserve s' p d = reserve s p d /\ pbank s' p d = pbank s p d /\ donated s' p d = donated s p d.
Proof.
  induction l as [|o r IH]; intros s s' H p Hp d.
  - cbn in H. inversion H; subst. repeat split.
  - cbn [asteps] in H. destruct (astep s o) as [s1| |] eqn:E; cbn [bind] in H; try discriminate.
    destruct (astep_frame _ _ _ E) as (F & _).
    assert (Hne : p <> pool_of o) by (intros ->; apply (Hp o); [left; reflexivity|reflexivity]).
    destruct (F p d (or_introl Hne)) as (F1 & F2 & F3).
    destruct (IH _ _ H p (fun o' Ho' => Hp o' (or_intror Ho')) d) as (G1 & G2 & G3).
    rewrite G1, G2, G3, F1, F2, F3. repeat split.
Qed.

Lemma atx_other_pools s l p : (forall o, In o l -> pool_of o <> p) ->
  forall d, reserve (atx s l) p d = reserve s p d /\ pbank (atx s l) p d = pbank s p d /\
            donated (atx s l) p d = donated s p d.
Proof.
  intros Hp d. unfold atx, run_tx. destruct (asteps s l) as [s'| |] eqn:E; [|repeat split|repeat split].
  exact (asteps_other_pools _ _ _ E p Hp d).
Qed.

(* from the empty chain: every history over the pools of [ps] keeps the invariant (no hypothesis on a start state) *)
Lemma arun_from_empty ps : NoDup ps ->
  forall h, Forall (Forall (fun o => In (pool_of o) ps)) h -> Inv ps (arun amm_empty h).
Proof. intros ND h Hh. exact (arun_inv ps ND h amm_empty (inv_empty ps) Hh). Qed.
