From Coq Require Import ZArith List Bool Arith Lia.
From Elys Require Import Base.Res Base.Fn Models.SumLedger Proofs.SumLedgerProofs Models.PerpLedger.
Import ListNotations.
Open Scope Z_scope.

Section Fields.
Variable fields : list nat.

Definition PInv (s : perp) : Prop :=
  NoDup (live s) /\ cnt s = Z.of_nat (length (live s)) /\
  (forall f, agg s f = sumf (pp s f) (live s)) /\
  (forall f k, ~ In k (live s) -> pp s f k = 0) /\
  (forall f k, ~ In f fields -> pp s f k = 0) /\
  (forall f k, 0 <= pp s f k).

Lemma forallb_fields_zero s k : forallb (fun f => pp s f k =? 0) fields = true -> forall f, In f fields -> pp s f k = 0.
Proof. intros H f Hf. rewrite forallb_forall in H. apply Z.eqb_eq. apply H. exact Hf. Qed.

Lemma pstep_inv s o s' : PInv s -> pstep fields s o = Ok s' -> PInv s'.
Proof.
  intros (ND & HC & HA & HZ & HU & HP) H. destruct o as [k|k f d|k]; cbn [pstep] in H.
  - destruct (mem_key k (live s)) eqn:M; [discriminate|]. inversion H; subst; clear H.
    assert (Hn : ~ In k (live s)) by (intros Hin; apply mem_key_In in Hin; congruence).
    unfold PInv. cbn [live cnt agg pp]. split; [constructor; assumption|]. split; [cbn [length]; rewrite HC; lia|].
    split; [|split; [|split; [exact HU|exact HP]]].
    + intros f. cbn [sumf]. rewrite HA, (HZ f k Hn). lia.
    + intros f x Hx. apply HZ. intros Hin. apply Hx. right. exact Hin.
  - destruct (negb (mem_key k (live s)) || negb (mem_key f fields)) eqn:G; [discriminate|].
    apply orb_false_elim in G. destruct G as [G1 G2]. apply negb_false_iff in G1, G2.
    apply mem_key_In in G1, G2.
    destruct (pp s f k + d <? 0) eqn:N; [discriminate|]. apply Z.ltb_ge in N.
    inversion H; subst; clear H. unfold PInv. cbn [live cnt agg pp].
    split; [exact ND|]. split; [exact HC|]. split; [|split; [|split]].
    + intros g. unfold upd. destruct (Nat.eqb_spec g f) as [->|Ne].
      * rewrite (sumf_ext _ (upd (pp s f) k (pp s f k + d))).
        -- rewrite sumf_upd_in by assumption. rewrite HA. lia.
        -- intros x _. unfold upd2, upd. rewrite Nat.eqb_refl. cbn. reflexivity.
      * rewrite HA. apply sumf_ext. intros x _. symmetry. apply upd2_other. left. exact Ne.
    + intros g x Hx. rewrite upd2_other; [apply HZ; exact Hx|]. right. intros ->. contradiction.
    + intros g x Hg. rewrite upd2_other; [apply HU; exact Hg|]. left. intros ->. contradiction.
    + intros g x. destruct (Nat.eq_dec g f) as [->|Ng]; [destruct (Nat.eq_dec x k) as [->|Nx]|].
      * rewrite upd2_same. exact N.
      * rewrite upd2_other by (right; exact Nx). apply HP.
      * rewrite upd2_other by (left; exact Ng). apply HP.
  - destruct (negb (mem_key k (live s))) eqn:G; [discriminate|]. apply negb_false_iff in G. apply mem_key_In in G.
    destruct (negb (forallb (fun f => pp s f k =? 0) fields)) eqn:Z0; [discriminate|]. apply negb_false_iff in Z0.
    pose proof (forallb_fields_zero s k Z0) as Hz.
    inversion H; subst; clear H. unfold PInv. cbn [live cnt agg pp].
    destruct (remove_key_spec k (live s) ND G) as (A & B & C & D).
    assert (Hk : forall f, pp s f k = 0).
    { intros f. destruct (in_dec Nat.eq_dec f fields) as [Hi|Ho]; [apply Hz; exact Hi|apply HU; exact Ho]. }
    split; [exact A|]. split; [rewrite HC, C; lia|]. split; [|split; [|split; [exact HU|exact HP]]].
    + intros f. rewrite HA, (D (pp s f)), Hk. lia.
    + intros f x Hx. destruct (Nat.eq_dec x k) as [->|Ne]; [apply Hk|].
      apply HZ. intros Hin. apply Hx. apply B. split; assumption.
Qed.

Lemma psteps_inv l : forall s s', PInv s -> psteps fields s l = Ok s' -> PInv s'.
Proof.
  induction l as [|o r IH]; intros s s' HI H; cbn in H; [inversion H; subst; exact HI|].
  destruct (pstep fields s o) as [s1| |] eqn:E; cbn in H; try discriminate.
  eapply IH; [eapply pstep_inv; eauto|exact H].
Qed.

Theorem prun_inv h : forall s, PInv s -> PInv (prun fields s h).
Proof.
  induction h as [|l r IH]; intros s HI; cbn; [exact HI|]. apply IH.
  unfold ptx, run_tx. destruct (psteps fields s l) as [s'| |] eqn:E; auto. eapply psteps_inv; eauto.
Qed.

Lemma perp_empty_inv : PInv perp_empty.
Proof.
  unfold PInv, perp_empty; cbn. split; [constructor|]. repeat split; try reflexivity; try lia.
Qed.

Theorem perp_aggregates h :
  let s := prun fields perp_empty h in
  (forall f, agg s f = sumf (pp s f) (live s)) /\ cnt s = Z.of_nat (length (live s)) /\
  (forall f k, ~ In k (live s) -> pp s f k = 0).
Proof.
  intros s. destruct (prun_inv h perp_empty perp_empty_inv) as (_ & HC & HA & HZ & _). auto.
Qed.

End Fields.

(* custody backing, partial: in a state where the last CheckMinimumCustodyAmt succeeded and neither
   the reserve went down nor custody went up since, the amm pool covers the custody *)
Lemma custody_backed_partial s cf reserve reserve' s' :
  check_min_custody s cf reserve = true ->
  reserve <= reserve' -> total_custody s' cf <= total_custody s cf ->
  total_custody s' cf <= reserve'.
Proof. unfold check_min_custody. intros H. apply Z.leb_le in H. lia. Qed.
