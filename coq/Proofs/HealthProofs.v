(* C10: monotonicity of the two health formulas (Models/Health.v) and the guard comparisons `health <= safety factor` /
   `health > safety factor` restated on the underlying quantities (cross-multiplied integer statements). *)
From Coq Require Import ZArith Bool Lia.
From Elys Require Import Base.Res Base.Zdec Models.Health Models.CloseGuard.
Open Scope Z_scope.

Lemma HALF2 : 2 * HALF = PREC. Proof. reflexivity. Qed.

(* ---------- Quo on whole amounts: v.ToLegacyDec().Quo(d.ToLegacyDec()) ---------- *)
Definition ratio (v d : Z) : Z := dquo (dec_of_int v) (dec_of_int d).

Lemma ratio_bounds v d : 0 <= v -> 0 < d ->
  0 <= ratio v d /\
  v * (PREC * PREC) - d - HALF * d < ratio v d * PREC * d /\
  ratio v d * PREC * d <= v * (PREC * PREC) + HALF * d.
Proof.
  intros Hv Hd. unfold ratio, dquo, dec_of_int. pose proof PREC_pos as HP.
  replace (v * PREC * PREC * PREC) with (v * (PREC * PREC) * PREC) by ring.
  rewrite Z.quot_mul_cancel_r by lia.
  set (n := v * (PREC * PREC)).
  assert (Hn : 0 <= n) by (unfold n; nia).
  pose proof (Z.quot_rem' n d) as E.
  assert (Hr : 0 <= Z.rem n d < d) by (apply Z.rem_bound_pos; lia).
  assert (Hq : 0 <= Z.quot n d) by (apply Z.quot_pos; lia).
  destruct (chop_round_bounds (Z.quot n d) Hq) as [[B1 B2] B3].
  set (Q := Z.quot n d) in *. set (c := chop_round Q) in *.
  assert (U : c * PREC * d <= (Q + HALF) * d) by (apply Z.mul_le_mono_nonneg_r; lia).
  assert (L : (Q - HALF) * d <= c * PREC * d) by (apply Z.mul_le_mono_nonneg_r; lia).
  split; [exact B3|]. split; lia.
Qed.

Lemma ratio_mono_num v1 v2 d : 0 <= v1 <= v2 -> 0 < d -> ratio v1 d <= ratio v2 d.
Proof.
  intros Hv Hd. unfold ratio, dquo, dec_of_int. pose proof PREC_pos as HP. apply chop_round_mono.
  assert (0 <= v1 * PREC * PREC * PREC <= v2 * PREC * PREC * PREC) by (unfold PREC; lia).
  assert (0 < d * PREC) by (unfold PREC; lia).
  split; [apply Z.quot_pos; lia|apply Z.quot_le_mono; lia].
Qed.

Lemma ratio_anti_den v d1 d2 : 0 <= v -> 0 < d1 <= d2 -> ratio v d2 <= ratio v d1.
Proof.
  intros Hv Hd. unfold ratio, dquo, dec_of_int. pose proof PREC_pos as HP. apply chop_round_mono.
  assert (0 <= v * PREC * PREC * PREC) by (unfold PREC; lia).
  assert (0 < d1 * PREC <= d2 * PREC) by (unfold PREC; lia).
  split; [apply Z.quot_pos; lia|apply Z.quot_le_compat_l; lia].
Qed.

(* health <= sf in terms of value and debt *)
Lemma ratio_le_sf_cross v d sf : 0 <= v -> 0 < d ->
  ratio v d <= sf -> v * (PREC * PREC) < (sf * PREC + HALF + 1) * d.
Proof.
  intros Hv Hd H. destruct (ratio_bounds v d Hv Hd) as (R0 & R1 & R2). pose proof PREC_pos as HP.
  assert (A : ratio v d * (PREC * d) <= sf * (PREC * d)) by (apply Z.mul_le_mono_nonneg_r; [unfold PREC; lia|exact H]).
  replace ((sf * PREC + HALF + 1) * d) with (sf * (PREC * d) + HALF * d + d) by ring.
  replace (ratio v d * PREC * d) with (ratio v d * (PREC * d)) in R1 by ring. lia.
Qed.

Lemma cross_le_ratio_le_sf v d sf : 0 <= v -> 0 < d ->
  v * PREC <= sf * d -> ratio v d <= sf.
Proof.
  intros Hv Hd H. destruct (ratio_bounds v d Hv Hd) as (R0 & R1 & R2). pose proof PREC_pos as HP. pose proof HALF2 as HH.
  destruct (Z_le_gt_dec (ratio v d) sf) as [L|G]; [exact L|exfalso].
  assert (A1 : (sf + 1) * (PREC * d) <= ratio v d * (PREC * d)) by (apply Z.mul_le_mono_nonneg_r; [unfold PREC; lia|lia]).
  assert (A2 : v * PREC * PREC <= sf * d * PREC) by (apply Z.mul_le_mono_nonneg_r; lia).
  replace (ratio v d * PREC * d) with (ratio v d * (PREC * d)) in R2 by ring.
  replace ((sf + 1) * (PREC * d)) with (sf * d * PREC + PREC * d) in A1 by ring.
  replace (v * (PREC * PREC)) with (v * PREC * PREC) in R2 by ring.
  assert (A3 : PREC * d <= HALF * d) by lia.
  unfold HALF, PREC in A3. lia.
Qed.

(* ---------- leveraged LP ---------- *)
Lemma lev_health_pos_debt exit debt : debt <> 0 -> lev_health exit debt = ratio exit debt.
Proof. intros H. unfold lev_health. apply Z.eqb_neq in H. rewrite H. reflexivity. Qed.

(* more exit value (collateral / pool value), same debt: health does not fall *)
Lemma lev_health_mono_exit e1 e2 debt : 0 <= e1 <= e2 -> 0 < debt -> lev_health e1 debt <= lev_health e2 debt.
Proof. intros He Hd. rewrite !lev_health_pos_debt by lia. apply ratio_mono_num; assumption. Qed.

(* more debt (principal or interest charged), same exit value: health does not rise *)
Lemma lev_health_anti_debt e d1 d2 : 0 <= e -> 0 < d1 <= d2 -> lev_health e d2 <= lev_health e d1.
Proof. intros He Hd. rewrite !lev_health_pos_debt by lia. apply ratio_anti_den; assumption. Qed.

Lemma lev_health_anti_interest e b s1 s2 p : 0 <= e -> 0 < total_debt b s1 p -> s1 <= s2 ->
  lev_health_of e b s2 p <= lev_health_of e b s1 p.
Proof. intros He Hd Hs. unfold lev_health_of. apply lev_health_anti_debt; [exact He|unfold total_debt in *; lia]. Qed.

Lemma lev_health_le_sf_cross e d sfv : 0 <= e -> 0 < d ->
  (lev_health e d <= sfv -> e * (PREC * PREC) < (sfv * PREC + HALF + 1) * d) /\
  (e * PREC <= sfv * d -> lev_health e d <= sfv) /\
  (sfv < lev_health e d -> sfv * d < e * PREC).
Proof.
  intros He Hd. rewrite lev_health_pos_debt by lia. split; [apply ratio_le_sf_cross; assumption|]. split.
  - apply cross_le_ratio_le_sf; assumption.
  - intros H. destruct (Z_lt_ge_dec (sfv * d) (e * PREC)) as [L|G]; [exact L|].
    pose proof (cross_le_ratio_le_sf e d sfv He Hd ltac:(lia)). lia.
Qed.

(* the liquidation guard of leveragelp on the underlying quantities *)
Lemma lev_liq_guard_cross sfv it exit debt :
  0 <= exit -> 0 <= debt -> i_health it = Some (lev_health exit debt) -> i_liab it = debt ->
  lev_liq_guard sfv it = true ->
  0 < debt /\ exit * (PREC * PREC) < (sfv * PREC + HALF + 1) * debt.
Proof.
  intros He Hd Hh Hl G. unfold lev_liq_guard in G. rewrite Hh, Hl in G.
  unfold lev_may_liquidate, lev_is_healthy in G. apply negb_true_iff in G. apply orb_false_iff in G. destruct G as [G1 G2].
  apply Z.ltb_ge in G1. apply Z.eqb_neq in G2.
  split; [lia|]. apply (proj1 (lev_health_le_sf_cross exit debt sfv He ltac:(lia))). exact G1.
Qed.

Lemma lev_liq_guard_from_cross sfv it exit debt :
  0 <= exit -> 0 < debt -> i_health it = Some (lev_health exit debt) -> i_liab it = debt ->
  exit * PREC <= sfv * debt -> lev_liq_guard sfv it = true.
Proof.
  intros He Hd Hh Hl H. unfold lev_liq_guard. rewrite Hh, Hl.
  unfold lev_may_liquidate, lev_is_healthy. apply negb_true_iff. apply orb_false_iff. split.
  - apply Z.ltb_ge. apply (proj1 (proj2 (lev_health_le_sf_cross exit debt sfv He Hd))). exact H.
  - apply Z.eqb_neq. lia.
Qed.

(* an accepted open (open_ok) means value above debt times safety factor *)
Lemma lev_open_ok_cross e d sfv : 0 <= e -> 0 < d -> open_ok (lev_health e d) sfv = true -> sfv * d < e * PREC.
Proof.
  intros He Hd H. unfold open_ok in H. apply Z.ltb_lt in H.
  exact (proj2 (proj2 (lev_health_le_sf_cross e d sfv He Hd)) H).
Qed.

(* ---------- perpetual ---------- *)
(* the regular case: liabilities, custody and the amount owed in the base currency are positive; c = custody value in the base
   currency (LONG: the swap estimate, SHORT: the custody itself), tl = owed in the base currency (LONG: liabilities + unpaid
   interest, SHORT: the swap estimate of that amount) *)
Lemma perp_health_regular (long : bool) liab unpaid custody el ec c tl :
  liab <> 0 -> 0 < custody -> 0 < tl ->
  (if long then tl = liab + unpaid /\ ec = Some c else el = Some tl /\ c = custody) ->
  perp_health long liab unpaid custody el ec = Ok (ratio c tl).
Proof.
  intros Hl Hc Ht H. unfold perp_health. apply Z.eqb_neq in Hl. rewrite Hl.
  assert (Hc' : (0 <? custody) = true) by (apply Z.ltb_lt; exact Hc).
  assert (Ht' : (tl =? 0) = false) by (apply Z.eqb_neq; lia).
  destruct long; destruct H as [H1 H2].
  - rewrite H2, <- H1. cbn [bind negb andb]. rewrite Hc'. cbn [negb bind]. rewrite Ht'. reflexivity.
  - rewrite H1, H2. cbn [bind negb andb]. rewrite Ht', Hc'. cbn [negb bind]. reflexivity.
Qed.

(* degenerate cases: health 0 (always liquidatable) or the maximum (never) *)
Lemma perp_health_no_liabilities long unpaid custody el ec : perp_health long 0 unpaid custody el ec = Ok MAXSORT.
Proof. reflexivity. Qed.

Lemma perp_health_no_custody long liab unpaid custody el ec h :
  custody <= 0 -> liab <> 0 -> perp_health long liab unpaid custody el ec = Ok h -> h = 0.
Proof.
  intros Hc Hl H. unfold perp_health in H. apply Z.eqb_neq in Hl. rewrite Hl in H.
  assert (Hc' : (0 <? custody) = false) by (apply Z.ltb_ge; exact Hc).
  destruct long; cbn [bind negb andb] in H.
  - rewrite Hc' in H. cbn [negb] in H. inversion H. reflexivity.
  - destruct el as [v|]; cbn [bind] in H; [|discriminate].
    destruct (v =? 0); [inversion H; reflexivity|]. rewrite Hc' in H. cbn [negb] in H. inversion H. reflexivity.
Qed.

(* LONG: unpaid interest (or liabilities) grows, same custody value: health does not rise; custody value grows: does not fall *)
Lemma perp_health_long_anti_owed liab u1 u2 custody el ec c h1 h2 :
  0 < liab -> 0 <= u1 <= u2 -> 0 < custody -> 0 <= c -> ec = Some c ->
  perp_health true liab u1 custody el ec = Ok h1 -> perp_health true liab u2 custody el ec = Ok h2 -> h2 <= h1.
Proof.
  intros Hl Hu Hc Hc0 He H1 H2.
  rewrite (perp_health_regular true liab u1 custody el ec c (liab + u1)) in H1 by (first [lia | split; [reflexivity|exact He]]).
  rewrite (perp_health_regular true liab u2 custody el ec c (liab + u2)) in H2 by (first [lia | split; [reflexivity|exact He]]).
  inversion H1. inversion H2. apply ratio_anti_den; lia.
Qed.

Lemma perp_health_mono_value (long : bool) liab unpaid custody el ec1 ec2 c1 c2 tl h1 h2 :
  liab <> 0 -> 0 < custody -> 0 < tl -> 0 <= c1 <= c2 ->
  (if long then tl = liab + unpaid /\ ec1 = Some c1 /\ ec2 = Some c2 else False) ->
  perp_health long liab unpaid custody el ec1 = Ok h1 -> perp_health long liab unpaid custody el ec2 = Ok h2 -> h1 <= h2.
Proof.
  intros Hl Hc Ht Hcc H H1 H2. destruct long; [|contradiction]. destruct H as (E & E1 & E2).
  rewrite (perp_health_regular true liab unpaid custody el ec1 c1 tl) in H1 by (first [assumption | split; assumption]).
  rewrite (perp_health_regular true liab unpaid custody el ec2 c2 tl) in H2 by (first [assumption | split; assumption]).
  inversion H1. inversion H2. apply ratio_mono_num; lia.
Qed.

(* SHORT: the custody itself is the value: more custody, same owed amount: health does not fall *)
Lemma perp_health_short_mono_custody liab unpaid c1 c2 el ec tl h1 h2 :
  liab <> 0 -> 0 < c1 <= c2 -> 0 < tl -> el = Some tl ->
  perp_health false liab unpaid c1 el ec = Ok h1 -> perp_health false liab unpaid c2 el ec = Ok h2 -> h1 <= h2.
Proof.
  intros Hl Hc Ht He H1 H2.
  rewrite (perp_health_regular false liab unpaid c1 el ec c1 tl) in H1 by (first [lia | split; [exact He|reflexivity]]).
  rewrite (perp_health_regular false liab unpaid c2 el ec c2 tl) in H2 by (first [lia | split; [exact He|reflexivity]]).
  inversion H1. inversion H2. apply ratio_mono_num; lia.
Qed.

(* the liquidation guard of perpetual on the underlying quantities (regular case) *)
Lemma perp_liq_guard_cross (long : bool) liab unpaid custody el ec c tl h sfv :
  liab <> 0 -> 0 < custody -> 0 < tl -> 0 <= c ->
  (if long then tl = liab + unpaid /\ ec = Some c else el = Some tl /\ c = custody) ->
  perp_health long liab unpaid custody el ec = Ok h ->
  (perp_may_liquidate h sfv = true -> c * (PREC * PREC) < (sfv * PREC + HALF + 1) * tl) /\
  (c * PREC <= sfv * tl -> perp_may_liquidate h sfv = true) /\
  (open_ok h sfv = true -> sfv * tl < c * PREC).
Proof.
  intros Hl Hc Ht Hc0 H Hh. rewrite (perp_health_regular long liab unpaid custody el ec c tl Hl Hc Ht H) in Hh.
  inversion Hh. subst h. unfold perp_may_liquidate, open_ok. split; [|split].
  - intros G. apply Z.leb_le in G. apply ratio_le_sf_cross; assumption.
  - intros G. apply Z.leb_le. apply cross_le_ratio_le_sf; assumption.
  - intros G. apply Z.ltb_lt in G. destruct (Z_lt_ge_dec (sfv * tl) (c * PREC)) as [L|G2]; [exact L|].
    pose proof (cross_le_ratio_le_sf c tl sfv Hc0 Ht ltac:(lia)). lia.
Qed.

Lemma lev_health_monotone e1 e2 d1 d2 :
  0 <= e1 <= e2 -> 0 < d1 <= d2 ->
  lev_health e1 d1 <= lev_health e2 d1 /\ lev_health e1 d2 <= lev_health e1 d1.
Proof. intros He Hd. split; [apply lev_health_mono_exit; lia|apply lev_health_anti_debt; lia]. Qed.

Lemma perp_health_degenerate long liab unpaid custody el ec h :
  (perp_health long 0 unpaid custody el ec = Ok MAXSORT) /\
  (custody <= 0 -> liab <> 0 -> perp_health long liab unpaid custody el ec = Ok h -> h = 0).
Proof. split; [apply perp_health_no_liabilities|apply perp_health_no_custody]. Qed.
