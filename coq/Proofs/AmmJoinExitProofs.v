(* Proofs about Models/AmmJoinExit.v (C05). All statements are over unbounded Z. *)
From Coq Require Import ZArith List Bool Lia.
From Elys Require Import Base.Res Base.Zdec Models.AmmJoinExit.
Import ListNotations.
Open Scope Z_scope.

(* ---------- integer arithmetic ---------- *)

Lemma quot_bound a r : 0 <= a -> 0 < r ->
  0 <= Z.quot a r /\ Z.quot a r * r <= a /\ a < Z.quot a r * r + r.
Proof.
  intros Ha Hr. pose proof (Z.quot_rem' a r) as E.
  assert (0 <= Z.rem a r < r) by (apply Z.rem_bound_pos; lia).
  assert (0 <= Z.quot a r) by (apply Z.quot_pos; lia). lia.
Qed.

Lemma ratio_bound a r : 0 <= a -> 0 < r ->
  0 <= Z.quot (a * PREC) r /\ Z.quot (a * PREC) r * r <= a * PREC.
Proof.
  intros Ha Hr. pose proof PREC_pos.
  destruct (quot_bound (a * PREC) r) as [A [B C]]; [nia|lia|]. lia.
Qed.

Lemma shares_bound m S : 0 <= m -> 0 <= S -> 0 <= shares_of m S /\ shares_of m S * PREC <= m * S.
Proof.
  intros Hm HS. unfold shares_of, trunc_int, chop_trunc, dmul_int.
  destruct (quot_bound (m * S) PREC) as [A [B C]]; [nia|apply PREC_pos|]. lia.
Qed.

Lemma used_bound m r : 0 <= m -> 0 < r ->
  0 <= used_amt m r /\ m * r <= used_amt m r * PREC /\ (forall a, m * r <= a * PREC -> used_amt m r <= a).
Proof.
  intros Hm Hr. unfold used_amt, trunc_int, chop_trunc, dceil, dmul_int.
  set (x := m * r). assert (Hx : 0 <= x) by (unfold x; nia).
  pose proof PREC_pos as HP.
  destruct (quot_bound x PREC) as [A [B C]]; [lia|lia|].
  pose proof (Z.quot_rem' x PREC) as E.
  assert (Hrem : 0 <= Z.rem x PREC < PREC) by (apply Z.rem_bound_pos; lia).
  destruct (0 <? Z.rem x PREC) eqn:Q.
  - apply Z.ltb_lt in Q. rewrite Z.quot_mul by lia. split; [lia|]. split; [lia|].
    intros a Hle. assert (PREC * Z.quot x PREC < a * PREC) by lia. nia.
  - apply Z.ltb_ge in Q. rewrite Z.quot_mul by lia. split; [lia|]. split; [lia|].
    intros a Hle. assert (PREC * Z.quot x PREC <= a * PREC) by lia. nia.
Qed.

(* shares * P <= m * S  and  m * r <= x * P  give  shares * r <= x * S *)
Lemma cross_le sh m S r x : 0 <= S -> 0 < r -> sh * PREC <= m * S -> m * r <= x * PREC -> sh * r <= x * S.
Proof.
  intros HS Hr H1 H2. pose proof PREC_pos as HP.
  assert (A : sh * PREC * r <= m * S * r) by (apply Z.mul_le_mono_nonneg_r; lia).
  assert (B : m * r * S <= x * PREC * S) by (apply Z.mul_le_mono_nonneg_r; lia).
  assert (C : PREC * (sh * r) <= PREC * (x * S)) by lia.
  apply Z.mul_le_mono_pos_l in C; lia.
Qed.

(* ---------- lists ---------- *)

Lemma fold_min_le rs : forall init,
  fold_left Z.min rs init <= init /\ forall r, In r rs -> fold_left Z.min rs init <= r.
Proof.
  induction rs as [|x rs IH]; intros init; cbn [fold_left].
  - split; [lia|intros r []].
  - destruct (IH (Z.min init x)) as [A B]. split; [lia|]. intros r [->|Hin]; [lia|auto].
Qed.

Lemma fold_min_ge rs lo : forall init, lo <= init -> (forall r, In r rs -> lo <= r) -> lo <= fold_left Z.min rs init.
Proof.
  induction rs as [|x rs IH]; intros init Hi Hall; cbn [fold_left]; [lia|].
  apply IH; [|intros r Hr; apply Hall; right; exact Hr].
  assert (lo <= x) by (apply Hall; left; reflexivity). lia.
Qed.

Lemma nth_map_seq (g : nat -> Z) n i : (i < n)%nat -> nth i (map g (seq 0 n)) 0 = g i.
Proof.
  intros H. rewrite (nth_indep _ 0 (g 0%nat)) by (rewrite map_length, seq_length; lia).
  rewrite map_nth. rewrite seq_nth by lia. reflexivity.
Qed.

Lemma nth_map_Z (g : Z -> Z) l i : (i < length l)%nat -> nth i (map g l) 0 = g (nth i l 0).
Proof.
  intros H. rewrite (nth_indep _ 0 (g 0)) by (rewrite map_length; lia). apply map_nth.
Qed.

Lemma enum_length amts : length (enum amts) = length amts.
Proof. unfold enum, coin. rewrite combine_length, seq_length. lia. Qed.

Lemma enum_nth amts i : (i < length amts)%nat -> nth i (enum amts) (0%nat, 0) = (i, nth i amts 0).
Proof.
  intros H. unfold enum, coin. rewrite combine_nth by (rewrite seq_length; reflexivity).
  rewrite seq_nth by lia. reflexivity.
Qed.

Lemma enum_in amts i : (i < length amts)%nat -> In (i, nth i amts 0) (enum amts).
Proof.
  intros H. rewrite <- enum_nth by exact H. apply nth_In. rewrite enum_length. exact H.
Qed.

Lemma sum_denom_enum (f : coin -> coin) (Hf : forall c, fst (f c) = fst c) amts d : forall s,
  sum_denom d (map f (combine (seq s (length amts)) amts)) =
  if ((s <=? d) && (d <? s + length amts))%nat then snd (f (d, nth (d - s) amts 0)) else 0.
Proof.
  induction amts as [|a amts IH]; intros s; cbn [length seq combine map sum_denom].
  - destruct (Nat.leb_spec s d); destruct (Nat.ltb_spec d (s + 0)); cbn [andb]; try reflexivity; lia.
  - rewrite Hf. cbn [fst]. rewrite IH.
    destruct (Nat.eq_dec s d) as [->|Hne].
    + rewrite Nat.eqb_refl. replace (d - d)%nat with 0%nat by lia. cbn [nth].
      destruct (Nat.leb_spec (S d) d); [lia|]. cbn [andb].
      destruct (Nat.leb_spec d d); [|lia]. destruct (Nat.ltb_spec d (d + S (length amts))); [|lia].
      cbn [andb]. lia.
    + destruct (Nat.eqb_spec s d); [contradiction|].
      destruct (Nat.leb_spec (S s) d); destruct (Nat.ltb_spec d (S s + length amts));
      destruct (Nat.leb_spec s d); destruct (Nat.ltb_spec d (s + S (length amts))); cbn [andb]; try lia.
      replace (d - s)%nat with (S (d - S s)) by lia. cbn [nth]. lia.
Qed.

Lemma joined_enum_nth (f : coin -> coin) (Hf : forall c, fst (f c) = fst c) amts i :
  (i < length amts)%nat ->
  nth i (joined_of (length amts) (map f (enum amts))) 0 = snd (f (i, nth i amts 0)).
Proof.
  intros H. unfold joined_of. rewrite nth_map_seq by exact H. unfold enum.
  rewrite (sum_denom_enum f Hf amts i 0).
  destruct (Nat.leb_spec 0 i); [|lia]. destruct (Nat.ltb_spec i (0 + length amts)); [|lia].
  cbn [andb]. replace (i - 0)%nat with i by lia. reflexivity.
Qed.

Lemma zip_add_nth : forall R j i, length j = length R -> nth i (zip_add R j) 0 = nth i R 0 + nth i j 0.
Proof.
  induction R as [|r R IH]; intros [|x j] i H; cbn [length] in H; try discriminate.
  - destruct i; reflexivity.
  - destruct i; cbn [zip_add nth]; [reflexivity|]. apply IH. lia.
Qed.

Lemma zip_add_length : forall R j, length (zip_add R j) = length R.
Proof. induction R as [|r R IH]; intros [|x j]; cbn [zip_add length]; auto. Qed.

Lemma zip_exit_nth : forall R outs i, length outs = length R -> (i < length R)%nat ->
  nth i (zip_exit R outs) 0 = if nth i R 0 - nth i outs 0 =? 0 then nth i R 0 else nth i R 0 - nth i outs 0.
Proof.
  induction R as [|r R IH]; intros [|o outs] i H Hi; cbn [length] in *; try discriminate; try lia.
  destruct i; cbn [zip_exit nth]; [reflexivity|]. apply IH; lia.
Qed.

Lemma zip_exit_length : forall R outs, length (zip_exit R outs) = length R.
Proof. induction R as [|r R IH]; intros [|o outs]; cbn [zip_exit length]; auto. Qed.

Lemma eff_fst R minr maxr c : fst (eff R minr maxr c) = fst c.
Proof. unfold eff. destruct (minr =? maxr); [reflexivity|]. destruct (ratio_of R c =? minr); reflexivity. Qed.

(* ---------- all-asset join, tokens given (well-formed tokens: one coin per pool asset) ---------- *)

(* a well-formed coin set has no repeated denom: the duplicate check of CalcJoinPoolNoSwapShares never fires on it *)
Lemma combine_seq_fst_ge (l : list Z) : forall s c, In c (combine (seq s (length l)) l) -> (s <= fst c)%nat.
Proof.
  induction l as [|a l IH]; intros s c Hin; cbn [length seq combine] in Hin; [destruct Hin|].
  destruct Hin as [<-|Hin]; [cbn; lia|]. apply IH in Hin. lia.
Qed.

Lemma has_dup_combine_seq (l : list Z) : forall s, has_dup (combine (seq s (length l)) l) = false.
Proof.
  induction l as [|a l IH]; intros s; cbn [length seq combine has_dup]; [reflexivity|].
  rewrite IH, Bool.orb_false_r.
  destruct (existsb _ _) eqn:E; [|reflexivity].
  apply existsb_exists in E. destruct E as [c [Hin Hc]]. apply combine_seq_fst_ge in Hin.
  cbn [fst] in Hc. apply Nat.eqb_eq in Hc. lia.
Qed.

Lemma has_dup_enum amts : has_dup (enum amts) = false.
Proof. apply has_dup_combine_seq. Qed.

Lemma join_coins_enum R S amts : join_coins R S (enum amts) = join_coins_prefix R S (enum amts).
Proof. unfold join_coins. rewrite has_dup_enum, Bool.andb_false_r. reflexivity. Qed.

Lemma join_enum_spec R S amts sh j R' S' :
  Forall (fun r => 0 < r) R -> 0 <= S -> Forall (fun a => 0 <= a) amts ->
  join_coins R S (enum amts) = Ok (sh, j, R', S') ->
  length amts = length R /\ length j = length R /\ R' = zip_add R j /\ S' = S + sh /\ 0 <= sh /\
  forall i, (i < length R)%nat ->
    0 <= nth i j 0 <= nth i amts 0 /\ sh * nth i R 0 <= nth i j 0 * S.
Proof.
  intros HR HS Ha H. rewrite join_coins_enum in H. unfold join_coins_prefix in H.
  destruct (negb (forallb _ _)); [discriminate|].
  destruct (negb (Nat.eqb _ _)) eqn:El; [discriminate|].
  destruct (existsb _ _); [discriminate|].
  set (rs := map (ratio_of R) (enum amts)) in *.
  set (minr := min_ratio rs) in *. set (maxr := max_ratio rs) in *.
  destruct (minr =? MAXSORT); [discriminate|].
  destruct (negb (coins_sorted _)); [discriminate|].
  destruct (existsb _ _); [discriminate|].
  destruct (any_gt _ _); [discriminate|].
  inversion H; subst sh j R' S'; clear H.
  apply negb_false_iff, Nat.eqb_eq in El. rewrite enum_length in El.
  assert (Hrs : forall i, (i < length R)%nat ->
            0 <= ratio_of R (i, nth i amts 0) /\ minr <= ratio_of R (i, nth i amts 0) /\
            ratio_of R (i, nth i amts 0) * nth i R 0 <= nth i amts 0 * PREC).
  { intros i Hi. unfold ratio_of, rsv. cbn [fst snd].
    assert (0 < nth i R 0) by (apply (proj1 (Forall_nth _ R) HR); exact Hi).
    assert (0 <= nth i amts 0) by (apply (proj1 (Forall_nth _ amts) Ha); lia).
    destruct (ratio_bound (nth i amts 0) (nth i R 0)) as [A B]; [lia|lia|].
    split; [exact A|]. split; [|exact B].
    apply (proj2 (fold_min_le rs MAXSORT)). unfold rs.
    change (Z.quot (nth i amts 0 * PREC) (nth i R 0)) with (ratio_of R (i, nth i amts 0)).
    apply in_map. apply enum_in. lia. }
  assert (Hmin0 : 0 <= minr).
  { apply fold_min_ge; [unfold MAXSORT; pose proof PREC_pos; nia|].
    intros r Hr. unfold rs in Hr. apply in_map_iff in Hr. destruct Hr as [[d a] [<- Hin]].
    destruct (In_nth _ _ (0%nat, 0) Hin) as [i [Hi Hnth]]. rewrite enum_length in Hi.
    rewrite enum_nth in Hnth by exact Hi. inversion Hnth; subst d a.
    apply (Hrs i). lia. }
  destruct (shares_bound minr S Hmin0 HS) as [Hs0 Hs1].
  rewrite <- El.
  split; [reflexivity|]. split; [unfold joined_of; rewrite map_length, seq_length; reflexivity|].
  split; [reflexivity|]. split; [reflexivity|]. split; [exact Hs0|].
  intros i Hi.
  rewrite (joined_enum_nth (eff R minr maxr) (eff_fst R minr maxr)) by exact Hi.
  assert (Hr0 : 0 < nth i R 0) by (apply (proj1 (Forall_nth _ R) HR); lia).
  assert (Ha0 : 0 <= nth i amts 0) by (apply (proj1 (Forall_nth _ amts) Ha); lia).
  destruct (Hrs i ltac:(lia)) as [Hq0 [Hq1 Hq2]].
  assert (Hfull : 0 <= nth i amts 0 <= nth i amts 0 /\ shares_of minr S * nth i R 0 <= nth i amts 0 * S).
  { split; [lia|]. apply (cross_le _ minr); try lia.
    assert (minr * nth i R 0 <= ratio_of R (i, nth i amts 0) * nth i R 0) by (apply Z.mul_le_mono_nonneg_r; lia).
    lia. }
  unfold eff. destruct (minr =? maxr); [exact Hfull|].
  destruct (ratio_of R (i, nth i amts 0) =? minr); [exact Hfull|].
  cbn [fst snd]. unfold rsv.
  destruct (used_bound minr (nth i R 0) Hmin0 Hr0) as [U0 [U1 U2]].
  split.
  - split; [exact U0|]. apply U2.
    assert (minr * nth i R 0 <= ratio_of R (i, nth i amts 0) * nth i R 0) by (apply Z.mul_le_mono_nonneg_r; lia).
    lia.
  - apply (cross_le _ minr); lia.
Qed.

(* ---------- GetMaximalNoSwapLPAmount ---------- *)

Lemma maximal_lp_spec R S so needed :
  maximal_lp R S so = Ok needed -> length needed = length R /\ Forall (fun a => 0 <= a) needed.
Proof.
  unfold maximal_lp. intros H.
  destruct (S =? 0); [discriminate|]. destruct (_ <=? 0); [discriminate|].
  destruct (existsb _ _) eqn:E; [discriminate|]. inversion H; subst needed; clear H.
  split; [apply map_length|].
  apply Forall_forall. intros x Hx.
  destruct (Z.leb_spec x 0) as [Hle|]; [|lia].
  assert (existsb (fun n => n <=? 0) (map (fun r => round_int (dceil (dmul (dec_of_int r) (Z.quot (so * PREC) S)))) R) = true).
  { apply existsb_exists. exists x. split; [exact Hx|]. apply Z.leb_le. exact Hle. }
  congruence.
Qed.

Lemma join_shares_spec R S so needed sh j R' S' :
  Forall (fun r => 0 < r) R -> 0 <= S ->
  join_shares R S so = Ok (needed, (sh, j, R', S')) ->
  length needed = length R /\ length j = length R /\ R' = zip_add R j /\ S' = S + sh /\ 0 <= sh /\
  forall i, (i < length R)%nat ->
    0 <= nth i j 0 <= nth i needed 0 /\ sh * nth i R 0 <= nth i j 0 * S.
Proof.
  intros HR HS H. unfold join_shares in H.
  destruct (maximal_lp R S so) as [nd| |] eqn:Em; cbn [bind] in H; try discriminate.
  destruct (join_coins R S (enum nd)) as [[[[sh0 j0] R0] S0]| |] eqn:Ej; cbn [bind] in H; try discriminate.
  inversion H; subst; clear H.
  destruct (maximal_lp_spec _ _ _ _ Em) as [Hl Hn].
  destruct (join_enum_spec _ _ _ _ _ _ _ HR HS Hn Ej) as [A B]. split; [exact A|exact B].
Qed.

(* ---------- pro-rata exit ---------- *)

Lemma exit_amt_bound ratio r : 0 <= ratio -> 0 <= r ->
  0 <= exit_amt ratio r /\ exit_amt ratio r * PREC <= ratio * r.
Proof.
  intros H1 H2. unfold exit_amt, trunc_int, chop_trunc, dmul_int.
  destruct (quot_bound (ratio * r) PREC) as [A [B C]]; [nia|apply PREC_pos|].
  destruct (_ <=? 0) eqn:E; [apply Z.leb_le in E; nia|lia].
Qed.

Lemma exit_spec R S sh outs R' S' :
  Forall (fun r => 0 < r) R -> 0 <= sh ->
  exit_prorata R S sh = Ok (outs, R', S') ->
  sh < S /\ S' = S - sh /\ length outs = length R /\ length R' = length R /\
  forall i, (i < length R)%nat ->
    0 <= nth i outs 0 /\ nth i outs 0 * S <= sh * nth i R 0 /\ nth i outs 0 < nth i R 0 /\
    nth i R' 0 = nth i R 0 - nth i outs 0.
Proof.
  intros HR Hsh H. unfold exit_prorata in H.
  destruct (S <=? sh) eqn:E1; [discriminate|]. apply Z.leb_gt in E1.
  destruct (S =? 0); [discriminate|].
  destruct (existsb _ _); [discriminate|].
  unfold apply_exit in H. destruct (existsb _ _); cbn [bind] in H; [discriminate|].
  destruct (existsb _ _); cbn [bind] in H; [discriminate|].
  inversion H; subst outs R' S'; clear H.
  split; [exact E1|]. split; [reflexivity|]. split; [apply map_length|]. split; [apply zip_exit_length|].
  intros i Hi.
  assert (Hr0 : 0 < nth i R 0) by (apply (proj1 (Forall_nth _ R) HR); lia).
  rewrite zip_exit_nth by (try rewrite map_length; lia).
  rewrite nth_map_Z by exact Hi.
  set (ratio := Z.quot (sh * PREC) S).
  destruct (ratio_bound sh S Hsh ltac:(lia)) as [Q0 Q1]. fold ratio in Q0, Q1.
  destruct (exit_amt_bound ratio (nth i R 0) Q0 ltac:(lia)) as [O0 O1].
  set (o := exit_amt ratio (nth i R 0)) in *.
  assert (Hle : o * S <= sh * nth i R 0).
  { pose proof PREC_pos as HP.
    assert (A : o * PREC * S <= ratio * nth i R 0 * S) by (apply Z.mul_le_mono_nonneg_r; lia).
    assert (B : ratio * S * nth i R 0 <= sh * PREC * nth i R 0) by (apply Z.mul_le_mono_nonneg_r; lia).
    assert (C : PREC * (o * S) <= PREC * (sh * nth i R 0)) by lia.
    apply Z.mul_le_mono_pos_l in C; lia. }
  assert (Hlt : o < nth i R 0).
  { assert (sh * nth i R 0 < S * nth i R 0) by (apply Z.mul_lt_mono_pos_r; lia).
    assert (o * S < nth i R 0 * S) by lia. apply Z.mul_lt_mono_pos_r in H0; lia. }
  split; [exact O0|]. split; [exact Hle|]. split; [exact Hlt|].
  destruct (nth i R 0 - o =? 0) eqn:Z0; [apply Z.eqb_eq in Z0; lia|reflexivity].
Qed.

Lemma keeper_exit_spec R S sh outs R' S' :
  Forall (fun r => 0 < r) R ->
  keeper_exit R S sh = Ok (outs, R', S') ->
  0 < sh /\ exit_prorata R S sh = Ok (outs, R', S').
Proof.
  intros HR H. unfold keeper_exit in H.
  destruct (S <=? sh); [discriminate|]. destruct (sh <=? 0) eqn:E; [discriminate|].
  apply Z.leb_gt in E. split; [exact E|exact H].
Qed.

(* ---------- value per share for those left behind; histories ---------- *)

Definition pos_state (s : pstate) : Prop := Forall (fun r => 0 < r) (fst s) /\ 0 < snd s.

(* reserve per share of every asset did not decrease from s to s' *)
Definition vps_le (s s' : pstate) : Prop :=
  length (fst s') = length (fst s) /\
  forall i, (i < length (fst s))%nat -> nth i (fst s) 0 * snd s' <= nth i (fst s') 0 * snd s.

Lemma vps_refl s : vps_le s s.
Proof. split; [reflexivity|]. intros; lia. Qed.

Lemma vps_trans s1 s2 s3 : pos_state s2 -> 0 < snd s1 -> 0 < snd s3 -> vps_le s1 s2 -> vps_le s2 s3 -> vps_le s1 s3.
Proof.
  intros [_ H2] H1 H3 [L12 V12] [L23 V23]. split; [congruence|].
  intros i Hi. specialize (V12 i Hi). specialize (V23 i ltac:(lia)).
  set (a := nth i (fst s1) 0) in *. set (b := nth i (fst s2) 0) in *. set (c := nth i (fst s3) 0) in *.
  (* a*S2 <= b*S1, b*S3 <= c*S2 |- a*S3 <= c*S1 *)
  assert (A : a * snd s2 * snd s3 <= b * snd s1 * snd s3) by (apply Z.mul_le_mono_nonneg_r; lia).
  assert (B : b * snd s3 * snd s1 <= c * snd s2 * snd s1) by (apply Z.mul_le_mono_nonneg_r; lia).
  assert (C : snd s2 * (a * snd s3) <= snd s2 * (c * snd s1)) by lia.
  apply Z.mul_le_mono_pos_l in C; lia.
Qed.

Lemma Forall_pos_nth R : (forall i, (i < length R)%nat -> 0 < nth i R 0) -> Forall (fun r => 0 < r) R.
Proof. intros H. apply Forall_nth. intros i d Hi. rewrite (nth_indep _ d 0) by exact Hi. apply H. exact Hi. Qed.

Lemma join_step_inv R S sh j :
  Forall (fun r => 0 < r) R -> 0 < S -> length j = length R -> 0 <= sh ->
  (forall i, (i < length R)%nat -> 0 <= nth i j 0 /\ sh * nth i R 0 <= nth i j 0 * S) ->
  pos_state (zip_add R j, S + sh) /\ vps_le (R, S) (zip_add R j, S + sh).
Proof.
  intros HR HS Hl Hsh Hj. split; [split|split]; cbn [fst snd].
  - apply Forall_pos_nth. rewrite zip_add_length. intros i Hi. rewrite zip_add_nth by exact Hl.
    assert (0 < nth i R 0) by (apply (proj1 (Forall_nth _ R) HR); lia). destruct (Hj i Hi). lia.
  - lia.
  - apply zip_add_length.
  - intros i Hi. rewrite zip_add_nth by exact Hl. destruct (Hj i Hi). lia.
Qed.

Lemma step_inv s o s' : pos_state s -> step s o = Ok s' -> pos_state s' /\ vps_le s s'.
Proof.
  intros [HR HS] H. destruct s as [R S]. cbn [fst snd] in *. assert (HS0 : 0 <= S) by lia.
  destruct o as [amts|so|sh]; cbn [step fst snd] in H.
  - destruct (negb (forallb _ amts)) eqn:Ef; [discriminate|].
    apply negb_false_iff in Ef. rewrite forallb_forall in Ef.
    assert (Ha : Forall (fun a => 0 <= a) amts).
    { apply Forall_forall. intros x Hx. apply Z.leb_le. apply Ef. exact Hx. }
    destruct (join_coins R S (enum amts)) as [[[[sh j] R'] S']| |] eqn:Ej; cbn [bind fst snd] in H; try discriminate.
    inversion H; subst s'; clear H.
    destruct (join_enum_spec _ _ _ _ _ _ _ HR HS0 Ha Ej) as [L1 [L2 [-> [-> [Hs Hi]]]]].
    apply join_step_inv; try assumption. intros i Hlt. destruct (Hi i Hlt). lia.
  - destruct (join_shares R S so) as [[nd [[[sh j] R'] S']]| |] eqn:Ej; cbn [bind fst snd] in H; try discriminate.
    inversion H; subst s'; clear H.
    destruct (join_shares_spec _ _ _ _ _ _ _ _ HR HS0 Ej) as [L1 [L2 [-> [-> [Hs Hi]]]]].
    apply join_step_inv; try assumption. intros i Hlt. destruct (Hi i Hlt). lia.
  - destruct (keeper_exit R S sh) as [[[outs R'] S']| |] eqn:Ee; cbn [bind fst snd] in H; try discriminate.
    inversion H; subst s'; clear H.
    destruct (keeper_exit_spec _ _ _ _ _ _ HR Ee) as [Hsh Ep].
    assert (Hsh0 : 0 <= sh) by lia.
    destruct (exit_spec _ _ _ _ _ _ HR Hsh0 Ep) as [Hlt [-> [Lo [Lr Hi]]]].
    split; [split|split]; cbn [fst snd].
    + apply Forall_pos_nth. rewrite Lr. intros i Hl. destruct (Hi i Hl) as [A [B [C D]]]. lia.
    + lia.
    + exact Lr.
    + intros i Hl. destruct (Hi i Hl) as [A [B [C D]]]. rewrite D. lia.
Qed.

Lemma exec_inv s o : pos_state s -> pos_state (exec s o) /\ vps_le s (exec s o).
Proof.
  intros Hs. unfold exec, run_tx. destruct (step s o) as [s'| |] eqn:E.
  - apply (step_inv s o s' Hs E).
  - split; [exact Hs|apply vps_refl].
  - split; [exact Hs|apply vps_refl].
Qed.

Lemma run_inv ops : forall s, pos_state s -> pos_state (run s ops) /\ vps_le s (run s ops).
Proof.
  induction ops as [|o ops IH]; intros s Hs; cbn [run fold_left].
  - split; [exact Hs|apply vps_refl].
  - destruct (exec_inv s o Hs) as [H1 V1]. destruct (IH _ H1) as [H2 V2].
    split; [exact H2|]. apply (vps_trans s (exec s o)); try assumption.
    + apply Hs. + apply H2.
Qed.

(* ---------- property-level statements ---------- *)

Lemma join_tokens_le_deposit R S amts sh j R' S' :
  Forall (fun r => 0 < r) R -> 0 <= S -> Forall (fun a => 0 <= a) amts ->
  join_coins R S (enum amts) = Ok (sh, j, R', S') ->
  length j = length R /\ S' = S + sh /\ 0 <= sh /\
  forall i, (i < length R)%nat ->
    sh * nth i R 0 <= nth i j 0 * S /\ 0 <= nth i j 0 <= nth i amts 0 /\
    nth i R' 0 = nth i R 0 + nth i j 0 /\
    nth i R 0 * S' <= nth i R' 0 * S.
Proof.
  intros HR HS Ha H.
  destruct (join_enum_spec _ _ _ _ _ _ _ HR HS Ha H) as [L1 [L2 [-> [-> [Hs Hi]]]]].
  split; [exact L2|]. split; [reflexivity|]. split; [exact Hs|].
  intros i Hl. destruct (Hi i Hl) as [A B]. rewrite zip_add_nth by exact L2.
  split; [exact B|]. split; [exact A|]. split; [reflexivity|]. lia.
Qed.

Lemma join_shares_le_deposit R S so needed sh j R' S' :
  Forall (fun r => 0 < r) R -> 0 <= S ->
  join_shares R S so = Ok (needed, (sh, j, R', S')) ->
  length j = length R /\ S' = S + sh /\ 0 <= sh /\
  forall i, (i < length R)%nat ->
    sh * nth i R 0 <= nth i j 0 * S /\ 0 <= nth i j 0 <= nth i needed 0 /\
    nth i R' 0 = nth i R 0 + nth i j 0 /\
    nth i R 0 * S' <= nth i R' 0 * S.
Proof.
  intros HR HS H.
  destruct (join_shares_spec _ _ _ _ _ _ _ _ HR HS H) as [L1 [L2 [-> [-> [Hs Hi]]]]].
  split; [exact L2|]. split; [reflexivity|]. split; [exact Hs|].
  intros i Hl. destruct (Hi i Hl) as [A B]. rewrite zip_add_nth by exact L2.
  split; [exact B|]. split; [exact A|]. split; [reflexivity|]. lia.
Qed.

Lemma exit_le_prorata R S sh outs R' S' :
  Forall (fun r => 0 < r) R -> 0 <= sh ->
  exit_prorata R S sh = Ok (outs, R', S') ->
  S' = S - sh /\ 1 <= S' /\
  forall i, (i < length R)%nat ->
    0 <= nth i outs 0 /\ nth i outs 0 * S <= sh * nth i R 0 /\
    nth i R' 0 = nth i R 0 - nth i outs 0 /\ 1 <= nth i R' 0 /\
    nth i R 0 * S' <= nth i R' 0 * S.
Proof.
  intros HR Hsh H. destruct (exit_spec _ _ _ _ _ _ HR Hsh H) as [Hlt [-> [Lo [Lr Hi]]]].
  split; [reflexivity|]. split; [lia|]. intros i Hl. destruct (Hi i Hl) as [A [B [C D]]].
  rewrite D. repeat split; lia.
Qed.

Lemma exit_never_empties R S sh outs R' S' :
  Forall (fun r => 1 <= r) R ->
  keeper_exit R S sh = Ok (outs, R', S') ->
  1 <= S' /\ length R' = length R /\ Forall (fun r => 1 <= r) R'.
Proof.
  intros HR1 H.
  assert (HR : Forall (fun r => 0 < r) R) by (eapply Forall_impl; [|exact HR1]; cbn; intros; lia).
  destruct (keeper_exit_spec _ _ _ _ _ _ HR H) as [Hsh Ep].
  assert (Hsh0 : 0 <= sh) by lia.
  destruct (exit_spec _ _ _ _ _ _ HR Hsh0 Ep) as [Hlt [-> [Lo [Lr Hi]]]].
  split; [lia|]. split; [exact Lr|].
  apply Forall_nth. intros i d Hl. rewrite (nth_indep _ d 0) by exact Hl. rewrite Lr in Hl.
  destruct (Hi i Hl) as [A [B [C D]]]. lia.
Qed.

(* join, then exit at most the shares just minted: never more than the deposit, asset by asset, no slack *)
Lemma join_then_exit_core R S sh j t outs R'' S'' :
  Forall (fun r => 0 < r) R -> 0 <= S -> length j = length R -> 0 <= sh ->
  (forall i, (i < length R)%nat -> 0 <= nth i j 0 /\ sh * nth i R 0 <= nth i j 0 * S) ->
  0 <= t <= sh ->
  exit_prorata (zip_add R j) (S + sh) t = Ok (outs, R'', S'') ->
  forall i, (i < length R)%nat -> nth i outs 0 <= nth i j 0.
Proof.
  intros HR HS Hl Hsh Hj Ht He i Hi.
  assert (HR' : Forall (fun r => 0 < r) (zip_add R j)).
  { apply Forall_pos_nth. rewrite zip_add_length. intros k Hk. rewrite zip_add_nth by exact Hl.
    assert (0 < nth k R 0) by (apply (proj1 (Forall_nth _ R) HR); lia). destruct (Hj k Hk). lia. }
  assert (Ht0 : 0 <= t) by lia.
  destruct (exit_spec _ _ _ _ _ _ HR' Ht0 He) as [Hlt [_ [Lo [Lr Ho]]]].
  rewrite zip_add_length in Ho. destruct (Ho i Hi) as [A [B [C D]]].
  rewrite zip_add_nth in B by exact Hl. destruct (Hj i Hi) as [J0 J1].
  assert (0 < nth i R 0) by (apply (proj1 (Forall_nth _ R) HR); lia).
  set (o := nth i outs 0) in *. set (x := nth i j 0) in *. set (r := nth i R 0) in *.
  (* o*(S+sh) <= t*(r+x) <= sh*(r+x) = sh*r + sh*x <= x*S + sh*x = x*(S+sh) *)
  assert (E1 : t * (r + x) <= sh * (r + x)) by (apply Z.mul_le_mono_nonneg_r; lia).
  assert (E2 : o * (S + sh) <= x * (S + sh)) by lia.
  apply Z.mul_le_mono_pos_r in E2; lia.
Qed.

Lemma join_tokens_then_exit R S amts sh j R' S' t outs R'' S'' :
  Forall (fun r => 0 < r) R -> 0 <= S -> Forall (fun a => 0 <= a) amts ->
  join_coins R S (enum amts) = Ok (sh, j, R', S') -> 0 <= t <= sh ->
  exit_prorata R' S' t = Ok (outs, R'', S'') ->
  forall i, (i < length R)%nat -> nth i outs 0 <= nth i j 0 <= nth i amts 0.
Proof.
  intros HR HS Ha Hjn Ht He i Hi.
  destruct (join_enum_spec _ _ _ _ _ _ _ HR HS Ha Hjn) as [L1 [L2 [-> [-> [Hs Hj]]]]].
  split; [|apply (Hj i Hi)].
  apply (join_then_exit_core R S sh j t outs R'' S''); try assumption.
  intros k Hk. destruct (Hj k Hk). lia.
Qed.

Lemma join_shares_then_exit R S so needed sh j R' S' t outs R'' S'' :
  Forall (fun r => 0 < r) R -> 0 <= S ->
  join_shares R S so = Ok (needed, (sh, j, R', S')) -> 0 <= t <= sh ->
  exit_prorata R' S' t = Ok (outs, R'', S'') ->
  forall i, (i < length R)%nat -> nth i outs 0 <= nth i j 0 <= nth i needed 0.
Proof.
  intros HR HS Hjn Ht He i Hi.
  destruct (join_shares_spec _ _ _ _ _ _ _ _ HR HS Hjn) as [L1 [L2 [-> [-> [Hs Hj]]]]].
  split; [|apply (Hj i Hi)].
  apply (join_then_exit_core R S sh j t outs R'' S''); try assumption.
  intros k Hk. destruct (Hj k Hk). lia.
Qed.

Lemma value_per_share_history R S ops :
  Forall (fun r => 0 < r) R -> 0 < S ->
  let s' := run (R, S) ops in
  Forall (fun r => 1 <= r) (fst s') /\ 1 <= snd s' /\ length (fst s') = length R /\
  forall i, (i < length R)%nat -> nth i R 0 * snd s' <= nth i (fst s') 0 * S.
Proof.
  intros HR HS s'. destruct (run_inv ops (R, S)) as [[P1 P2] [L V]]; [split; assumption|].
  fold s' in P1, P2, L, V. cbn [fst snd] in L, V.
  split; [eapply Forall_impl; [|exact P1]; cbn; intros; lia|]. split; [lia|]. split; [exact L|exact V].
Qed.

(* ---------- oracle pools: the final share / amount kernels ---------- *)

Lemma chop_round_le_int d k : 0 <= d -> d <= k * PREC -> chop_round d <= k.
Proof.
  intros Hd Hk. destruct (chop_round_bounds d Hd) as [[A B] C]. unfold HALF, PREC in *. lia.
Qed.

Lemma PP_pos : 0 < PREC * PREC.
Proof. reflexivity. Qed.

Lemma half_terms : HALF + HALF * PREC <= PREC * PREC /\ HALF <= PREC /\ 0 <= HALF.
Proof. unfold HALF, PREC. lia. Qed.

(* shares minted by a single-sided oracle join are worth (at the pool's own TVL) at most the joined
   value plus one share unit *)
Lemma oracle_join_value S jv T wbf :
  0 <= S -> 0 <= jv -> 0 < T -> 0 <= wbf <= PREC ->
  0 <= oracle_join_shares S jv T wbf /\ oracle_join_shares S jv T wbf * T <= S * jv + T.
Proof.
  intros HS Hjv HT Hw. pose proof PREC_pos as HP. pose proof PP_pos as HPP.
  unfold oracle_join_shares, round_int, dmul, dquo, dec_of_int.
  set (a := chop_round (S * PREC * jv)).
  assert (Ha : 0 <= a <= S * jv).
  { assert (0 <= S * PREC * jv) by nia. split; [apply chop_round_bounds; lia|].
    apply chop_round_le_int; lia. }
  assert (Hnum : 0 <= a * PREC * PREC) by nia.
  destruct (quot_bound (a * PREC * PREC) T Hnum HT) as [Q0 [Q1 _]].
  set (q := Z.quot (a * PREC * PREC) T) in *.
  destruct (chop_round_bounds q Q0) as [[B1 B2] B0]. set (b := chop_round q) in *.
  assert (Hbw : 0 <= b * (PREC - wbf) <= b * PREC) by nia.
  destruct (chop_round_bounds (b * (PREC - wbf)) ltac:(lia)) as [[C1 C2] C0].
  assert (Hcb : chop_round (b * (PREC - wbf)) <= b) by (apply chop_round_le_int; lia).
  set (c := chop_round (b * (PREC - wbf))) in *.
  destruct (chop_round_bounds c C0) as [[S1 S2] S0]. set (s := chop_round c) in *.
  split; [exact S0|].
  assert (E : s * (PREC * PREC) <= q + (HALF + HALF * PREC)) by (unfold HALF, PREC in *; lia).
  assert (E2 : s * (PREC * PREC) * T <= (q + (HALF + HALF * PREC)) * T) by (apply Z.mul_le_mono_nonneg_r; lia).
  destruct half_terms as [E3 _].
  assert (E4 : (HALF + HALF * PREC) * T <= PREC * PREC * T) by (apply Z.mul_le_mono_nonneg_r; lia).
  assert (E6 : a * (PREC * PREC) <= S * jv * (PREC * PREC)) by (apply Z.mul_le_mono_nonneg_r; lia).
  assert (E5 : PREC * PREC * (s * T) <= PREC * PREC * (S * jv + T)) by lia.
  apply Z.mul_le_mono_pos_l in E5; lia.
Qed.

(* the amount paid by a single-sided oracle exit is worth at most the pro-rata share of the TVL plus
   one base unit of the asset (and 10^-18 of value); the fee only reduces it *)
Lemma oracle_exit_value T S sh p wbf :
  0 <= T -> 0 < S -> 0 <= sh -> 0 < p -> 0 <= wbf <= PREC ->
  let '(pre, out) := oracle_exit_out T S sh p wbf in
  0 <= out <= pre /\ out * p * S <= T * sh + S * (p + 1).
Proof.
  intros HT HS Hsh Hp Hw. pose proof PREC_pos as HP. pose proof PP_pos as HPP.
  unfold oracle_exit_out, round_int, dmul, dquo, dec_of_int.
  set (m := chop_round (T * (sh * PREC))).
  assert (Hm : 0 <= m <= T * sh).
  { assert (0 <= T * (sh * PREC)) by nia. split; [apply chop_round_bounds; lia|].
    apply chop_round_le_int; lia. }
  assert (Hn1 : 0 <= m * PREC * PREC) by nia.
  assert (HSP : 0 < S * PREC) by nia.
  destruct (quot_bound (m * PREC * PREC) (S * PREC) Hn1 HSP) as [Q0 [Q1 _]].
  set (q1 := Z.quot (m * PREC * PREC) (S * PREC)) in *.
  destruct (chop_round_bounds q1 Q0) as [[V1 V2] V0]. set (ev := chop_round q1) in *.
  assert (Hn2 : 0 <= ev * PREC * PREC) by nia.
  destruct (quot_bound (ev * PREC * PREC) p Hn2 Hp) as [R0 [R1 _]].
  set (q2 := Z.quot (ev * PREC * PREC) p) in *.
  destruct (chop_round_bounds q2 R0) as [[O1 O2] O0]. set (oo := chop_round q2) in *.
  assert (Hbw : 0 <= oo * (PREC - wbf) <= oo * PREC) by nia.
  destruct (chop_round_bounds (oo * (PREC - wbf)) ltac:(lia)) as [[C1 C2] C0].
  assert (Hcb : chop_round (oo * (PREC - wbf)) <= oo) by (apply chop_round_le_int; lia).
  set (c := chop_round (oo * (PREC - wbf))) in *.
  destruct (chop_round_bounds c C0) as [[S1 S2] S0]. set (out := chop_round c) in *.
  split; [split; [exact S0|]|].
  - apply chop_round_mono. lia.
  - destruct half_terms as [H1 [H2 H3]].
    assert (F1 : out * (PREC * PREC) <= q2 + (HALF + HALF * PREC)) by (unfold HALF, PREC in *; lia).
    assert (F2 : out * (PREC * PREC) * p <= (q2 + (HALF + HALF * PREC)) * p) by (apply Z.mul_le_mono_nonneg_r; lia).
    assert (F2b : (HALF + HALF * PREC) * p <= PREC * PREC * p) by (apply Z.mul_le_mono_nonneg_r; lia).
    assert (F3 : out * (PREC * PREC) * p <= ev * (PREC * PREC) + PREC * PREC * p) by lia.
    assert (F4 : out * (PREC * PREC) * p * S <= (ev * (PREC * PREC) + PREC * PREC * p) * S) by (apply Z.mul_le_mono_nonneg_r; lia).
    assert (G1 : ev * PREC * (S * PREC) <= (q1 + HALF) * (S * PREC)) by (apply Z.mul_le_mono_nonneg_r; lia).
    assert (G2 : HALF * (S * PREC) <= PREC * (S * PREC)) by (apply Z.mul_le_mono_nonneg_r; lia).
    assert (G3 : m * (PREC * PREC) <= T * sh * (PREC * PREC)) by (apply Z.mul_le_mono_nonneg_r; lia).
    assert (G4 : PREC * PREC * (out * p * S) <= PREC * PREC * (T * sh + S * (p + 1))) by lia.
    apply Z.mul_le_mono_pos_l in G4; lia.
Qed.

(* ---------- the faithful model refutes two of the stated claims (witnesses replayed on the real code) ---------- *)

(* MsgJoinPool.MaxAmountsIn is validated coin by coin only; on an oracle pool it reaches JoinPool as
   tokensIn. [uusdc:50e6; uusdc:100e6] passes every check of CalcJoinPoolNoSwapShares (Coins.Sub coalesces
   the duplicates, IsAnyGT looks the denom up by binary search and finds the larger coin): 100 USDC are
   charged, shares for 0.125 % of a pool holding 40e9 uusdc + 12e9 uatom are minted, no uatom is paid. *)
Definition dup_R : list Z := [12000000000; 40000000000].
Definition dup_S : Z := 100000000000000000000000.
Definition dup_tokens : list coin := [(1%nat, 50000000); (1%nat, 100000000)].

Lemma join_duplicate_denom_refuted :
  exists sh j R' S' outs R'' S'',
    Forall (fun r => 0 < r) dup_R /\ coins_sorted dup_tokens = true /\
    join_coins_prefix dup_R dup_S dup_tokens = Ok (sh, j, R', S') /\
    nth 0 j 0 = 0 /\ nth 1 j 0 = 100000000 /\
    ~ (sh * nth 0 dup_R 0 <= nth 0 j 0 * dup_S) /\
    exit_prorata R' S' sh = Ok (outs, R'', S'') /\
    (* at ATOM = 5 USDC the joiner gets back 24.9 USDC more than was deposited *)
    5 * nth 0 outs 0 + nth 1 outs 0 > 5 * nth 0 j 0 + nth 1 j 0 + 24900000 /\
    (* ... and every share of the others lost reserve *)
    nth 0 dup_R 0 * S'' > nth 0 R'' 0 * dup_S.
Proof.
  eexists _, _, _, _, _, _, _.
  split; [repeat constructor|]. split; [reflexivity|].
  split; [vm_compute; reflexivity|].
  split; [reflexivity|]. split; [reflexivity|].
  split; [vm_compute; intros H; apply H; reflexivity|].
  split; [vm_compute; reflexivity|].
  split; vm_compute; reflexivity.
Qed.

(* Single-sided exit of an oracle pool for shares worth exactly the whole reserve of the asset taken
   out: the final weight of that asset is 0, GetWeightBreakingFee then charges nothing, the amount paid
   equals the reserve, Coins.Sub drops the zero balance and the pool keeps booking the old reserve. *)
Definition drain_R : list Z := [20000000000; 100000000000].
Definition drain_S : Z := 200000000000000000000000.

Lemma oracle_exit_drains_reserve_refuted :
  exists out R' S',
    exit_oracle_prefix drain_R drain_S 100000000000000000000000 1 [0; 0]
                [5000000000000000000; 1000000000000000000] [10737418240; 10737418240] 0 = Ok (out, R', S') /\
    out = nth 1 drain_R 0 /\          (* everything the pool holds of that asset is paid out *)
    nth 1 drain_R 0 - out = 0 /\      (* so nothing is left ... *)
    nth 1 R' 0 = nth 1 drain_R 0 /\   (* ... but the book still shows the old reserve *)
    S' = 100000000000000000000000.
Proof.
  eexists _, _, _. split; [vm_compute; reflexivity|]. repeat split.
Qed.

(* ---------- single-asset join of a weighted pool (partial: Pow is not modelled) ---------- *)

(* If the implementation's power function does not exceed its base (true for any sound approximation
   of y^w with y >= 1, 0 < w <= 1), the minted shares never exceed the deposited asset's pro-rata
   measure: shares * B * 10^18 <= S * (a * 10^18 + B). *)
Lemma single_join_le_deposit B w tw a fee S pw :
  0 < B -> 0 <= a -> 0 <= S -> 0 <= fee <= PREC -> 0 <= w <= tw -> 0 < tw ->
  PREC <= pw <= single_join_y B w tw a fee ->
  0 <= single_join_shares S pw /\
  single_join_shares S pw * B * PREC <= S * (a * PREC + B).
Proof.
  intros HB Ha HS Hfee Hw Htw Hpw. pose proof PREC_pos as HP. pose proof PP_pos as HPP.
  destruct half_terms as [H1 [H2 H3]].
  unfold single_join_y, single_join_wn, single_join_shares, trunc_int, chop_trunc, dmul, dquo, dec_of_int in *.
  cbv zeta in Hpw.
  (* normalized weight in [0, 1] *)
  assert (Hn0 : 0 <= w * PREC * PREC * PREC) by nia.
  destruct (quot_bound (w * PREC * PREC * PREC) (tw * PREC) Hn0 ltac:(nia)) as [W0 [W1 _]].
  set (qw := Z.quot (w * PREC * PREC * PREC) (tw * PREC)) in *.
  assert (Wle : qw <= PREC * PREC).
  { assert (Hx : w * PREC * PREC * PREC <= tw * PREC * PREC * PREC) by nia.
    assert (Hy : qw * (tw * PREC) <= PREC * PREC * (tw * PREC)) by lia.
    apply Z.mul_le_mono_pos_r in Hy; nia. }
  destruct (chop_round_bounds qw W0) as [[N1 N2] N0].
  assert (Nle : chop_round qw <= PREC) by (apply chop_round_le_int; lia).
  set (wn := chop_round qw) in *.
  (* fee ratio in [0, 1] *)
  assert (Hf0 : 0 <= (PREC - wn) * fee <= PREC * PREC) by nia.
  destruct (chop_round_bounds ((PREC - wn) * fee) ltac:(lia)) as [[F1 F2] F0].
  assert (Fle : chop_round ((PREC - wn) * fee) <= PREC) by (apply chop_round_le_int; lia).
  set (fr := chop_round ((PREC - wn) * fee)) in *.
  (* amount after fee <= a (as a Dec) *)
  assert (Ha0 : 0 <= a * PREC * (PREC - fr) <= a * PREC * PREC) by nia.
  destruct (chop_round_bounds (a * PREC * (PREC - fr)) ltac:(lia)) as [[A1 A2] A0].
  assert (Ale : chop_round (a * PREC * (PREC - fr)) <= a * PREC) by (apply chop_round_le_int; lia).
  set (af := chop_round (a * PREC * (PREC - fr))) in *.
  (* y *)
  assert (Hy0 : 0 <= (B * PREC + af) * PREC * PREC) by nia.
  destruct (quot_bound ((B * PREC + af) * PREC * PREC) (B * PREC) Hy0 ltac:(nia)) as [Y0 [Y1 _]].
  set (qy := Z.quot ((B * PREC + af) * PREC * PREC) (B * PREC)) in *.
  destruct (chop_round_bounds qy Y0) as [[Z1 Z2] Z0].
  set (y := chop_round qy) in *.
  (* shares = floor (S * (pw - 1)) *)
  assert (Hd : S * PREC * (PREC - pw) <= 0) by nia.
  unfold chop_round. destruct (S * PREC * (PREC - pw) <? 0) eqn:Eneg.
  - rewrite Z.opp_involutive.
    assert (Hpos : 0 <= - (S * PREC * (PREC - pw))) by lia.
    destruct (chop_round_nonneg_bounds _ Hpos) as [[K1 K2] K0].
    assert (Kle : chop_round_nonneg (- (S * PREC * (PREC - pw))) <= S * (pw - PREC)).
    { rewrite <- chop_round_nonneg_eq by lia. apply chop_round_le_int; lia. }
    set (k := chop_round_nonneg (- (S * PREC * (PREC - pw)))) in *.
    destruct (quot_bound k PREC K0 HP) as [T0 [T1 _]]. set (s := Z.quot k PREC) in *.
    split; [exact T0|].
    (* s*P <= k <= S*(pw-P) <= S*(y-P);  y*P <= qy + H;  qy*(B*P) <= (B*P+af)*P*P;  af <= a*P *)
    assert (Hpwy : pw <= y) by lia.
    assert (E0 : S * (pw - PREC) <= S * (y - PREC)) by (apply Z.mul_le_mono_nonneg_l; lia).
    assert (E1 : s * PREC <= S * (y - PREC)) by lia.
    assert (E2 : y * PREC * (B * PREC) <= (qy + HALF) * (B * PREC)) by (apply Z.mul_le_mono_nonneg_r; nia).
    (* y*P*B*P <= (B*P+af)*P*P + H*B*P, hence (y-P)*B*P <= af*P + H*B *)
    assert (E3 : PREC * ((y - PREC) * B * PREC) <= PREC * (af * PREC + HALF * B)) by lia.
    apply Z.mul_le_mono_pos_l in E3; [|lia].
    assert (E3b : af * PREC <= a * PREC * PREC) by (apply Z.mul_le_mono_nonneg_r; lia).
    assert (E3c : HALF * B <= PREC * B) by (apply Z.mul_le_mono_nonneg_r; lia).
    assert (E4 : (y - PREC) * B * PREC <= a * PREC * PREC + PREC * B) by lia.
    assert (E5 : s * PREC * (B * PREC) <= S * (y - PREC) * (B * PREC)) by (apply Z.mul_le_mono_nonneg_r; nia).
    assert (E6 : S * ((y - PREC) * B * PREC) <= S * (a * PREC * PREC + PREC * B)) by (apply Z.mul_le_mono_nonneg_l; lia).
    assert (E7 : PREC * (s * B * PREC) <= PREC * (S * (a * PREC + B))) by lia.
    apply Z.mul_le_mono_pos_l in E7; lia.
  - apply Z.ltb_ge in Eneg. assert (Hz : S * PREC * (PREC - pw) = 0) by lia. rewrite Hz.
    cbn. split; [lia|]. nia.
Qed.

(* ---------- the code as it is after fix: 383287d / 1c2976e ---------- *)

(* ANY user-supplied token list (unsorted, repeated denoms, zero amounts: whatever passes the per-coin
   validation of MsgJoinPool) that CalcJoinPoolNoSwapShares accepts is a well-formed coin set with one
   coin per pool asset in pool order, so the guarantees of the well-formed case hold for all of them. *)
Lemma sorted_nodup_head_bound : forall (t : list coin) c hi,
  coins_sorted (c :: t) = true -> has_dup (c :: t) = false ->
  forallb (fun c => (fst c <? hi)%nat) (c :: t) = true -> (fst c + length t < hi)%nat.
Proof.
  induction t as [|c2 t IH]; intros c hi Hs Hd Hb.
  - cbn in Hb. rewrite Bool.andb_true_r in Hb. apply Nat.ltb_lt in Hb. cbn [length]. lia.
  - cbn [coins_sorted] in Hs. apply Bool.andb_true_iff in Hs. destruct Hs as [Hle Hs].
    apply Nat.leb_le in Hle.
    cbn [has_dup existsb] in Hd. apply Bool.orb_false_iff in Hd. destruct Hd as [Hd1 Hd2].
    apply Bool.orb_false_iff in Hd1. destruct Hd1 as [Hne _]. apply Nat.eqb_neq in Hne.
    cbn [forallb] in Hb. apply Bool.andb_true_iff in Hb. destruct Hb as [_ Hb].
    specialize (IH c2 hi Hs Hd2 Hb). cbn [length]. lia.
Qed.

Lemma sorted_nodup_seq : forall (t : list coin) s,
  coins_sorted t = true -> has_dup t = false ->
  forallb (fun c => (s <=? fst c)%nat) t = true ->
  forallb (fun c => (fst c <? s + length t)%nat) t = true ->
  map fst t = seq s (length t).
Proof.
  induction t as [|c t IH]; intros s Hs Hd Hlo Hhi; [reflexivity|].
  pose proof (sorted_nodup_head_bound t c _ Hs Hd Hhi) as Hb.
  cbn [forallb] in Hlo. apply Bool.andb_true_iff in Hlo. destruct Hlo as [Hlo1 Hlo]. apply Nat.leb_le in Hlo1.
  cbn [length] in Hb. assert (Hc : fst c = s) by lia.
  cbn [map length seq]. f_equal; [exact Hc|].
  assert (Hs' : coins_sorted t = true).
  { destruct t as [|c2 t']; [reflexivity|]. cbn [coins_sorted] in Hs. apply Bool.andb_true_iff in Hs. tauto. }
  assert (Hd' : has_dup t = false /\ forallb (fun c' => negb (Nat.eqb (fst c') (fst c))) t = true).
  { cbn [has_dup] in Hd. apply Bool.orb_false_iff in Hd. destruct Hd as [Hd1 Hd2]. split; [exact Hd2|].
    apply forallb_forall. intros x Hx. destruct (Nat.eqb (fst x) (fst c)) eqn:E; [|reflexivity].
    assert (existsb (fun c' => Nat.eqb (fst c') (fst c)) t = true) by (apply existsb_exists; exists x; tauto).
    congruence. }
  destruct Hd' as [Hd' Hne].
  apply IH; [exact Hs'|exact Hd'| |].
  - apply forallb_forall. intros x Hx.
    pose proof (proj1 (forallb_forall _ _) Hlo x Hx) as A. pose proof (proj1 (forallb_forall _ _) Hne x Hx) as B.
    cbn beta in A, B. apply Nat.leb_le in A. apply Bool.negb_true_iff in B. apply Nat.eqb_neq in B.
    apply Nat.leb_le. lia.
  - cbn [forallb length] in Hhi. apply Bool.andb_true_iff in Hhi. destruct Hhi as [_ Hhi].
    apply forallb_forall. intros x Hx. pose proof (proj1 (forallb_forall _ _) Hhi x Hx) as A. cbn beta in A.
    apply Nat.ltb_lt in A. apply Nat.ltb_lt. lia.
Qed.

Lemma combine_map_fst_snd (t : list coin) : combine (map fst t) (map snd t) = t.
Proof. induction t as [|[a b] t IH]; cbn; [reflexivity|]. rewrite IH. reflexivity. Qed.

Lemma join_accepts_only_coin_sets R S t sh j R' S' :
  join_coins R S t = Ok (sh, j, R', S') -> t = enum (map snd t).
Proof.
  intros H. unfold join_coins in H.
  destruct (forallb (fun c => (fst c <? length R)%nat) t) eqn:Ed; cbn [andb] in H.
  2:{ unfold join_coins_prefix in H. rewrite Ed in H. discriminate. }
  destruct (Nat.eqb (length t) (length R)) eqn:El; cbn [andb] in H.
  2:{ unfold join_coins_prefix in H. rewrite Ed, El in H. discriminate. }
  destruct (has_dup t) eqn:Eh; [discriminate|].
  unfold join_coins_prefix in H. rewrite Ed, El in H. cbn [negb] in H.
  destruct (existsb _ _); [discriminate|].
  destruct (_ =? MAXSORT); [discriminate|].
  destruct (coins_sorted t) eqn:Es; [|discriminate].
  apply Nat.eqb_eq in El.
  assert (Hm : map fst t = seq 0 (length t)).
  { apply sorted_nodup_seq; [exact Es|exact Eh| |].
    - apply forallb_forall. intros x _. reflexivity.
    - rewrite El. exact Ed. }
  unfold enum. rewrite map_length.
  transitivity (combine (map fst t) (map snd t)); [symmetry; apply combine_map_fst_snd|f_equal; exact Hm].
Qed.

Lemma join_user_coins_le_deposit R S t sh j R' S' :
  Forall (fun r => 0 < r) R -> 0 <= S -> Forall (fun c : coin => 0 <= snd c) t ->
  join_coins R S t = Ok (sh, j, R', S') ->
  t = enum (map snd t) /\
  length j = length R /\ S' = S + sh /\ 0 <= sh /\
  forall i, (i < length R)%nat ->
    sh * nth i R 0 <= nth i j 0 * S /\ 0 <= nth i j 0 <= nth i (map snd t) 0 /\
    nth i R' 0 = nth i R 0 + nth i j 0 /\
    nth i R 0 * S' <= nth i R' 0 * S.
Proof.
  intros HR HS Ht H. pose proof (join_accepts_only_coin_sets _ _ _ _ _ _ _ H) as Et.
  split; [exact Et|]. rewrite Et in H.
  apply join_tokens_le_deposit; try assumption.
  apply Forall_forall. intros a Ha. apply in_map_iff in Ha. destruct Ha as [c [<- Hc]].
  exact (proj1 (Forall_forall _ _) Ht c Hc).
Qed.

(* a repeated denom is always refused and changes nothing *)
Lemma join_duplicate_denom_rejected R S t : has_dup t = true -> is_ok (join_coins R S t) = false.
Proof.
  intros Hd. destruct (join_coins R S t) as [[[[sh j] R'] S']| |] eqn:E; try reflexivity.
  apply join_accepts_only_coin_sets in E. rewrite E, has_dup_enum in Hd. discriminate.
Qed.

(* processExitPool as it is: an accepted exit leaves every reserve strictly positive and books exactly
   reserve - out for every asset *)
Lemma existsb_combine_nth (f : Z * Z -> bool) : forall R outs i, length outs = length R -> (i < length R)%nat ->
  existsb f (combine R outs) = false -> f (nth i R 0, nth i outs 0) = false.
Proof.
  induction R as [|r R IH]; intros [|o outs] i Hl Hi H; cbn [length] in *; try lia.
  cbn [combine existsb] in H. apply Bool.orb_false_iff in H. destruct H as [H0 H].
  destruct i; cbn [nth]; [exact H0|]. apply IH; [lia|lia|exact H].
Qed.

Lemma apply_exit_spec R outs R' : length outs = length R ->
  apply_exit R outs = Ok R' ->
  length R' = length R /\ forall i, (i < length R)%nat -> nth i R' 0 = nth i R 0 - nth i outs 0 /\ 1 <= nth i R' 0.
Proof.
  intros Hl H. unfold apply_exit in H.
  destruct (existsb (fun ro => fst ro - snd ro <? 0) _) eqn:En; [discriminate|].
  destruct (existsb (fun ro => fst ro - snd ro =? 0) _) eqn:Ez; [discriminate|].
  inversion H; subst R'; clear H. split; [apply zip_exit_length|]. intros i Hi.
  pose proof (existsb_combine_nth _ R outs i Hl Hi En) as A. pose proof (existsb_combine_nth _ R outs i Hl Hi Ez) as B.
  cbn [fst snd] in A, B. apply Z.ltb_ge in A. apply Z.eqb_neq in B.
  rewrite zip_exit_nth by assumption.
  destruct (nth i R 0 - nth i outs 0 =? 0) eqn:E; [apply Z.eqb_eq in E; lia|]. lia.
Qed.

Lemma upd_nth_length {A} (x : A) : forall l k, length (upd_nth k x l) = length l.
Proof. induction l as [|y l IH]; intros [|k]; cbn [upd_nth length]; auto. Qed.

Lemma upd_nth_zeros_nth : forall (R : list Z) k out i,
  nth i (upd_nth k out (map (fun _ => 0) R)) 0 = if Nat.eqb i k then (if (k <? length R)%nat then out else 0) else 0.
Proof.
  induction R as [|r R IH]; intros k out i.
  - cbn [map upd_nth length]. replace (k <? 0)%nat with false by (symmetry; apply Nat.ltb_ge; lia).
    destruct (Nat.eqb i k); destruct i, k; reflexivity.
  - cbn [map length]. destruct k as [|k]; cbn [upd_nth].
    + destruct i as [|i]; cbn [nth Nat.eqb]; [reflexivity|].
      clear. revert i. induction R as [|r' R IH]; intros [|i]; cbn; auto.
    + destruct i as [|i]; cbn [nth Nat.eqb]; [reflexivity|]. rewrite IH.
      replace (S k <? S (length R))%nat with (k <? length R)%nat; [reflexivity|].
      destruct (Nat.ltb_spec k (length R)), (Nat.ltb_spec (S k) (S (length R))); try reflexivity; lia.
Qed.

Lemma oracle_exit_never_empties R S sh k acc prices weights wbf out R' S' :
  exit_oracle R S sh k acc prices weights wbf = Ok (out, R', S') ->
  sh < S /\ S' = S - sh /\ length R' = length R /\ Forall (fun r => 1 <= r) R' /\
  ((k < length R)%nat -> nth k R' 0 = nth k R 0 - out) /\
  (forall i, (i < length R)%nat -> i <> k -> nth i R' 0 = nth i R 0).
Proof.
  intros H. unfold exit_oracle, exit_oracle_gen in H.
  destruct (S <=? sh) eqn:E1; [discriminate|]. apply Z.leb_gt in E1.
  destruct (S =? 0); [discriminate|].
  destruct (tvl R acc prices weights) as [T| |]; cbn [bind] in H; try discriminate.
  destruct (oracle_exit_out T S sh (nth k prices 0) wbf) as [pre o].
  destruct (_ <? 0); [discriminate|].
  destruct (apply_exit R _) as [R0| |] eqn:Ea; cbn [bind] in H; try discriminate.
  inversion H; subst o R0 S'; clear H.
  apply apply_exit_spec in Ea; [|rewrite upd_nth_length, map_length; reflexivity].
  destruct Ea as [Lr Hi].
  split; [exact E1|]. split; [reflexivity|]. split; [exact Lr|]. split.
  - apply Forall_nth. intros i d Hl. rewrite (nth_indep _ d 0) by exact Hl. rewrite Lr in Hl. apply Hi; exact Hl.
  - split.
    + intros Hk. destruct (Hi k Hk) as [A _]. rewrite A, upd_nth_zeros_nth, Nat.eqb_refl.
      apply Nat.ltb_lt in Hk. rewrite Hk. reflexivity.
    + intros i Hl Hne. destruct (Hi i Hl) as [A _]. rewrite A, upd_nth_zeros_nth.
      apply Nat.eqb_neq in Hne. rewrite Hne. lia.
Qed.
