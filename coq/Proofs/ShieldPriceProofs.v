(* Proofs about Models/ShieldPrice.v: the market price x/tradeshield computes for a spot order's pair.
     - each of its two LegacyDec stages is within half a unit (+ one truncation) of the 18th digit of the exact quotient;
     - it is monotone in the base asset's oracle price and antitone in the quote asset's;
     - the trigger decision is monotone in the market price, hence in the oracle prices;
     - the first stage (USD value of ONE base unit, price / 10^decimals in 18 digits) loses the digits of the price below
       10^(decimals-18): witnesses of orders the code executes although the exact market price does not meet their trigger. *)
From Coq Require Import ZArith List Bool Lia.
From Elys Require Import Base.Res Base.Zdec Models.Shield Models.ShieldPrice.
Import ListNotations.
Open Scope Z_scope.

Lemma pow10_pos n : 0 <= n -> 0 < pow10 n.
Proof. intro H. unfold pow10. apply Z.pow_pos_nonneg; lia. Qed.

Lemma chop_round_exact a : 0 <= a -> chop_round (PREC * a) = a.
Proof.
  intro H. assert (0 <= PREC * a) by (pose proof PREC_pos; nia).
  rewrite chop_round_nonneg_eq by auto. unfold chop_round_nonneg.
  assert (Z.rem (PREC * a) PREC = 0) as R by (rewrite Z.mul_comm; apply Z.rem_mul; discriminate).
  assert (Z.quot (PREC * a) PREC = a) as Q by (rewrite Z.mul_comm; apply Z.quot_mul; discriminate).
  cbv zeta. rewrite R, Q. reflexivity.
Qed.

Lemma unit_price_quot p dec : 0 <= dec ->
  unit_price p dec = chop_round (Z.quot (p * PREC) (pow10 dec)).
Proof.
  intro D. unfold unit_price, dquo, dec_of_int. f_equal.
  apply Z.quot_mul_cancel_r; [pose proof (pow10_pos dec D); lia|discriminate].
Qed.

Lemma usd_value_unit p dec : 0 <= p -> 0 <= dec -> usd_value_of_one p dec = unit_price p dec.
Proof.
  intros P D. unfold usd_value_of_one, dmul, dec_of_int. rewrite Z.mul_1_l.
  apply chop_round_exact. rewrite unit_price_quot by auto.
  apply chop_round_bounds. apply Z.quot_pos; [pose proof PREC_pos; nia|pose proof (pow10_pos dec D); lia].
Qed.

(* stage 1: the USD value of one base unit is within (1/2 + 10^-18) units of the 18th digit of price / 10^decimals *)
Lemma usd_value_bound p dec : 0 <= p -> 0 <= dec ->
  let a := usd_value_of_one p dec in
  0 <= a /\ Z.abs (a * pow10 dec - p) * PREC <= pow10 dec * (HALF + 1).
Proof.
  intros P D. cbv zeta. rewrite usd_value_unit by auto. rewrite unit_price_quot by auto.
  pose proof (pow10_pos dec D) as T. set (t := pow10 dec) in *.
  pose proof PREC_pos as PP.
  assert (0 <= p * PREC) as N by nia.
  set (q := Z.quot (p * PREC) t).
  assert (0 <= q) as Q0 by (apply Z.quot_pos; lia).
  pose proof (Z.quot_rem' (p * PREC) t) as E. fold q in E.
  assert (0 <= Z.rem (p * PREC) t < t) as R by (apply Z.rem_bound_pos; lia).
  destruct (chop_round_bounds q Q0) as [[B1 B2] B3].
  set (a := chop_round q) in *.
  split; [auto|].
  assert (a * PREC * t <= (q + HALF) * t) as U by (apply Z.mul_le_mono_nonneg_r; lia).
  assert ((q - HALF) * t <= a * PREC * t) as L by (apply Z.mul_le_mono_nonneg_r; lia).
  rewrite Z.mul_add_distr_r in U. rewrite Z.mul_sub_distr_r in L.
  assert ((a * t - p) * PREC = a * PREC * t - p * PREC) as X by ring.
  assert (t * (HALF + 1) = HALF * t + t) as Y by ring.
  assert (t * q = q * t) as C by ring.
  destruct (Z.abs_spec (a * t - p)) as [[_ ->]|[_ ->]]; [|rewrite Z.mul_opp_l]; rewrite X, Y; lia.
Qed.

(* stage 2: the quotient of the two values, same rounding *)
Lemma market_price_bound pin din pout dout mp :
  0 <= pin -> 0 <= pout -> 0 <= din -> 0 <= dout ->
  market_price pin din pout dout = Some mp ->
  let a := usd_value_of_one pin din in
  let b := usd_value_of_one pout dout in
  0 < a /\ 0 < b /\ 0 <= mp /\ Z.abs (mp * b - a * PREC) * PREC <= b * (HALF + 1).
Proof.
  intros Pi Po Di Do. unfold market_price. cbv zeta.
  destruct (usd_value_bound pin din Pi Di) as [A0 _]. destruct (usd_value_bound pout dout Po Do) as [B0 _].
  set (a := usd_value_of_one pin din) in *. set (b := usd_value_of_one pout dout) in *.
  destruct (Z.eqb_spec a 0); [discriminate|]. destruct (Z.eqb_spec b 0); [discriminate|]. cbv beta iota delta [orb].
  intro H; injection H as <-.
  pose proof PREC_pos as PP.
  assert (0 <= a * PREC * PREC) as N by nia.
  unfold dquo. set (q := Z.quot (a * PREC * PREC) b).
  assert (0 <= q) as Q0 by (apply Z.quot_pos; lia).
  pose proof (Z.quot_rem' (a * PREC * PREC) b) as E. fold q in E.
  assert (0 <= Z.rem (a * PREC * PREC) b < b) as R by (apply Z.rem_bound_pos; lia).
  destruct (chop_round_bounds q Q0) as [[B1 B2] B3].
  set (m := chop_round q) in *.
  repeat split; try lia.
  assert (m * PREC * b <= (q + HALF) * b) as U by (apply Z.mul_le_mono_nonneg_r; lia).
  assert ((q - HALF) * b <= m * PREC * b) as L by (apply Z.mul_le_mono_nonneg_r; lia).
  rewrite Z.mul_add_distr_r in U. rewrite Z.mul_sub_distr_r in L.
  assert ((m * b - a * PREC) * PREC = m * PREC * b - a * PREC * PREC) as X by ring.
  assert (b * (HALF + 1) = HALF * b + b) as Y by ring.
  assert (b * q = q * b) as C by ring.
  destruct (Z.abs_spec (m * b - a * PREC)) as [[_ ->]|[_ ->]]; [|rewrite Z.mul_opp_l]; rewrite X, Y; lia.
Qed.

(* C20_market_price_rounding *)
Theorem market_price_rounding : forall pin din pout dout mp,
  0 <= pin -> 0 <= pout -> 0 <= din -> 0 <= dout ->
  market_price pin din pout dout = Some mp ->
  let a := usd_value_of_one pin din in
  let b := usd_value_of_one pout dout in
  0 < a /\ 0 < b /\ 0 <= mp /\
  Z.abs (a * pow10 din - pin) * PREC <= pow10 din * (HALF + 1) /\
  Z.abs (b * pow10 dout - pout) * PREC <= pow10 dout * (HALF + 1) /\
  Z.abs (mp * b - a * PREC) * PREC <= b * (HALF + 1).
Proof.
  intros pin din pout dout mp Pi Po Di Do H. cbv zeta.
  destruct (market_price_bound _ _ _ _ _ Pi Po Di Do H) as (A & B & M & Q).
  destruct (usd_value_bound pin din Pi Di) as [_ UA]. destruct (usd_value_bound pout dout Po Do) as [_ UB].
  repeat split; auto.
Qed.

(* ---------- monotonicity ---------- *)
Lemma usd_value_mono p p' dec : 0 <= p <= p' -> 0 <= dec -> usd_value_of_one p dec <= usd_value_of_one p' dec.
Proof.
  intros P D. rewrite !usd_value_unit by lia. rewrite !unit_price_quot by auto.
  pose proof (pow10_pos dec D). pose proof PREC_pos.
  apply chop_round_mono. split.
  - apply Z.quot_pos; nia.
  - apply Z.quot_le_mono; nia.
Qed.

Lemma dquo_mono_num a a' b : 0 <= a <= a' -> 0 < b -> dquo a b <= dquo a' b.
Proof.
  intros A B. unfold dquo. pose proof PREC_pos. apply chop_round_mono. split.
  - apply Z.quot_pos; nia.
  - apply Z.quot_le_mono; nia.
Qed.

Lemma dquo_anti_den a b b' : 0 <= a -> 0 < b <= b' -> dquo a b' <= dquo a b.
Proof.
  intros A B. unfold dquo. pose proof PREC_pos. apply chop_round_mono. split.
  - apply Z.quot_pos; nia.
  - apply Z.quot_le_compat_l; nia.
Qed.

(* C20_market_price_monotone *)
Theorem market_price_monotone : forall pin pin' din pout pout' dout m,
  0 <= pin <= pin' -> 0 <= pout' <= pout -> 0 <= din -> 0 <= dout ->
  market_price pin din pout dout = Some m ->
  market_price pin' din pout' dout = None \/
  exists m', market_price pin' din pout' dout = Some m' /\ m <= m'.
Proof.
  intros pin pin' din pout pout' dout m Pi Po Di Do H.
  destruct (market_price_bound pin din pout dout m ltac:(lia) ltac:(lia) Di Do H) as (A & B & _).
  pose proof (usd_value_mono pin pin' din Pi Di) as MA.
  pose proof (usd_value_mono pout' pout dout Po Do) as MB.
  destruct (usd_value_bound pout' dout ltac:(lia) Do) as [B0 _].
  unfold market_price in *. cbv zeta in *.
  set (a := usd_value_of_one pin din) in *. set (b := usd_value_of_one pout dout) in *.
  set (a' := usd_value_of_one pin' din) in *. set (b' := usd_value_of_one pout' dout) in *.
  destruct (Z.eqb_spec a 0); [lia|]. destruct (Z.eqb_spec b 0); [lia|]. simpl in H. injection H as <-.
  destruct (Z.eqb_spec a' 0); [lia|]. destruct (Z.eqb_spec b' 0); [left; reflexivity|]. simpl.
  right. eexists; split; [reflexivity|].
  transitivity (dquo a' b); [apply dquo_mono_num; lia|apply dquo_anti_den; lia].
Qed.

(* the base side alone: a higher base price never loses the price and never lowers it *)
Theorem market_price_monotone_base : forall pin pin' din pout dout m,
  0 <= pin <= pin' -> 0 <= pout -> 0 <= din -> 0 <= dout ->
  market_price pin din pout dout = Some m ->
  exists m', market_price pin' din pout dout = Some m' /\ m <= m'.
Proof.
  intros pin pin' din pout dout m Pi Po Di Do H.
  destruct (market_price_monotone pin pin' din pout pout dout m Pi ltac:(lia) Di Do H) as [N|X]; [|exact X].
  exfalso. destruct (market_price_bound pin din pout dout m ltac:(lia) Po Di Do H) as (A & B & _).
  pose proof (usd_value_mono pin pin' din Pi Di) as MA.
  unfold market_price in N. cbv zeta in N.
  destruct (Z.eqb_spec (usd_value_of_one pin' din) 0); [lia|].
  destruct (Z.eqb_spec (usd_value_of_one pout dout) 0); [lia|]. discriminate.
Qed.

(* C20_trigger_monotone: the decision of ExecuteOrders in the market price. Spot LIMITSELL (1) and perpetual SHORT (2):
   a trigger that is met stays met at any higher price; spot STOPLOSS / LIMITBUY and perpetual LONG: at any lower price. *)
Definition rising (o : order) : bool := if o_perp o then o_type o =? 2 else o_type o =? 1.
Definition falling (o : order) : bool := if o_perp o then o_type o =? 1 else negb (o_type o =? 1).

Theorem trigger_monotone : forall o mp mp', triggered o mp = true ->
  (rising o = true -> mp <= mp' -> triggered o mp' = true) /\
  (falling o = true -> mp' <= mp -> triggered o mp' = true).
Proof.
  intros o mp mp' T. unfold triggered, rising, falling in *.
  destruct (o_perp o).
  - destruct (Z.eqb_spec (o_type o) 1) as [E|E].
    + rewrite E. simpl. split; [discriminate|]. intros _ L.
      apply negb_true_iff in T. apply negb_true_iff. apply Z.ltb_ge in T. apply Z.ltb_ge. lia.
    + destruct (Z.eqb_spec (o_type o) 2) as [E2|E2]; [|split; reflexivity].
      split; [|discriminate]. intros _ L.
      apply negb_true_iff in T. apply negb_true_iff. apply Z.ltb_ge in T. apply Z.ltb_ge. lia.
  - destruct (Z.eqb_spec (o_type o) 1) as [E|E]; simpl.
    + split; [|discriminate]. intros _ L.
      apply negb_true_iff in T. apply negb_true_iff. apply Z.ltb_ge in T. apply Z.ltb_ge. lia.
    + split; [discriminate|]. intros _ L.
      apply negb_true_iff in T. apply negb_true_iff. apply Z.ltb_ge in T. apply Z.ltb_ge. lia.
Qed.

(* ... hence in the oracle price of the base asset: a limit sell that triggers at base price pin triggers at every higher
   base price (quote price and decimals fixed) *)
Theorem trigger_monotone_in_oracle_price : forall o pin pin' din pout dout m,
  o_perp o = false -> o_type o = 1 ->
  0 <= pin <= pin' -> 0 <= pout -> 0 <= din -> 0 <= dout ->
  market_price pin din pout dout = Some m -> triggered o m = true ->
  exists m', market_price pin' din pout dout = Some m' /\ triggered o m' = true.
Proof.
  intros o pin pin' din pout dout m NP TY Pi Po Di Do H T.
  destruct (market_price_monotone_base _ _ _ _ _ _ Pi Po Di Do H) as (m' & H' & L).
  exists m'. split; [exact H'|].
  apply (proj1 (trigger_monotone o m m' T)); [|exact L].
  unfold rising. rewrite NP, TY. reflexivity.
Qed.

(* the exact decision is monotone too (no rounding: cross-multiplication) *)
Theorem exact_ge_monotone : forall pin pin' din pout dout rate,
  0 <= pin <= pin' -> 0 <= dout -> exact_ge pin din pout dout rate = true -> exact_ge pin' din pout dout rate = true.
Proof.
  intros pin pin' din pout dout rate P D. unfold exact_ge. intro H. apply Z.leb_le in H. apply Z.leb_le.
  pose proof (pow10_pos dout D). pose proof PREC_pos.
  assert (pin * pow10 dout * PREC <= pin' * pow10 dout * PREC) by (apply Z.mul_le_mono_nonneg_r; nia). lia.
Qed.

(* ---------- the code's market price does not decide the trigger as the exact price does ----------
   aweth (18 decimals) at 2000.6 USD, uusdc (6 decimals) at 1 USD: one base unit of aweth is worth 2000.6e-18 USD, which
   LegacyDec stores as 2001e-18; the code's price of aweth in uusdc is 2.001e-9, the exact one 2.0006e-9.
   A LIMITSELL of aweth for uusdc at rate 2.0008e-9 (2000.8 USD per WETH) is executed by anybody's MsgExecuteOrders although
   the market (2000.6) is below the limit.  Same loss with 6 decimals on the 13th digit: uatom at 5.0000000000004 USD is taken
   as 5.000000000000, a STOPLOSS at 5.0000000000002 is executed although the market is above it. *)
Definition w_weth : Z := 2000600000000000000000.   (* 2000.6 *)
Definition w_usdc : Z := 1000000000000000000.      (* 1.0 *)
Definition w_sell : order := spot_order 1 2000800000.          (* LIMITSELL, rate 0.0000000020008 uusdc per aweth *)
Definition w_atom : Z := 5000000000000400000.      (* 5.0000000000004 *)
Definition w_stop : order := spot_order 0 5000000000000200000. (* STOPLOSS, rate 5.0000000000002 uusdc per uatom *)

Theorem trigger_by_exact_price_refuted :
  market_price w_weth 18 w_usdc 6 = Some 2001000000 /\
  triggered w_sell 2001000000 = true /\
  exact_triggered (o_type w_sell) w_weth 18 w_usdc 6 (o_rate w_sell) = false /\
  market_price w_atom 6 w_usdc 6 = Some 5000000000000000000 /\
  triggered w_stop 5000000000000000000 = true /\
  exact_triggered (o_type w_stop) w_atom 6 w_usdc 6 (o_rate w_stop) = false.
Proof. repeat split; vm_compute; reflexivity. Qed.

(* where the price is a multiple of 10^(decimals-18) - at most 18-decimals digits - nothing is lost in stage 1
   (all prices the fixture starts from; 12 digits for the 6-decimals assets) *)
Theorem usd_value_exact_on_grid : forall p dec, 0 <= p -> 0 <= dec -> Z.rem p (pow10 dec) = 0 ->
  usd_value_of_one p dec * pow10 dec = p.
Proof.
  intros p dec P D R. rewrite usd_value_unit by auto. rewrite unit_price_quot by auto.
  pose proof (pow10_pos dec D) as T. set (t := pow10 dec) in *.
  pose proof (Z.quot_rem' p t) as E. rewrite R in E. set (k := Z.quot p t) in *.
  assert (0 <= k) by (apply Z.quot_pos; lia).
  assert (p * PREC = (PREC * k) * t) as E2 by (rewrite E at 1; ring).
  rewrite E2. rewrite Z.quot_mul by lia. rewrite chop_round_exact by lia. lia.
Qed.

(* ---------- the proposed repair: one rounding, and it decides the two witnesses as the exact price does ---------- *)
Lemma dquo_bound n d : 0 <= n -> 0 < d ->
  0 <= dquo n d /\ Z.abs (dquo n d * d - n * PREC) * PREC <= d * (HALF + 1).
Proof.
  intros N D. pose proof PREC_pos as PP. unfold dquo.
  assert (0 <= n * PREC * PREC) as N2 by nia.
  set (q := Z.quot (n * PREC * PREC) d).
  assert (0 <= q) as Q0 by (apply Z.quot_pos; lia).
  pose proof (Z.quot_rem' (n * PREC * PREC) d) as E. fold q in E.
  assert (0 <= Z.rem (n * PREC * PREC) d < d) as R by (apply Z.rem_bound_pos; lia).
  destruct (chop_round_bounds q Q0) as [[B1 B2] B3].
  set (m := chop_round q) in *.
  split; [auto|].
  assert (m * PREC * d <= (q + HALF) * d) as U by (apply Z.mul_le_mono_nonneg_r; lia).
  assert ((q - HALF) * d <= m * PREC * d) as L by (apply Z.mul_le_mono_nonneg_r; lia).
  rewrite Z.mul_add_distr_r in U. rewrite Z.mul_sub_distr_r in L.
  assert ((m * d - n * PREC) * PREC = m * PREC * d - n * PREC * PREC) as X by ring.
  assert (d * (HALF + 1) = HALF * d + d) as Y by ring.
  assert (d * q = q * d) as C by ring.
  destruct (Z.abs_spec (m * d - n * PREC)) as [[_ ->]|[_ ->]]; [|rewrite Z.mul_opp_l]; rewrite X, Y; lia.
Qed.

(* mp is within (1/2 + 10^-18) units of its 18th digit of the EXACT market price (pin * 10^dout) / (pout * 10^din) *)
Theorem market_price_fixed_rounding : forall pin din pout dout mp,
  0 <= din -> 0 <= dout -> market_price_fixed pin din pout dout = Some mp ->
  0 <= mp /\
  (din <= dout -> Z.abs (mp * pout - pin * pow10 (dout - din) * PREC) * PREC <= pout * (HALF + 1)) /\
  (dout < din -> Z.abs (mp * (pout * pow10 (din - dout)) - pin * PREC) * PREC <= pout * pow10 (din - dout) * (HALF + 1)).
Proof.
  intros pin din pout dout mp Di Do. unfold market_price_fixed, dmul_int.
  destruct (Z.leb_spec pin 0) as [|PI]; [discriminate|]. destruct (Z.leb_spec pout 0) as [|PO]; [discriminate|].
  cbv beta iota delta [orb].
  destruct (Z.leb_spec din dout) as [L|L]; intro HH; injection HH as <-.
  - pose proof (pow10_pos (dout - din) ltac:(lia)) as T.
    destruct (dquo_bound (pin * pow10 (dout - din)) pout ltac:(nia) ltac:(lia)) as [A B].
    split; [auto|]. split; [intros _; exact B|lia].
  - pose proof (pow10_pos (din - dout) ltac:(lia)) as T.
    destruct (dquo_bound pin (pout * pow10 (din - dout)) ltac:(lia) ltac:(nia)) as [A B].
    split; [auto|]. split; [lia|intros _; exact B].
Qed.

Theorem market_price_fixed_witnesses :
  market_price_fixed w_weth 18 w_usdc 6 = Some 2000600000 /\
  triggered w_sell 2000600000 = false /\
  market_price_fixed w_atom 6 w_usdc 6 = Some w_atom /\
  triggered w_stop w_atom = false.
Proof. repeat split; vm_compute; reflexivity. Qed.
