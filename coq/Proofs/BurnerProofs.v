(* C19 - the commutativity instance for the burner's map range (Models/Burner.v). *)
From stdpp Require Import gmap.
From Coq Require Import ZArith.
From Elys Require Import Base.Res Models.Restart Models.Burner Proofs.RestartProofs.
Open Scope Z_scope.

Lemma getz_insert_ne (m : gmap N Z) d d' v : d ≠ d' -> getz (<[d' := v]> m) d = getz m d.
Proof. intros Hne. unfold getz. rewrite lookup_insert_ne by done. done. Qed.

Lemma can_burn_apply_ne ts d1 a1 d2 a2 s : d1 ≠ d2 -> can_burn d1 a1 (apply_burn ts d2 a2 s) = can_burn d1 a1 s.
Proof. intros Hne. unfold can_burn, apply_burn; cbn. rewrite !getz_insert_ne by done. done. Qed.

Lemma apply_burn_comm ts d1 a1 d2 a2 s : d1 ≠ d2 ->
  apply_burn ts d2 a2 (apply_burn ts d1 a1 s) = apply_burn ts d1 a1 (apply_burn ts d2 a2 s).
Proof.
  intros Hne. unfold apply_burn; cbn. rewrite !getz_insert_ne by done.
  f_equal; apply insert_commute; congruence.
Qed.

(* iterations for different denoms commute, including the failing ones *)
Lemma burn_commutes ts : commutes (burn_one ts).
Proof.
  intros d1 a1 d2 a2 s Hne. unfold burn_one.
  destruct (can_burn d1 a1 s) eqn:C1; destruct (can_burn d2 a2 s) eqn:C2; cbn.
  - rewrite (can_burn_apply_ne ts d2 a2 d1 a1 s) by done. rewrite (can_burn_apply_ne ts d1 a1 d2 a2 s) by done.
    rewrite C1, C2. f_equal. apply apply_burn_comm. done.
  - rewrite (can_burn_apply_ne ts d2 a2 d1 a1 s) by done. rewrite C2. done.
  - rewrite (can_burn_apply_ne ts d1 a1 d2 a2 s) by done. rewrite C1. done.
  - done.
Qed.

Lemma list_fmap_map {A B} (f : A -> B) (l : list A) : f <$> l = List.map f l.
Proof. induction l as [|x r IH]; cbn; [done | by rewrite IH]. Qed.

Lemma entries_nodup (m : gmap N Z) : List.NoDup (List.map fst (map_to_list m)).
Proof. rewrite <- list_fmap_map. apply NoDup_ListNoDup. apply NoDup_fst_map_to_list. Qed.

(* BurnTokensForAllDenoms: the outcome (new state or failure) is the same for every order in which the Go
   runtime may deliver the entries of the balances map *)
Theorem burner_order_irrelevant ts meta s l1 l2 :
  burn_orders meta s l1 -> burn_orders meta s l2 -> burn_in_order ts l1 s = burn_in_order ts l2 s.
Proof.
  intros P1 P2. unfold burn_in_order.
  apply (order_irrelevant (burn_one ts) (map_to_list (positive_balances meta s)) l1 l2 s);
    [apply burn_commutes | apply entries_nodup | exact P1 | exact P2].
Qed.

Lemma lift_commutes {P T K E : Type} (b : K -> E -> P -> res P) : commutes b -> commutes (@lift_body P T K E b).
Proof.
  intros Hc k1 e1 k2 e2 [p t] Hne. specialize (Hc k1 e1 k2 e2 p Hne).
  unfold lift_body at 1 3. cbn [pers trans].
  destruct (b k1 e1 p) as [p1|c1|c1] eqn:B1; destruct (b k2 e2 p) as [p2|c2|c2] eqn:B2; cbn [bind] in *;
    unfold lift_body; cbn [pers trans]; try rewrite Hc; try rewrite <- Hc; try reflexivity; try congruence.
Qed.

(* as an operation of the abstract node it satisfies the side condition of the determinism theorems,
   whatever the number of memory cells *)
Theorem burner_op_ok {T V : Type} (ncell : nat) ts meta : op_ok ncell (@burner_op T V ts meta).
Proof.
  split.
  - apply lift_commutes, burn_commutes.
  - intros s. apply entries_nodup.
Qed.

(* not vacuous: three denoms with metadata, two of them with a positive balance at the zero address; both
   visiting orders are orders of the map, the burn succeeds, and the outcome is the same *)
Definition demo_state : bstate :=
  mkB (<[1%N := 70]> (<[2%N := 5]> ∅)) ∅ (<[1%N := 1000]> (<[2%N := 1000]> ∅)) ∅.
Example burner_two_denoms :
  burn_orders [1%N; 2%N; 3%N] demo_state [(1%N, 70); (2%N, 5)] /\
  burn_orders [1%N; 2%N; 3%N] demo_state [(2%N, 5); (1%N, 70)] /\
  is_ok (burn_in_order 9%N [(1%N, 70); (2%N, 5)] demo_state) = true /\
  burn_in_order 9%N [(1%N, 70); (2%N, 5)] demo_state = burn_in_order 9%N [(2%N, 5); (1%N, 70)] demo_state.
Proof.
  assert (A : burn_orders [1%N; 2%N; 3%N] demo_state [(1%N, 70); (2%N, 5)]).
  { unfold burn_orders. vm_compute. first [apply Permutation_refl | apply perm_swap]. }
  assert (B : burn_orders [1%N; 2%N; 3%N] demo_state [(2%N, 5); (1%N, 70)]).
  { unfold burn_orders. vm_compute. first [apply Permutation_refl | apply perm_swap]. }
  split; [exact A|]. split; [exact B|]. split; [vm_compute; reflexivity|].
  exact (burner_order_irrelevant 9%N _ _ _ _ A B).
Qed.
