From Coq Require Import ZArith List Bool Arith Lia.
From Elys Require Import Base.Res Base.Fn Base.Zdec Models.SumLedger Proofs.SumLedgerProofs Models.Stable Proofs.StableProofs Models.VaultLedger.
Import ListNotations.
Open Scope Z_scope.

(* well-formedness of the debt store *)
Definition VWf (v : vault) : Prop :=
  NoDup (v_keys v) /\
  (forall k, ~ In k (v_keys v) -> v_b v k = 0 /\ v_s v k = 0 /\ v_p v k = 0) /\
  (forall k, 0 <= v_b v k /\ 0 <= v_p v k <= v_s v k) /\
  (forall k, v_b v k = 0 -> v_s v k = v_p v k).

(* the C06 equation with the ghost, plus well-formedness *)
Definition VInv (v : vault) : Prop :=
  v_tv v + v_don v = v_cash v + loans v /\ VWf v /\ 0 <= v_don v.

Lemma vault_empty_inv : VInv vault_empty.
Proof.
  unfold VInv, VWf, vault_empty, loans; cbn. split; [reflexivity|]. split; [|lia].
  split; [constructor|]. split; [intros; auto|]. split; [intros; lia|intros; reflexivity].
Qed.

Lemma remove_key_notin k l : ~ In k l -> remove_key k l = l.
Proof.
  induction l as [|y r IH]; intros H; cbn; [reflexivity|].
  destruct (Nat.eqb_spec k y) as [->|Ne]; [exfalso; apply H; left; reflexivity|].
  rewrite IH; [reflexivity|]. intros Hin; apply H; right; exact Hin.
Qed.

Lemma liab_put v tv cash k b s p x : liab (put v tv cash k b s p) x = upd (liab v) k (b + s - p) x.
Proof. unfold liab, put, upd; cbn. destruct (Nat.eqb x k); reflexivity. Qed.

Lemma liab_del v tv cash k x : liab (del v tv cash k) x = upd (liab v) k 0 x.
Proof. unfold liab, del, upd; cbn. destruct (Nat.eqb x k); reflexivity. Qed.

Lemma liab_absent v k : VWf v -> ~ In k (v_keys v) -> liab v k = 0.
Proof. intros (_ & HZ & _) H. destruct (HZ k H) as (A & B & C). unfold liab. lia. Qed.

Lemma loans_put v tv cash k b s p : VWf v ->
  loans (put v tv cash k b s p) = loans v - liab v k + (b + s - p).
Proof.
  intros HW. pose proof HW as (ND & _). unfold loans.
  rewrite (sumf_ext _ (upd (liab v) k (b + s - p))) by (intros; apply liab_put).
  unfold put; cbn [v_keys]. destruct (mem_key k (v_keys v)) eqn:M.
  - apply mem_key_In in M. rewrite sumf_upd_in by assumption. lia.
  - assert (Hn : ~ In k (v_keys v)) by (intros Hin; apply mem_key_In in Hin; congruence).
    cbn [sumf]. rewrite upd_same, sumf_upd_notin by exact Hn. rewrite (liab_absent v k HW Hn). lia.
Qed.

Lemma loans_del v tv cash k : VWf v -> loans (del v tv cash k) = loans v - liab v k.
Proof.
  intros HW. pose proof HW as (ND & _). unfold loans.
  rewrite (sumf_ext _ (upd (liab v) k 0)) by (intros; apply liab_del).
  unfold del; cbn [v_keys]. destruct (in_dec Nat.eq_dec k (v_keys v)) as [Hin|Hn].
  - destruct (remove_key_spec k (v_keys v) ND Hin) as (_ & B & _ & D).
    rewrite (D (liab v)).
    rewrite (sumf_ext (upd (liab v) k 0) (liab v)); [lia|].
    intros x Hx. apply B in Hx. destruct Hx as [_ Ne]. apply upd_other. exact Ne.
  - rewrite remove_key_notin by exact Hn. rewrite sumf_upd_notin by exact Hn.
    rewrite (liab_absent v k HW Hn). lia.
Qed.

Lemma put_wf v tv cash k b s p : VWf v -> 0 <= b -> 0 <= p <= s -> (b = 0 -> s = p) ->
  VWf (put v tv cash k b s p).
Proof.
  intros (ND & HZ & HR & HB) Hb Hp Hbz. unfold VWf, put; cbn [v_keys v_b v_s v_p].
  assert (Hkeys : forall x, In x (if mem_key k (v_keys v) then v_keys v else k :: v_keys v) <-> x = k \/ In x (v_keys v)).
  { intros x. destruct (mem_key k (v_keys v)) eqn:M.
    - apply mem_key_In in M. split; [auto|]. intros [->|H]; assumption.
    - cbn. split; intros [E|H]; auto. }
  split; [|split; [|split]].
  - destruct (mem_key k (v_keys v)) eqn:M; [exact ND|]. constructor; [|exact ND].
    intros Hin. apply mem_key_In in Hin. congruence.
  - intros x Hx. assert (Ne : x <> k) by (intros ->; apply Hx; apply Hkeys; left; reflexivity).
    rewrite !upd_other by exact Ne. apply HZ. intros Hin. apply Hx. apply Hkeys. right. exact Hin.
  - intros x. destruct (Nat.eq_dec x k) as [->|Ne]; [rewrite !upd_same; lia|].
    rewrite !upd_other by exact Ne. apply HR.
  - intros x. destruct (Nat.eq_dec x k) as [->|Ne]; [rewrite !upd_same; exact Hbz|].
    rewrite !upd_other by exact Ne. apply HB.
Qed.

Lemma del_wf v tv cash k : VWf v -> VWf (del v tv cash k).
Proof.
  intros (ND & HZ & HR & HB). unfold VWf, del; cbn [v_keys v_b v_s v_p].
  destruct (in_dec Nat.eq_dec k (v_keys v)) as [Hin|Hn].
  - destruct (remove_key_spec k (v_keys v) ND Hin) as (A & B & _ & _).
    split; [exact A|]. split; [|split].
    + intros x Hx. destruct (Nat.eq_dec x k) as [->|Ne]; [rewrite !upd_same; auto|].
      rewrite !upd_other by exact Ne. apply HZ. intros Hi. apply Hx. apply B. split; assumption.
    + intros x. destruct (Nat.eq_dec x k) as [->|Ne]; [rewrite !upd_same; lia|].
      rewrite !upd_other by exact Ne. apply HR.
    + intros x. destruct (Nat.eq_dec x k) as [->|Ne]; [rewrite !upd_same; reflexivity|].
      rewrite !upd_other by exact Ne. apply HB.
  - rewrite remove_key_notin by exact Hn. split; [exact ND|]. split; [|split].
    + intros x Hx. destruct (Nat.eq_dec x k) as [->|Ne]; [rewrite !upd_same; auto|].
      rewrite !upd_other by exact Ne. apply HZ. exact Hx.
    + intros x. destruct (Nat.eq_dec x k) as [->|Ne]; [rewrite !upd_same; lia|].
      rewrite !upd_other by exact Ne. apply HR.
    + intros x. destruct (Nat.eq_dec x k) as [->|Ne]; [rewrite !upd_same; reflexivity|].
      rewrite !upd_other by exact Ne. apply HB.
Qed.

Lemma int_ok_spec v k i : int_ok v k i = true -> 0 <= i /\ (v_b v k = 0 -> i = 0).
Proof.
  unfold int_ok. intros H. apply andb_prop in H. destruct H as [H1 H2]. apply Z.leb_le in H1.
  split; [exact H1|]. intros E. rewrite E in H2. cbn in H2. apply Z.eqb_eq in H2. exact H2.
Qed.

(* every primitive step preserves the invariant: whatever the amounts and the interest are *)
Lemma vstep_inv v o v' : VInv v -> vstep v o = Ok v' -> VInv v'.
Proof.
  intros (HE & HW & HD) H. pose proof HW as (ND & HZ & HR & HB).
  destruct o as [a|p|k a i|k a i|k i|a|a]; cbn [vstep] in H.
  - (* bond *)
    destruct (0 <? a) eqn:A; cbn [guard] in H; [|discriminate]. inversion H; subst; clear H.
    unfold VInv, VWf, loans, liab in *; cbn in *. split; [lia|]. split; [|exact HD]. auto.
  - (* unbond *)
    destruct (0 <? p) eqn:A; cbn [guard] in H; [|discriminate].
    destruct (p <=? v_cash v) eqn:C; cbn [guard] in H; [|discriminate]. inversion H; subst; clear H.
    unfold VInv, VWf, loans, liab in *; cbn in *. split; [lia|]. split; [|exact HD]. auto.
  - (* borrow *)
    destruct (int_ok v k i) eqn:I; cbn [guard] in H; [|discriminate].
    destruct (0 <? a) eqn:A; cbn [guard] in H; [|discriminate].
    destruct (negb (cap_max (v_tv v) <? cap_borrowed (v_tv v) (v_cash v) a)) eqn:C; cbn [guard] in H; [|discriminate].
    destruct (a <=? v_cash v) eqn:C2; cbn [guard] in H; [|discriminate]. inversion H; subst; clear H.
    apply int_ok_spec in I. destruct I as [I0 I1]. apply Z.ltb_lt in A.
    destruct (HR k) as (R1 & R2 & R3).
    split; [|split].
    + rewrite loans_put by exact HW. unfold put; cbn [v_tv v_cash v_don]. unfold liab. lia.
    + apply put_wf; [exact HW|lia|lia|lia].
    + unfold put; cbn [v_don]. exact HD.
  - (* repay *)
    destruct (int_ok v k i) eqn:I; cbn [guard] in H; [|discriminate].
    destruct (0 <? a) eqn:A; cbn [guard] in H; [|discriminate].
    cbv zeta in H.
    apply int_ok_spec in I. destruct I as [I0 I1]. apply Z.ltb_lt in A.
    destruct (HR k) as (R1 & R2 & R3). pose proof (HB k) as HBk.
    set (ip0 := v_s v k + i - v_p v k) in *.
    set (ip := if a <? ip0 then a else ip0) in *.
    assert (Hip : 0 <= ip <= ip0 /\ ip <= a /\ (ip < ip0 -> ip = a)).
    { unfold ip. destruct (a <? ip0) eqn:L; [apply Z.ltb_lt in L|apply Z.ltb_ge in L]; unfold ip0 in *; lia. }
    destruct (0 <=? v_b v k - (a - ip)) eqn:G; cbn [guard] in H; [|discriminate]. apply Z.leb_le in G.
    destruct (v_b v k - (a - ip) =? 0) eqn:Z0; inversion H; subst; clear H.
    + apply Z.eqb_eq in Z0. split; [|split].
      * rewrite loans_del by exact HW. unfold del; cbn [v_tv v_cash v_don]. unfold liab.
        (* the deleted record carried no liability: interest was paid in full *)
        assert (ip = ip0).
        { destruct (Z.eq_dec ip ip0) as [E|Ne]; [exact E|]. assert (ip = a) by (apply Hip; lia).
          assert (v_b v k = 0) by lia. specialize (HBk H0). specialize (I1 H0). unfold ip0 in *. lia. }
        unfold ip0 in *. lia.
      * apply del_wf. exact HW.
      * unfold del; cbn [v_don]. exact HD.
    + apply Z.eqb_neq in Z0. split; [|split].
      * rewrite loans_put by exact HW. unfold put; cbn [v_tv v_cash v_don]. unfold liab. lia.
      * apply put_wf; [exact HW|lia|unfold ip0 in *; lia|intros E; lia].
      * unfold put; cbn [v_don]. exact HD.
  - (* accrue *)
    destruct (int_ok v k i) eqn:I; cbn [guard] in H; [|discriminate]. inversion H; subst; clear H.
    apply int_ok_spec in I. destruct I as [I0 I1].
    destruct (HR k) as (R1 & R2 & R3). pose proof (HB k) as HBk.
    split; [|split].
    + rewrite loans_put by exact HW. unfold put; cbn [v_tv v_cash v_don]. unfold liab. lia.
    + apply put_wf; [exact HW|lia|lia|]. intros E. specialize (HBk E). specialize (I1 E). lia.
    + unfold put; cbn [v_don]. exact HD.
  - (* donate *)
    destruct (0 <? a) eqn:A; cbn [guard] in H; [|discriminate]. inversion H; subst; clear H.
    apply Z.ltb_lt in A.
    unfold VInv, VWf, loans, liab in *; cbn in *. split; [lia|]. split; [|lia]. auto.
  - discriminate.
Qed.

Lemma vstep_fixed_sub v o v' : vstep_fixed v o = Ok v' -> vstep v o = Ok v' /\ is_donate o = false.
Proof. destruct o; cbn; intros H; try discriminate; auto. Qed.

Lemma step_eq_fixed_off_sites v o : is_donate o = false -> vstep_fixed v o = vstep v o.
Proof. destruct o; cbn; intros H; try discriminate; reflexivity. Qed.

(* the ghost only moves at the donation site *)
Lemma vstep_don v o v' : vstep v o = Ok v' -> is_donate o = false -> v_don v' = v_don v.
Proof.
  intros H Hd. destruct o as [a|p|k a i|k a i|k i|a|a]; cbn [vstep] in H; try discriminate.
  - destruct (0 <? a); cbn in H; [|discriminate]. inversion H; reflexivity.
  - destruct (0 <? p); cbn in H; [|discriminate]. destruct (p <=? v_cash v); cbn in H; [|discriminate]. inversion H; reflexivity.
  - destruct (int_ok v k i); cbn [guard] in H; [|discriminate]. destruct (0 <? a); cbn [guard] in H; [|discriminate].
    destruct (negb (cap_max (v_tv v) <? cap_borrowed (v_tv v) (v_cash v) a)); cbn [guard] in H; [|discriminate].
    destruct (a <=? v_cash v); cbn [guard] in H; [|discriminate]. inversion H; reflexivity.
  - destruct (int_ok v k i); cbn [guard] in H; [|discriminate]. destruct (0 <? a); cbn [guard] in H; [|discriminate].
    cbv zeta in H.
    match type of H with guard ?c _ _ = _ => destruct c end; cbn [guard] in H; [|discriminate].
    match type of H with (if ?c then _ else _) = _ => destruct c end; inversion H; reflexivity.
  - destruct (int_ok v k i); cbn [guard] in H; [|discriminate]. inversion H; reflexivity.
Qed.

Section Generic.
  Variable f : vault -> vop -> res vault.
  Variable P : vault -> Prop.
  Hypothesis f_pres : forall v o v', P v -> f v o = Ok v' -> P v'.

  Lemma vsteps_pres l : forall v v', P v -> vsteps f v l = Ok v' -> P v'.
  Proof.
    induction l as [|o r IH]; intros v v' HP H; cbn in H; [inversion H; subst; exact HP|].
    destruct (f v o) as [v1| |] eqn:E; cbn in H; try discriminate.
    eapply IH; [eapply f_pres; eauto|exact H].
  Qed.

  Lemma vtx_pres v l : P v -> P (vtx f v l).
  Proof.
    intros HP. unfold vtx, run_tx. destruct (vsteps f v l) as [v'| |] eqn:E; auto. eapply vsteps_pres; eauto.
  Qed.

  Lemma vrun_pres h : forall v, P v -> P (vrun f v h).
  Proof. induction h as [|l r IH]; intros v HP; cbn; [exact HP|]. apply IH. apply vtx_pres. exact HP. Qed.
End Generic.

(* ---- the code as it is ---- *)

Theorem vrun_inv h v : VInv v -> VInv (vrun vstep v h).
Proof. apply vrun_pres. intros ? ? ?. apply vstep_inv. Qed.

(* TotalValue + third-party receipts = cash + loans, for every history *)
Theorem vault_equation_with_ghost h :
  let v := vrun vstep vault_empty h in
  v_tv v + v_don v = v_cash v + loans v /\ 0 <= v_don v /\ 0 <= loans v.
Proof.
  cbv zeta. destruct (vrun_inv h vault_empty vault_empty_inv) as (HE & HW & HD).
  split; [exact HE|]. split; [exact HD|].
  destruct HW as (_ & _ & HR & _). unfold loans.
  induction (v_keys (vrun vstep vault_empty h)) as [|x r IH]; cbn; [lia|].
  destruct (HR x) as (A & B & C). unfold liab at 1. lia.
Qed.

(* invariant "no third-party receipt so far" *)
Definition VInv0 (v : vault) : Prop := VInv v /\ v_don v = 0.

Lemma vstep_inv0 v o v' : is_donate o = false -> VInv0 v -> vstep v o = Ok v' -> VInv0 v'.
Proof.
  intros Hd [HI H0] H. split; [eapply vstep_inv; eauto|]. rewrite (vstep_don _ _ _ H Hd). exact H0.
Qed.

Definition no_donation (h : list (list vop)) : Prop := Forall (Forall (fun o => is_donate o = false)) h.

Lemma vsteps_inv0 l : Forall (fun o => is_donate o = false) l -> forall v v', VInv0 v -> vsteps vstep v l = Ok v' -> VInv0 v'.
Proof.
  induction 1 as [|o r Ho Hr IH]; intros v v' HI H; cbn in H; [inversion H; subst; exact HI|].
  destruct (vstep v o) as [v1| |] eqn:E; cbn in H; try discriminate.
  eapply IH; [eapply vstep_inv0; eauto|exact H].
Qed.

Lemma vrun_inv0 h : no_donation h -> forall v, VInv0 v -> VInv0 (vrun vstep v h).
Proof.
  induction 1 as [|l r Hl Hr IH]; intros v HI; cbn; [exact HI|]. apply IH.
  unfold vtx, run_tx. destruct (vsteps vstep v l) as [v'| |] eqn:E; auto. eapply vsteps_inv0; eauto.
Qed.

(* the property's own quantifier: histories of bond / unbond / borrow / repay / accrual only *)
Theorem vault_equation_no_donation h : no_donation h ->
  let v := vrun vstep vault_empty h in v_tv v = v_cash v + loans v.
Proof.
  intros Hn. cbv zeta. destruct (vrun_inv0 h Hn vault_empty) as [(HE & _) H0].
  - split; [exact vault_empty_inv|reflexivity].
  - lia.
Qed.

(* ---- the repaired machine: every history, attempted donations included ---- *)

Lemma vstep_fixed_inv0 v o v' : VInv0 v -> vstep_fixed v o = Ok v' -> VInv0 v'.
Proof. intros HI H. apply vstep_fixed_sub in H. destruct H as [H Hd]. eapply vstep_inv0; eauto. Qed.

Theorem vault_equation_fixed h :
  let v := vrun vstep_fixed vault_empty h in v_tv v = v_cash v + loans v /\ VWf v.
Proof.
  cbv zeta.
  assert (HI : VInv0 (vrun vstep_fixed vault_empty h)).
  { apply vrun_pres; [intros ? ? ?; apply vstep_fixed_inv0|]. split; [exact vault_empty_inv|reflexivity]. }
  destruct HI as [(HE & HW & _) H0]. split; [lia|exact HW].
Qed.

(* the two machines agree on histories without a donation *)
Lemma vsteps_fixed_eq l : Forall (fun o => is_donate o = false) l -> forall v, vsteps vstep_fixed v l = vsteps vstep v l.
Proof.
  induction 1 as [|o r Ho Hr IH]; intros v; cbn; [reflexivity|].
  rewrite (step_eq_fixed_off_sites v o Ho). destruct (vstep v o); cbn; auto.
Qed.

Theorem vrun_fixed_eq h : no_donation h -> forall v, vrun vstep_fixed v h = vrun vstep v h.
Proof.
  unfold vrun. induction 1 as [|l r Hl Hr IH]; intros v; cbn [fold_left]; [reflexivity|].
  assert (E : vtx vstep_fixed v l = vtx vstep v l).
  { unfold vtx, run_tx. rewrite (vsteps_fixed_eq l Hl v). reflexivity. }
  rewrite E. apply IH.
Qed.

(* ---- refutation on the code as it is ---- *)

Theorem donation_refuted :
  exists h, let v := vrun vstep vault_empty h in
    v_tv v <> v_cash v + loans v /\ v_cash v + loans v - v_tv v = 5.
Proof. exists [[VBond 100]; [VDonate 5]]. vm_compute. split; [discriminate|reflexivity]. Qed.

(* consequence: the 90 % cap is evaluated on TotalValue - balance, which a donation lowers; the real
   outstanding loans can then exceed 90 % of TotalValue (here: all of it) *)
Theorem donation_cap_bypass_refuted :
  exists h, let v := vrun vstep vault_empty h in
    10 * loans v > 9 * v_tv v /\ loans v = 1000 /\ v_tv v = 1000.
Proof.
  exists [[VBond 1000]; [VBorrow 0 900 0]; [VDonate 900]; [VBorrow 1 100 0]].
  vm_compute. repeat split.
Qed.

(* ---- what the cap means when the equation holds ---- *)

(* without third-party receipts, the quantity the cap (and the borrow-ratio query, the interest-rate
   controller, leveragelp's MaxLeverageRatio check) derives as TotalValue - balance IS the sum of the
   liabilities, and right after every successful Borrow the real loans are within 90 % of TotalValue
   plus the interest stacked by that very call *)
Theorem borrow_cap_real_loans v k a i v' : VInv0 v -> vstep v (VBorrow k a i) = Ok v' ->
  v_tv v - v_cash v = loans v /\ 10 * (loans v' - i) <= 9 * v_tv v.
Proof.
  intros [HI H0] H. pose proof HI as (HE & HW & _). cbn [vstep] in H.
  destruct (int_ok v k i) eqn:I; cbn [guard] in H; [|discriminate].
  destruct (0 <? a) eqn:A; cbn [guard] in H; [|discriminate].
  destruct (negb (cap_max (v_tv v) <? cap_borrowed (v_tv v) (v_cash v) a)) eqn:C; cbn [guard] in H; [|discriminate].
  destruct (a <=? v_cash v) eqn:C2; cbn [guard] in H; [|discriminate]. inversion H; subst; clear H.
  split; [lia|]. rewrite loans_put by exact HW. unfold liab.
  apply negb_true_iff in C. apply Z.ltb_ge in C.
  rewrite cap_max_exact in C. unfold cap_borrowed, dec_of_int in C. unfold PREC in C. lia.
Qed.

(* ---- shortfall: a repayment smaller than the liability writes nothing off ---- *)

Theorem repay_shortfall v k a i v' : VInv v -> vstep v (VRepay k a i) = Ok v' -> a < liab v k + i ->
  In k (v_keys v') /\ liab v' k = liab v k + i - a /\ 0 < liab v' k /\
  v_tv v' = v_tv v + i /\ v_cash v' = v_cash v + a /\ loans v' = loans v + i - a.
Proof.
  intros (HE & HW & HD) H Hlt. pose proof HW as (ND & HZ & HR & HB). cbn [vstep] in H.
  destruct (int_ok v k i) eqn:I; cbn [guard] in H; [|discriminate].
  destruct (0 <? a) eqn:A; cbn [guard] in H; [|discriminate].
  cbv zeta in H. apply int_ok_spec in I. destruct I as [I0 I1]. apply Z.ltb_lt in A.
  destruct (HR k) as (R1 & R2 & R3). pose proof (HB k) as HBk.
  set (ip0 := v_s v k + i - v_p v k) in *.
  set (ip := if a <? ip0 then a else ip0) in *.
  assert (Hip : 0 <= ip <= ip0 /\ ip <= a /\ (ip < ip0 -> ip = a)).
  { unfold ip. destruct (a <? ip0) eqn:L; [apply Z.ltb_lt in L|apply Z.ltb_ge in L]; unfold ip0 in *; lia. }
  destruct (0 <=? v_b v k - (a - ip)) eqn:G; cbn [guard] in H; [|discriminate]. apply Z.leb_le in G.
  unfold liab in Hlt.
  destruct (v_b v k - (a - ip) =? 0) eqn:Z0; inversion H; subst; clear H.
  - apply Z.eqb_eq in Z0. exfalso.
    destruct (Z.eq_dec ip ip0) as [E|Ne]; [unfold ip0 in *; lia|].
    assert (ip = a) by (apply Hip; lia). assert (Eb : v_b v k = 0) by lia.
    specialize (HBk Eb). specialize (I1 Eb). unfold ip0 in *. lia.
  - apply Z.eqb_neq in Z0. rewrite loans_put by exact HW.
    split.
    { unfold put; cbn [v_keys]. destruct (mem_key k (v_keys v)) eqn:M; [apply mem_key_In; exact M|left; reflexivity]. }
    rewrite liab_put, upd_same. unfold put; cbn [v_tv v_cash]. unfold liab. unfold ip0 in *.
    repeat split; lia.
Qed.

(* a record is deleted only when nothing is owed any more *)
Theorem repay_delete_only_when_settled v k a i v' : VInv v -> vstep v (VRepay k a i) = Ok v' ->
  ~ In k (v_keys v') -> In k (v_keys v) -> a = liab v k + i /\ liab v' k = 0.
Proof.
  intros (HE & HW & HD) H Hgone Hin. pose proof HW as (ND & HZ & HR & HB). cbn [vstep] in H.
  destruct (int_ok v k i) eqn:I; cbn [guard] in H; [|discriminate].
  destruct (0 <? a) eqn:A; cbn [guard] in H; [|discriminate].
  cbv zeta in H. apply int_ok_spec in I. destruct I as [I0 I1]. apply Z.ltb_lt in A.
  destruct (HR k) as (R1 & R2 & R3). pose proof (HB k) as HBk.
  set (ip0 := v_s v k + i - v_p v k) in *.
  set (ip := if a <? ip0 then a else ip0) in *.
  assert (Hip : 0 <= ip <= ip0 /\ ip <= a /\ (ip < ip0 -> ip = a)).
  { unfold ip. destruct (a <? ip0) eqn:L; [apply Z.ltb_lt in L|apply Z.ltb_ge in L]; unfold ip0 in *; lia. }
  destruct (0 <=? v_b v k - (a - ip)) eqn:G; cbn [guard] in H; [|discriminate]. apply Z.leb_le in G.
  destruct (v_b v k - (a - ip) =? 0) eqn:Z0; inversion H; subst; clear H.
  - apply Z.eqb_eq in Z0. rewrite liab_del, upd_same. split; [|reflexivity]. unfold liab.
    destruct (Z.eq_dec ip ip0) as [E|Ne]; [unfold ip0 in *; lia|].
    assert (ip = a) by (apply Hip; lia). assert (Eb : v_b v k = 0) by lia.
    specialize (HBk Eb). specialize (I1 Eb). unfold ip0 in *. lia.
  - exfalso. apply Hgone. unfold put; cbn [v_keys].
    destruct (mem_key k (v_keys v)) eqn:M; [exact Hin|left; reflexivity].
Qed.

Lemma nonvacuous_example :
  let v := vrun vstep vault_empty
    [[VBond 1000000]; [VBorrow 0 400000 0; VAccrue 0 0]; [VAccrue 0 1234]; [VBond 7];
     [VAccrue 0 66; VRepay 0 100000 0; VAccrue 0 0];       (* partial close *)
     [VBorrow 1 300000 0]; [VUnbond 999999];                 (* refused: cash is short *)
     [VUnbond 250000];
     [VRepay 1 200000 5000];                                 (* liquidation with a shortfall of 105000 *)
     [VRepay 0 301300 0]] in                                 (* full close: record deleted *)
  v_tv v = 756307 /\ v_cash v = 651307 /\ v_keys v = [1%nat] /\ liab v 1%nat = 105000 /\
  v_b v 0%nat = 0 /\ v_tv v = v_cash v + loans v.
Proof. vm_compute. repeat split. Qed.
