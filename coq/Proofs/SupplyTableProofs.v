(* C15 - obligations on the REGENERATED table (Generated/MintSites.v), decided by the VM. *)
From Coq Require Import ZArith List Bool String Arith.
From Elys Require Import Base.Fn Models.Supply Generated.MintSites Proofs.SupplyProofs Run.SupplyRun.
Import ListNotations.

Lemma table_sites_ok : forallb (site_ok table) table = true.
Proof. vm_compute. reflexivity. Qed.

Lemma table_ok : tbl_ok table.
Proof. exact table_sites_ok. Qed.

Lemma perms_ok_all : forallb perm_ok macc_perms = true.
Proof. vm_compute. reflexivity. Qed.

Lemma sites_have_perms : forallb (site_has_perm macc_perms) sites = true.
Proof. vm_compute. reflexivity. Qed.

(* the translator's own resolution of forwarded parameters agrees with the model's *)
Definition dexpr_eqb (a b : dexpr) : bool :=
  match a, b with
  | DElys, DElys | DElysGuarded, DElysGuarded | DEden, DEden | DEdenB, DEdenB | DPoolShare, DPoolShare
  | DVaultShare, DVaultShare | DZeroBal, DZeroBal => true
  | DParam f, DParam g => String.eqb f g
  | DOther f, DOther g => String.eqb f g
  | _, _ => false
  end.
Definition same_set (a b : list dexpr) : bool :=
  forallb (fun x => existsb (dexpr_eqb x) b) a && forallb (fun x => existsb (dexpr_eqb x) a) b.
Lemma origins_agree : forallb (fun s => same_set (origin_of table s) (s_origin s)) table = true.
Proof. vm_compute. reflexivity. Qed.
