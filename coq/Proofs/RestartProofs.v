(* C19 - proofs about Models/Restart.v and the regenerated tables Generated/Determinism.v. *)
From Coq Require Import String List Bool Permutation Arith Lia NArith Sorted.
From Elys Require Import Base.Res Models.Restart Generated.Determinism.
Import ListNotations.

(* ------------------------------------------------------------------------------------------- *)
(* The obligations over the regenerated tables (re-decided against the current tree on every run) *)

Lemma fields_ok : forallb no_memory_state fields = true.
Proof. vm_compute. reflexivity. Qed.
Lemma vars_ok : forallb var_ok pkgvars = true.
Proof. vm_compute. reflexivity. Qed.
Lemma ranges_ok : forallb range_ok map_ranges = true.
Proof. vm_compute. reflexivity. Qed.
Lemma sites_ok : forallb site_ok nd_sites = true.
Proof. vm_compute. reflexivity. Qed.

(* every reviewed state-writing range has a named commutativity instance (proved in BurnerProofs.v) *)
Definition range_instances : list (string * string * string) :=
  [("x/burner/keeper", "Keeper.BurnTokensForAllDenoms", "balances")]%string.
Lemma reviewed_ranges_have_instances :
  forallb (fun '(p, f, e, _) => existsb (fun '(p', f', e') => String.eqb p p' && String.eqb f f' && String.eqb e e') range_instances)
          reviewed_ranges = true.
Proof. vm_compute. reflexivity. Qed.
Lemma filter_neg_nil {A} (p : A -> bool) (l : list A) : forallb p l = true -> filter (fun x => negb (p x)) l = [].
Proof.
  induction l as [|x r IH]; cbn; [reflexivity|]. intros H. apply andb_true_iff in H. destruct H as [Hx Hr].
  rewrite Hx. cbn. apply IH. exact Hr.
Qed.

Lemma no_cells (fs : list kfield) (vs : list pvar) :
  forallb no_memory_state fs = true -> forallb var_ok vs = true -> memory_cells fs vs = [].
Proof.
  intros Hf Hv. unfold memory_cells. rewrite (filter_neg_nil _ _ Hf), (filter_neg_nil _ _ Hv). reflexivity.
Qed.

(* ------------------------------------------------------------------------------------------- *)
(* Order of a map range *)

Lemma fold_res_perm {S K E : Type} (body : K -> E -> S -> res S) : commutes body ->
  forall l l', Permutation l l' -> NoDup (map fst l) -> forall a, fold_res body l a = fold_res body l' a.
Proof.
  intros Hc l l' HP.
  induction HP as [|x l l' HP IH|x y l|l l' l'' HP1 IH1 HP2 IH2]; intros ND a.
  - reflexivity.
  - cbn in ND. inversion ND as [|? ? Hn ND']; subst. unfold fold_res in *. cbn. apply IH. exact ND'.
  - unfold fold_res. cbn. f_equal. cbn in ND. inversion ND as [|? ? Hn ND']; subst.
    destruct a as [s|c|c]; cbn; try reflexivity.
    apply Hc. intros Heq. apply Hn. left. symmetry. exact Heq.
  - rewrite IH1 by exact ND. apply IH2.
    eapply Permutation_NoDup; [apply Permutation_map; exact HP1 | exact ND].
Qed.

(* the statement used in Props: any two visiting orders of the same map give the same outcome *)
Theorem order_irrelevant {S K E : Type} (body : K -> E -> S -> res S) (entries l1 l2 : list (K * E)) (s : S) :
  commutes body -> NoDup (map fst entries) -> Permutation l1 entries -> Permutation l2 entries ->
  fold_res body l1 (Ok s) = fold_res body l2 (Ok s).
Proof.
  intros Hc ND P1 P2. apply fold_res_perm; [exact Hc| |].
  - eapply Permutation_trans; [exact P1 | apply Permutation_sym; exact P2].
  - eapply Permutation_NoDup; [apply Permutation_map; apply Permutation_sym; exact P1 | exact ND].
Qed.

(* The hypothesis is needed: a body with an order-sensitive effect ("first one wins") distinguishes two orders. *)
Definition first_wins (k : nat) (_ : unit) (s : option nat) : res (option nat) :=
  match s with None => Ok (Some k) | Some w => Ok (Some w) end.
Lemma order_matters_without_commutation :
  fold_res first_wins [(1, tt); (2, tt)] (Ok None) <> fold_res first_wins [(2, tt); (1, tt)] (Ok None)
  /\ Permutation [(1, tt); (2, tt)] [(2, tt); (1, tt)] /\ NoDup (map fst [(1, tt); (2, tt)]).
Proof.
  split; [cbv; discriminate|]. split; [apply perm_swap|].
  repeat constructor; cbn; intuition discriminate.
Qed.

(* ------------------------------------------------------------------------------------------- *)
(* collect keys, sort, iterate *)

Lemma ins_sorted_perm x l : Permutation (ins_sorted x l) (x :: l).
Proof.
  induction l as [|y r IH]; cbn; [apply Permutation_refl|].
  destruct (N.leb x y); [apply Permutation_refl|].
  eapply Permutation_trans; [apply perm_skip; exact IH | apply perm_swap].
Qed.
Lemma isort_perm l : Permutation (isort l) l.
Proof.
  induction l as [|x r IH]; cbn; [apply Permutation_refl|].
  eapply Permutation_trans; [apply ins_sorted_perm | apply perm_skip; exact IH].
Qed.

Lemma ins_sorted_sorted x l : StronglySorted N.le l -> StronglySorted N.le (ins_sorted x l).
Proof.
  induction l as [|y r IH]; intros Hs; cbn.
  - constructor; constructor.
  - inversion Hs as [|? ? Hr Hall]; subst. destruct (N.leb_spec x y) as [Hle|Hgt].
    + constructor; [exact Hs|]. constructor; [exact Hle|].
      eapply Forall_impl; [|exact Hall]. intros z Hz. cbn in Hz. eapply N.le_trans; eassumption.
    + constructor; [apply IH; exact Hr|].
      apply (Permutation_Forall (Permutation_sym (ins_sorted_perm x r))).
      constructor; [apply N.lt_le_incl; exact Hgt | exact Hall].
Qed.
Lemma isort_sorted l : StronglySorted N.le (isort l).
Proof. induction l as [|x r IH]; cbn; [constructor | apply ins_sorted_sorted; exact IH]. Qed.

Lemma sorted_perm_eq (l1 : list N) : forall l2, StronglySorted N.le l1 -> StronglySorted N.le l2 -> Permutation l1 l2 -> l1 = l2.
Proof.
  induction l1 as [|a r IH]; intros l2 S1 S2 HP.
  - apply Permutation_nil in HP. symmetry. exact HP.
  - destruct l2 as [|b r2]; [apply Permutation_sym, Permutation_nil in HP; discriminate|].
    inversion S1 as [|? ? S1r A1]; subst. inversion S2 as [|? ? S2r A2]; subst.
    assert (Hab : a = b).
    { assert (Ha : In a (b :: r2)) by (eapply Permutation_in; [exact HP | left; reflexivity]).
      assert (Hb : In b (a :: r)) by (eapply Permutation_in; [apply Permutation_sym; exact HP | left; reflexivity]).
      destruct Ha as [E|Ha]; [symmetry; exact E|]. destruct Hb as [E|Hb]; [exact E|].
      rewrite Forall_forall in A1, A2. apply N.le_antisymm; [apply A1; exact Hb | apply A2; exact Ha]. }
    subst b. f_equal. apply IH; try assumption. eapply Permutation_cons_inv; exact HP.
Qed.

Theorem isort_canonical l l' : Permutation l l' -> isort l = isort l'.
Proof.
  intros HP. apply sorted_perm_eq; try apply isort_sorted.
  eapply Permutation_trans; [apply isort_perm|]. eapply Permutation_trans; [exact HP|]. apply Permutation_sym, isort_perm.
Qed.

(* whatever order the map range delivered the keys in, the loop after the sort computes the same thing -
   for ANY body, commutative or not *)
Theorem sorted_keys_deterministic {S : Type} (body : N -> S -> res S) (collected collected' : list N) (s : S) :
  Permutation collected collected' -> sorted_loop body collected s = sorted_loop body collected' s.
Proof. intros HP. unfold sorted_loop. rewrite (isort_canonical _ _ HP). reflexivity. Qed.

(* ------------------------------------------------------------------------------------------- *)
(* The node *)

Section NodeProofs.
  Context {P T V R H K E : Type}.
  Variable hash : P -> H.
  Variable t0 : T.
  Variable m0 : list V.
  Variable ncell : nat.

  Notation node := (@node P T V).
  Notation op := (@op P T V R K E).

  Lemma exec_op_agree (o : op) : op_ok ncell o ->
    forall (n1 n2 n1' n2' : node) r1 r2, st n1 = st n2 -> firstn ncell (mem n1) = firstn ncell (mem n2) ->
      exec_op o n1 n1' r1 -> exec_op o n2 n2' r2 ->
      st n1' = st n2' /\ firstn ncell (mem n1') = firstn ncell (mem n2') /\ r1 = r2.
  Proof.
    intros Hok n1 n2 n1' n2' r1 r2 Hst Hm He1 He2.
    inversion He1 as [f s m s' m' r Hf | en body out s m l HPl]; subst;
      inversion He2 as [f2 s2 m2 s2' m2' r2' Hf2 | en2 body2 out2 s2 m2 l2 HPl2]; subst; cbn in *.
    - subst s2. specialize (Hok s m m2 Hm). rewrite Hf, Hf2 in Hok. cbn in Hok.
      destruct Hok as (A & B & C). repeat split; assumption.
    - subst s2. destruct Hok as [Hc Hnd].
      assert (Heq : fold_body body l (Ok s) = fold_body body l2 (Ok s)).
      { unfold fold_body. apply fold_res_perm; [exact Hc| |].
        - eapply Permutation_trans; [exact HPl | apply Permutation_sym; exact HPl2].
        - eapply Permutation_NoDup; [apply Permutation_map; apply Permutation_sym; exact HPl | apply Hnd]. }
      rewrite Heq. repeat split; try reflexivity. exact Hm.
  Qed.

  Lemma exec_ops_agree (os : list op) : Forall (op_ok ncell) os ->
    forall (n1 n2 n1' n2' : node) rs1 rs2, st n1 = st n2 -> firstn ncell (mem n1) = firstn ncell (mem n2) ->
      exec_ops os n1 n1' rs1 -> exec_ops os n2 n2' rs2 ->
      st n1' = st n2' /\ firstn ncell (mem n1') = firstn ncell (mem n2') /\ rs1 = rs2.
  Proof.
    induction os as [|o os IH]; intros Hall n1 n2 n1' n2' rs1 rs2 Hst Hm He1 He2.
    - inversion He1; subst. inversion He2; subst. repeat split; assumption.
    - inversion Hall as [|? ? Ho Hos]; subst.
      inversion He1 as [|? ? ? a1 ? x1 xs1 Hx1 Hr1]; subst. inversion He2 as [|? ? ? a2 ? x2 xs2 Hx2 Hr2]; subst.
      destruct (exec_op_agree o Ho _ _ _ _ _ _ Hst Hm Hx1 Hx2) as (A & B & C).
      destruct (IH Hos _ _ _ _ _ _ A B Hr1 Hr2) as (A' & B' & C'). subst. repeat split; assumption.
  Qed.

  (* Two executions of the same blocks from the same stores and memory-cell contents produce the same
     observable trace (hash and results of every block) WHATEVER order the runtime picks in each map range,
     and wherever each of them is restarted, provided that
       (i)  the code can reach no memory cell at all (ncell = 0), or
       (ii) both are restarted at the same heights (then memory cells are harmless). *)
  Theorem run_agree (blocks : list (list op)) : Forall (Forall (op_ok ncell)) blocks ->
    forall cuts1 cuts2, (ncell = 0 \/ forall h, cuts1 h = cuts2 h) ->
    forall h (n1 n2 : node) tr1 tr2, st n1 = st n2 -> firstn ncell (mem n1) = firstn ncell (mem n2) ->
      run hash t0 m0 cuts1 h blocks n1 tr1 -> run hash t0 m0 cuts2 h blocks n2 tr2 -> tr1 = tr2.
  Proof.
    induction blocks as [|b bs IH]; intros Hall cuts1 cuts2 Hc h n1 n2 tr1 tr2 Hst Hm R1 R2.
    - inversion R1; subst. inversion R2; subst. reflexivity.
    - inversion Hall as [|? ? Hb Hbs]; subst.
      inversion R1 as [|? ? ? ? a1 rs1 t1 E1 Rest1]; subst. inversion R2 as [|? ? ? ? a2 rs2 t2 E2 Rest2]; subst.
      destruct (exec_ops_agree b Hb _ _ _ _ _ _ Hst Hm E1 E2) as (A & B & C). subst rs2.
      rewrite A. f_equal.
      eapply (IH Hbs cuts1 cuts2 Hc (S h)); [| |exact Rest1|exact Rest2].
      + destruct (cuts1 h), (cuts2 h); cbn; rewrite A; reflexivity.
      + destruct Hc as [Hz|Hsame].
        * subst ncell. reflexivity.
        * rewrite <- (Hsame h). destruct (cuts1 h); cbn; [reflexivity | exact B].
  Qed.

  (* the relation is not empty: the executable run is one of the runs *)
  Lemma step_fun_exec (o : op) (n : node) : exec_op o n (fst (step_fun o n)) (snd (step_fun o n)).
  Proof.
    destruct n as [s m]. destruct o as [f|en body out]; cbn.
    - destruct (f s m) as [[s' m'] r] eqn:Hf. cbn. constructor. exact Hf.
    - apply (ex_range en body out s m (en s)). apply Permutation_refl.
  Qed.
  Lemma steps_fun_exec (os : list op) : forall n : node, exec_ops os n (fst (steps_fun os n)) (snd (steps_fun os n)).
  Proof.
    induction os as [|o os IH]; intros n; cbn; [constructor|].
    pose proof (step_fun_exec o n) as Ho. destruct (step_fun o n) as [n1 x]. cbn in Ho.
    pose proof (IH n1) as Hr. destruct (steps_fun os n1) as [n2 xs]. cbn in *. econstructor; eassumption.
  Qed.
  Lemma run_fun_runs cuts (bs : list (list op)) : forall h (n : node), run hash t0 m0 cuts h bs n (run_fun hash t0 m0 cuts h bs n).
  Proof.
    induction bs as [|b bs IH]; intros h n; cbn; [constructor|].
    pose proof (steps_fun_exec b n) as Hb. destruct (steps_fun b n) as [n1 rs]. cbn in Hb.
    econstructor; [exact Hb | apply IH].
  Qed.
End NodeProofs.

(* ------------------------------------------------------------------------------------------- *)
(* Restart invisibility from the table *)

Theorem restart_invisible_gen (fs : list kfield) (vs : list pvar) :
  forallb no_memory_state fs = true -> forallb var_ok vs = true ->
  forall (P T V R H K E : Type) (hash : P -> H) (t0 : T) (m0 : list V) (blocks : list (list (@op P T V R K E))),
    Forall (Forall (op_ok (length (memory_cells fs vs)))) blocks ->
    forall (cuts cuts' : nat -> bool) (n : @node P T V) tr tr',
      run hash t0 m0 cuts 0 blocks n tr -> run hash t0 m0 cuts' 0 blocks n tr' -> tr = tr'.
Proof.
  intros Hf Hv P T V R H K E hash t0 m0 blocks Hall cuts cuts' n tr tr' R1 R2.
  rewrite (no_cells fs vs Hf Hv) in Hall. cbn in Hall.
  eapply (run_agree hash t0 m0 0 blocks Hall cuts cuts' (or_introl eq_refl) 0 n n); try reflexivity; eassumption.
Qed.

(* instantiated with the tables regenerated from the tree *)
Theorem restart_invisible :
  forall (P T V R H K E : Type) (hash : P -> H) (t0 : T) (m0 : list V) (blocks : list (list (@op P T V R K E))),
    Forall (Forall (op_ok (length (memory_cells fields pkgvars)))) blocks ->
    forall (cuts : nat -> bool) (n : @node P T V) tr tr',
      run hash t0 m0 cuts 0 blocks n tr -> run hash t0 m0 (fun _ => false) 0 blocks n tr' ->
      map fst tr = map fst tr' /\ map snd tr = map snd tr'.
Proof.
  intros P T V R H K E hash t0 m0 blocks Hall cuts n tr tr' R1 R2.
  rewrite (restart_invisible_gen fields pkgvars fields_ok vars_ok P T V R H K E hash t0 m0 blocks Hall cuts (fun _ => false) n tr tr' R1 R2).
  split; reflexivity.
Qed.

(* two replicas (each with its own map iteration orders), restarted at the same heights or never: same trace,
   even if the code had memory cells *)
Theorem replicas_agree :
  forall (P T V R H K E : Type) (hash : P -> H) (t0 : T) (m0 : list V) (ncell : nat) (blocks : list (list (@op P T V R K E))),
    Forall (Forall (op_ok ncell)) blocks ->
    forall (cuts : nat -> bool) (n : @node P T V) tr tr',
      run hash t0 m0 cuts 0 blocks n tr -> run hash t0 m0 cuts 0 blocks n tr' -> tr = tr'.
Proof.
  intros P T V R H K E hash t0 m0 ncell blocks Hall cuts n tr tr' R1 R2.
  eapply (run_agree hash t0 m0 ncell blocks Hall cuts cuts (or_intror (fun _ => eq_refl)) 0 n n); try reflexivity; eassumption.
Qed.

(* The table hypothesis is not vacuous: ONE keeper field that holds state (a map used as a cache) admits a
   node whose step respects that cell and whose hashes change when it is restarted. *)
Definition cache_field : kfield := mkF "x/demo/keeper" "Keeper" "cache" KMap "map[string]math.Int" false.
Definition leaky_step : @op nat unit nat unit nat unit :=
  Det (fun s m => let c := hd 0 m in (mkS (pers s + c) (trans s), [Datatypes.S c], tt)).
Definition leaky_blocks := [[leaky_step]; [leaky_step]; [leaky_step]].
Definition leaky_node : @node nat unit nat := mkNode (mkS 0 tt) [0].

Lemma leaky_respects : op_ok (length (memory_cells [cache_field] [])) leaky_step.
Proof.
  cbn. intros s m m' Hm. destruct m as [|a m]; destruct m' as [|a' m']; cbn in *; try discriminate; auto.
  injection Hm as ->. auto.
Qed.

Theorem restart_visible_with_memory :
  no_memory_state cache_field = false /\
  Forall (Forall (op_ok (length (memory_cells [cache_field] [])))) leaky_blocks /\
  exists cuts tr tr',
    run (fun p : nat => p) tt [0] cuts 0 leaky_blocks leaky_node tr /\
    run (fun p : nat => p) tt [0] (fun _ => false) 0 leaky_blocks leaky_node tr' /\
    map fst tr <> map fst tr'.
Proof.
  split; [reflexivity|]. split.
  { unfold leaky_blocks. repeat (apply Forall_cons || apply Forall_nil); apply leaky_respects. }
  exists (fun h => Nat.eqb h 1).
  exists (run_fun (fun p : nat => p) tt [0] (fun h => Nat.eqb h 1) 0 leaky_blocks leaky_node).
  exists (run_fun (fun p : nat => p) tt [0] (fun _ => false) 0 leaky_blocks leaky_node).
  split; [apply run_fun_runs|]. split; [apply run_fun_runs|].
  vm_compute. discriminate.
Qed.
