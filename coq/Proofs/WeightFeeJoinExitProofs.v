(* C05: the oracle single-sided join / exit with the weight-breaking fee computed by Models/WeightFee.v:
   the fee lies in [0, 0.99], so the value theorems of Proofs/AmmJoinExitProofs.v (stated for every fee in [0,1]) apply
   to the whole functions; an exit never earns a bonus; a join earns one only when it improves the weight distance
   from above the threshold, at most 0.99 * portion. *)
From Coq Require Import ZArith List Bool Lia.
From Elys Require Import Base.Res Base.Zdec Models.AmmSwap Proofs.AmmSwapProofs Proofs.AmmSwapProofs2 Proofs.PowBounds.
From Elys Require Import Models.WeightFee Proofs.WeightFeeProofs.
From Elys Require Import Models.AmmJoinExit Models.WeightFeeJoinExit Proofs.AmmJoinExitProofs.
Import ListNotations.
Open Scope Z_scope.

Lemma wb_join_spec prm init k amt d0 wbf bonus :
  0 <= wp_mult prm -> pow_nonneg (wp_exp prm) -> 0 <= wp_portion prm ->
  wb_join prm init k amt d0 = Ok (wbf, bonus) ->
  exists fin d1,
    after_swap init 0 k (no_asset init) amt 0 = Ok fin /\ weight_distance fin = Ok d1 /\
    0 <= wbf <= WBF_CAP /\ bonus <= dmul WBF_CAP (wp_portion prm) /\
    (0 < bonus -> wbf = 0 /\ d1 < d0 /\ wp_thr prm < d0) /\
    (bonus <= 0 -> bonus = - wbf).
Proof.
  intros Hm Hp Hpo H. unfold wb_join in H. pose proof WBF_CAP_lt_PREC as HC.
  apply AmmSwapProofs.bind_ok in H. destruct H as [fin [Hfin H]].
  apply AmmSwapProofs.bind_ok in H. destruct H as [d1 [Hd1 H]].
  apply AmmSwapProofs.bind_ok in H. destruct H as [dd [Hdd H]]. apply csub_ok in Hdd.
  apply AmmSwapProofs.bind_ok in H. destruct H as [tin [_ H]].
  apply AmmSwapProofs.bind_ok in H. destruct H as [tout [_ H]].
  apply AmmSwapProofs.bind_ok in H. destruct H as [fi [_ H]].
  apply AmmSwapProofs.bind_ok in H. destruct H as [fo [_ H]].
  apply AmmSwapProofs.bind_ok in H. destruct H as [ii [_ H]].
  apply AmmSwapProofs.bind_ok in H. destruct H as [io [_ H]].
  apply AmmSwapProofs.bind_ok in H. destruct H as [f0 [Hf0 H]]. unfold wb_decide_join in H.
  apply AmmSwapProofs.bind_ok in H. destruct H as [rw [Hrw H]]. apply cmul_ok in Hrw.
  pose proof (get_wbf_range _ _ _ _ _ _ _ _ _ Hm Hp Hf0) as R0.
  assert (RW : 0 <= rw <= dmul WBF_CAP (wp_portion prm)).
  { subst rw. split; [apply AmmSwapProofs2.dmul_nonneg; lia|apply PowBounds.dmul_mono; lia]. }
  exists fin, d1. split; [exact Hfin|]. split; [exact Hd1|].
  destruct ((wp_thr prm <? d0) && (dd <? 0)) eqn:E; inversion H; subst wbf bonus; clear H.
  - apply andb_prop in E. destruct E as [E1 E2]. apply Z.ltb_lt in E1, E2.
    split; [lia|]. split; [lia|]. split; [intros _; repeat split; lia|]. intros Hle. lia.
  - split; [lia|]. split; [lia|]. split; [intros Hb; lia|]. intros _. reflexivity.
Qed.

Lemma wb_exit_spec prm init k out d0 f :
  0 <= wp_mult prm -> pow_nonneg (wp_exp prm) ->
  wb_exit prm init k out d0 = Ok f -> 0 <= f <= WBF_CAP.
Proof.
  intros Hm Hp H. unfold wb_exit in H.
  destruct (out <? 0); [discriminate|].
  apply AmmSwapProofs.bind_ok in H. destruct H as [fin [_ H]].
  apply AmmSwapProofs.bind_ok in H. destruct H as [d1 [_ H]].
  apply AmmSwapProofs.bind_ok in H. destruct H as [dd [_ H]].
  apply AmmSwapProofs.bind_ok in H. destruct H as [tout [_ H]].
  apply AmmSwapProofs.bind_ok in H. destruct H as [tin [_ H]].
  apply AmmSwapProofs.bind_ok in H. destruct H as [fo [_ H]].
  apply AmmSwapProofs.bind_ok in H. destruct H as [fi [_ H]].
  apply AmmSwapProofs.bind_ok in H. destruct H as [io [_ H]].
  apply AmmSwapProofs.bind_ok in H. destruct H as [ii [_ H]].
  exact (get_wbf_range _ _ _ _ _ _ _ _ _ Hm Hp H).
Qed.

(* the whole join: the fee is one the kernel theorem quantifies over *)
Lemma join_oracle_wf_sound R S k amt acc prices weights prm sh R' S' bonus :
  0 <= wp_mult prm -> pow_nonneg (wp_exp prm) -> 0 <= wp_portion prm ->
  join_oracle_wf R S k amt acc prices weights prm = Ok (sh, R', S', bonus) ->
  exists wbf T,
    join_oracle R S k amt acc prices weights wbf = Ok (sh, R', S') /\
    tvl R acc prices weights = Ok T /\ T <> 0 /\
    sh = oracle_join_shares S (dmul (nth k prices 0) (dec_of_int amt)) T wbf /\
    0 <= wbf <= WBF_CAP /\ bonus <= dmul WBF_CAP (wp_portion prm) /\ (bonus <= 0 -> bonus = - wbf).
Proof.
  intros Hm Hp Hpo H. unfold join_oracle_wf in H.
  destruct (nth k prices 0 =? 0) eqn:E1; [discriminate|].
  apply AmmSwapProofs.bind_ok in H. destruct H as [d0 [_ H]].
  apply AmmSwapProofs.bind_ok in H. destruct H as [T [HT H]].
  destruct (T =? 0) eqn:E2; [discriminate|].
  apply AmmSwapProofs.bind_ok in H. destruct H as [[wbf bn] [Hwb H]].
  apply AmmSwapProofs.bind_ok in H. destruct H as [[[sh0 R0] S0] [Hj H]]. inversion H; subst sh0 R0 S0 bn. clear H.
  destruct (wb_join_spec _ _ _ _ _ _ _ Hm Hp Hpo Hwb) as (fin & d1 & _ & _ & A & B & _ & D).
  exists wbf, T. split; [exact Hj|]. split; [exact HT|]. split; [apply Z.eqb_neq; exact E2|].
  split; [|auto].
  unfold join_oracle in Hj. rewrite E1, HT in Hj. cbn [bind] in Hj. rewrite E2 in Hj. inversion Hj. reflexivity.
Qed.

Lemma join_oracle_wf_value R S k amt acc prices weights prm sh R' S' bonus :
  0 <= wp_mult prm -> pow_nonneg (wp_exp prm) -> 0 <= wp_portion prm ->
  0 <= S -> 0 <= amt -> 0 <= nth k prices 0 ->
  join_oracle_wf R S k amt acc prices weights prm = Ok (sh, R', S', bonus) ->
  exists T, tvl R acc prices weights = Ok T /\
    (0 < T -> 0 <= sh /\ sh * T <= S * dmul (nth k prices 0) (dec_of_int amt) + T) /\
    bonus <= dmul WBF_CAP (wp_portion prm).
Proof.
  intros Hm Hp Hpo HS Ha Hpr H.
  destruct (join_oracle_wf_sound _ _ _ _ _ _ _ _ _ _ _ _ Hm Hp Hpo H) as (wbf & T & _ & HT & _ & Hsh & R0 & B & _).
  exists T. split; [exact HT|]. split; [|exact B].
  intros HTpos. subst sh. pose proof WBF_CAP_lt_PREC as HC. pose proof PREC_pos as HP.
  apply oracle_join_value; try lia.
  apply AmmSwapProofs2.dmul_nonneg; [exact Hpr|unfold dec_of_int; lia].
Qed.

(* the whole exit: never a bonus; the fee is one the kernel theorem quantifies over *)
Lemma exit_oracle_wf_sound R S sh k acc prices weights prm out R' S' bonus :
  0 <= wp_mult prm -> pow_nonneg (wp_exp prm) ->
  exit_oracle_wf R S sh k acc prices weights prm = Ok (out, R', S', bonus) ->
  exists wbf T,
    exit_oracle R S sh k acc prices weights wbf = Ok (out, R', S') /\
    tvl R acc prices weights = Ok T /\ sh < S /\
    out = snd (oracle_exit_out T S sh (nth k prices 0) wbf) /\
    0 <= wbf <= WBF_CAP /\ bonus = - wbf /\ bonus <= 0.
Proof.
  intros Hm Hp H. unfold exit_oracle_wf in H.
  destruct (S <=? sh) eqn:E1; [discriminate|]. apply Z.leb_gt in E1.
  destruct (S =? 0) eqn:E2; [discriminate|].
  apply AmmSwapProofs.bind_ok in H. destruct H as [d0 [_ H]].
  apply AmmSwapProofs.bind_ok in H. destruct H as [T [HT H]].
  cbv zeta in H.
  apply AmmSwapProofs.bind_ok in H. destruct H as [wbf [Hwb H]].
  apply AmmSwapProofs.bind_ok in H. destruct H as [[[out0 R0] S0] [He H]]. inversion H; subst out0 R0 S0 bonus. clear H.
  pose proof (wb_exit_spec _ _ _ _ _ _ Hm Hp Hwb) as R1.
  exists wbf, T. split; [exact He|]. split; [exact HT|]. split; [exact E1|].
  split; [|repeat split; lia].
  unfold exit_oracle, exit_oracle_gen in He.
  destruct (S <=? sh) eqn:E1'; [discriminate|]. rewrite E2, HT in He. cbn [bind] in He.
  destruct (oracle_exit_out T S sh (nth k prices 0) wbf) as [pre o] eqn:Eo.
  destruct (eff_amount (rsv R k) (nth k acc 0) - pre <? 0); [discriminate|].
  apply AmmSwapProofs.bind_ok in He. destruct He as [RR [_ He]]. inversion He. reflexivity.
Qed.

Lemma exit_oracle_wf_value R S sh k acc prices weights prm out R' S' bonus :
  0 <= wp_mult prm -> pow_nonneg (wp_exp prm) ->
  0 <= sh -> 0 < nth k prices 0 ->
  exit_oracle_wf R S sh k acc prices weights prm = Ok (out, R', S', bonus) ->
  exists T, tvl R acc prices weights = Ok T /\
    (0 <= T -> 0 <= out /\ out * nth k prices 0 * S <= T * sh + S * (nth k prices 0 + 1)) /\
    bonus <= 0.
Proof.
  intros Hm Hp Hsh Hpr H.
  destruct (exit_oracle_wf_sound _ _ _ _ _ _ _ _ _ _ _ _ Hm Hp H) as (wbf & T & _ & HT & HS & Ho & R0 & _ & B).
  exists T. split; [exact HT|]. split; [|exact B].
  intros HT0. pose proof WBF_CAP_lt_PREC as HC.
  pose proof (oracle_exit_value T S sh (nth k prices 0) wbf HT0 ltac:(lia) Hsh Hpr ltac:(lia)) as V.
  destruct (oracle_exit_out T S sh (nth k prices 0) wbf) as [pre o]. simpl in Ho. subst o. lia.
Qed.

(* ---------- for the exponents Pow is proved non-negative on (fractional part 0 or 1/2; the chain's 2.5) ---------- *)
Lemma join_oracle_wf_value_exp R S k amt acc prices weights prm sh R' S' bonus :
  0 <= wp_mult prm -> exp_int_or_half (wp_exp prm) -> 0 <= wp_portion prm ->
  0 <= S -> 0 <= amt -> 0 <= nth k prices 0 ->
  join_oracle_wf R S k amt acc prices weights prm = Ok (sh, R', S', bonus) ->
  exists T, tvl R acc prices weights = Ok T /\
    (0 < T -> 0 <= sh /\ sh * T <= S * dmul (nth k prices 0) (dec_of_int amt) + T) /\
    bonus <= dmul WBF_CAP (wp_portion prm).
Proof. intros Hm He. exact (join_oracle_wf_value _ _ _ _ _ _ _ _ _ _ _ _ Hm (exp_ok_pow_nonneg _ He)). Qed.

Lemma exit_oracle_wf_value_exp R S sh k acc prices weights prm out R' S' bonus :
  0 <= wp_mult prm -> exp_int_or_half (wp_exp prm) ->
  0 <= sh -> 0 < nth k prices 0 ->
  exit_oracle_wf R S sh k acc prices weights prm = Ok (out, R', S', bonus) ->
  exists T, tvl R acc prices weights = Ok T /\
    (0 <= T -> 0 <= out /\ out * nth k prices 0 * S <= T * sh + S * (nth k prices 0 + 1)) /\
    bonus <= 0.
Proof. intros Hm He. exact (exit_oracle_wf_value _ _ _ _ _ _ _ _ _ _ _ _ Hm (exp_ok_pow_nonneg _ He)). Qed.

Lemma exit_oracle_wf_is_exit_oracle R S sh k acc prices weights prm out R' S' bonus :
  0 <= wp_mult prm -> exp_int_or_half (wp_exp prm) ->
  exit_oracle_wf R S sh k acc prices weights prm = Ok (out, R', S', bonus) ->
  exists wbf, 0 <= wbf <= WBF_CAP /\ bonus = - wbf /\ exit_oracle R S sh k acc prices weights wbf = Ok (out, R', S').
Proof.
  intros Hm He H.
  destruct (exit_oracle_wf_sound _ _ _ _ _ _ _ _ _ _ _ _ Hm (exp_ok_pow_nonneg _ He) H) as (wbf & T & A & _ & _ & _ & B & C & _).
  exists wbf. auto.
Qed.

Lemma join_oracle_wf_is_join_oracle R S k amt acc prices weights prm sh R' S' bonus :
  0 <= wp_mult prm -> exp_int_or_half (wp_exp prm) -> 0 <= wp_portion prm ->
  join_oracle_wf R S k amt acc prices weights prm = Ok (sh, R', S', bonus) ->
  exists wbf, 0 <= wbf <= WBF_CAP /\ (bonus <= 0 -> bonus = - wbf) /\
    join_oracle R S k amt acc prices weights wbf = Ok (sh, R', S').
Proof.
  intros Hm He Hpo H.
  destruct (join_oracle_wf_sound _ _ _ _ _ _ _ _ _ _ _ _ Hm (exp_ok_pow_nonneg _ He) Hpo H) as (wbf & T & A & _ & _ & _ & B & _ & D).
  exists wbf. auto.
Qed.
