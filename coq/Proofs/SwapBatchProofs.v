(* Proofs about the batch loop, the queue and the handlers of Models/SwapQueue.v (C04). *)
From Coq Require Import ZArith List Bool Arith Lia.
From Elys Require Import Base.Res Base.Fn Models.SwapQueue Proofs.SwapQueueProofs.
Import ListNotations.
Open Scope Z_scope.

Definition idx_of (v : ev) : nat := r_idx (ev_req v).

(* every deletion either wrote the cache context of a successful settlement, or left the bank untouched *)
Definition ev_ok (coded : bool) (e : env) (v : ev) : Prop :=
  if ev_applied v then settle_gen coded e (ev_before v) (ev_req v) (ev_choice v) = Ok (ev_after v)
  else ev_after v = ev_before v.

(* the events thread the bank from b to b' *)
Fixpoint chain (b : bank) (evs : list ev) (b' : bank) : Prop :=
  match evs with
  | [] => b' = b
  | v :: r => ev_before v = b /\ chain (ev_after v) r b'
  end.

Lemma chain_app b evs1 b1 evs2 b2 : chain b evs1 b1 -> chain b1 evs2 b2 -> chain b (evs1 ++ evs2) b2.
Proof.
  revert b. induction evs1 as [|v r IH]; intros b C1 C2; cbn in *.
  - subst. exact C2.
  - destruct C1 as (E & C1). split; [exact E|]. apply IH; assumption.
Qed.

Lemma del_In m q x : In x (del m q) <-> In x q /\ r_idx x <> r_idx m.
Proof.
  unfold del. rewrite filter_In. split; intros (H1 & H2); split; try assumption.
  - intros E. rewrite E, Nat.eqb_refl in H2. discriminate.
  - rewrite eqb_neq_false by assumption. reflexivity.
Qed.

Lemma filter_len_le {A} (f : A -> bool) l : (length (filter f l) <= length l)%nat.
Proof. induction l as [|x r IH]; cbn; [lia|]. destruct (f x); cbn; lia. Qed.

Lemma del_len_le m q : (length (del m q) <= length q)%nat.
Proof. apply filter_len_le. Qed.

Lemma del_len_lt m q : In m q -> (length (del m q) < length q)%nat.
Proof.
  unfold del. induction q as [|x r IH]; intros H; [destruct H|]. cbn.
  destruct H as [->|H].
  - rewrite Nat.eqb_refl. cbn. pose proof (filter_len_le (fun x => negb (Nat.eqb (r_idx x) (r_idx m))) r). lia.
  - specialize (IH H). destruct (negb _); cbn; lia.
Qed.

Lemma del_nodup m q : NoDup (map r_idx q) -> NoDup (map r_idx (del m q)).
Proof.
  unfold del. induction q as [|x r IH]; intros ND; cbn; [constructor|].
  inversion ND as [|? ? Hx NDr]; subst. destruct (negb _); cbn; [|apply IH; exact NDr].
  constructor; [|apply IH; exact NDr]. intros Hin. apply Hx.
  apply in_map_iff in Hin. destruct Hin as (y & Ey & Hy). apply filter_In in Hy. apply in_map_iff. exists y. tauto.
Qed.

Lemma nodup_idx_inj q x y : NoDup (map r_idx q) -> In x q -> In y q -> r_idx x = r_idx y -> x = y.
Proof.
  induction q as [|z r IH]; intros ND Hx Hy E; [destruct Hx|].
  inversion ND as [|? ? Hz NDr]; subst.
  destruct Hx as [->|Hx]; destruct Hy as [->|Hy]; try reflexivity.
  - exfalso. apply Hz. rewrite E. apply in_map. exact Hy.
  - exfalso. apply Hz. rewrite <- E. apply in_map. exact Hx.
  - apply IH; assumption.
Qed.

Section BatchProofs.
  Variable e : env.
  Variable coded : bool.
  Variable sel1 : list req -> option req.
  Variable sel2 : list req -> req -> option req.
  Variable ch : nat -> bool -> req -> choice.
  Variable lt : nat -> bool.
  (* what the selection may be: any function that picks stored requests, and finds one while any is left *)
  Hypothesis sel1_in : forall q m, sel1 q = Some m -> In m q.
  Hypothesis sel1_none : forall q, sel1 q = None -> q = [].
  Hypothesis sel2_in : forall q m m2, sel2 q m = Some m2 -> In m2 q.

  Notation iter := (iter e coded sel1 sel2 ch lt).
  Notation loop := (loop e coded sel1 sel2 ch lt).

  Lemma iter_cases n q b q1 b1 evs : iter n q b = Some (q1, b1, evs) ->
    (exists m a c, In m q /\ q1 = del m q /\ evs = [mkEv m a b b1 c] /\ ev_ok coded e (mkEv m a b b1 c)) \/
    (exists m1 m2 c1 c2, In m1 q /\ In m2 q /\ q1 = del m2 (del m1 q) /\ b1 = b /\
       evs = [mkEv m1 false b b c1; mkEv m2 false b b c2]).
  Proof.
    unfold SwapQueue.iter. destruct (sel1 q) as [m1|] eqn:S1; [|discriminate].
    pose proof (sel1_in _ _ S1) as I1.
    destruct (sel2 q m1) as [m2|] eqn:S2.
    - pose proof (sel2_in _ _ _ S2) as I2.
      destruct (settle_gen coded e b m1 (ch n false m1)) as [x1| |] eqn:E1;
      destruct (settle_gen coded e b m2 (ch n true m2)) as [x2| |] eqn:E2;
      try (destruct (lt n)); intros H; inversion H; subst; clear H;
      try (left; do 3 eexists; split; [|split; [reflexivity|split; [reflexivity|]]]; [eassumption|unfold ev_ok; cbn; first [assumption|reflexivity]]);
      right; do 4 eexists; repeat split; eassumption.
    - destruct (settle_gen coded e b m1 (ch n false m1)) as [x1| |] eqn:E1; intros H; inversion H; subst; clear H;
      left; do 3 eexists; (split; [|split; [reflexivity|split; [reflexivity|]]]); [eassumption|unfold ev_ok; cbn; first [assumption|reflexivity]| | | | ];
      first [eassumption|unfold ev_ok; cbn; reflexivity].
  Qed.

  Lemma iter_none n q b : iter n q b = None -> q = [].
  Proof.
    unfold SwapQueue.iter. destruct (sel1 q) as [m1|] eqn:S1; [|intros _; apply sel1_none; exact S1].
    destruct (sel2 q m1); [destruct (settle_gen _ _ _ m1 _); destruct (settle_gen _ _ _ r _); try destruct (lt n); discriminate|].
    destruct (settle_gen _ _ _ m1 _); discriminate.
  Qed.

  (* the fuel is never exhausted: every iteration deletes at least one stored request *)
  Lemma loop_fuel : forall fuel n q b tr, (length q < fuel)%nat -> loop fuel n q b tr <> None.
  Proof.
    induction fuel as [|f IH]; intros n q b tr L; [lia|]. cbn [SwapQueue.loop].
    destruct (iter n q b) as [[[q1 b1] evs]|] eqn:EI; [|discriminate].
    apply IH. apply iter_cases in EI.
    destruct EI as [(m & a & c & I & -> & _)|(m1 & m2 & c1 & c2 & I1 & I2 & -> & _)].
    - pose proof (del_len_lt m q I). lia.
    - pose proof (del_len_lt m1 q I1). pose proof (del_len_le m2 (del m1 q)). lia.
  Qed.

  Definition applied_idx (evs : list ev) : list nat := map idx_of (filter ev_applied evs).

  Lemma loop_spec : forall fuel n q b tr q' b' tr',
    NoDup (map r_idx q) -> loop fuel n q b tr = Some (q', b', tr') ->
    exists evs, tr' = tr ++ evs /\ q' = [] /\ chain b evs b' /\ Forall (ev_ok coded e) evs /\
      NoDup (applied_idx evs) /\ (forall m, In m q <-> In m (map ev_req evs)).
  Proof.
    induction fuel as [|f IH]; intros n q b tr q' b' tr' ND H; [discriminate|].
    cbn [SwapQueue.loop] in H. destruct (iter n q b) as [[[q1 b1] evs1]|] eqn:EI.
    - apply iter_cases in EI.
      destruct EI as [(m & a & c & I & -> & -> & OK)|(m1 & m2 & c1 & c2 & I1 & I2 & -> & -> & ->)].
      + apply IH in H; [|apply del_nodup; exact ND].
        destruct H as (evs & -> & -> & C & F & NDa & M).
        exists (mkEv m a b b1 c :: evs). split; [rewrite <- app_assoc; reflexivity|]. split; [reflexivity|].
        split; [cbn; split; [reflexivity|exact C]|]. split; [constructor; assumption|]. split.
        * unfold applied_idx. cbn [filter ev_applied]. destruct a; [|exact NDa]. cbn [map]. constructor; [|exact NDa].
          intros Hin. unfold applied_idx in Hin. apply in_map_iff in Hin. destruct Hin as (v & Ev & Hv).
          apply filter_In in Hv. destruct Hv as (Hv & _).
          assert (Hq : In (ev_req v) (del m q)) by (apply M; apply in_map; exact Hv).
          apply del_In in Hq. destruct Hq as (_ & Hq). apply Hq. exact Ev.
        * intros x. cbn [map ev_req]. split.
          -- intros Hx. destruct (Nat.eq_dec (r_idx x) (r_idx m)) as [E|Ne].
             ++ left. symmetry. apply (nodup_idx_inj q); assumption.
             ++ right. apply M. apply del_In. split; assumption.
          -- intros [<-|Hx]; [exact I|]. apply M in Hx. apply del_In in Hx. tauto.
      + apply IH in H; [|apply del_nodup; apply del_nodup; exact ND].
        destruct H as (evs & -> & -> & C & F & NDa & M).
        exists (mkEv m1 false b b c1 :: mkEv m2 false b b c2 :: evs).
        split; [rewrite <- app_assoc; reflexivity|]. split; [reflexivity|].
        split; [cbn; repeat split; exact C|].
        split; [constructor; [reflexivity|constructor; [reflexivity|exact F]]|].
        split; [exact NDa|].
        intros x. cbn [map ev_req]. split.
        * intros Hx. destruct (Nat.eq_dec (r_idx x) (r_idx m1)) as [E1|Ne1].
          -- left. symmetry. apply (nodup_idx_inj q); assumption.
          -- destruct (Nat.eq_dec (r_idx x) (r_idx m2)) as [E2|Ne2].
             ++ right. left. symmetry. apply (nodup_idx_inj q); assumption.
             ++ right. right. apply M. apply del_In. split; [apply del_In; split; assumption|assumption].
        * intros [<-|[<-|Hx]]; [exact I1|exact I2|]. apply M in Hx. apply del_In in Hx. destruct Hx as (Hx & _).
          apply del_In in Hx. tauto.
    - inversion H; subst; clear H. apply iter_none in EI. subst.
      exists []. rewrite app_nil_r. repeat split; try constructor; intros Hm; destruct Hm.
  Qed.

  Lemma exec_total q b : exec_requests e coded sel1 sel2 ch lt q b <> None.
  Proof. unfold exec_requests. apply loop_fuel. lia. Qed.

  (* amm EndBlocker + Commit from a state whose queue has unique indices *)
  Lemma end_block_spec s : NoDup (map r_idx (s_q s)) ->
    exists s' tr, end_block e coded sel1 sel2 ch lt s = Some (s', tr) /\
      s_q s' = [] /\ s_last s' = 0%nat /\
      chain (s_bank s) tr (s_bank s') /\ Forall (ev_ok coded e) tr /\
      NoDup (applied_idx tr) /\ (forall m, In m (s_q s) <-> In m (map ev_req tr)).
  Proof.
    intros ND. unfold end_block.
    destruct (exec_requests e coded sel1 sel2 ch lt (s_q s) (s_bank s)) as [[[q' b'] tr']|] eqn:E;
      [|exfalso; exact (exec_total _ _ E)].
    unfold exec_requests in E. apply loop_spec in E; [|exact ND].
    destruct E as (evs & -> & -> & C & F & NDa & M). cbn [app] in *.
    exists (mkSt b' [] 0), evs. cbn. repeat split; try assumption; apply M.
  Qed.
End BatchProofs.

(* ---- a failed request has no effect at all (on anybody) ---- *)
Lemma failed_no_effect coded e v : ev_ok coded e v -> ev_applied v = false -> forall a d, ev_after v a d = ev_before v a d.
Proof. unfold ev_ok. intros H E. rewrite E in H. rewrite H. reflexivity. Qed.

(* ---- transactions of a block: the handlers only enqueue ---- *)

Definition run_tx1 (e : env) (s : st) (mc : msg * choice) : st :=
  match enqueue e s (fst mc) (snd mc) with Ok s' => s' | _ => s end.
Definition run_txs (e : env) (s : st) (l : list (msg * choice)) : st := fold_left (run_tx1 e) l s.

Definition q_inv (s : st) : Prop := map r_idx (s_q s) = seq 1 (s_last s).

Lemma enqueue_spec e s m c s' : enqueue e s m c = Ok s' ->
  s_bank s' = s_bank s /\ s_q s' = s_q s ++ [msg_req m] /\ s_last s' = S (s_last s) /\ r_idx (msg_req m) = S (s_last s) /\
  is_ok (settle e (s_bank s) (msg_req m) c) = true.
Proof.
  unfold enqueue. intros H. destruct (e_blocked e (r_rcpt (msg_req m))); [discriminate|].
  apply bind_ok in H. destruct H as (x & H1 & H2).
  destruct (Nat.eqb_spec (r_idx (msg_req m)) (S (s_last s))) as [E|]; cbn in H2; [|discriminate].
  inversion H2; subst; cbn. rewrite H1. repeat split; assumption.
Qed.

Lemma run_tx1_inv e s mc : q_inv s -> q_inv (run_tx1 e s mc) /\ s_bank (run_tx1 e s mc) = s_bank s /\
  (forall m, In m (s_q (run_tx1 e s mc)) -> In m (s_q s) \/ m = msg_req (fst mc)).
Proof.
  intros Q. unfold run_tx1. destruct (enqueue e s (fst mc) (snd mc)) as [s'| |] eqn:E; [|repeat split; auto ..].
  apply enqueue_spec in E. destruct E as (Eb & Eq & El & Ei & _). split; [|split; [exact Eb|]].
  - unfold q_inv in *. rewrite Eq, El, map_app, Q, seq_S. cbn. rewrite Ei. reflexivity.
  - intros m. rewrite Eq, in_app_iff. cbn. intuition.
Qed.

Lemma run_txs_inv e : forall l s, q_inv s -> q_inv (run_txs e s l) /\ s_bank (run_txs e s l) = s_bank s /\
  (forall m, In m (s_q (run_txs e s l)) -> In m (s_q s) \/ exists mc, In mc l /\ m = msg_req (fst mc)).
Proof.
  induction l as [|mc l IH]; intros s Q; [cbn; auto|].
  change (run_txs e s (mc :: l)) with (run_txs e (run_tx1 e s mc) l).
  destruct (run_tx1_inv e s mc Q) as (Q1 & B1 & M1). destruct (IH _ Q1) as (Q2 & B2 & M2).
  split; [exact Q2|]. split; [congruence|]. intros m Hm. apply M2 in Hm. destruct Hm as [Hm|(mc' & I & E)].
  - apply M1 in Hm. destruct Hm as [Hm|Hm]; [left; exact Hm|right; exists mc; split; [left; reflexivity|exact Hm]].
  - right. exists mc'. split; [right; exact I|exact E].
Qed.

Lemma q_inv_nodup s : q_inv s -> NoDup (map r_idx (s_q s)).
Proof. unfold q_inv. intros ->. apply seq_NoDup. Qed.

(* a whole block: any transactions, then the end blocker with any admissible selection *)
Theorem block_spec : forall e coded sel1 sel2 ch lt b txs,
  (forall q m, sel1 q = Some m -> In m q) -> (forall q, sel1 q = None -> q = []) ->
  (forall q m m2, sel2 q m = Some m2 -> In m2 q) ->
  let s := run_txs e (mkSt b [] 0) txs in
  s_bank s = b /\
  exists s' tr, end_block e coded sel1 sel2 ch lt s = Some (s', tr) /\
    s_q s' = [] /\ s_last s' = 0%nat /\
    chain b tr (s_bank s') /\ Forall (ev_ok coded e) tr /\ NoDup (applied_idx tr) /\
    (forall m, In m (s_q s) <-> In m (map ev_req tr)) /\
    (forall v, In v tr -> exists mc, In mc txs /\ ev_req v = msg_req (fst mc)).
Proof.
  intros e coded sel1 sel2 ch lt b txs H1 H2 H3 s.
  assert (Q0 : q_inv (mkSt b [] 0)) by reflexivity.
  destruct (run_txs_inv e txs _ Q0) as (Q & B & M). fold s in Q, B, M. cbn in B. split; [exact B|].
  destruct (end_block_spec e coded sel1 sel2 ch lt H1 H2 H3 s (q_inv_nodup _ Q)) as (s' & tr & E & Eq & El & C & F & ND & Mem).
  exists s', tr. rewrite B in C. repeat split; try assumption; try apply Mem.
  intros v Hv. assert (In (ev_req v) (s_q s)) as Hq by (apply Mem; apply in_map; exact Hv).
  apply M in Hq. destruct Hq as [[]|Hq]. exact Hq.
Qed.

(* ---- the coded selection is one of the admissible selections ---- *)

Lemma min_key_in : forall l m, min_key l = Some m -> In m l.
Proof.
  induction l as [|x r IH]; intros m H; cbn in H; [discriminate|].
  destruct (min_key r) as [m'|] eqn:E.
  - destruct (key_ltb (r_key m') (r_key x)); inversion H; subst; [right; apply IH; reflexivity|left; reflexivity].
  - inversion H; left; reflexivity.
Qed.

Lemma min_key_none : forall l, min_key l = None -> l = [].
Proof.
  intros [|x r] H; [reflexivity|]. cbn in H. destruct (min_key r) as [m'|]; [destruct (key_ltb _ _)|]; discriminate.
Qed.

Lemma sel_first_in pfx q m : sel_first pfx q = Some m -> In m q.
Proof.
  unfold sel_first. destruct (min_key (filter _ q)) as [m'|] eqn:E1.
  - intros H; inversion H; subst. apply min_key_in in E1. apply filter_In in E1. tauto.
  - intros H. apply min_key_in in H. apply filter_In in H. tauto.
Qed.

Lemma sel1c_in q m : sel1c q = Some m -> In m q.
Proof. apply sel_first_in. Qed.
Lemma sel2c_in q m m2 : sel2c q m = Some m2 -> In m2 q.
Proof. apply sel_first_in. Qed.
Lemma sel1c_none q : sel1c q = None -> q = [].
Proof.
  unfold sel1c, sel_first. destruct (min_key (filter _ q)) as [m'|] eqn:E1; [discriminate|].
  intros E2. apply min_key_none in E1. apply min_key_none in E2.
  destruct q as [|x r]; [reflexivity|]. exfalso. cbn in E1, E2. rewrite !andb_true_r in *.
  destruct (is_in x); cbn in *; discriminate.
Qed.

Theorem block_spec_coded_selection : forall e coded ch lt b txs,
  let s := run_txs e (mkSt b [] 0) txs in
  s_bank s = b /\
  exists s' tr, end_block e coded sel1c sel2c ch lt s = Some (s', tr) /\
    s_q s' = [] /\ s_last s' = 0%nat /\
    chain b tr (s_bank s') /\ Forall (ev_ok coded e) tr /\ NoDup (applied_idx tr) /\
    (forall m, In m (s_q s) <-> In m (map ev_req tr)) /\
    (forall v, In v tr -> exists mc, In mc txs /\ ev_req v = msg_req (fst mc)).
Proof. intros. apply block_spec; [apply sel1c_in|apply sel1c_none|apply sel2c_in]. Qed.

(* a request whose recipient is on bank's blocked-address list is refused by the handler and nothing is stored *)
Lemma enqueue_blocked_refused e s m c : e_blocked e (r_rcpt (msg_req m)) = true -> enqueue e s m c = Err 12.
Proof. intros H. unfold enqueue. rewrite H. reflexivity. Qed.
